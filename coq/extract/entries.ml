(* one line per extracted entry point *)
open Extracted
let table : (string * (z list list list -> z list list)) list = [
  ("rd_model", e_rd_model);
  ("rd_spec", e_rd_spec);
  ("rd_oracle", e_rd_oracle);
]
