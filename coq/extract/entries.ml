(* one line per extracted entry point *)
open Extracted
let table : (string * (z list list list -> z list list)) list = [
  ("rd_model", e_rd_model);
  ("rd_spec", e_rd_spec);
  ("rd_oracle", e_rd_oracle);
  ("pio_model", e_pio_model);
  ("pio_spec", e_pio_spec);
  ("pio_oracle", e_pio_oracle);
  ("xor_model", e_xor_model);
  ("c18_model", e_c18_model);
  ("nat_model", e_nat_model);
  ("nat_oracle", e_nat_oracle);
  ("dl_model", e_dl_model);
  ("loss_model", e_loss_model);
  ("c13_model", e_c13_model);
  ("tbf_model", e_tbf_model);
  ("rdelay_model", e_rdelay_model);
  ("delay_oracle", e_delay_oracle);
  ("rdl_model", e_rdl_model);
  ("c08_replay", e_c08_replay);
  ("udp_model", e_udp_model);
  ("c17_replay", e_c17_replay);
  ("net_model", e_net_model);
  ("c12_replay", e_c12_replay);
]
