(* modelrun: generic line-oriented driver around the extracted Coq entry points.
   Usage: modelrun <entry>   (reads requests from stdin, one per line)
   Request line:  section # section # ...   section:  ints | ints | ...   ints: space separated
   Answer line:   ints | ints | ...
   This file is trusted glue: it only parses, dispatches and prints. *)
open Extracted

let rec pos_of_int (n : int) : positive =
  if n = 1 then XH
  else if n land 1 = 0 then XO (pos_of_int (n lsr 1))
  else XI (pos_of_int (n lsr 1))

let z_of_int (n : int) : z =
  if n = 0 then Z0 else if n > 0 then Zpos (pos_of_int n) else Zneg (pos_of_int (-n))

let ten18 = z_of_int 1_000_000_000_000_000_000

(* decimal string -> z, any size *)
let z_of_string (s : string) : z =
  let neg = String.length s > 0 && s.[0] = '-' in
  let digits = if neg then String.sub s 1 (String.length s - 1) else s in
  let len = String.length digits in
  let rec go acc i =
    if i >= len then acc
    else
      let k = min 18 (len - i) in
      let chunk = int_of_string (String.sub digits i k) in
      let rec pow10 k = if k = 0 then 1 else 10 * pow10 (k - 1) in
      go (Z.add (Z.mul acc (z_of_int (pow10 k))) (z_of_int chunk)) (i + k)
  in
  let v = go Z0 0 in
  if neg then Z.mul v (z_of_int (-1)) else v

let rec pos_bits (p : positive) : int =
  match p with XH -> 1 | XO q | XI q -> 1 + pos_bits q

let rec int_of_pos (p : positive) : int =
  match p with XH -> 1 | XO q -> 2 * int_of_pos q | XI q -> 2 * int_of_pos q + 1

let rec string_of_posz (v : z) : string =
  match v with
  | Z0 -> "0"
  | Zneg _ -> assert false
  | Zpos p ->
    if pos_bits p <= 61 then string_of_int (int_of_pos p)
    else
      let (q, r) = Z.div_eucl v ten18 in
      let rs = string_of_posz r in
      string_of_posz q ^ String.make (18 - String.length rs) '0' ^ rs

let string_of_z (v : z) : string =
  match v with
  | Zneg p -> "-" ^ string_of_posz (Zpos p)
  | _ -> string_of_posz v

let split_on (c : char) (s : string) : string list = String.split_on_char c s

let parse_ints (s : string) : z list =
  List.filter_map (fun t -> if t = "" then None else Some (z_of_string t)) (split_on ' ' s)

let parse_section (s : string) : z list list =
  if String.trim s = "" then [] else List.map parse_ints (split_on '|' s)

let parse_req (line : string) : z list list list = List.map parse_section (split_on '#' line)

let print_ans (a : z list list) : unit =
  let b = Buffer.create 256 in
  List.iteri (fun i seg ->
    if i > 0 then Buffer.add_string b "|";
    List.iteri (fun j v -> if j > 0 then Buffer.add_char b ' '; Buffer.add_string b (string_of_z v)) seg) a;
  print_endline (Buffer.contents b)

let entries : (string * (z list list list -> z list list)) list = Entries.table

let () =
  let name = if Array.length Sys.argv > 1 then Sys.argv.(1) else "" in
  match List.assoc_opt name entries with
  | None -> prerr_endline ("modelrun: unknown entry " ^ name); exit 2
  | Some f ->
    (try
       while true do
         let line = input_line stdin in
         print_ans (f (parse_req line))
       done
     with End_of_file -> ())
