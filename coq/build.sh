#!/bin/sh
# Full build of the Coq development, extraction and the modelrun driver.
set -e
cd "$(dirname "$0")"
# the access table of C19 is regenerated from /repo's working tree (tools/raceaudit)
sh ../tools/raceaudit/run.sh theories/Race/Table.v || { echo "RACEAUDIT FAILED"; exit 1; }
FILES=$(find theories -name '*.v' | grep -v '/Extract.v$' | sort)
{ cat _CoqProject.base; echo "$FILES"; echo theories/Extract.v; } > _CoqProject
coq_makefile -f _CoqProject -o Makefile.coq >/dev/null
if timeout 3000 make -f Makefile.coq -j16 > build.log 2>&1; then
  grep -v '^COQC\|^COQDEP\|^CAMLDEP\|^make' build.log || true
else
  grep -v '^COQC\|^COQDEP\|^CAMLDEP' build.log | tail -60
  echo "COQ BUILD FAILED"
  exit 1
fi
test -f theories/Extract.vo
if [ -f extracted.ml ]; then mv -f extracted.ml extracted.mli extract/; fi
cd extract
ocamlfind ocamlopt -O3 -w -a -package str extracted.mli extracted.ml entries.ml driver.ml -o ../../bin/modelrun 2>/dev/null || \
ocamlfind ocamlopt -w -a extracted.mli extracted.ml entries.ml driver.ml -o ../../bin/modelrun
echo "build ok"
