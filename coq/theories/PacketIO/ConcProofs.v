(* C08: no reader stays parked while a packet is buffered, the buffer is closed, or its deadline
   has passed - in every reachable quiescent state, for any number of threads. *)
From Tx Require Import Common.Base PacketIO.Conc.

(* ---- list update ------------------------------------------------------------------------------ *)

Lemma nth_upd_same (l : list pc) : forall i p q, nth_error l i = Some q -> nth_error (upd l i p) i = Some p.
Proof.
  induction l as [|x t IH]; intros i p q H; destruct i; simpl in *; try discriminate; [reflexivity|].
  eapply IH. eassumption.
Qed.

Lemma nth_upd_other (l : list pc) : forall i j p, i <> j -> nth_error (upd l i p) j = nth_error l j.
Proof.
  induction l as [|x t IH]; intros i j p Hne; destruct i, j; simpl; try reflexivity; try lia.
  apply IH. lia.
Qed.

Lemma nth_upd_inv (l : list pc) i p j q : nth_error l i <> None -> nth_error (upd l i p) j = Some q ->
  (j = i /\ q = p) \/ (j <> i /\ nth_error l j = Some q).
Proof.
  intros Hi H. destruct (Nat.eq_dec j i) as [->|Hne].
  - left. destruct (nth_error l i) as [q0|] eqn:E; [|congruence].
    rewrite (nth_upd_same l i p q0 E) in H. inversion H. auto.
  - right. rewrite nth_upd_other in H by lia. auto.
Qed.

Lemma lock_free_no_holder s j q : lock_free s = true -> nth_error (thr s) j = Some q -> holding q = false.
Proof.
  unfold lock_free. intros H Hn. rewrite forallb_forall in H. apply nth_error_In in Hn.
  specialize (H q Hn). destruct (holding q); [discriminate|reflexivity].
Qed.

(* ---- invariants -------------------------------------------------------------------------------- *)

Definition helper (p : pc) : bool :=
  match p with RWantLock | RPost | WPost => true | _ => false end.

Record CInv (s : cstate) : Prop := {
  ci_count : 0 <= count s;
  ci_mutex : forall a b pa pb, nth_error (thr s) a = Some pa -> nth_error (thr s) b = Some pb ->
             holding pa = true -> holding pb = true -> a = b;
  ci_wake : 0 < count s -> closed s = false ->
            token s = true \/ exists j p, nth_error (thr s) j = Some p /\ helper p = true
}.

Definition fresh_threads (l : list pc) : Prop := Forall (fun p => holding p = false) l.

Lemma CInv_init l : fresh_threads l -> CInv (cinit l).
Proof.
  intros F. split; simpl; try lia.
  intros a b pa pb Ha Hb Hh. unfold fresh_threads in F. rewrite Forall_forall in F.
  apply nth_error_In in Ha. rewrite (F pa Ha) in Hh. discriminate.
Qed.

(* the three fields after thread i moved from p to p', given what happened to the shared state *)
Lemma mutex_after s i p p' :
  CInv s -> nth_error (thr s) i = Some p ->
  (holding p' = true -> holding p = true \/ lock_free s = true) ->
  forall a b pa pb, nth_error (upd (thr s) i p') a = Some pa -> nth_error (upd (thr s) i p') b = Some pb ->
    holding pa = true -> holding pb = true -> a = b.
Proof.
  intros [_ M _] Ep Hk a b pa pb Ha Hb Hha Hhb.
  assert (Hne : nth_error (thr s) i <> None) by congruence.
  destruct (nth_upd_inv _ _ _ _ _ Hne Ha) as [[-> ->]|[Na Ea]];
  destruct (nth_upd_inv _ _ _ _ _ Hne Hb) as [[-> ->]|[Nb Eb]]; try reflexivity.
  - destruct (Hk Hha) as [Hp|Hf].
    + apply (M i b p pb); assumption.
    + rewrite (lock_free_no_holder s b pb Hf Eb) in Hhb. discriminate.
  - destruct (Hk Hhb) as [Hp|Hf].
    + apply (M a i pa p); assumption.
    + rewrite (lock_free_no_holder s a pa Hf Ea) in Hha. discriminate.
  - apply (M a b pa pb); assumption.
Qed.

Lemma wake_after s i p p' c' cl' tk' :
  CInv s -> nth_error (thr s) i = Some p ->
  (0 < c' -> cl' = false ->
     tk' = true \/ helper p' = true \/
     (0 < count s /\ closed s = false /\ (token s = true -> tk' = true) /\ helper p = false)) ->
  0 < c' -> cl' = false ->
  tk' = true \/ exists j q, nth_error (upd (thr s) i p') j = Some q /\ helper q = true.
Proof.
  intros [_ _ W] Ep H Hc Hcl. destruct (H Hc Hcl) as [Ht|[Hh|[Hc0 [Hcl0 [Htk Hnp]]]]].
  - left. assumption.
  - right. exists i, p'. split; [eapply nth_upd_same; eassumption|assumption].
  - destruct (W Hc0 Hcl0) as [Ht|[j [q [Hq1 Hq2]]]].
    + left. auto.
    + right. exists j, q. split; [|assumption]. rewrite nth_upd_other; [assumption|].
      intros <-. rewrite Ep in Hq1. inversion Hq1; subst. congruence.
Qed.

Ltac inv_some := match goal with H : Some _ = Some _ |- _ => inversion H; subst; clear H end.

Lemma cstep_inv s i k s' : CInv s -> cstep s i k = Some s' -> CInv s'.
Proof.
  intros I H. pose proof I as [C M W]. unfold cstep in H.
  destruct (nth_error (thr s) i) as [p|] eqn:Ep; [|discriminate].
  destruct p; simpl in H;
    repeat match type of H with
           | (if ?c then _ else _) = Some _ => destruct c eqn:?
           end; try discriminate; inv_some; unfold set_thr;
    (split; cbn [count closed token dl_fired thr];
     [ lia
     | eapply mutex_after; [exact I|exact Ep|]; cbn [holding]; intros; try discriminate; auto
     | eapply wake_after; [exact I|exact Ep|]; cbn [helper]; intros; try lia;
       repeat match goal with H : (_ && _) = true |- _ => apply andb_true_iff in H; destruct H
                         | H : (_ && _) = false |- _ => apply andb_false_iff in H end;
       try (match goal with |- context[if ?c then _ else _] => destruct c eqn:? end);
       repeat match goal with H : (_ && _) = true |- _ => apply andb_true_iff in H; destruct H
                         | H : (_ && _) = false |- _ => apply andb_false_iff in H; destruct H end;
       try solve [exfalso; first [lia | match goal with H1 : closed _ = false, H2 : negb (closed _) = false |- _ => rewrite H1 in H2; discriminate end]];
       first [ left; reflexivity | left; assumption | right; left; reflexivity
             | right; right; repeat split; try lia; try assumption; try reflexivity; try congruence; intros; try congruence; try lia
             | idtac ] ]).
  all: try (cbn [holding]; auto).
Qed.

Lemma capply_inv s e s' : CInv s -> capply s e = Some s' -> CInv s'.
Proof.
  intros I H. destruct e as [i k|]; simpl in H.
  - eapply cstep_inv; eassumption.
  - inversion H; subst. destruct I as [C M W]. split; simpl; assumption.
Qed.

Theorem crun_inv h : forall s s', CInv s -> crun s h = Some s' -> CInv s'.
Proof.
  induction h as [|e h IH]; intros s s' I H; simpl in H; [inversion H; subst; exact I|].
  destruct (capply s e) as [s1|] eqn:E; [|discriminate]. apply (IH s1 s'); [eapply capply_inv; eassumption|assumption].
Qed.

(* ---- quiescence ---------------------------------------------------------------------------------- *)

Lemma holder_enabled s j q : nth_error (thr s) j = Some q -> holding q = true -> exists k s', cstep s j k = Some s'.
Proof.
  intros Hn Hh. unfold cstep. rewrite Hn.
  destruct q; simpl in Hh; try discriminate;
    try (exists 0; eexists; reflexivity).
  - destruct (token s) eqn:Et; [exists 1|exists 0]; simpl; eexists; reflexivity.
  - destruct (token s) eqn:Et; [exists 1|exists 0]; simpl; eexists; reflexivity.
Qed.

Lemma not_free_holder (l : list pc) : forallb (fun q => negb (holding q)) l = false ->
  exists j q, nth_error l j = Some q /\ holding q = true.
Proof.
  induction l as [|x t IH]; simpl; intros H; [discriminate|].
  destruct (holding x) eqn:E; simpl in H.
  - exists O, x. auto.
  - destruct (IH H) as [j [q [H1 H2]]]. exists (S j), q. auto.
Qed.

Theorem quiescent_no_stuck_reader s : CInv s -> quiescent s ->
  forall i, nth_error (thr s) i = Some RWait -> count s = 0 /\ closed s = false /\ dl_fired s = false.
Proof.
  intros I Q i Hi. pose proof I as [C M W].
  assert (Hd : dl_fired s = false).
  { destruct (dl_fired s) eqn:E; [|reflexivity]. specialize (Q i 0). unfold cstep in Q. rewrite Hi in Q. simpl in Q.
    rewrite E in Q. discriminate. }
  assert (Hc : closed s = false).
  { destruct (closed s) eqn:E; [|reflexivity]. specialize (Q i 1). unfold cstep in Q. rewrite Hi in Q. simpl in Q.
    rewrite E in Q. discriminate. }
  assert (Ht : token s = false).
  { destruct (token s) eqn:E; [|reflexivity]. specialize (Q i 1). unfold cstep in Q. rewrite Hi in Q. simpl in Q.
    rewrite Hc, E in Q. discriminate. }
  assert (Hf : lock_free s = true).
  { destruct (lock_free s) eqn:E; [reflexivity|]. destruct (not_free_holder _ E) as [j [q [H1 H2]]].
    destruct (holder_enabled s j q H1 H2) as [k [s' Hs]]. rewrite (Q j k) in Hs. discriminate. }
  split; [|split; assumption].
  destruct (Z_le_gt_dec (count s) 0) as [Hle|Hgt]; [lia|]. exfalso.
  destruct (W ltac:(lia) Hc) as [Htk|[j [q [H1 H2]]]]; [congruence|].
  destruct q; simpl in H2; try discriminate.
  - (* an awake reader that wants the lock: enabled because the lock is free *)
    specialize (Q j 0). unfold cstep in Q. rewrite H1, Hf in Q. destruct (count s >? 0); discriminate.
  - destruct (holder_enabled s j RPost H1 eq_refl) as [k [s' Hs]]. rewrite (Q j k) in Hs. discriminate.
  - destruct (holder_enabled s j WPost H1 eq_refl) as [k [s' Hs]]. rewrite (Q j k) in Hs. discriminate.
Qed.

(* a reader that finds a packet when it takes the lock returns it without waiting *)
Lemma buffered_read_does_not_wait s i k s' : nth_error (thr s) i = Some RWantLock -> 0 < count s ->
  cstep s i k = Some s' ->
  count s' = count s - 1 /\ (nth_error (thr s') i = Some RPost \/ nth_error (thr s') i = Some RUnlockData).
Proof.
  intros Hi Hc H. unfold cstep in H. rewrite Hi in H. destruct (lock_free s); [|discriminate].
  destruct (count s >? 0) eqn:E; [|lia]. inversion H; subst; simpl. split; [reflexivity|].
  destruct ((count s - 1 >? 0) && negb (closed s)); [left|right]; eapply nth_upd_same; eassumption.
Qed.

(* after Close an empty buffer gives end-of-file, a non-empty one still gives its packets *)
Lemma closed_read s i k s' : nth_error (thr s) i = Some RWantLock -> closed s = true -> count s <= 0 ->
  cstep s i k = Some s' -> nth_error (thr s') i = Some RUnlockEOF.
Proof.
  intros Hi Hcl Hc H. unfold cstep in H. rewrite Hi in H. destruct (lock_free s); [|discriminate].
  destruct (count s >? 0) eqn:E; [lia|]. rewrite Hcl in H. inversion H; subst; simpl. eapply nth_upd_same; eassumption.
Qed.

(* a passed deadline makes Read fail at its first check, until the deadline is changed *)
Lemma deadline_fails_fast s i : nth_error (thr s) i = Some RCheck -> dl_fired s = true ->
  cstep s i 1 = None /\ exists s', cstep s i 0 = Some s' /\ nth_error (thr s') i = Some (Ret 1).
Proof.
  intros Hi Hd. unfold cstep. rewrite Hi. simpl. rewrite Hd. split; [reflexivity|].
  eexists. split; [reflexivity|]. simpl. eapply nth_upd_same; eassumption.
Qed.
