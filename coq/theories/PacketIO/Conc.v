(* Interleaving model of packetio.Buffer's blocking Read (C08), one transition per
   synchronisation operation of buffer.go as numbered by tools/vrewrite:

     Read#0  select { <-deadline.Done: timeout ; default }      Write#0 Lock
     Read#1  Lock                                                Write#1/2/3 Unlock (refusals)
     Read#2  select { notify <- token ; default }  (re-post)     Write#4 select { notify <- token ; default }
     Read#3  Unlock (packet taken)                               Write#5 Unlock
     Read#4  Unlock (closed and empty: EOF)                      Close#0 Lock, Close#1 Unlock (already closed)
     Read#5  Unlock (empty: go waiting)                          Close#2 close(notify), Close#3 Unlock
     Read#6  select { <-deadline.Done: timeout ; <-notify }

   Packet contents are abstracted to the packet count (C06 gives the contents). What a thread
   does inside its critical section is decided when it takes the lock (nobody can interfere
   until it unlocks). Any number of readers, writers and closers. *)
From Tx Require Import Common.Base.

Inductive pc :=
| RCheck            (* reader before Read#0 *)
| RWantLock         (* reader before Read#1 *)
| RPost             (* reader holds the lock, took a packet, must re-post the token (Read#2) *)
| RUnlockData       (* reader holds the lock, took a packet (Read#3) *)
| RUnlockEOF        (* reader holds the lock, closed and empty (Read#4) *)
| RUnlockWait       (* reader holds the lock, empty (Read#5) *)
| RWait             (* reader before / inside Read#6 *)
| WWantLock         (* writer before Write#0 *)
| WUnlockClosed     (* writer holds the lock, buffer closed (Write#1) *)
| WPost             (* writer holds the lock, packet stored, must post the token (Write#4) *)
| WUnlock           (* writer holds the lock (Write#5) *)
| CWantLock         (* closer before Close#0 *)
| CUnlockAlready    (* closer holds the lock, already closed (Close#1) *)
| CClose            (* closer holds the lock, will close notify (Close#2) *)
| CUnlock           (* closer holds the lock (Close#3) *)
| Ret (v : Z).      (* finished: 0 packet, 1 timeout, 2 EOF, 3 write ok, 4 write refused closed, 5 close done *)

Record cstate := {
  count : Z;
  closed : bool;
  token : bool;          (* the capacity-1 notify channel holds a token *)
  dl_fired : bool;       (* the read deadline has passed (Done closed) *)
  thr : list pc
}.

Fixpoint upd (l : list pc) (i : nat) (p : pc) : list pc :=
  match l, i with
  | [], _ => []
  | _ :: t, O => p :: t
  | x :: t, S n => x :: upd t n p
  end.

Definition set_thr (s : cstate) (i : nat) (p : pc) : cstate :=
  {| count := count s; closed := closed s; token := token s; dl_fired := dl_fired s; thr := upd (thr s) i p |}.

(* b.mutex is held by the thread whose program counter lies inside a critical section *)
Definition holding (p : pc) : bool :=
  match p with
  | RPost | RUnlockData | RUnlockEOF | RUnlockWait | WUnlockClosed | WPost | WUnlock
  | CUnlockAlready | CClose | CUnlock => true
  | _ => false
  end.

Definition lock_free (s : cstate) : bool := forallb (fun q => negb (holding q)) (thr s).

(* one transition of thread i; [k] is the select case taken where the operation is a select
   (ignored otherwise). None = not enabled / not what this thread does next. *)
Definition cstep (s : cstate) (i : nat) (k : Z) : option cstate :=
  match nth_error (thr s) i with
  | None => None
  | Some p =>
    match p with
    | RCheck =>
        if k =? 0 then (if dl_fired s then Some (set_thr s i (Ret 1)) else None)
        else (if dl_fired s then None else Some (set_thr s i RWantLock))
    | RWantLock =>
        if lock_free s then
          if count s >? 0 then
            let c := count s - 1 in
            Some {| count := c; closed := closed s; token := token s; dl_fired := dl_fired s;
                    thr := upd (thr s) i (if (c >? 0) && negb (closed s) then RPost else RUnlockData) |}
          else
            Some {| count := count s; closed := closed s; token := token s; dl_fired := dl_fired s;
                    thr := upd (thr s) i (if closed s then RUnlockEOF else RUnlockWait) |}
        else None
    | RPost =>
        (* select { notify <- : case 0 ; default: case 1 } *)
        if k =? 0 then (if token s then None
                        else Some {| count := count s; closed := closed s; token := true;
                                     dl_fired := dl_fired s; thr := upd (thr s) i RUnlockData |})
        else (if token s then Some (set_thr s i RUnlockData) else None)
    | RUnlockData =>
        Some {| count := count s; closed := closed s; token := token s; dl_fired := dl_fired s;
                thr := upd (thr s) i (Ret 0) |}
    | RUnlockEOF =>
        Some {| count := count s; closed := closed s; token := token s; dl_fired := dl_fired s;
                thr := upd (thr s) i (Ret 2) |}
    | RUnlockWait =>
        Some {| count := count s; closed := closed s; token := token s; dl_fired := dl_fired s;
                thr := upd (thr s) i RWait |}
    | RWait =>
        (* select { <-Done: case 0 ; <-notify: case 1 } *)
        if k =? 0 then (if dl_fired s then Some (set_thr s i (Ret 1)) else None)
        else if closed s then Some (set_thr s i RWantLock)
        else if token s then
          Some {| count := count s; closed := closed s; token := false; dl_fired := dl_fired s;
                  thr := upd (thr s) i RWantLock |}
        else None
    | WWantLock =>
        if lock_free s then
          if closed s then
            Some {| count := count s; closed := closed s; token := token s; dl_fired := dl_fired s;
                    thr := upd (thr s) i WUnlockClosed |}
          else
            Some {| count := count s + 1; closed := closed s; token := token s; dl_fired := dl_fired s;
                    thr := upd (thr s) i WPost |}
        else None
    | WUnlockClosed =>
        Some {| count := count s; closed := closed s; token := token s; dl_fired := dl_fired s;
                thr := upd (thr s) i (Ret 4) |}
    | WPost =>
        if k =? 0 then (if token s then None
                        else Some {| count := count s; closed := closed s; token := true;
                                     dl_fired := dl_fired s; thr := upd (thr s) i WUnlock |})
        else (if token s then Some (set_thr s i WUnlock) else None)
    | WUnlock =>
        Some {| count := count s; closed := closed s; token := token s; dl_fired := dl_fired s;
                thr := upd (thr s) i (Ret 3) |}
    | CWantLock =>
        if lock_free s then
          Some {| count := count s; closed := closed s; token := token s; dl_fired := dl_fired s;
                  thr := upd (thr s) i (if closed s then CUnlockAlready else CClose) |}
        else None
    | CUnlockAlready =>
        Some {| count := count s; closed := closed s; token := token s; dl_fired := dl_fired s;
                thr := upd (thr s) i (Ret 5) |}
    | CClose =>
        Some {| count := count s; closed := true; token := token s; dl_fired := dl_fired s;
                thr := upd (thr s) i CUnlock |}
    | CUnlock =>
        Some {| count := count s; closed := closed s; token := token s; dl_fired := dl_fired s;
                thr := upd (thr s) i (Ret 5) |}
    | Ret _ => None
    end
  end.

(* environment: the read deadline passes *)
Definition fire_deadline (s : cstate) : cstate :=
  {| count := count s; closed := closed s; token := token s; dl_fired := true; thr := thr s |}.

(* events of an execution: thread i performs its next operation taking select case k, or the
   deadline passes *)
Inductive cev := CStep (i : nat) (k : Z) | CDeadline.

Definition capply (s : cstate) (e : cev) : option cstate :=
  match e with CStep i k => cstep s i k | CDeadline => Some (fire_deadline s) end.

Fixpoint crun (s : cstate) (h : list cev) : option cstate :=
  match h with
  | [] => Some s
  | e :: h' => match capply s e with Some s' => crun s' h' | None => None end
  end.

Definition cinit (threads : list pc) : cstate :=
  {| count := 0; closed := false; token := false; dl_fired := false; thr := threads |}.

(* no thread can move (for selects: with neither case) *)
Definition quiescent (s : cstate) : Prop :=
  forall i k, cstep s i k = None.

(* ---- replay of scheduler logs (trace validation) --------------------------------------------------
   conf: one entry per goroutine: 0 reader, 1 writer, 2 closer.
   log entries [g; kind; label; k] with kind 1 = resumed at a yield point (Y), 2 = lock acquired (L),
   3 = lock busy (B), 4 = select case k taken (C), 5 = goroutine finished (X), 6 = result v = k
   reported (R), 7 = the read deadline passed (E).  label = 100*function + index with
   function 1 = Read, 2 = Write, 3 = Close.
   The replay checks that every logged event is what the model's thread would do next and is
   enabled in the model, and applies it. Answer: [1] :: final observables if the whole log was
   followed, else [0; index of the first event the model cannot follow]. *)

Definition label_of (p : pc) : list Z :=
  match p with
  | RCheck => [100] | RWantLock => [101] | RPost => [102] | RUnlockData => [103] | RUnlockEOF => [104]
  | RUnlockWait => [105] | RWait => [106]
  | WWantLock => [200] | WUnlockClosed => [201] | WPost => [204] | WUnlock => [205]
  | CWantLock => [300] | CUnlockAlready => [301] | CClose => [302] | CUnlock => [303]
  | Ret _ => []
  end.

Definition is_select (l : Z) : bool := (l =? 100) || (l =? 102) || (l =? 106) || (l =? 204).
Definition is_lock (l : Z) : bool := (l =? 101) || (l =? 200) || (l =? 300).

Definition at_label (s : cstate) (g : nat) (l : Z) : bool :=
  match nth_error (thr s) g with
  | Some p => existsb (Z.eqb l) (label_of p)
  | None => false
  end.

Definition replay_event (s : cstate) (e : zs) : option cstate :=
  match e with
  | g :: kind :: l :: k :: _ =>
      let gi := Z.to_nat g in
      if kind =? 1 then
        if negb (at_label s gi l) then None
        else if is_select l || is_lock l then Some s           (* the operation itself is logged by C / L *)
        else cstep s gi 0                                      (* unlock / close: executes at once *)
      else if kind =? 2 then (if at_label s gi l && is_lock l then cstep s gi 0 else None)
      else if kind =? 3 then (if at_label s gi l && is_lock l && negb (lock_free s) then Some s else None)
      else if kind =? 4 then (if at_label s gi l && is_select l then cstep s gi k else None)
      else if kind =? 5 then match nth_error (thr s) gi with Some (Ret _) => Some s | _ => None end
      else if kind =? 6 then match nth_error (thr s) gi with Some (Ret v) => if v =? k then Some s else None | _ => None end
      else if kind =? 7 then Some (fire_deadline s)
      else None
  | _ => None
  end.

Definition ev_g (e : zs) : Z := match e with g :: _ => g | _ => -1 end.
Definition ev_kind (e : zs) : Z := match e with _ :: k :: _ => k | _ => -1 end.

(* A send on the wake-up channel to a receiver that is parked in its select hands the token over directly; the receiver
   runs on at once and may log its "case chosen" event before the sender logs its own. The two events are concurrent:
   when the log order cannot be followed, the other order of two adjacent select events of different goroutines is tried. *)
Fixpoint replay (s : cstate) (log : list zs) (idx : Z) : cstate * option Z :=
  match log with
  | [] => (s, None)
  | e :: rest =>
      match replay_event s e with
      | Some s' => replay s' rest (idx + 1)
      | None =>
          match rest with
          | e2 :: rest2 =>
              if (ev_kind e =? 4) && (ev_kind e2 =? 4) && negb (ev_g e =? ev_g e2) then
                match replay_event s e2 with
                | Some s1 => match replay_event s1 e with
                             | Some s2 => replay s2 rest2 (idx + 2)
                             | None => (s, Some idx)
                             end
                | None => (s, Some idx)
                end
              else (s, Some idx)
          | [] => (s, Some idx)
          end
      end
  end.

Definition pc_code (p : pc) : Z :=
  match p with Ret v => v | RWait => 9 | _ => 8 end.

Definition stuck_reader (s : cstate) : bool :=
  existsb (fun p => match p with RWait => true | _ => false end) (thr s)
  && ((count s >? 0) || closed s || dl_fired s).

Fixpoint upto77 (l : zs) : zs :=
  match l with [] => [] | x :: t => if x =? 77 then [] else x :: upto77 t end.

(* conf = goroutine kinds, then 77 and the schedule (used only by the harness to replay) *)
Definition c08_replay (conf0 : zs) (log : list zs) : list zs :=
  let conf := upto77 conf0 in
  let threads := map (fun kd => if kd =? 0 then RCheck else if kd =? 1 then WWantLock else CWantLock) conf in
  let '(s, bad) := replay (cinit threads) log 0 in
  match bad with
  | Some i => [[0; i]]
  | None => [[1]; map pc_code (thr s); [count s; b2z (closed s); b2z (stuck_reader s)]]
  end.
