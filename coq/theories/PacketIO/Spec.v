(* Abstract specification of packetio.Buffer: a FIFO of packets with the limits of C07,
   and the oracle applied to the implementation's observed answers. *)
From Tx Require Import Common.Base PacketIO.Model.

Record fifo := {
  q : list (list Z);          (* unread packets, oldest first *)
  f_limitCount : Z; f_limitSize : Z; f_closed : bool
}.

Definition empty_fifo : fifo := {| q := []; f_limitCount := 0; f_limitSize := 0; f_closed := false |}.

Definition fsize (l : list (list Z)) : Z := fold_right (fun p s => zlen p + 2 + s) 0 l.

(* would a write of [plen] bytes be refused as "full"? *)
Definition f_full (f : fifo) (plen : Z) : bool :=
  ((f_limitCount f >? 0) && (zlen (q f) >=? f_limitCount f))
  || ((f_limitSize f >? 0) && (fsize (q f) + 2 + plen >? f_limitSize f))
  || ((f_limitSize f <=? 0) && (fsize (q f) + 2 + plen >=? maxSize)).

Definition f_write_err (f : fifo) (p : list Z) : Z :=
  if zlen p >=? 65536 then 1 else if f_closed f then 2 else if f_full f (zlen p) then 3 else 0.

Definition f_push (f : fifo) (p : list Z) : fifo :=
  {| q := q f ++ [p]; f_limitCount := f_limitCount f; f_limitSize := f_limitSize f; f_closed := f_closed f |}.

Definition f_read (f : fifo) (k : Z) : fifo * (Z * list Z) :=
  match q f with
  | p :: rest =>
      ({| q := rest; f_limitCount := f_limitCount f; f_limitSize := f_limitSize f; f_closed := f_closed f |},
       (if k <? zlen p then 1 else 0, zfirstn k p))
  | [] => (f, (if f_closed f then 2 else 3, []))
  end.

Definition f_step (f : fifo) (o : op) : fifo * zs :=
  match o with
  | Write p => let e := f_write_err f p in ((if e =? 0 then f_push f p else f), [e])
  | Read k => let '(f', (c, bs)) := f_read f k in (f', c :: zlen bs :: 1 :: repr bs)
  | SetLimitCount n =>
      ({| q := q f; f_limitCount := n; f_limitSize := f_limitSize f; f_closed := f_closed f |}, [])
  | SetLimitSize n =>
      ({| q := q f; f_limitCount := f_limitCount f; f_limitSize := n; f_closed := f_closed f |}, [])
  | Close => ({| q := q f; f_limitCount := f_limitCount f; f_limitSize := f_limitSize f; f_closed := true |}, [])
  | Count => (f, [zlen (q f)])
  | Size => (f, [fsize (q f)])
  end.

Fixpoint f_run (f : fifo) (h : list op) : list zs :=
  match h with
  | [] => []
  | o :: h' => let '(f', r) := f_step f o in r :: f_run f' h'
  end.

Definition pio_spec_run (ops : list zs) : list zs := f_run empty_fifo (map dec_op ops).

(* ---- oracle ---------------------------------------------------------------------------------
   Follows the implementation's own Write outcomes (a packet is in the FIFO iff the
   implementation reported success), so that a wrong refusal is flagged once, as a limit
   problem, and does not make every later Read look wrong.
   Flags: 1 = C06 (a Read differs from the FIFO of accepted packets, or a too-big / after-Close
   write is not refused), 2 = C07 (Count/Size wrong, or a buffer-full decision differs from
   the limit rule). *)

Fixpoint zs_eqb (a b : zs) : bool :=
  match a, b with
  | [], [] => true
  | x :: a', y :: b' => (x =? y) && zs_eqb a' b'
  | _, _ => false
  end.

Fixpoint f_oracle (f : fifo) (h : list op) (os : list zs) : list Z :=
  match h, os with
  | o :: h', ob :: os' =>
      let '(f1, expect) := f_step f o in
      let same := zs_eqb expect ob in
      match o with
      | Write p =>
          let e := match ob with x :: _ => x | [] => -1 end in
          let ee := f_write_err f p in
          let code := if same then 0 else if (e =? 3) || (ee =? 3) then 2 else 1 in
          code :: f_oracle (if e =? 0 then f_push f p else f) h' os'
      | Read _ => (if same then 0 else 1) :: f_oracle f1 h' os'
      | Count | Size => (if same then 0 else 2) :: f_oracle f1 h' os'
      | _ => 0 :: f_oracle f1 h' os'
      end
  | _, _ => []
  end.

Definition pio_oracle (ops observed : list zs) : list Z :=
  f_oracle empty_fifo (map dec_op ops) observed.
