(* The ring buffer model refines the FIFO Spec: for every history, same answers. *)
From Tx Require Import Common.Base PacketIO.Model PacketIO.Spec PacketIO.Ring.

Definition enc (p : list Z) : list Z := zlen p / 256 :: zlen p mod 256 :: p.

Definition stream (l : list (list Z)) : list Z := concat (map enc l).

Lemma zlen_stream l : zlen (stream l) = fsize l.
Proof.
  induction l as [|p l IH]; [reflexivity|].
  unfold stream in *. simpl. rewrite !zlen_cons, zlen_app, IH. lia.
Qed.

Lemma fsize_cons p l : fsize (p :: l) = zlen p + 2 + fsize l.
Proof. reflexivity. Qed.

Lemma fsize_nonneg l : 0 <= fsize l.
Proof. rewrite <- zlen_stream. apply zlen_nonneg. Qed.

Lemma stream_app l p : stream (l ++ [p]) = stream l ++ enc p.
Proof. unfold stream. rewrite map_app, concat_app. simpl. rewrite app_nil_r. reflexivity. Qed.

Record Rep (b : buf) (f : fifo) : Prop := {
  r_idx : (zlen (data b) = 0 /\ head b = 0 /\ tail b = 0) \/
          (0 <= head b < zlen (data b) /\ 0 <= tail b < zlen (data b));
  r_data : cget (data b) (head b) (bsize b) = stream (q f);
  r_count : count b = zlen (q f);
  r_lc : limitCount b = f_limitCount f;
  r_ls : limitSize b = f_limitSize f;
  r_cl : closed b = f_closed f;
  r_small : Forall (fun p => zlen p < 65536) (q f)
}.

Lemma Rep_init : Rep empty_buf empty_fifo.
Proof. split; simpl; auto. Qed.

Lemma bsize_range b : (zlen (data b) = 0 /\ head b = 0 /\ tail b = 0) \/
          (0 <= head b < zlen (data b) /\ 0 <= tail b < zlen (data b)) ->
  0 <= bsize b /\ (bsize b < zlen (data b) \/ zlen (data b) = 0 /\ bsize b = 0).
Proof. unfold bsize. intros [[H0 [H1 H2]]|[H1 H2]]; destruct (tail b - head b <? 0) eqn:E; lia. Qed.

Lemma rep_size b f : Rep b f -> bsize b = fsize (q f).
Proof.
  intros R. rewrite <- zlen_stream, <- (r_data b f R).
  destruct (bsize_range b (r_idx b f R)) as [H0 H1].
  destruct (r_idx b f R) as [[Z0 [Z1 Z2]]|[H2 H3]].
  - destruct H1 as [H1|[_ H1]]; [lia|]. rewrite H1, Z1.
    rewrite (zlen_0_nil _ Z0). reflexivity.
  - rewrite zlen_cget by lia. reflexivity.
Qed.

(* ---- growth ------------------------------------------------------------------------------ *)

Lemma zlen_zeros n : zlen (zeros n) = Z.of_nat n.
Proof. induction n; [reflexivity|]. simpl zeros. rewrite zlen_cons, IHn. lia. Qed.

Lemma grow_content b : (zlen (data b) = 0 /\ head b = 0 /\ tail b = 0) \/
          (0 <= head b < zlen (data b) /\ 0 <= tail b < zlen (data b)) ->
  (if head b <=? tail b then zfirstn (tail b - head b) (zskipn (head b) (data b))
   else zskipn (head b) (data b) ++ zfirstn (tail b) (data b)) = cget (data b) (head b) (bsize b).
Proof.
  intros H. unfold cget, bsize.
  destruct H as [[Z0 [Z1 Z2]]|[H1 H2]].
  - rewrite Z1, Z2. rewrite (zlen_0_nil _ Z0). reflexivity.
  - assert (Htl : zlen (zskipn (head b) (data b)) = zlen (data b) - head b) by (rewrite zlen_zskipn; lia).
    rewrite Htl.
    destruct (head b <=? tail b) eqn:E.
    + destruct (tail b - head b <? 0) eqn:E1; [lia|].
      destruct (tail b - head b <=? zlen (data b) - head b) eqn:E2; [reflexivity|lia].
    + destruct (tail b - head b <? 0) eqn:E1; [|lia].
      destruct (tail b - head b + zlen (data b) <=? zlen (data b) - head b) eqn:E2.
      * assert (T0 : tail b = 0) by lia. rewrite T0. rewrite zfirstn_0 by lia. rewrite app_nil_r.
        symmetry. apply zfirstn_all. lia.
      * f_equal. f_equal. lia.
Qed.

Lemma grow_rep b f b' : Rep b f -> grow b = Some b' ->
  Rep b' f /\ bsize b' = bsize b /\ zlen (data b) < zlen (data b').
Proof.
  intros R G. unfold grow in G.
  set (len := zlen (data b)) in *.
  set (n0 := if len <? cutoffSize then 2 * len else Z.quot (5 * len) 4) in *.
  set (n1 := if n0 <? minSize then minSize else n0) in *.
  set (n2 := if (limitSize b <=? 0) && (n1 >? maxSize) then maxSize else n1) in *.
  set (n3 := if (limitSize b >? 0) && (n2 >? limitSize b + 1) then limitSize b + 1 else n2) in *.
  destruct (n3 <=? len) eqn:E; [discriminate|].
  rewrite (grow_content b (r_idx b f R)) in G.
  set (content := cget (data b) (head b) (bsize b)) in *.
  destruct (bsize_range b (r_idx b f R)) as [S0 S1].
  assert (Hc : zlen content = bsize b).
  { unfold content. destruct (r_idx b f R) as [[Z0 [Z1 Z2]]|[H2 H3]].
    - destruct S1 as [S1|[_ S1]]; [fold len in S1; lia|]. rewrite S1, Z1.
      rewrite (zlen_0_nil _ Z0). reflexivity.
    - apply zlen_cget; fold len; lia. }
  inversion G; subst b'; clear G.
  assert (Hnl : zlen (content ++ zeros (Z.to_nat (n3 - zlen content))) = n3).
  { rewrite zlen_app, zlen_zeros. fold len in S1. lia. }
  assert (Hbs : bsize {| data := content ++ zeros (Z.to_nat (n3 - zlen content)); head := 0;
                         tail := zlen content; count := count b; limitCount := limitCount b;
                         limitSize := limitSize b; closed := closed b |} = bsize b).
  { unfold bsize at 1. simpl. destruct (zlen content - 0 <? 0) eqn:E1; lia. }
  split; [|split].
  - split; simpl; try apply R.
    + right. rewrite Hnl. fold len in S1. lia.
    + rewrite Hbs. rewrite <- (r_data b f R). fold content.
      unfold cget. simpl zskipn.
      assert (Hs0 : zskipn 0 (content ++ zeros (Z.to_nat (n3 - zlen content)))
                    = content ++ zeros (Z.to_nat (n3 - zlen content))).
      { destruct (content ++ zeros (Z.to_nat (n3 - zlen content))); reflexivity. }
      rewrite Hs0, Hnl. rewrite <- Hc.
      destruct (zlen content <=? n3) eqn:E2; [|fold len in S1; lia].
      apply zfirstn_app_exact.
  - exact Hbs.
  - simpl. rewrite Hnl. fold len. lia.
Qed.

Definition need (b : buf) (plen : Z) : Z := bsize b + plen + 3.

Lemma available_spec b plen : (zlen (data b) = 0 /\ head b = 0 /\ tail b = 0) \/
          (0 <= head b < zlen (data b) /\ 0 <= tail b < zlen (data b)) ->
  available b plen = (need b plen <=? zlen (data b)).
Proof.
  intros H. unfold available, need, bsize.
  destruct H as [[Z0 [Z1 Z2]]|[H1 H2]].
  - rewrite Z0, Z1, Z2. simpl.
    destruct (plen + 2 + 1 >? 0) eqn:E; destruct (0 + plen + 3 <=? 0) eqn:E2; try reflexivity; lia.
  - destruct (head b - tail b <=? 0) eqn:E1; destruct (tail b - head b <? 0) eqn:E2; lia.
Qed.

(* a write that the limits admit finds room after one growth step, or gains 512 bytes *)
Lemma grow_progress b f plen : Rep b f -> 0 <= plen < 65536 ->
  f_full f plen = false -> available b plen = false ->
  exists b', grow b = Some b' /\
    (need b plen <= zlen (data b') \/ zlen (data b) + 512 <= zlen (data b')).
Proof.
  intros R Hp Hfull Hav.
  rewrite (available_spec b plen (r_idx b f R)) in Hav. unfold need in *.
  pose proof (rep_size b f R) as Hsz.
  unfold f_full in Hfull. rewrite <- (r_ls b f R), <- Hsz in Hfull.
  apply orb_false_iff in Hfull. destruct Hfull as [Hfull Hcap].
  apply orb_false_iff in Hfull. destruct Hfull as [_ Hlim].
  destruct (bsize_range b (r_idx b f R)) as [S0 S1].
  unfold grow.
  set (len := zlen (data b)) in *.
  assert (Hlen0 : 0 <= len) by apply zlen_nonneg.
  set (n0 := if len <? cutoffSize then 2 * len else Z.quot (5 * len) 4).
  assert (Hn0 : (len < cutoffSize -> n0 = 2 * len) /\ (cutoffSize <= len -> 4 * n0 + 3 >= 5 * len /\ n0 <= 5 * len)).
  { unfold n0. destruct (len <? cutoffSize) eqn:E; split; intros; lia. }
  set (n1 := if n0 <? minSize then minSize else n0).
  set (n2 := if (limitSize b <=? 0) && (n1 >? maxSize) then maxSize else n1).
  set (n3 := if (limitSize b >? 0) && (n2 >? limitSize b + 1) then limitSize b + 1 else n2).
  unfold cutoffSize, minSize, maxSize in *.
  assert (Hn3 : len < n3 /\ (bsize b + plen + 3 <= n3 \/ len + 512 <= n3)).
  { unfold n3, n2, n1. destruct Hn0 as [Ha Hb].
    destruct (n0 <? 2048) eqn:E1; destruct (limitSize b <=? 0) eqn:E2; destruct (limitSize b >? 0) eqn:E3;
      simpl; try lia;
      repeat match goal with |- context[if ?c then _ else _] => destruct c eqn:? end;
      (destruct (Z_lt_dec len 131072) as [l|l]; [specialize (Ha l)|specialize (Hb ltac:(lia))]; lia). }
  destruct (n3 <=? len) eqn:E; [lia|].
  eexists. split; [reflexivity|]. simpl.
  rewrite (grow_content b (r_idx b f R)).
  rewrite zlen_app, zlen_zeros.
  assert (Hc : zlen (cget (data b) (head b) (bsize b)) = bsize b).
  { destruct (r_idx b f R) as [[Z0 [Z1 Z2]]|[H2 H3]].
    - destruct S1 as [S1|[_ S1]]; [fold len in S1; lia|]. rewrite S1, Z1.
      rewrite (zlen_0_nil _ Z0). reflexivity.
    - apply zlen_cget; fold len; lia. }
  rewrite Hc. fold len in S1. lia.
Qed.

Lemma grow_until_ok f plen : 0 <= plen < 65536 -> f_full f plen = false ->
  forall fuel b, Rep b f -> need b plen - zlen (data b) <= 512 * Z.of_nat fuel ->
  exists b1, grow_until fuel b plen = Some b1 /\ Rep b1 f /\ available b1 plen = true.
Proof.
  intros Hp Hfull. induction fuel as [|fuel IH]; intros b R Hm.
  - simpl. destruct (available b plen) eqn:Ha.
    + exists b. auto.
    + rewrite (available_spec b plen (r_idx b f R)) in Ha. lia.
  - simpl. destruct (available b plen) eqn:Ha.
    + exists b. auto.
    + destruct (grow_progress b f plen R Hp Hfull Ha) as [b' [G Hpr]].
      rewrite G. destruct (grow_rep b f b' R G) as [R' [Hs Hl]].
      apply IH; [assumption|]. unfold need in *. rewrite Hs. lia.
Qed.

(* ---- Write --------------------------------------------------------------------------------- *)

Lemma wrap_tail b : (zlen (data b) = 0 /\ head b = 0 /\ tail b = 0) \/
          (0 <= head b < zlen (data b) /\ 0 <= tail b < zlen (data b)) ->
  0 < zlen (data b) -> tail b = wrapidx (zlen (data b)) (head b + bsize b).
Proof.
  intros [[Z0 _]|[H1 H2]] Hl; [lia|]. unfold bsize, wrapidx.
  destruct (tail b - head b <? 0) eqn:E1.
  - destruct (head b + (tail b - head b + zlen (data b)) >=? zlen (data b)) eqn:E2; lia.
  - destruct (head b + (tail b - head b) >=? zlen (data b)) eqn:E2; lia.
Qed.

Lemma write_spec b f p : Rep b f ->
  let '(b', e) := write b p in
  e = f_write_err f p /\ Rep b' (if e =? 0 then f_push f p else f).
Proof.
  intros R. unfold write, f_write_err.
  pose proof (zlen_nonneg p) as Hp0.
  destruct (zlen p >=? 65536) eqn:E0; [split; [reflexivity|exact R]|].
  rewrite <- (r_cl b f R). destruct (closed b) eqn:Ec; [split; [reflexivity|exact R]|].
  assert (Hfull : ((limitCount b >? 0) && (count b >=? limitCount b))
       || ((limitSize b >? 0) && (bsize b + 2 + zlen p >? limitSize b))
       || ((limitSize b <=? 0) && (bsize b + 2 + zlen p >=? maxSize)) = f_full f (zlen p)).
  { unfold f_full. rewrite (r_lc b f R), (r_ls b f R), (r_count b f R), (rep_size b f R). reflexivity. }
  rewrite Hfull. destruct (f_full f (zlen p)) eqn:Ef; [split; [reflexivity|exact R]|].
  destruct (bsize_range b (r_idx b f R)) as [S0 S1].
  destruct (grow_until_ok f (zlen p) ltac:(lia) Ef grow_fuel b R) as [b1 [G [R1 Av]]].
  { unfold need, grow_fuel. pose proof (zlen_nonneg (data b)). lia. }
  rewrite G. split; [reflexivity|]. simpl.
  rewrite (available_spec b1 _ (r_idx b1 f R1)) in Av. unfold need in Av.
  destruct (bsize_range b1 (r_idx b1 f R1)) as [T0 T1].
  set (len := zlen (data b1)) in *.
  assert (Hlen : 0 < len) by lia.
  destruct (r_idx b1 f R1) as [[Z0 _]|[H1 H2]]; [fold len in Z0; lia|]. fold len in H1, H2.
  set (bytes := zlen p / 256 :: zlen p mod 256 :: p).
  assert (Hbl : zlen bytes = zlen p + 2) by (unfold bytes; rewrite !zlen_cons; lia).
  assert (Hdl : zlen (cput (data b1) (tail b1) bytes) = len) by (apply zlen_cput; fold len; lia).
  pose proof (wrap_tail b1 (r_idx b1 f R1) Hlen) as Htw. fold len in Htw.
  assert (Hsz' : bsize {| data := cput (data b1) (tail b1) bytes; head := head b1;
       tail := if tail b1 + 2 + zlen p >=? len then tail b1 + 2 + zlen p - len else tail b1 + 2 + zlen p;
       count := count b1 + 1; limitCount := limitCount b1; limitSize := limitSize b1;
       closed := closed b1 |} = bsize b1 + zlen p + 2).
  { unfold bsize. simpl. unfold bsize in Av, T0, T1. fold len. rewrite Hdl.
    destruct (tail b1 - head b1 <? 0) eqn:E1;
    destruct (tail b1 + 2 + zlen p >=? len) eqn:E2.
    - destruct (tail b1 + 2 + zlen p - len - head b1 <? 0) eqn:E3; lia.
    - destruct (tail b1 + 2 + zlen p - head b1 <? 0) eqn:E3; lia.
    - destruct (tail b1 + 2 + zlen p - len - head b1 <? 0) eqn:E3; lia.
    - destruct (tail b1 + 2 + zlen p - head b1 <? 0) eqn:E3; lia. }
  split; simpl.
  - right. rewrite Hdl. fold len. destruct (tail b1 + 2 + zlen p >=? len) eqn:E2; lia.
  - rewrite Hsz'. rewrite stream_app.
    replace (bsize b1 + zlen p + 2) with (bsize b1 + zlen bytes) by lia.
    rewrite cget_split by (rewrite ?Hdl; fold len; lia).
    rewrite Hdl. rewrite <- Htw.
    rewrite cget_cput_same by (fold len; lia).
    rewrite cget_cput_other.
    + rewrite (r_data b1 f R1). reflexivity.
    + fold len; lia.
    + fold len; lia.
    + lia.
    + fold len. unfold bsize in *. fold len in T1.
      destruct (tail b1 >=? head b1) eqn:E3; destruct (tail b1 - head b1 <? 0) eqn:E4; lia.
    + fold len. unfold bsize in *. fold len in T1, Av.
      destruct (tail b1 >=? head b1) eqn:E3; destruct (tail b1 - head b1 <? 0) eqn:E4; lia.
  - rewrite (r_count b1 f R1). rewrite zlen_app, zlen_cons, zlen_nil. lia.
  - apply R1.
  - apply R1.
  - apply R1.
  - apply Forall_app. split; [apply R1|]. constructor; [lia|constructor].
Qed.

(* ---- Read ---------------------------------------------------------------------------------- *)

Lemma app_eq_len {A} (a1 a2 b1 b2 : list A) : a1 ++ a2 = b1 ++ b2 -> length a1 = length b1 ->
  a1 = b1 /\ a2 = b2.
Proof.
  revert b1. induction a1 as [|x a1 IH]; intros b1 H L; destruct b1 as [|y b1]; simpl in *; try discriminate.
  - auto.
  - inversion H; subst. destruct (IH b1 H2 ltac:(lia)) as [-> ->]. auto.
Qed.

Lemma fsize_pos_cons l : 0 < fsize l -> exists p rest, l = p :: rest.
Proof. destruct l as [|p rest]; [simpl; lia|]. eauto. Qed.

Lemma read_spec b f k : Rep b f -> 0 <= k ->
  let '(b', r) := read b k in
  let '(f', r') := f_read f k in
  r = r' /\ Rep b' f'.
Proof.
  intros R Hk. unfold read, f_read.
  pose proof (rep_size b f R) as Hsz.
  destruct (bsize_range b (r_idx b f R)) as [S0 S1].
  destruct (head b =? tail b) eqn:Eht; simpl negb; cbv iota.
  - (* empty *)
    assert (Hs0 : bsize b = 0).
    { unfold bsize. destruct (tail b - head b <? 0) eqn:E; lia. }
    assert (Hq : q f = []).
    { destruct (q f) as [|p rest] eqn:Eq; [reflexivity|].
      rewrite Hs0 in Hsz. rewrite fsize_cons in Hsz. pose proof (fsize_nonneg rest). pose proof (zlen_nonneg p). lia. }
    rewrite Hq. rewrite (r_cl b f R). destruct (f_closed f); split; try reflexivity; exact R.
  - (* a packet is buffered *)
    destruct (r_idx b f R) as [[Z0 [Z1 Z2]]|[H1 H2]]; [lia|].
    assert (Hpos : 0 < bsize b).
    { unfold bsize in *. destruct (tail b - head b <? 0) eqn:E; lia. }
    destruct (fsize_pos_cons (q f) ltac:(lia)) as [p [rest Eq]]. rewrite Eq.
    set (len := zlen (data b)) in *.
    pose proof (zlen_nonneg p) as Hp0. pose proof (fsize_nonneg rest) as Hr0.
    assert (Hsize : bsize b = 2 + (zlen p + fsize rest)).
    { rewrite Hsz, Eq, fsize_cons. lia. }
    assert (Hsmall : zlen p < 65536).
    { pose proof (r_small b f R) as F. rewrite Eq in F. inversion F; assumption. }
    (* split the stored bytes into header, payload, rest *)
    pose proof (r_data b f R) as Hd. rewrite Eq in Hd. unfold stream in Hd. simpl in Hd.
    fold (stream rest) in Hd.
    rewrite Hsize in Hd.
    rewrite cget_split in Hd by (fold len; lia). fold len in Hd.
    set (h2 := wrapidx len (head b + 2)) in *.
    assert (Hh2 : 0 <= h2 < len) by (unfold h2, wrapidx; destruct (head b + 2 >=? len) eqn:E; lia).
    rewrite (cget_split (data b) h2) in Hd by (fold len; lia). fold len in Hd.
    set (h3 := wrapidx len (h2 + zlen p)) in *.
    assert (Hh3 : 0 <= h3 < len) by (unfold h3, wrapidx; destruct (h2 + zlen p >=? len) eqn:E; lia).
    assert (L2 : zlen (cget (data b) (head b) 2) = 2) by (apply zlen_cget; fold len; lia).
    assert (LP : zlen (cget (data b) h2 (zlen p)) = zlen p) by (apply zlen_cget; fold len; lia).
    change (zlen p / 256 :: zlen p mod 256 :: p ++ stream rest)
      with ([zlen p / 256; zlen p mod 256] ++ (p ++ stream rest)) in Hd.
    apply app_eq_len in Hd; [|apply Nat2Z.inj; exact L2].
    destruct Hd as [Hhdr Hd].
    apply app_eq_len in Hd; [|apply Nat2Z.inj; exact LP].
    destruct Hd as [Hpay Hrest].
    rewrite Hhdr.
    replace (zlen p / 256 * 256 + zlen p mod 256) with (zlen p) by lia.
    assert (Eh2 : (if head b + 2 >=? len then head b + 2 - len else head b + 2) = h2) by reflexivity.
    rewrite Eh2.
    assert (Eh3 : (if h2 + zlen p >=? len then h2 + zlen p - len else h2 + zlen p) = h3) by reflexivity.
    rewrite Eh3.
    set (copied := if zlen p >? k then k else zlen p).
    assert (Hcop : 0 <= copied <= zlen p) by (unfold copied; destruct (zlen p >? k) eqn:E; lia).
    split.
    + (* the answer *)
      f_equal.
      * assert ((copied <? zlen p) = (k <? zlen p)) as ->
          by (unfold copied; destruct (zlen p >? k) eqn:E1; lia).
        reflexivity.
      * rewrite (cget_prefix (data b) h2 copied (zlen p)) by (fold len; lia).
        rewrite Hpay. unfold copied. destruct (zlen p >? k) eqn:E1; [reflexivity|].
        rewrite !zfirstn_all by lia. reflexivity.
    + (* the new state *)
      assert (Hbs' : (h3 =? tail b) = false ->
                (if tail b - h3 <? 0 then tail b - h3 + len else tail b - h3) = fsize rest).
      { intros Ene. unfold h3, h2, wrapidx, bsize in *. fold len in Hsize, S1.
        destruct (tail b - head b <? 0) eqn:E1; destruct (head b + 2 >=? len) eqn:E2;
          match goal with |- context[if ?c >=? len then _ else _] => destruct (c >=? len) eqn:E3 end;
          match goal with |- context[if ?c <? 0 then _ else _] => destruct (c <? 0) eqn:E4 end; lia. }
      destruct (h3 =? tail b) eqn:Eemp.
      * (* drained: reset *)
        assert (Hr : fsize rest = 0).
        { unfold h3, h2, wrapidx, bsize in *. fold len in Hsize, S1.
          destruct (tail b - head b <? 0) eqn:E1; destruct (head b + 2 >=? len) eqn:E2;
          match goal with H : context[if ?c >=? len then _ else _] |- _ => destruct (c >=? len) eqn:E3 end; lia. }
        assert (Hrest0 : rest = []).
        { destruct rest as [|p' r']; [reflexivity|]. rewrite fsize_cons in Hr. pose proof (fsize_nonneg r'). pose proof (zlen_nonneg p'). lia. }
        subst rest. split; simpl; try apply R.
        -- right. fold len. lia.
        -- unfold bsize. simpl. unfold cget. simpl.
           destruct (zskipn 0 (data b)) eqn:Es; simpl; [reflexivity|].
           destruct (0 <=? zlen (z :: l)) eqn:E5; [|pose proof (zlen_nonneg (z :: l)); lia].
           reflexivity.
        -- rewrite (r_count b f R), Eq. reflexivity.
        -- constructor.
      * split; simpl; try apply R.
        -- right. fold len. lia.
        -- unfold bsize. cbn [head tail data]. cbv zeta. fold len.
           rewrite (Hbs' eq_refl).
           rewrite <- Hrest. reflexivity.
        -- rewrite (r_count b f R), Eq. rewrite zlen_cons. lia.
        -- pose proof (r_small b f R) as F. rewrite Eq in F. inversion F; assumption.
Qed.

(* ---- histories ------------------------------------------------------------------------------- *)

Definition op_ok (o : op) : Prop := match o with Read k => 0 <= k | _ => True end.

Lemma step_spec b f o : Rep b f -> op_ok o ->
  let '(b', r) := step b o in
  let '(f', r') := f_step f o in
  r = r' /\ Rep b' f'.
Proof.
  intros R Hok. destruct o as [p|k| n | n | | |]; simpl.
  - pose proof (write_spec b f p R) as W. destruct (write b p) as [b' e].
    destruct W as [-> R']. split; [reflexivity|exact R'].
  - pose proof (read_spec b f k R Hok) as Rd. destruct (read b k) as [b' [c bs]].
    destruct (f_read f k) as [f' [c' bs']]. destruct Rd as [E R']. inversion E; subst.
    split; [reflexivity|exact R'].
  - split; [reflexivity|]. split; try apply R; reflexivity.
  - split; [reflexivity|]. split; try apply R; reflexivity.
  - split; [reflexivity|]. split; try apply R; reflexivity.
  - split; [|exact R]. rewrite (r_count b f R). reflexivity.
  - split; [|exact R]. rewrite (rep_size b f R). reflexivity.
Qed.

Theorem run_refines h : Forall op_ok h -> forall b f, Rep b f -> run b h = f_run f h.
Proof.
  induction h as [|o h IH]; intros Hok b f R; [reflexivity|].
  inversion Hok as [|? ? Ho Hok']; subst. simpl.
  pose proof (step_spec b f o R Ho) as S.
  destruct (step b o) as [b' r]. destruct (f_step f o) as [f' r'].
  destruct S as [-> R']. f_equal. apply IH; assumption.
Qed.

(* ---- reachable states and direct corollaries -------------------------------------------------- *)

Fixpoint final (b : buf) (h : list op) : buf :=
  match h with [] => b | o :: h' => final (fst (step b o)) h' end.
Fixpoint f_final (f : fifo) (h : list op) : fifo :=
  match h with [] => f | o :: h' => f_final (fst (f_step f o)) h' end.

Lemma final_rep h : Forall op_ok h -> forall b f, Rep b f -> Rep (final b h) (f_final f h).
Proof.
  induction h as [|o h IH]; intros Hok b f R; [exact R|].
  inversion Hok as [|? ? Ho Hok']; subst. simpl.
  pose proof (step_spec b f o R Ho) as S.
  destruct (step b o) as [b' r]. destruct (f_step f o) as [f' r'].
  destruct S as [_ R']. simpl. apply IH; assumption.
Qed.

Lemma write_refused_unchanged b p e : snd (write b p) = e -> e <> 0 -> fst (write b p) = b.
Proof.
  unfold write. intros He Hne.
  destruct (zlen p >=? 65536); [reflexivity|]. destruct (closed b); [reflexivity|].
  match goal with |- context[if ?c then _ else _] => destruct c end; [reflexivity|].
  destruct (grow_until grow_fuel b (zlen p)); [|reflexivity].
  simpl in He. congruence.
Qed.

Lemma write_full_iff b f p : Rep b f -> zlen p < 65536 -> closed b = false ->
  (snd (write b p) = 3 <-> f_full f (zlen p) = true) /\
  (snd (write b p) = 0 <-> f_full f (zlen p) = false).
Proof.
  intros R Hp Hc. pose proof (write_spec b f p R) as W.
  destruct (write b p) as [b' e]. destruct W as [-> _]. simpl.
  unfold f_write_err. rewrite <- (r_cl b f R), Hc.
  destruct (zlen p >=? 65536) eqn:E; [lia|].
  destruct (f_full f (zlen p)); split; split; intros; try reflexivity; try discriminate.
Qed.

(* writing a batch of packets into an unlimited open buffer and reading them all back *)
Definition no_limits (f : fifo) : Prop := f_limitCount f <= 0 /\ f_limitSize f <= 0 /\ f_closed f = false.

Lemma f_run_writes ps : forall f rest, no_limits f ->
  Forall (fun p => zlen p < 65536) ps -> fsize (q f ++ ps) < maxSize ->
  f_run f (map Write ps ++ rest) =
  map (fun _ => [0]) ps ++
  f_run {| q := q f ++ ps; f_limitCount := f_limitCount f; f_limitSize := f_limitSize f;
           f_closed := f_closed f |} rest.
Proof.
  induction ps as [|p ps IH]; intros f rest NL Hs Hsz.
  - simpl. rewrite app_nil_r. destruct f; reflexivity.
  - inversion Hs as [|? ? Hp Hs']; subst. simpl.
    destruct NL as [N1 [N2 N3]].
    assert (Hfs : forall a b, fsize (a ++ b) = fsize a + fsize b).
    { intros a b. induction a as [|x a IHa]; [simpl; lia|].
      change ((x :: a) ++ b) with (x :: (a ++ b)). rewrite !fsize_cons, IHa. lia. }
    assert (He : f_write_err f p = 0).
    { unfold f_write_err, f_full. rewrite N3.
      rewrite Hfs, fsize_cons in Hsz. pose proof (fsize_nonneg ps).
      destruct (zlen p >=? 65536) eqn:E1; [lia|].
      destruct (f_limitCount f >? 0) eqn:E2; [lia|].
      destruct (f_limitSize f >? 0) eqn:E3; [lia|].
      destruct (f_limitSize f <=? 0) eqn:E4; [|lia].
      destruct (fsize (q f) + 2 + zlen p >=? maxSize) eqn:E5; [lia|]. reflexivity. }
    rewrite He. simpl. f_equal.
    rewrite (IH (f_push f p) rest).
    + simpl. rewrite <- app_assoc. reflexivity.
    + unfold no_limits, f_push. simpl. auto.
    + assumption.
    + simpl. rewrite <- app_assoc. exact Hsz.
Qed.

Lemma f_run_reads ps : forall f rest', q f = ps ++ rest' ->
  Forall (fun p => zlen p < 65536) ps ->
  f_run f (map (fun _ => Read 65535) ps) = map (fun p => 0 :: zlen p :: 1 :: repr p) ps.
Proof.
  induction ps as [|p ps IH]; intros f rest' Hq Hs; [reflexivity|].
  inversion Hs as [|? ? Hp Hs']; subst. simpl. unfold f_read. rewrite Hq. simpl.
  destruct (65535 <? zlen p) eqn:E; [lia|].
  rewrite zfirstn_all by lia. f_equal.
  apply (IH _ rest'); [reflexivity|assumption].
Qed.
