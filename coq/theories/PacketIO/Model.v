(* Executable model of packetio/buffer.go (sequential behaviour; default build, i.e.
   sizeHardLimit = false). The ring is modelled as the Go code stores it: a byte list [data]
   with [head] and [tail] indices, one byte always left free, growth by doubling below
   128 KiB and by 5/4 above, relinearisation on growth, reset to 0 when drained.

   Circular accesses are written with list splitting ([cget], [cput]) so that the extracted
   code runs in time linear in the ring size per operation. *)
From Tx Require Import Common.Base.
From Tx Require Export Common.ListZ.

Definition minSize : Z := 2048.
Definition cutoffSize : Z := 131072.
Definition maxSize : Z := 4194304.

Fixpoint zeros (n : nat) : list Z := match n with O => [] | S k => 0 :: zeros k end.

(* [n] bytes starting at [pos], wrapping at the end of [data]  (n <= length data) *)
Definition cget (data : list Z) (pos n : Z) : list Z :=
  let tl := zskipn pos data in
  if n <=? zlen tl then zfirstn n tl else tl ++ zfirstn (n - zlen tl) data.

(* write [bs] starting at [pos], wrapping at the end of [data] (no self overlap) *)
Definition cput (data : list Z) (pos : Z) (bs : list Z) : list Z :=
  let room := zlen data - pos in
  if zlen bs <=? room then
    zfirstn pos data ++ bs ++ zskipn (pos + zlen bs) data
  else
    let a := zfirstn room bs in
    let b := zskipn room bs in
    b ++ zskipn (zlen b) (zfirstn pos data) ++ a.

Record buf := {
  data : list Z; head : Z; tail : Z; count : Z;
  limitCount : Z; limitSize : Z; closed : bool
}.

Definition empty_buf : buf :=
  {| data := []; head := 0; tail := 0; count := 0; limitCount := 0; limitSize := 0; closed := false |}.

Definition bsize (b : buf) : Z :=
  let s := tail b - head b in if s <? 0 then s + zlen (data b) else s.

Definition available (b : buf) (size : Z) : bool :=
  let a := head b - tail b in
  let a := if a <=? 0 then a + zlen (data b) else a in
  negb (size + 2 + 1 >? a).

(* None = ErrFull *)
Definition grow (b : buf) : option buf :=
  let len := zlen (data b) in
  let n := if len <? cutoffSize then 2 * len else Z.quot (5 * len) 4 in
  let n := if n <? minSize then minSize else n in
  let n := if (limitSize b <=? 0) && (n >? maxSize) then maxSize else n in
  let n := if (limitSize b >? 0) && (n >? limitSize b + 1) then limitSize b + 1 else n in
  if n <=? len then None
  else
    let content := if head b <=? tail b then zfirstn (tail b - head b) (zskipn (head b) (data b))
                   else zskipn (head b) (data b) ++ zfirstn (tail b) (data b) in
    Some {| data := content ++ zeros (Z.to_nat (n - zlen content));
            head := 0; tail := zlen content; count := count b;
            limitCount := limitCount b; limitSize := limitSize b; closed := closed b |}.

Fixpoint grow_until (fuel : nat) (b : buf) (plen : Z) : option buf :=
  if available b plen then Some b
  else match fuel with
       | O => None
       | S f => match grow b with None => None | Some b' => grow_until f b' plen end
       end.

(* error classes of Write: 0 ok, 1 packet too big, 2 closed pipe, 3 full, 9 out of fuel *)
Definition grow_fuel : nat := 200.

Definition write (b : buf) (p : list Z) : buf * Z :=
  let plen := zlen p in
  if plen >=? 65536 then (b, 1)
  else if closed b then (b, 2)
  else if ((limitCount b >? 0) && (count b >=? limitCount b))
       || ((limitSize b >? 0) && (bsize b + 2 + plen >? limitSize b))
       || ((limitSize b <=? 0) && (bsize b + 2 + plen >=? maxSize))
  then (b, 3)
  else match grow_until grow_fuel b plen with
       | None => (b, 3)
       | Some b1 =>
           let len := zlen (data b1) in
           let bytes := plen / 256 :: plen mod 256 :: p in
           let t := tail b1 + 2 + plen in
           ({| data := cput (data b1) (tail b1) bytes; head := head b1;
               tail := if t >=? len then t - len else t; count := count b1 + 1;
               limitCount := limitCount b1; limitSize := limitSize b1; closed := closed b1 |}, 0)
       end.

(* result classes of Read: 0 ok, 1 short buffer, 2 EOF, 3 would block *)
Definition read (b : buf) (k : Z) : buf * (Z * list Z) :=
  if negb (head b =? tail b) then
    let len := zlen (data b) in
    let hdr := cget (data b) (head b) 2 in
    let cnt := match hdr with n1 :: n2 :: _ => n1 * 256 + n2 | _ => 0 end in
    let h2 := if head b + 2 >=? len then head b + 2 - len else head b + 2 in
    let copied := if cnt >? k then k else cnt in
    let bytes := cget (data b) h2 copied in
    let h3 := if h2 + cnt >=? len then h2 + cnt - len else h2 + cnt in
    let empty := h3 =? tail b in
    ({| data := data b; head := if empty then 0 else h3; tail := if empty then 0 else tail b;
        count := count b - 1; limitCount := limitCount b; limitSize := limitSize b;
        closed := closed b |},
     (if copied <? cnt then 1 else 0, bytes))
  else if closed b then (b, (2, []))
  else (b, (3, [])).

Definition set_limit_count (b : buf) (n : Z) : buf :=
  {| data := data b; head := head b; tail := tail b; count := count b;
     limitCount := n; limitSize := limitSize b; closed := closed b |}.
Definition set_limit_size (b : buf) (n : Z) : buf :=
  {| data := data b; head := head b; tail := tail b; count := count b;
     limitCount := limitCount b; limitSize := n; closed := closed b |}.
Definition close (b : buf) : buf :=
  {| data := data b; head := head b; tail := tail b; count := count b;
     limitCount := limitCount b; limitSize := limitSize b; closed := true |}.

(* ---- operations and histories ----------------------------------------------------------- *)

Inductive op :=
| Write (p : list Z) | Read (k : Z) | SetLimitCount (n : Z) | SetLimitSize (n : Z)
| Close | Count | Size.

(* compact rendering of a payload: the bytes themselves when short, else a hash *)
Fixpoint bsums (bs : list Z) (i s1 s2 : Z) : list Z :=
  match bs with
  | [] => [s1; s2]
  | x :: t => bsums t (i + 1) (s1 + x) (s2 + i * x)
  end.
Definition repr (bs : list Z) : list Z := if zlen bs <=? 32 then bs else bsums bs 1 0 0.

(* deterministic payload of length n: x, x+d, x+2d, ... (mod 256) *)
Fixpoint genb (n : nat) (x d : Z) : list Z :=
  match n with
  | O => []
  | S k => x :: genb k (if x + d >=? 256 then x + d - 256 else x + d) d
  end.

(* every observable is a list of integers: Write [err]; Read [class; n; 1; payload repr]
   (the 1 stands for "bytes of the destination beyond n untouched", which the harness
   measures); Count [n]; Size [n]; setters and Close [] *)
Definition step (b : buf) (o : op) : buf * zs :=
  match o with
  | Write p => let '(b', e) := write b p in (b', [e])
  | Read k => let '(b', (c, bs)) := read b k in (b', c :: zlen bs :: 1 :: repr bs)
  | SetLimitCount n => (set_limit_count b n, [])
  | SetLimitSize n => (set_limit_size b n, [])
  | Close => (close b, [])
  | Count => (b, [count b])
  | Size => (b, [bsize b])
  end.

Fixpoint run (b : buf) (h : list op) : list zs :=
  match h with
  | [] => []
  | o :: h' => let '(b', r) := step b o in r :: run b' h'
  end.

(* wire encoding: Write = 1 :: bytes, Read = [2; k], SetLimitCount = [3; n],
   SetLimitSize = [4; n], Close = [5], Count = [6], Size = [7],
   Write of a generated payload = [8; len; first byte; increment] *)
Definition dec_op (o : zs) : op :=
  match o with
  | 1 :: p => Write p
  | 8 :: n :: x :: d :: _ => Write (genb (Z.to_nat n) (x mod 256) (d mod 256))
  | 2 :: k :: _ => Read k
  | 3 :: n :: _ => SetLimitCount n
  | 4 :: n :: _ => SetLimitSize n
  | 5 :: _ => Close
  | 6 :: _ => Count
  | _ => Size
  end.

Definition pio_run (ops : list zs) : list zs := run empty_buf (map dec_op ops).
