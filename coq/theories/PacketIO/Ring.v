(* Algebra of circular reads and writes on a list ([cget], [cput]). *)
From Tx Require Import Common.Base PacketIO.Model.

Definition wrapidx (len x : Z) : Z := if x >=? len then x - len else x.

Lemma zlen_cget data pos n : 0 <= pos <= zlen data -> 0 <= n <= zlen data ->
  zlen (cget data pos n) = n.
Proof.
  intros Hp Hn. unfold cget.
  destruct (n <=? zlen (zskipn pos data)) eqn:E.
  - rewrite zlen_zfirstn by lia. lia.
  - rewrite zlen_app, zlen_zfirstn by (rewrite zlen_zskipn in *; lia).
    rewrite zlen_zskipn in * by lia. lia.
Qed.

Lemma znth_cget data pos n i : 0 <= pos < zlen data -> 0 <= n <= zlen data -> 0 <= i < n ->
  znth i (cget data pos n) = znth (wrapidx (zlen data) (pos + i)) data.
Proof.
  intros Hp Hn Hi. unfold cget, wrapidx.
  assert (Htl : zlen (zskipn pos data) = zlen data - pos) by (rewrite zlen_zskipn; lia).
  rewrite Htl.
  destruct (n <=? zlen data - pos) eqn:E.
  - rewrite znth_zfirstn by lia. rewrite znth_zskipn by lia.
    destruct (pos + i >=? zlen data) eqn:E2; [lia|]. f_equal. lia.
  - rewrite znth_app by lia. rewrite Htl.
    destruct (i <? zlen data - pos) eqn:E1.
    + rewrite znth_zskipn by lia. destruct (pos + i >=? zlen data) eqn:E2; [lia|]. f_equal. lia.
    + rewrite znth_zfirstn by lia. destruct (pos + i >=? zlen data) eqn:E2; [|lia]. f_equal. lia.
Qed.

Lemma zlen_cput data pos bs : 0 <= pos <= zlen data -> zlen bs <= zlen data ->
  zlen (cput data pos bs) = zlen data.
Proof.
  intros Hp Hb. pose proof (zlen_nonneg bs). unfold cput.
  destruct (zlen bs <=? zlen data - pos) eqn:E.
  - rewrite !zlen_app, zlen_zfirstn, zlen_zskipn by lia. lia.
  - assert (Hlb : zlen (zskipn (zlen data - pos) bs) = zlen bs - (zlen data - pos))
      by (rewrite zlen_zskipn; lia).
    rewrite !zlen_app. rewrite Hlb.
    rewrite zlen_zskipn by lia. rewrite !zlen_zfirstn by lia. lia.
Qed.

Lemma znth_cput data pos bs j : 0 <= pos < zlen data -> zlen bs <= zlen data ->
  0 <= j < zlen data ->
  znth j (cput data pos bs) =
    let k := if j >=? pos then j - pos else j - pos + zlen data in
    if k <? zlen bs then znth k bs else znth j data.
Proof.
  intros Hp Hb Hj. pose proof (zlen_nonneg bs) as Hb0. unfold cput. cbv zeta.
  destruct (zlen bs <=? zlen data - pos) eqn:E.
  - rewrite znth_app by lia. rewrite zlen_zfirstn by lia.
    destruct (j <? Z.min pos (zlen data)) eqn:E1.
    + rewrite znth_zfirstn by lia.
      destruct (j >=? pos) eqn:E2; [lia|].
      destruct (j - pos + zlen data <? zlen bs) eqn:E3; [lia|reflexivity].
    + rewrite znth_app by lia.
      destruct (j >=? pos) eqn:E2; [|lia].
      replace (j - Z.min pos (zlen data)) with (j - pos) by lia.
      destruct (j - pos <? zlen bs) eqn:E3; [reflexivity|].
      rewrite znth_zskipn by lia. f_equal. lia.
  - set (room := zlen data - pos).
    assert (Hlb : zlen (zskipn room bs) = zlen bs - room) by (rewrite zlen_zskipn; unfold room; lia).
    rewrite znth_app by lia. rewrite Hlb.
    destruct (j <? zlen bs - room) eqn:E1.
    + rewrite znth_zskipn by (unfold room; lia).
      destruct (j >=? pos) eqn:E2; [unfold room in *; lia|].
      destruct (j - pos + zlen data <? zlen bs) eqn:E3; [|unfold room in *; lia].
      f_equal. unfold room. lia.
    + rewrite znth_app by lia.
      rewrite zlen_zskipn by lia. rewrite zlen_zfirstn by lia.
      destruct (j - (zlen bs - room) <? Z.max 0 (Z.min pos (zlen data) - (zlen bs - room))) eqn:E4.
      * rewrite znth_zskipn by lia. rewrite znth_zfirstn by (unfold room in *; lia).
        destruct (j >=? pos) eqn:E2; [unfold room in *; lia|].
        destruct (j - pos + zlen data <? zlen bs) eqn:E3; [unfold room in *; lia|].
        f_equal. lia.
      * destruct (j >=? pos) eqn:E2; [|unfold room in *; lia].
        destruct (j - pos <? zlen bs) eqn:E3; [|unfold room in *; lia].
        rewrite znth_zfirstn by (unfold room in *; lia). f_equal. unfold room in *. lia.
Qed.

(* a circular read splits at any point *)
Lemma cget_split data pos n m : 0 <= pos < zlen data -> 0 <= n -> 0 <= m -> n + m <= zlen data ->
  cget data pos (n + m) = cget data pos n ++ cget data (wrapidx (zlen data) (pos + n)) m.
Proof.
  intros Hp Hn Hm Hnm.
  assert (Hw : 0 <= wrapidx (zlen data) (pos + n) < zlen data).
  { unfold wrapidx. destruct (pos + n >=? zlen data) eqn:E; lia. }
  apply zlist_ext.
  - rewrite zlen_app, !zlen_cget by lia. reflexivity.
  - intros i Hi. rewrite zlen_cget in Hi by lia.
    rewrite znth_cget by lia. rewrite znth_app by lia. rewrite zlen_cget by lia.
    destruct (i <? n) eqn:E.
    + rewrite znth_cget by lia. reflexivity.
    + rewrite znth_cget by lia. f_equal. unfold wrapidx.
      destruct (pos + n >=? zlen data) eqn:E1; destruct (pos + i >=? zlen data) eqn:E2.
      * destruct (pos + n - zlen data + (i - n) >=? zlen data) eqn:E3; lia.
      * lia.
      * destruct (pos + n + (i - n) >=? zlen data) eqn:E3; lia.
      * destruct (pos + n + (i - n) >=? zlen data) eqn:E3; lia.
Qed.

Lemma cget_prefix data pos n m : 0 <= pos < zlen data -> 0 <= n <= m -> m <= zlen data ->
  cget data pos n = zfirstn n (cget data pos m).
Proof.
  intros Hp Hn Hm. replace m with (n + (m - n)) by lia.
  rewrite cget_split by lia.
  rewrite <- (zlen_cget data pos n) at 2 by lia. rewrite zfirstn_app_exact. reflexivity.
Qed.

(* reading back what was just written *)
Lemma cget_cput_same data pos bs : 0 <= pos < zlen data -> zlen bs <= zlen data ->
  cget (cput data pos bs) pos (zlen bs) = bs.
Proof.
  intros Hp Hb. pose proof (zlen_nonneg bs) as Hb0.
  assert (Hl : zlen (cput data pos bs) = zlen data) by (apply zlen_cput; lia).
  apply zlist_ext.
  - rewrite zlen_cget by lia. reflexivity.
  - intros i Hi. rewrite zlen_cget in Hi by lia.
    rewrite znth_cget by lia. rewrite Hl.
    assert (Hw : 0 <= wrapidx (zlen data) (pos + i) < zlen data).
    { unfold wrapidx. destruct (pos + i >=? zlen data) eqn:E; lia. }
    rewrite znth_cput by lia. cbv zeta. unfold wrapidx in *.
    destruct (pos + i >=? zlen data) eqn:E1.
    + destruct (pos + i - zlen data >=? pos) eqn:E2; [lia|].
      replace (pos + i - zlen data - pos + zlen data) with i by lia.
      destruct (i <? zlen bs) eqn:E3; [reflexivity|lia].
    + destruct (pos + i >=? pos) eqn:E2; [|lia].
      replace (pos + i - pos) with i by lia.
      destruct (i <? zlen bs) eqn:E3; [reflexivity|lia].
Qed.

(* a write does not disturb a region it does not overlap: the region [p, p+n) ends at or
   before the write position, and the write ends at or before p (circularly) *)
Lemma cget_cput_other data pos bs p n :
  0 <= pos < zlen data -> 0 <= p < zlen data -> 0 <= n ->
  let k0 := if pos >=? p then pos - p else pos - p + zlen data in
  n <= k0 -> k0 + zlen bs <= zlen data ->
  cget (cput data pos bs) p n = cget data p n.
Proof.
  intros Hp Hq Hn k0 Hk Hkb. pose proof (zlen_nonneg bs) as Hb0.
  assert (Hk0 : 0 <= k0 < zlen data) by (unfold k0; destruct (pos >=? p) eqn:E; lia).
  assert (Hl : zlen (cput data pos bs) = zlen data) by (apply zlen_cput; lia).
  apply zlist_ext.
  - rewrite !zlen_cget by lia. reflexivity.
  - intros i Hi. rewrite zlen_cget in Hi by lia.
    rewrite !znth_cget by lia. rewrite Hl.
    assert (Hw : 0 <= wrapidx (zlen data) (p + i) < zlen data).
    { unfold wrapidx. destruct (p + i >=? zlen data) eqn:E; lia. }
    rewrite znth_cput by lia. cbv zeta. unfold wrapidx in *. unfold k0 in *.
    destruct (pos >=? p) eqn:E0; destruct (p + i >=? zlen data) eqn:E1.
    + destruct (p + i - zlen data >=? pos) eqn:E2; [lia|].
      destruct (p + i - zlen data - pos + zlen data <? zlen bs) eqn:E3; [lia|reflexivity].
    + destruct (p + i >=? pos) eqn:E2; [lia|].
      destruct (p + i - pos + zlen data <? zlen bs) eqn:E3; [lia|reflexivity].
    + destruct (p + i - zlen data >=? pos) eqn:E2; [lia|].
      destruct (p + i - zlen data - pos + zlen data <? zlen bs) eqn:E3; [lia|reflexivity].
    + destruct (p + i >=? pos) eqn:E2.
      * destruct (p + i - pos <? zlen bs) eqn:E3; [lia|reflexivity].
      * destruct (p + i - pos + zlen data <? zlen bs) eqn:E3; [lia|reflexivity].
Qed.
