(* Executable model of utils/xor/xor_old.go (the portable word-wise implementation) over a
   flat byte memory: a slice is an (offset, length) view, so that aliasing between dst, a and b
   is expressible. One memory cell = one byte (a Z in 0..255). *)
From Tx Require Import Common.Base.
From Tx Require Export Common.ListZ.

Definition wordSize : Z := 8.

Definition mread (mem : list Z) (off n : Z) : list Z := zfirstn n (zskipn off mem).
Definition mwrite (mem : list Z) (off : Z) (bs : list Z) : list Z :=
  zfirstn off mem ++ bs ++ zskipn (off + zlen bs) mem.

Fixpoint xor_list (x y : list Z) : list Z :=
  match x, y with
  | a :: x', b :: y' => Z.lxor a b :: xor_list x' y'
  | _, _ => []
  end.

(* one store of [len] bytes at dst+off computed from [len] bytes of a and of b read before
   the store (a uintptr load/xor/store for len = 8, a byte for len = 1) *)
Definition xor_chunk (mem : list Z) (d a b off len : Z) : list Z :=
  mwrite mem (d + off) (xor_list (mread mem (a + off) len) (mread mem (b + off) len)).

(* for i := start; i < start + count*len; i += len *)
Fixpoint xor_loop (count : nat) (mem : list Z) (d a b off len : Z) : list Z :=
  match count with
  | O => mem
  | S c => xor_loop c (xor_chunk mem d a b off len) d a b (off + len) len
  end.

(* fastXORBytes: n/wordSize word steps, then the byte tail *)
Definition fast_xor (mem : list Z) (d a b n : Z) : list Z :=
  let w := n / wordSize in
  let mem1 := xor_loop (Z.to_nat w) mem d a b 0 wordSize in
  xor_loop (Z.to_nat (n mod wordSize)) mem1 d a b (n - n mod wordSize) 1.

(* safeXORBytes *)
Definition safe_xor (mem : list Z) (d a b n : Z) : list Z :=
  xor_loop (Z.to_nat n) mem d a b 0 1.

(* XorBytes(dst, a, b): slices given as offset/length; returns (n, memory afterwards).
   [unaligned_ok] is the supportsUnaligned constant of the platform. *)
Definition xor_bytes (unaligned_ok : bool) (mem : list Z) (d ld a la b lb : Z) : Z * list Z :=
  let n := if lb <? la then lb else la in
  if n =? 0 then (0, mem)
  else
    let aligned x := x mod wordSize =? 0 in
    if unaligned_ok || (aligned d && aligned a && aligned b) then (n, fast_xor mem d a b n)
    else (n, safe_xor mem d a b n).

(* wire interface: conf = [unaligned_ok]; one operation = [d; ld; a; la; b; lb] applied to the
   memory given as the first "operation"; observation = n :: memory *)
Definition xor_run (conf : zs) (ops : list zs) : list zs :=
  match ops with
  | mem :: rest =>
      let ua := match conf with u :: _ => z2b u | _ => true end in
      [] :: (fix go (mem : list Z) (l : list zs) : list zs :=
         match l with
         | [d; ld; a; la; b; lb] :: l' =>
             let '(n, mem') := xor_bytes ua mem d ld a la b lb in (n :: mem') :: go mem' l'
         | _ => []
         end) mem rest
  | [] => []
  end.
