(* The word-wise XOR equals the bytewise XOR and touches nothing else. *)
From Tx Require Import Common.Base Xor.Model.

Lemma zlen_mread mem off n : 0 <= off -> 0 <= n -> off + n <= zlen mem -> zlen (mread mem off n) = n.
Proof. intros. unfold mread. rewrite zlen_zfirstn, zlen_zskipn by lia. lia. Qed.

Lemma znth_mread mem off n j : 0 <= off -> 0 <= j < n -> znth j (mread mem off n) = znth (off + j) mem.
Proof.
  intros. unfold mread. rewrite znth_zfirstn by lia. rewrite znth_zskipn by lia. f_equal. lia.
Qed.

Lemma zlen_mwrite mem off bs : 0 <= off -> off + zlen bs <= zlen mem -> zlen (mwrite mem off bs) = zlen mem.
Proof.
  intros. pose proof (zlen_nonneg bs). unfold mwrite.
  rewrite !zlen_app, zlen_zfirstn, zlen_zskipn by lia. lia.
Qed.

Lemma znth_mwrite mem off bs i : 0 <= off -> off + zlen bs <= zlen mem -> 0 <= i ->
  znth i (mwrite mem off bs) =
  if (off <=? i) && (i <? off + zlen bs) then znth (i - off) bs else znth i mem.
Proof.
  intros Ho Hb Hi. pose proof (zlen_nonneg bs). unfold mwrite.
  rewrite znth_app by lia. rewrite zlen_zfirstn by lia.
  destruct (i <? Z.min off (zlen mem)) eqn:E1.
  - rewrite znth_zfirstn by lia. destruct (off <=? i) eqn:E2; [lia|]. reflexivity.
  - rewrite znth_app by lia. replace (Z.min off (zlen mem)) with off by lia.
    destruct (off <=? i) eqn:E2; [|lia]. simpl.
    destruct (i - off <? zlen bs) eqn:E3; destruct (i <? off + zlen bs) eqn:E4; try lia; try reflexivity.
    rewrite znth_zskipn by lia. f_equal. lia.
Qed.

Lemma zlen_xor_list x : forall y, zlen x = zlen y -> zlen (xor_list x y) = zlen x.
Proof.
  induction x as [|a x IH]; intros y H; [reflexivity|].
  destruct y as [|b y].
  - rewrite zlen_cons, zlen_nil in H. pose proof (zlen_nonneg x). lia.
  - cbn [xor_list]. rewrite !zlen_cons in *. rewrite IH by lia. reflexivity.
Qed.

Lemma znth_xor_list x : forall y j, zlen x = zlen y -> 0 <= j < zlen x ->
  znth j (xor_list x y) = Z.lxor (znth j x) (znth j y).
Proof.
  induction x as [|a x IH]; intros y j H Hj.
  - unfold zlen in Hj. simpl in Hj. lia.
  - destruct y as [|b y].
    + rewrite zlen_cons, zlen_nil in H. pose proof (zlen_nonneg x). lia.
    + rewrite !zlen_cons in *.
      destruct (Z.eq_dec j 0) as [->|Hne]; [reflexivity|].
      cbn [xor_list]. unfold znth in *. replace (Z.to_nat j) with (S (Z.to_nat (j - 1))) by lia.
      cbn [nth]. apply IH; lia.
Qed.

(* what XorBytes must achieve on the first m bytes *)
Definition Done (mem0 mem : list Z) (d a b m : Z) : Prop :=
  zlen mem = zlen mem0 /\
  forall i, 0 <= i < zlen mem0 ->
    znth i mem = if (d <=? i) && (i <? d + m)
                 then Z.lxor (znth (a + (i - d)) mem0) (znth (b + (i - d)) mem0)
                 else znth i mem0.

(* the slices lie inside the memory; each source is exactly dst or does not overlap dst[0..n) *)
Record views_ok (mem0 : list Z) (d a b n : Z) : Prop := {
  v_d : 0 <= d /\ d + n <= zlen mem0;
  v_a : 0 <= a /\ a + n <= zlen mem0;
  v_b : 0 <= b /\ b + n <= zlen mem0;
  v_alias_a : a = d \/ a + n <= d \/ d + n <= a;
  v_alias_b : b = d \/ b + n <= d \/ d + n <= b
}.

Lemma Done_start mem0 d a b : Done mem0 mem0 d a b 0.
Proof.
  split; [reflexivity|]. intros i Hi.
  destruct (d <=? i) eqn:E1; destruct (i <? d + 0) eqn:E2; simpl; try reflexivity; lia.
Qed.

Lemma chunk_done mem0 mem d a b n m len : views_ok mem0 d a b n ->
  0 <= m -> 0 <= len -> m + len <= n -> Done mem0 mem d a b m ->
  Done mem0 (xor_chunk mem d a b m len) d a b (m + len).
Proof.
  intros [[D1 D2] [A1 A2] [B1 B2] AA AB] Hm Hl Hml [Hlen Hd].
  unfold xor_chunk.
  assert (La : zlen (mread mem (a + m) len) = len) by (apply zlen_mread; lia).
  assert (Lb : zlen (mread mem (b + m) len) = len) by (apply zlen_mread; lia).
  assert (Lx : zlen (xor_list (mread mem (a + m) len) (mread mem (b + m) len)) = len)
    by (rewrite zlen_xor_list; lia).
  split.
  - rewrite zlen_mwrite; rewrite ?Lx; lia.
  - intros i Hi. rewrite znth_mwrite by (rewrite ?Lx; lia). rewrite Lx.
    destruct ((d + m <=? i) && (i <? d + m + len)) eqn:E.
    + rewrite znth_xor_list by lia.
      rewrite !znth_mread by lia.
      rewrite (Hd (a + m + (i - (d + m)))) by lia.
      rewrite (Hd (b + m + (i - (d + m)))) by lia.
      destruct ((d <=? i) && (i <? d + (m + len))) eqn:E1; [|lia].
      assert (Ea : (d <=? a + m + (i - (d + m))) && (a + m + (i - (d + m)) <? d + m) = false) by lia.
      assert (Eb : (d <=? b + m + (i - (d + m))) && (b + m + (i - (d + m)) <? d + m) = false) by lia.
      rewrite Ea, Eb. f_equal; f_equal; lia.
    + rewrite (Hd i Hi).
      destruct ((d <=? i) && (i <? d + m)) eqn:E1; destruct ((d <=? i) && (i <? d + (m + len))) eqn:E2;
        try reflexivity; lia.
Qed.

Lemma loop_done mem0 d a b n len : views_ok mem0 d a b n -> 0 <= len ->
  forall count mem m, 0 <= m -> m + Z.of_nat count * len <= n -> Done mem0 mem d a b m ->
  Done mem0 (xor_loop count mem d a b m len) d a b (m + Z.of_nat count * len).
Proof.
  intros V Hl. induction count as [|c IH]; intros mem m Hm Hb Dn.
  - cbn [xor_loop]. replace (m + Z.of_nat 0 * len) with m by lia. exact Dn.
  - cbn [xor_loop].
    replace (m + Z.of_nat (S c) * len) with ((m + len) + Z.of_nat c * len) by lia.
    apply IH; try lia. apply (chunk_done mem0 mem d a b n); try assumption; lia.
Qed.

Lemma fast_done mem0 d a b n : views_ok mem0 d a b n -> 0 <= n ->
  Done mem0 (fast_xor mem0 d a b n) d a b n.
Proof.
  intros V Hn. unfold fast_xor, wordSize.
  pose proof (loop_done mem0 d a b n 8 V ltac:(lia) (Z.to_nat (n / 8)) mem0 0 ltac:(lia)) as L1.
  rewrite Z2Nat.id in L1 by lia. specialize (L1 ltac:(lia) (Done_start mem0 d a b)).
  pose proof (loop_done mem0 d a b n 1 V ltac:(lia) (Z.to_nat (n mod 8))
                (xor_loop (Z.to_nat (n / 8)) mem0 d a b 0 8) (n - n mod 8) ltac:(lia)) as L2.
  rewrite Z2Nat.id in L2 by lia.
  replace (n - n mod 8 + n mod 8 * 1) with n in L2 by lia.
  apply L2; [lia|]. replace (n - n mod 8) with (0 + n / 8 * 8) by lia. exact L1.
Qed.

Lemma safe_done mem0 d a b n : views_ok mem0 d a b n -> 0 <= n ->
  Done mem0 (safe_xor mem0 d a b n) d a b n.
Proof.
  intros V Hn. unfold safe_xor.
  pose proof (loop_done mem0 d a b n 1 V ltac:(lia) (Z.to_nat n) mem0 0 ltac:(lia)) as L.
  rewrite Z2Nat.id in L by lia. replace (0 + n * 1) with n in L by lia.
  apply L; [lia|apply Done_start].
Qed.

Theorem xor_bytes_spec ua mem0 d ld a la b lb :
  let n := Z.min la lb in
  0 <= la -> 0 <= lb -> n <= ld ->
  0 <= d -> d + ld <= zlen mem0 -> 0 <= a -> a + la <= zlen mem0 -> 0 <= b -> b + lb <= zlen mem0 ->
  (a = d \/ a + n <= d \/ d + n <= a) -> (b = d \/ b + n <= d \/ d + n <= b) ->
  fst (xor_bytes ua mem0 d ld a la b lb) = n /\
  Done mem0 (snd (xor_bytes ua mem0 d ld a la b lb)) d a b n.
Proof.
  intros n Hla Hlb Hld Hd1 Hd2 Ha1 Ha2 Hb1 Hb2 AA AB. unfold xor_bytes.
  assert (En : (if lb <? la then lb else la) = n) by (unfold n; destruct (lb <? la) eqn:E; lia).
  rewrite En.
  destruct (n =? 0) eqn:E0.
  - simpl. split; [lia|]. replace n with 0 by lia. apply Done_start.
  - assert (V : views_ok mem0 d a b n) by (split; lia).
    destruct (ua || _); simpl; (split; [reflexivity|]).
    + apply fast_done; [assumption|lia].
    + apply safe_done; [assumption|lia].
Qed.
