(* Extraction of every executable model, Spec and oracle to OCaml.
   Only ExtrOcamlBasic is used: bool, option, unit, list, prod, sumbool map to OCaml's own
   types; Z, N, positive, nat stay Coq's inductive datatypes. *)
From Coq Require Import Extraction ExtrOcamlBasic.
From Tx Require Import Common.Base.
From Tx Require ReplayDetector.Model ReplayDetector.Spec.

(* entry points: a request is a list of sections, a section a list of integer lists *)
Definition req := list (list zs).

Definition e_rd_model (r : req) : list zs :=
  match r with
  | (conf :: _) :: ops :: _ => ReplayDetector.Model.rd_run conf ops
  | (conf :: _) :: [] => ReplayDetector.Model.rd_run conf []
  | _ => []
  end.

Definition e_rd_spec (r : req) : list zs :=
  match r with
  | (conf :: _) :: ops :: _ => ReplayDetector.Spec.rd_spec_run conf ops
  | _ => []
  end.

Definition e_rd_oracle (r : req) : list zs :=
  match r with
  | (conf :: _) :: ops :: observed :: _ => [ReplayDetector.Spec.rd_oracle conf ops observed]
  | _ => []
  end.

Extraction Language OCaml.
Extraction "extracted.ml" Z.add Z.mul Z.div_eucl Z.of_nat Z.to_nat
  e_rd_model e_rd_spec e_rd_oracle.
