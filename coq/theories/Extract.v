(* Extraction of every executable model, Spec and oracle to OCaml.
   Only ExtrOcamlBasic is used: bool, option, unit, list, prod, sumbool map to OCaml's own
   types; Z, N, positive, nat stay Coq's inductive datatypes. *)
From Coq Require Import Extraction ExtrOcamlBasic.
From Tx Require Import Common.Base.
From Tx Require ReplayDetector.Model ReplayDetector.Spec ReplayDetector.Words.
From Tx Require PacketIO.Model PacketIO.Spec PacketIO.Conc.
From Tx Require Xor.Model.
From Tx Require Bridge.Model.
From Tx Require Nat.Model Nat.Spec.
From Tx Require Deadline.Model.
From Tx Require Filters.Loss Filters.Tbf Filters.RouterDelay.
From Tx Require VnetAddr.Model.
From Tx Require Ctx.Model.
From Tx Require UdpListener.Conc.
From Tx Require ReplayDetector.Deferred.
From Tx Require Vnet.Network.
From Tx Require ReadDeadline.Model.
From Tx Require UdpListener.Model.

(* entry points: a request is a list of sections, a section a list of integer lists *)
Definition req := list (list zs).

Definition is_fbi (conf : zs) : bool := match conf with k :: _ => Z.eqb k 2 | _ => false end.

Definition e_rd_model (r : req) : list zs :=
  match r with
  | (conf :: _) :: ops :: _ =>
      if is_fbi conf then ReplayDetector.Words.fbi_model_run conf ops
      else match conf with
           | 0%Z :: w :: m :: _ =>   (* plain detector: the runner that also knows kept callbacks (Deferred.v) *)
               ReplayDetector.Deferred.px_run {| ReplayDetector.Model.window := w; ReplayDetector.Model.maxSeq := m |}
                 ReplayDetector.Model.p_init 0%Z [] ops
           | _ => ReplayDetector.Model.rd_run conf ops
           end
  | (conf :: _) :: [] => ReplayDetector.Model.rd_run conf []
  | _ => []
  end.

Definition e_rd_spec (r : req) : list zs :=
  match r with
  | (conf :: _) :: ops :: _ => ReplayDetector.Spec.rd_spec_run conf ops
  | _ => []
  end.

Definition e_rd_oracle (r : req) : list zs :=
  match r with
  | (conf :: _) :: ops :: observed :: _ =>
      if is_fbi conf then [List.map (fun _ => 0%Z) ops]
      else match conf with
           | 0%Z :: w :: m :: _ =>
               [ReplayDetector.Deferred.px_oracle {| ReplayDetector.Model.window := w; ReplayDetector.Model.maxSeq := m |} [] 0%Z [] ops observed]
           | _ => [ReplayDetector.Spec.rd_oracle conf ops observed]
           end
  | _ => []
  end.

Definition e_pio_model (r : req) : list zs :=
  match r with
  | _ :: ops :: _ => PacketIO.Model.pio_run ops
  | _ => []
  end.

Definition e_pio_spec (r : req) : list zs :=
  match r with
  | _ :: ops :: _ => PacketIO.Spec.pio_spec_run ops
  | _ => []
  end.

Definition e_pio_oracle (r : req) : list zs :=
  match r with
  | _ :: ops :: observed :: _ => [PacketIO.Spec.pio_oracle ops observed]
  | _ => []
  end.

Definition e_xor_model (r : req) : list zs :=
  match r with
  | (conf :: _) :: ops :: _ => Xor.Model.xor_run conf ops
  | _ => []
  end.

Definition e_c18_model (r : req) : list zs :=
  match r with
  | (conf :: _) :: ops :: _ => Bridge.Model.c18_run conf ops
  | _ => []
  end.

Definition e_nat_model (r : req) : list zs :=
  match r with
  | (conf :: _) :: ops :: _ => Nat.Model.nat_model_run conf ops
  | _ => []
  end.

Definition e_nat_oracle (r : req) : list zs :=
  match r with
  | (conf :: _) :: ops :: observed :: _ => [Nat.Spec.nat_oracle conf ops observed]
  | _ => []
  end.

Definition e_dl_model (r : req) : list zs :=
  match r with
  | (conf :: _) :: ops :: _ => Deadline.Model.deadline_run conf ops
  | _ => []
  end.

Definition e_loss_model (r : req) : list zs :=
  match r with
  | (conf :: _) :: ops :: _ => Filters.Loss.loss_model_run conf ops
  | _ => []
  end.

Definition e_c13_model (r : req) : list zs :=
  match r with
  | (conf :: _) :: ops :: _ => VnetAddr.Model.c13_run conf ops
  | _ => []
  end.

Definition e_tbf_model (r : req) : list zs :=
  match r with
  | (conf :: _) :: ops :: _ => Filters.Tbf.tbf_model_run conf ops
  | _ => []
  end.

Definition e_rdelay_model (r : req) : list zs :=
  match r with
  | (conf :: _) :: ops :: _ => Filters.RouterDelay.rdelay_run conf ops
  | _ => []
  end.

Definition e_delay_oracle (r : req) : list zs :=
  match r with
  | (conf :: _) :: ops :: observed :: _ => [Filters.RouterDelay.delay_oracle conf ops observed]
  | _ => []
  end.

Definition e_rdl_model (r : req) : list zs :=
  match r with
  | _ :: ops :: _ => ReadDeadline.Model.rdl_run ops
  | _ => []
  end.

Definition e_c08_replay (r : req) : list zs :=
  match r with
  | (conf :: _) :: log :: _ => PacketIO.Conc.c08_replay conf log
  | _ => []
  end.

Definition e_udp_model (r : req) : list zs :=
  match r with
  | (conf :: _) :: ops :: _ => UdpListener.Model.udp_run conf ops
  | _ => []
  end.

Definition e_c17_replay (r : req) : list zs :=
  match r with
  | _ :: log :: _ => Ctx.Model.c17_replay log
  | _ => []
  end.

Definition e_c12_replay (r : req) : list zs :=
  match r with
  | (conf :: _) :: log :: _ => UdpListener.Conc.c12_replay conf log
  | _ => []
  end.

Definition e_net_model (r : req) : list zs :=
  match r with
  | conf :: ops :: _ => Vnet.Network.net_model_run conf ops
  | _ => []
  end.

Extraction Language OCaml.
Extraction "extracted.ml" Z.add Z.mul Z.div_eucl Z.of_nat Z.to_nat
  e_rd_model e_rd_spec e_rd_oracle
  e_pio_model e_pio_spec e_pio_oracle
  e_xor_model e_c18_model e_nat_model e_nat_oracle e_dl_model e_loss_model e_c13_model e_tbf_model e_rdelay_model e_delay_oracle e_rdl_model e_c08_replay e_udp_model e_c17_replay e_net_model e_c12_replay.
