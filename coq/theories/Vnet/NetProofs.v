(* Invariants of the network model over every sequence of events (every interleaving of writers, readers
   and router goroutines, any topology). *)
From Tx Require Import Common.Base Common.ListZ Nat.Model VnetAddr.Model Vnet.Network.

Local Arguments Z.add : simpl never.
Local Arguments Z.sub : simpl never.
Local Arguments Z.of_nat : simpl never.

(* ---- sums over lists with one element replaced ----------------------------------------------------------- *)
Fixpoint sumz {A} (f : A -> Z) (l : list A) : Z :=
  match l with [] => 0 | x :: t => f x + sumz f t end.

Lemma sumz_app {A} (f : A -> Z) a b : sumz f (a ++ b) = sumz f a + sumz f b.
Proof. induction a as [|x a IH]; simpl; [lia|]. rewrite IH. lia. Qed.

Lemma sumz_upd {A} (f : A -> Z) (l : list A) : forall i x y, nth_error l i = Some x ->
  sumz f (upd i y l) = sumz f l - f x + f y.
Proof.
  induction l as [|h t IH]; intros i x y H; destruct i; simpl in *; try discriminate.
  - inversion H; subst. lia.
  - rewrite (IH i x y H). lia.
Qed.

Lemma upd_out {A} (l : list A) : forall i y, nth_error l i = None -> upd i y l = l.
Proof.
  induction l as [|h t IH]; intros i y H; destruct i; simpl in *; try reflexivity; try discriminate.
  rewrite IH; auto.
Qed.

Lemma nth_nth_error {A} (l : list A) i d x : nth i l d = x -> x <> d -> nth_error l i = Some x.
Proof.
  revert i. induction l as [|h t IH]; intros i H Hd; destruct i; simpl in *; try congruence.
  apply IH; assumption.
Qed.

Lemma nth_error_nth' {A} (l : list A) i d x : nth_error l i = Some x -> nth i l d = x.
Proof. revert i. induction l as [|h t IH]; intros i H; destruct i; simpl in *; try discriminate; [congruence|auto]. Qed.

(* ---- occurrences of a datagram identity ---------------------------------------------------------------------- *)
Fixpoint cnt (id : Z) (l : list chunk) : Z :=
  match l with [] => 0 | c :: t => (if c_id c =? id then 1 else 0) + cnt id t end.

Lemma cnt_app id a b : cnt id (a ++ b) = cnt id a + cnt id b.
Proof. induction a as [|x a IH]; simpl; [lia|]. rewrite IH. lia. Qed.

Lemma cnt_nonneg id l : 0 <= cnt id l.
Proof. induction l as [|x l IH]; simpl; [lia|]. destruct (c_id x =? id); lia. Qed.

Definition one (c : chunk) (id : Z) : Z := if c_id c =? id then 1 else 0.

Definition sock_chunks (k : sockst) : list chunk := k_log k ++ k_q k.   (* in delivery order *)

Definition idcount (id : Z) (s : nst) : Z :=
  sumz (cnt id) (n_q s) + sumz (fun k => cnt id (sock_chunks k)) (n_socks s).

Lemma getq_error s r c rest : getq s r = c :: rest -> nth_error (n_q s) r = Some (c :: rest).
Proof. unfold getq. intro H. apply nth_nth_error with (d := []); [assumption|discriminate]. Qed.

Lemma idcount_set_q id s r q q0 : nth_error (n_q s) r = Some q0 ->
  idcount id (set_q s r q) = idcount id s - cnt id q0 + cnt id q.
Proof. intro H. unfold idcount, set_q. simpl. rewrite (sumz_upd _ _ _ _ _ H). lia. Qed.

Lemma idcount_set_q_out id s r q : nth_error (n_q s) r = None -> idcount id (set_q s r q) = idcount id s.
Proof. intro H. unfold idcount, set_q. simpl. rewrite upd_out; auto. Qed.

Lemma idcount_set_nat id s r x : idcount id (set_nat s r x) = idcount id s.
Proof. reflexivity. Qed.

Lemma idcount_set_socks_upd id s i k k' : nth_error (n_socks s) i = Some k ->
  idcount id (set_socks s (upd i k' (n_socks s))) = idcount id s - cnt id (sock_chunks k) + cnt id (sock_chunks k').
Proof. intro H. unfold idcount, set_socks. simpl. rewrite (sumz_upd _ _ _ _ _ H). lia. Qed.

Lemma at_place_id c p : c_id (at_place c p) = c_id c. Proof. reflexivity. Qed.

Lemma push_count id t s r c : idcount id (push t s r c) <= idcount id s + one c id.
Proof.
  unfold push, one. pose proof (cnt_nonneg id []) as _.
  destruct (nth_error (t_routers t) r) as [rt|]; [|destruct (c_id c =? id); lia].
  destruct (n_started s && ((rt_qcap rt <=? 0) || (zlen (getq s r) <? rt_qcap rt))); [|destruct (c_id c =? id); lia].
  destruct (nth_error (n_q s) r) as [q0|] eqn:E.
  - rewrite (idcount_set_q id s r _ q0 E). unfold getq. rewrite (nth_error_nth' _ _ [] _ E).
    rewrite cnt_app. simpl. rewrite ?at_place_id. lia.
  - rewrite idcount_set_q_out by assumption. destruct (c_id c =? id); lia.
Qed.

Lemma push_next t s r c : n_next (push t s r c) = n_next s /\ n_written (push t s r c) = n_written s.
Proof.
  unfold push. destruct (nth_error (t_routers t) r); [|auto].
  destruct (n_started s && _); auto.
Qed.

Lemma deliver_count id s h c : idcount id (deliver_host s h c) <= idcount id s + one c id.
Proof.
  unfold deliver_host, one.
  destruct (find_sock_idx s h (fst (c_dst c)) (snd (c_dst c))) as [i|]; [|destruct (c_id c =? id); lia].
  destruct (nth_error (n_socks s) i) as [k|] eqn:E; [|destruct (c_id c =? id); lia].
  destruct (zlen (k_q k) <? readq_cap); [|destruct (c_id c =? id); lia].
  rewrite (idcount_set_socks_upd id s i k _ E). unfold sock_chunks, with_q. simpl.
  rewrite !cnt_app. simpl. rewrite ?at_place_id. lia.
Qed.

Lemma deliver_next s h c : n_next (deliver_host s h c) = n_next s /\ n_written (deliver_host s h c) = n_written s.
Proof.
  unfold deliver_host. destruct (find_sock_idx _ _ _ _); [|auto].
  destruct (nth_error _ _); [|auto]. destruct (_ <? _); auto.
Qed.

Lemma route_count id t s r : idcount id (route t s r) <= idcount id s.
Proof.
  unfold route.
  destruct (nth_error (t_routers t) r) as [rt|]; [|lia].
  destruct (getq s r) as [|c rest] eqn:Eq; [lia|].
  destruct (negb (n_started s)); [lia|].
  pose proof (getq_error s r c rest Eq) as Hq.
  assert (H1 : idcount id (set_q s r rest) = idcount id s - one c id).
  { rewrite (idcount_set_q id s r rest _ Hq). simpl. unfold one. lia. }
  assert (H0 : 0 <= one c id) by (unfold one; destruct (c_id c =? id); lia).
  destruct (in_subnet rt (fst (c_dst c))).
  - destruct (lookup_nic (rt_nics rt) (fst (c_dst c))) as [[h|r2]|]; [| |lia].
    + pose proof (deliver_count id (set_q s r rest) h c). lia.
    + destruct (translate_in _ _ _ _) as [n' res].
      destruct res as [a| |]; try (rewrite idcount_set_nat; lia).
      pose proof (push_count id t (set_nat (set_q s r rest) r2 n') r2 (re_dst c a)) as P.
      rewrite idcount_set_nat in P. unfold one in *. simpl in P. lia.
  - destruct (rt_parent rt) as [p|]; [|lia].
    destruct (translate_out _ _ _ _) as [n' res].
    destruct res as [a| |]; try (rewrite idcount_set_nat; lia).
    pose proof (push_count id t (set_nat (set_q s r rest) r n') p (re_src c a)) as P.
    rewrite idcount_set_nat in P. unfold one in *. simpl in P. lia.
Qed.

Lemma route_next t s r : n_next (route t s r) = n_next s /\ n_written (route t s r) = n_written s.
Proof.
  unfold route.
  destruct (nth_error (t_routers t) r) as [rt|]; [|auto].
  destruct (getq s r) as [|c rest]; [auto|].
  destruct (negb (n_started s)); [auto|].
  destruct (in_subnet rt (fst (c_dst c))).
  - destruct (lookup_nic _ _) as [[h|r2]|]; [| |auto].
    + destruct (deliver_next (set_q s r rest) h c) as [A B]. rewrite A, B. auto.
    + destruct (translate_in _ _ _ _) as [n' res]. destruct res as [a| |]; try (split; reflexivity).
      destruct (push_next t (set_nat (set_q s r rest) r2 n') r2 (re_dst c a)) as [A B]. rewrite A, B. auto.
  - destruct (rt_parent rt) as [p|]; [|auto].
    destruct (translate_out _ _ _ _) as [n' res]. destruct res as [a| |]; try (split; reflexivity).
    destruct (push_next t (set_nat (set_q s r rest) r n') p (re_src c a)) as [A B]. rewrite A, B. auto.
Qed.

Lemma cnt_take_matching id rem q : forall got rest, take_matching rem q = (got, rest) ->
  cnt id (match got with Some c => [c] | None => [] end) + cnt id rest <= cnt id q.
Proof.
  induction q as [|c q IH]; intros got rest H; simpl in H.
  - inversion H; subst. simpl. lia.
  - destruct rem as [a|].
    + destruct (ep_eqb (c_src c) a).
      * inversion H; subst. simpl. lia.
      * specialize (IH got rest H). simpl. destruct (c_id c =? id); lia.
    + inversion H; subst. simpl. lia.
Qed.

Lemma read_count id s k : idcount id (fst (read s k)) <= idcount id s.
Proof.
  unfold read. destruct (nth_error (n_socks s) k) as [kk|] eqn:E; [|simpl; lia].
  destruct (take_matching (k_rem kk) (k_q kk)) as [got rest] eqn:Et. simpl.
  rewrite (idcount_set_socks_upd id s k kk _ E). unfold sock_chunks. simpl.
  pose proof (cnt_take_matching id _ _ _ _ Et) as H.
  rewrite !cnt_app. destruct got as [c|]; simpl in *; rewrite ?cnt_app; simpl; lia.
Qed.

Lemma write_count t s k dst data :
  fst (write t s k dst data) = s \/
  (n_next (fst (write t s k dst data)) = n_next s + 1 /\
   forall id, idcount id (fst (write t s k dst data)) <= idcount id s + (if id =? n_next s then 1 else 0)).
Proof.
  unfold write. destruct (nth_error (n_socks s) k) as [kk|]; [|left; reflexivity].
  set (dst' := match k_rem kk with Some a => a | None => dst end).
  destruct (source_ip t kk (fst dst')) as [sip|]; [|left; reflexivity].
  set (c := {| c_id := n_next s; c_src := (sip, k_port kk); c_dst := dst'; c_data := data; c_trail := [] |}).
  set (s0 := {| n_now := n_now s; n_next := n_next s + 1; n_started := n_started s; n_q := n_q s; n_nat := n_nat s;
                n_socks := n_socks s; n_written := n_written s ++ [c] |}).
  assert (H0 : forall id, idcount id s0 = idcount id s) by reflexivity.
  assert (Ho : forall id, one c id = if id =? n_next s then 1 else 0).
  { intro id. unfold one. simpl. rewrite (Z.eqb_sym id). reflexivity. }
  destruct (is_loopback (fst dst')).
  - right. simpl. destruct (deliver_next s0 (k_host kk) c) as [Hn _]. split; [rewrite Hn; reflexivity|].
    intro id. pose proof (deliver_count id s0 (k_host kk) c). rewrite <- Ho, <- H0. assumption.
  - destruct (nth_error (t_hosts t) (k_host kk)) as [[[r|] ips]|]; simpl; try (left; reflexivity).
    right. destruct (push_next t s0 r c) as [Hn _]. split; [rewrite Hn; reflexivity|].
    intro id. pose proof (push_count id t s0 r c). rewrite <- Ho, <- H0. assumption.
Qed.

Lemma bind_count id t s h ip port rem : idcount id (fst (bind_sock t s h ip port rem)) = idcount id s /\
  n_next (fst (bind_sock t s h ip port rem)) = n_next s.
Proof.
  unfold bind_sock. destruct (negb (host_has_ip t h ip)); [auto|].
  destruct (existsb _ _); [auto|]. simpl. unfold idcount. simpl. rewrite sumz_app. simpl. split; [lia|reflexivity].
Qed.

Lemma close_count id s k : idcount id (close s k) = idcount id s /\ n_next (close s k) = n_next s.
Proof.
  unfold close. destruct (nth_error (n_socks s) k) as [kk|] eqn:E; [|auto].
  split; [|reflexivity]. rewrite (idcount_set_socks_upd id s k kk _ E). unfold sock_chunks. simpl. lia.
Qed.

(* ---- at most once ------------------------------------------------------------------------------------------------ *)
Definition AtMostOnce (s : nst) : Prop :=
  0 <= n_next s /\ forall id, idcount id s <= (if (0 <=? id) && (id <? n_next s) then 1 else 0).

Lemma amo_init t nats : AtMostOnce (n_init t nats).
Proof.
  split; [simpl; lia|]. intro id. unfold idcount, n_init. simpl.
  assert (H : forall (l : list rtopo), sumz (cnt id) (map (fun _ => []) l) = 0).
  { induction l; simpl; lia. }
  rewrite H. simpl. destruct ((0 <=? id) && (id <? 0)); lia.
Qed.

Lemma amo_step t s e : AtMostOnce s -> AtMostOnce (nstep t s e).
Proof.
  intros [Hn H]. destruct e as [k dst data|r|k|h ip port rem|k|dt| |]; cbn [nstep]; unfold AtMostOnce.
  - destruct (write_count t s k dst data) as [Hw|[Hx Hc]].
    + rewrite Hw. split; assumption.
    + rewrite Hx. split; [lia|]. intro id. specialize (Hc id). specialize (H id).
      destruct (id =? n_next s) eqn:Eid.
      * apply Z.eqb_eq in Eid. subst id.
        assert (E1 : (0 <=? n_next s) && (n_next s <? n_next s) = false) by lia. rewrite E1 in H.
        assert (E2 : (0 <=? n_next s) && (n_next s <? n_next s + 1) = true) by lia. rewrite E2. lia.
      * assert (Hne : id <> n_next s) by (apply Z.eqb_neq; assumption).
        destruct ((0 <=? id) && (id <? n_next s)) eqn:E1.
        -- assert (E2 : (0 <=? id) && (id <? n_next s + 1) = true) by lia. rewrite E2. lia.
        -- assert (E2 : (0 <=? id) && (id <? n_next s + 1) = false) by lia. rewrite E2. lia.
  - destruct (route_next t s r) as [Hx _]. rewrite Hx. split; [assumption|]. intro id.
    pose proof (route_count id t s r). specialize (H id). lia.
  - assert (Hx : n_next (fst (read s k)) = n_next s).
    { unfold read. destruct (nth_error (n_socks s) k); [|reflexivity]. destruct (take_matching _ _). reflexivity. }
    rewrite Hx. split; [assumption|]. intro id. pose proof (read_count id s k). specialize (H id). lia.
  - split; [destruct (bind_count 0 t s h ip port rem) as [_ Hx]; rewrite Hx; assumption|].
    intro id. destruct (bind_count id t s h ip port rem) as [Hc Hx]. rewrite Hc, Hx. apply H.
  - split; [destruct (close_count 0 s k) as [_ Hx]; rewrite Hx; assumption|].
    intro id. destruct (close_count id s k) as [Hc Hx]. rewrite Hc, Hx. apply H.
  - split; [assumption|]. intro id. apply H.
  - split; [assumption|]. intro id. apply H.
  - split; [assumption|]. intro id. apply H.
Qed.

Theorem amo_run t h : forall s, AtMostOnce s -> AtMostOnce (nrun t s h).
Proof. induction h as [|e h IH]; intros s I; [exact I|]. simpl. apply IH. apply amo_step. assumption. Qed.

(* ---- what sits where ------------------------------------------------------------------------------------------------ *)
Definition places (s : nst) : list chunk := concat (n_q s) ++ flat_map sock_chunks (n_socks s).

Lemma in_concat_upd {A} (x : A) (ll : list (list A)) : forall i y, In x (concat (upd i y ll)) -> In x (concat ll) \/ In x y.
Proof.
  induction ll as [|h t IH]; intros i y H; destruct i; simpl in *; try tauto.
  - apply in_app_iff in H. destruct H; [right|left; apply in_app_iff; right]; assumption.
  - apply in_app_iff in H. destruct H as [H|H]; [left; apply in_app_iff; left; assumption|].
    destruct (IH _ _ H); [left; apply in_app_iff; right|right]; assumption.
Qed.

Lemma in_flat_upd {A B} (f : A -> list B) (x : B) (l : list A) : forall i y, In x (flat_map f (upd i y l)) -> In x (flat_map f l) \/ In x (f y).
Proof.
  induction l as [|h t IH]; intros i y H; destruct i; simpl in *; try tauto.
  - apply in_app_iff in H. destruct H; [right|left; apply in_app_iff; right]; assumption.
  - apply in_app_iff in H. destruct H as [H|H]; [left; apply in_app_iff; left; assumption|].
    destruct (IH _ _ H); [left; apply in_app_iff; right|right]; assumption.
Qed.

Lemma nth_error_upd {A} (l : list A) : forall i j y, nth_error (upd i y l) j =
  if Nat.eqb i j then match nth_error l j with Some _ => Some y | None => None end else nth_error l j.
Proof.
  induction l as [|h t IH]; intros i j y; destruct i, j; simpl; try reflexivity.
  - destruct (Nat.eqb i j); reflexivity.
  - apply IH.
Qed.

Lemma in_concat_nth {A} (ll : list (list A)) i l x : nth_error ll i = Some l -> In x l -> In x (concat ll).
Proof.
  revert i. induction ll as [|h t IH]; intros i H Hin; destruct i; simpl in *; try discriminate.
  - inversion H; subst. apply in_app_iff. left. assumption.
  - apply in_app_iff. right. eapply IH; eauto.
Qed.

Lemma in_flat_nth {A B} (f : A -> list B) (l : list A) i k x : nth_error l i = Some k -> In x (f k) -> In x (flat_map f l).
Proof.
  revert i. induction l as [|h t IH]; intros i H Hin; destruct i; simpl in *; try discriminate.
  - inversion H; subst. apply in_app_iff. left. assumption.
  - apply in_app_iff. right. eapply IH; eauto.
Qed.

Lemma find_idx_spec {A} (p : A -> bool) (l : list A) : forall n i, find_idx p l n = Some i ->
  exists k, nth_error l (i - n) = Some k /\ p k = true /\ (n <= i)%nat.
Proof.
  induction l as [|x t IH]; intros n i H; simpl in H; [discriminate|].
  destruct (p x) eqn:E.
  - inversion H; subst. exists x. rewrite Nat.sub_diag. simpl. auto.
  - destruct (IH _ _ H) as [k [Hk [Hp Hle]]]. exists k. split; [|split; [assumption|lia]].
    replace (i - n)%nat with (S (i - S n)) by lia. simpl. assumption.
Qed.

(* same datagram: identity and payload *)
Definition same_dgram (a b : chunk) : Prop := c_id a = c_id b /\ c_data a = c_data b.

Lemma same_refl a : same_dgram a a. Proof. split; reflexivity. Qed.
Lemma same_at_place c p : same_dgram (at_place c p) c. Proof. split; reflexivity. Qed.

(* every step only moves datagrams (or drops them); a write adds the written one *)
Lemma push_places t s r c x : In x (places (push t s r c)) -> In x (places s) \/ x = at_place c (place_router r).
Proof.
  unfold push. destruct (nth_error (t_routers t) r) as [rt|]; [|auto].
  destruct (n_started s && _); [|auto].
  unfold places, set_q. simpl. intro H. apply in_app_iff in H. destruct H as [H|H].
  - apply in_concat_upd in H. destruct H as [H|H].
    + left. apply in_app_iff. left. assumption.
    + apply in_app_iff in H. destruct H as [H|[H|[]]]; [|right; auto].
      left. apply in_app_iff. left. unfold getq in H.
      destruct (nth_error (n_q s) r) as [q0|] eqn:E.
      * rewrite (nth_error_nth' _ _ [] _ E) in H. eapply in_concat_nth; eauto.
      * rewrite (nth_overflow) in H; [destruct H|]. apply nth_error_None. assumption.
  - left. apply in_app_iff. right. assumption.
Qed.

Lemma deliver_places s h c x : In x (places (deliver_host s h c)) ->
  In x (places s) \/ exists i k, find_sock_idx s h (fst (c_dst c)) (snd (c_dst c)) = Some i /\ nth_error (n_socks s) i = Some k /\
                                   x = at_place c (place_sock i).
Proof.
  unfold deliver_host. destruct (find_sock_idx s h _ _) as [i|] eqn:Ef; [|auto].
  destruct (nth_error (n_socks s) i) as [k|] eqn:E; [|auto].
  destruct (zlen (k_q k) <? readq_cap); [|auto].
  unfold places, set_socks. simpl. intro H. apply in_app_iff in H. destruct H as [H|H].
  - left. apply in_app_iff. left. assumption.
  - apply in_flat_upd in H. destruct H as [H|H].
    + left. apply in_app_iff. right. assumption.
    + unfold sock_chunks, with_q in H. simpl in H. apply in_app_iff in H. destruct H as [H|H].
      * left. apply in_app_iff. right. eapply in_flat_nth; eauto. unfold sock_chunks. apply in_app_iff. left. assumption.
      * apply in_app_iff in H. destruct H as [H|[H|[]]].
        -- left. apply in_app_iff. right. eapply in_flat_nth; eauto. unfold sock_chunks. apply in_app_iff. right. assumption.
        -- right. exists i, k. auto.
Qed.

Lemma places_set_q_tail s r c rest x : getq s r = c :: rest -> In x (places (set_q s r rest)) -> In x (places s).
Proof.
  intros Hq H. pose proof (getq_error s r c rest Hq) as E. unfold places, set_q in *. simpl in *.
  apply in_app_iff in H. destruct H as [H|H]; [|apply in_app_iff; right; assumption].
  apply in_app_iff. left. apply in_concat_upd in H. destruct H as [H|H]; [assumption|].
  eapply in_concat_nth; eauto. right. assumption.
Qed.

Lemma head_in_places s r c rest : getq s r = c :: rest -> In c (places s).
Proof.
  intro Hq. pose proof (getq_error s r c rest Hq) as E. unfold places. apply in_app_iff. left.
  eapply in_concat_nth; eauto. left. reflexivity.
Qed.

Lemma route_places t s r x : In x (places (route t s r)) ->
  In x (places s) \/ exists c, In c (places s) /\ same_dgram x c.
Proof.
  unfold route.
  destruct (nth_error (t_routers t) r) as [rt|]; [|auto].
  destruct (getq s r) as [|c rest] eqn:Eq; [auto|].
  destruct (negb (n_started s)); [auto|].
  pose proof (head_in_places s r c rest Eq) as Hc.
  destruct (in_subnet rt (fst (c_dst c))).
  - destruct (lookup_nic (rt_nics rt) (fst (c_dst c))) as [[h|r2]|].
    + intro H. apply deliver_places in H. destruct H as [H|[i [k [_ [_ H]]]]].
      * left. eapply places_set_q_tail; eauto.
      * right. exists c. split; [assumption|]. subst x. apply same_at_place.
    + destruct (translate_in _ _ _ _) as [n' res]. destruct res as [a| |].
      * intro H. apply push_places in H. destruct H as [H|H].
        -- left. eapply places_set_q_tail; eauto.
        -- right. exists c. split; [assumption|]. subst x. split; reflexivity.
      * intro H. left. eapply places_set_q_tail; eauto.
      * intro H. left. eapply places_set_q_tail; eauto.
    + intro H. left. eapply places_set_q_tail; eauto.
  - destruct (rt_parent rt) as [p|].
    + destruct (translate_out _ _ _ _) as [n' res]. destruct res as [a| |].
      * intro H. apply push_places in H. destruct H as [H|H].
        -- left. eapply places_set_q_tail; eauto.
        -- right. exists c. split; [assumption|]. subst x. split; reflexivity.
      * intro H. left. eapply places_set_q_tail; eauto.
      * intro H. left. eapply places_set_q_tail; eauto.
    + intro H. left. eapply places_set_q_tail; eauto.
Qed.

Lemma take_matching_in rem q : forall got rest, take_matching rem q = (got, rest) ->
  (forall x, In x rest -> In x q) /\ (forall c, got = Some c -> In c q /\ (forall a, rem = Some a -> c_src c = a)).
Proof.
  induction q as [|c q IH]; intros got rest H; simpl in H.
  - inversion H; subst. split; [auto|]. intros c0 Hc. discriminate.
  - destruct rem as [a|].
    + destruct (ep_eqb (c_src c) a) eqn:Ee.
      * inversion H; subst. split; [intros; right; assumption|].
        intros c0 Hc. inversion Hc; subst. split; [left; reflexivity|].
        intros a0 Ha. inversion Ha; subst. unfold ep_eqb in Ee. apply andb_prop in Ee. destruct Ee as [E1 E2].
        apply Z.eqb_eq in E1. apply Z.eqb_eq in E2. destruct (c_src c0), a0. simpl in *. congruence.
      * destruct (IH got rest H) as [A B]. split; [intros; right; auto|].
        intros c0 Hc. destruct (B c0 Hc) as [B1 B2]. split; [right; assumption|assumption].
    + inversion H; subst. split; [intros; right; assumption|].
      intros c0 Hc. inversion Hc; subst. split; [left; reflexivity|]. intros a Ha. discriminate.
Qed.

Lemma read_places s k x : In x (places (fst (read s k))) -> In x (places s).
Proof.
  unfold read. destruct (nth_error (n_socks s) k) as [kk|] eqn:E; [|auto].
  destruct (take_matching (k_rem kk) (k_q kk)) as [got rest] eqn:Et. simpl.
  destruct (take_matching_in _ _ _ _ Et) as [A B].
  unfold places, set_socks. simpl. intro H. apply in_app_iff in H. destruct H as [H|H]; [apply in_app_iff; left; assumption|].
  apply in_app_iff. right. apply in_flat_upd in H. destruct H as [H|H]; [assumption|].
  eapply in_flat_nth; eauto. unfold sock_chunks in *. simpl in H. apply in_app_iff in H. apply in_app_iff.
  destruct H as [H|H].
  - destruct got as [c|]; [|left; assumption]. apply in_app_iff in H. destruct H as [H|[H|[]]]; [left; assumption|].
    subst x. right. apply (B c eq_refl).
  - right. auto.
Qed.

(* ---- payload integrity ---------------------------------------------------------------------------------------------------- *)
Definition from_written (s : nst) (c : chunk) : Prop := exists w, In w (n_written s) /\ same_dgram c w.

Definition Intact (s : nst) : Prop :=
  (forall c, In c (places s) -> from_written s c) /\
  (forall i w, nth_error (n_written s) i = Some w -> c_id w = Z.of_nat i) /\
  n_next s = zlen (n_written s).

Lemma intact_init t nats : Intact (n_init t nats).
Proof.
  split; [|split].
  - intros c H. unfold places, n_init in H. simpl in H. rewrite app_nil_r in H. exfalso.
    induction (t_routers t); simpl in H; auto.
  - intros i w H. destruct i; discriminate.
  - reflexivity.
Qed.

Lemma intact_step t s e : Intact s -> Intact (nstep t s e).
Proof.
  intros [P [W N]]. destruct e as [k dst data|r|k|h ip port rem|k|dt| |]; cbn [nstep].
  - (* write *)
    unfold write. destruct (nth_error (n_socks s) k) as [kk|]; [|split; auto].
    set (dst' := match k_rem kk with Some a => a | None => dst end).
    destruct (source_ip t kk (fst dst')) as [sip|]; [|split; auto].
    set (c := {| c_id := n_next s; c_src := (sip, k_port kk); c_dst := dst'; c_data := data; c_trail := [] |}).
    set (s0 := {| n_now := n_now s; n_next := n_next s + 1; n_started := n_started s; n_q := n_q s; n_nat := n_nat s;
                  n_socks := n_socks s; n_written := n_written s ++ [c] |}).
    assert (I0 : Intact s0).
    { split; [|split].
      - intros x H. destruct (P x H) as [w [Hw Hs]]. exists w. split; [apply in_app_iff; left; assumption|assumption].
      - intros i w H. simpl in H. destruct (Nat.lt_ge_cases i (length (n_written s))) as [Hl|Hl].
        + rewrite nth_error_app1 in H by assumption. auto.
        + rewrite nth_error_app2 in H by assumption. destruct (i - length (n_written s))%nat eqn:Ei; simpl in H.
          * inversion H; subst. simpl. rewrite N. unfold zlen. f_equal. lia.
          * destruct n; discriminate.
      - simpl. rewrite zlen_app, N. reflexivity. }
    assert (Hc : from_written s0 c).
    { exists c. split; [simpl; apply in_app_iff; right; left; reflexivity|apply same_refl]. }
    destruct I0 as [P0 [W0 N0]].
    assert (Hmove : forall s1, n_written s1 = n_written s0 -> n_next s1 = n_next s0 ->
              (forall x, In x (places s1) -> In x (places s0) \/ same_dgram x c) -> Intact s1).
    { intros s1 Hw Hn Hx. split; [|split].
      - intros x H. destruct (Hx x H) as [H1|H1].
        + destruct (P0 x H1) as [w [Hw1 Hs1]]. exists w. rewrite Hw. auto.
        + destruct Hc as [w [Hw1 Hs1]]. exists w. rewrite Hw. split; [assumption|].
          destruct H1, Hs1. split; congruence.
      - rewrite Hw. assumption.
      - rewrite Hw, Hn. assumption. }
    destruct (is_loopback (fst dst')).
    + simpl. destruct (deliver_next s0 (k_host kk) c) as [A B]. apply Hmove; [assumption|assumption|].
      intros x H. apply deliver_places in H. destruct H as [H|[i [k0 [_ [_ H]]]]]; [left; assumption|].
      right. subst x. apply same_at_place.
    + destruct (nth_error (t_hosts t) (k_host kk)) as [[[r|] ips]|]; simpl; try (split; [assumption|split; assumption]).
      destruct (push_next t s0 r c) as [A B]. apply Hmove; [assumption|assumption|].
      intros x H. apply push_places in H. destruct H as [H|H]; [left; assumption|]. right. subst x. apply same_at_place.
  - (* route *)
    destruct (route_next t s r) as [A B]. split; [|split].
    + intros x H. apply route_places in H. destruct H as [H|[c [Hc Hs]]].
      * destruct (P x H) as [w [Hw Hs]]. exists w. rewrite B. auto.
      * destruct (P c Hc) as [w [Hw Hs2]]. exists w. rewrite B. split; [assumption|].
        destruct Hs, Hs2. split; congruence.
    + rewrite B. assumption.
    + rewrite A, B. assumption.
  - (* read *)
    assert (Hx : n_next (fst (read s k)) = n_next s /\ n_written (fst (read s k)) = n_written s).
    { unfold read. destruct (nth_error (n_socks s) k); [|auto]. destruct (take_matching _ _). auto. }
    destruct Hx as [A B]. split; [|split].
    + intros x H. apply read_places in H. destruct (P x H) as [w [Hw Hs]]. exists w. rewrite B. auto.
    + rewrite B. assumption.
    + rewrite A, B. assumption.
  - (* bind *)
    unfold bind_sock. destruct (negb (host_has_ip t h ip)); [split; auto|].
    destruct (existsb _ _); [split; auto|]. simpl. split; [|split; assumption].
    intros x H. apply P. unfold places in *. simpl in *. rewrite flat_map_app in H. simpl in H.
    rewrite !app_nil_r in H. assumption.
  - (* close *)
    unfold close. destruct (nth_error (n_socks s) k) as [kk|] eqn:E; [|split; auto].
    split; [|split; assumption]. intros x H. apply P. unfold places, set_socks in *. simpl in *.
    apply in_app_iff in H. apply in_app_iff. destruct H as [H|H]; [left; assumption|right].
    apply in_flat_upd in H. destruct H as [H|H]; [assumption|]. eapply in_flat_nth; eauto.
  - split; auto.
  - split; auto.
  - split; auto.
Qed.

Theorem intact_run t h : forall s, Intact s -> Intact (nrun t s h).
Proof. induction h as [|e h IH]; intros s I; [exact I|]. simpl. apply IH. apply intact_step. assumption. Qed.

(* ---- where a chunk is, its trail says; a socket holds only datagrams addressed to it ----------------------------------- *)
Definition covers_sock (k : sockst) (c : chunk) : Prop :=
  k_port k = snd (c_dst c) /\ (fst (c_dst c) = 0 \/ k_ip k = 0 \/ k_ip k = fst (c_dst c)).

Definition ends_at (c : chunk) (p : Z) : Prop := exists T, c_trail c = T ++ [p].

Record PlaceInv (s : nst) : Prop := {
  pi_sock : forall i k c, nth_error (n_socks s) i = Some k -> In c (sock_chunks k) ->
                          covers_sock k c /\ ends_at c (place_sock i);
  pi_conn : forall i k c a, nth_error (n_socks s) i = Some k -> In c (k_log k) -> k_rem k = Some a -> c_src c = a;
  pi_queue : forall r q c, nth_error (n_q s) r = Some q -> In c q -> ends_at c (place_router r)
}.

Lemma nth_error_map_nil {A} (l : list A) r (q : list chunk) : nth_error (map (fun _ => []) l) r = Some q -> q = [].
Proof. revert r. induction l as [|x l IH]; intros r H; destruct r; simpl in H; try discriminate; [congruence|eauto]. Qed.

Lemma pinv_init t nats : PlaceInv (n_init t nats).
Proof.
  split; simpl.
  - intros i k c H. destruct i; discriminate.
  - intros i k c a H. destruct i; discriminate.
  - intros r q c H Hin. apply nth_error_map_nil in H. subst. destruct Hin.
Qed.

Lemma sock_covers_spec h ip port k : sock_covers h ip port k = true ->
  k_open k = true /\ k_host k = h /\ k_port k = port /\ (ip = 0 \/ k_ip k = 0 \/ k_ip k = ip).
Proof.
  unfold sock_covers, covers. simpl. intro H.
  apply andb_prop in H. destruct H as [H H3]. apply andb_prop in H. destruct H as [H1 H2].
  apply andb_prop in H3. destruct H3 as [H3 H4]. apply Nat.eqb_eq in H2. apply Z.eqb_eq in H3.
  repeat split; try assumption. apply orb_prop in H4. destruct H4 as [H4|H4].
  - apply orb_prop in H4. destruct H4 as [H4|H4]; apply Z.eqb_eq in H4; auto.
  - apply Z.eqb_eq in H4. auto.
Qed.

Lemma pinv_push t s r c : PlaceInv s -> PlaceInv (push t s r c).
Proof.
  intros [A B C]. unfold push. destruct (nth_error (t_routers t) r) as [rt|]; [|split; assumption].
  destruct (n_started s && _); [|split; assumption].
  split; simpl; try assumption.
  intros r0 q c0 H Hin. rewrite nth_error_upd in H. destruct (Nat.eqb r r0) eqn:E.
  - apply Nat.eqb_eq in E. subst r0. destruct (nth_error (n_q s) r) as [q0|] eqn:E0; [|discriminate].
    inversion H; subst q. unfold getq in Hin. rewrite (nth_error_nth' _ _ [] _ E0) in Hin.
    apply in_app_iff in Hin. destruct Hin as [Hin|[Hin|[]]]; [eapply C; eauto|].
    subst c0. exists (c_trail c). reflexivity.
  - eapply C; eauto.
Qed.

Lemma pinv_deliver s h c : PlaceInv s -> PlaceInv (deliver_host s h c).
Proof.
  intros [A B C]. unfold deliver_host.
  destruct (find_sock_idx s h (fst (c_dst c)) (snd (c_dst c))) as [i|] eqn:Ef; [|split; assumption].
  destruct (nth_error (n_socks s) i) as [k|] eqn:E; [|split; assumption].
  destruct (zlen (k_q k) <? readq_cap); [|split; assumption].
  unfold find_sock_idx in Ef. destruct (find_idx_spec _ _ _ _ Ef) as [k0 [Hk0 [Hp _]]].
  rewrite Nat.sub_0_r in Hk0. rewrite E in Hk0. inversion Hk0; subst k0.
  destruct (sock_covers_spec _ _ _ _ Hp) as [_ [_ [Hport Hip]]].
  split; simpl; try assumption.
  - intros j k1 c0 H Hin. rewrite nth_error_upd in H. destruct (Nat.eqb i j) eqn:Ej.
    + apply Nat.eqb_eq in Ej. subst j. rewrite E in H. inversion H; subst k1.
      unfold sock_chunks, with_q in Hin. simpl in Hin. apply in_app_iff in Hin. destruct Hin as [Hin|Hin].
      * apply (A i k c0 E). unfold sock_chunks. apply in_app_iff. left. assumption.
      * apply in_app_iff in Hin. destruct Hin as [Hin|[Hin|[]]].
        -- apply (A i k c0 E). unfold sock_chunks. apply in_app_iff. right. assumption.
        -- subst c0. split; [split; simpl; assumption|]. exists (c_trail c). reflexivity.
    + eapply A; eauto.
  - intros j k1 c0 a H Hin Hr. rewrite nth_error_upd in H. destruct (Nat.eqb i j) eqn:Ej.
    + apply Nat.eqb_eq in Ej. subst j. rewrite E in H. inversion H; subst k1. simpl in *. eapply B; eauto.
    + eapply B; eauto.
Qed.

Lemma pinv_set_q_tail s r c rest : getq s r = c :: rest -> PlaceInv s -> PlaceInv (set_q s r rest).
Proof.
  intros Hq [A B C]. pose proof (getq_error s r c rest Hq) as E. split; simpl; try assumption.
  intros r0 q c0 H Hin. rewrite nth_error_upd in H. destruct (Nat.eqb r r0) eqn:E1.
  - apply Nat.eqb_eq in E1. subst r0. rewrite E in H. inversion H; subst q. eapply C; eauto. right. assumption.
  - eapply C; eauto.
Qed.

Lemma pinv_set_nat s r x : PlaceInv s -> PlaceInv (set_nat s r x).
Proof. intros [A B C]. split; assumption. Qed.

Lemma ends_at_re_dst c a p : ends_at c p -> ends_at (re_dst c a) p. Proof. auto. Qed.

Lemma pinv_route t s r : PlaceInv s -> PlaceInv (route t s r).
Proof.
  intro I. unfold route.
  destruct (nth_error (t_routers t) r) as [rt|]; [|assumption].
  destruct (getq s r) as [|c rest] eqn:Eq; [assumption|].
  destruct (negb (n_started s)); [assumption|].
  pose proof (pinv_set_q_tail s r c rest Eq I) as I1.
  destruct (in_subnet rt (fst (c_dst c))).
  - destruct (lookup_nic (rt_nics rt) (fst (c_dst c))) as [[h|r2]|]; [| |assumption].
    + apply pinv_deliver. assumption.
    + destruct (translate_in _ _ _ _) as [n' res]. destruct res as [a| |]; try (apply pinv_set_nat; assumption).
      apply pinv_push. apply pinv_set_nat. assumption.
  - destruct (rt_parent rt) as [p|]; [|assumption].
    destruct (translate_out _ _ _ _) as [n' res]. destruct res as [a| |]; try (apply pinv_set_nat; assumption).
    apply pinv_push. apply pinv_set_nat. assumption.
Qed.

Lemma pinv_step t s e : PlaceInv s -> PlaceInv (nstep t s e).
Proof.
  intro I. destruct e as [k dst data|r|k|h ip port rem|k|dt| |]; cbn [nstep].
  - unfold write. destruct (nth_error (n_socks s) k) as [kk|]; [|assumption].
    set (dst' := match k_rem kk with Some a => a | None => dst end).
    destruct (source_ip t kk (fst dst')) as [sip|]; [|assumption].
    match goal with |- context [deliver_host ?s0 _ ?c] => assert (I0 : PlaceInv s0) by (destruct I as [A B C]; split; assumption) end.
    destruct (is_loopback (fst dst')).
    + simpl. apply pinv_deliver. assumption.
    + destruct (nth_error (t_hosts t) (k_host kk)) as [[[r|] ips]|]; simpl; try assumption.
      apply pinv_push. assumption.
  - apply pinv_route. assumption.
  - unfold read. destruct (nth_error (n_socks s) k) as [kk|] eqn:E; [|assumption].
    destruct (take_matching (k_rem kk) (k_q kk)) as [got rest] eqn:Et. simpl.
    destruct (take_matching_in _ _ _ _ Et) as [TA TB]. destruct I as [A B C].
    split; simpl; try assumption.
    + intros j k1 c0 H Hin. rewrite nth_error_upd in H. destruct (Nat.eqb k j) eqn:Ej; [|eapply A; eauto].
      apply Nat.eqb_eq in Ej. subst j. rewrite E in H. inversion H; subst k1. clear H.
      unfold sock_chunks in Hin. simpl in Hin.
      assert (Hold : In c0 (sock_chunks kk)).
      { unfold sock_chunks. apply in_app_iff in Hin. apply in_app_iff. destruct Hin as [Hin|Hin]; [|right; auto].
        destruct got as [c|]; [|left; assumption]. apply in_app_iff in Hin. destruct Hin as [Hin|[Hin|[]]]; [left; assumption|].
        subst c0. right. apply (TB c eq_refl). }
      destruct (A k kk c0 E Hold) as [[P1 P2] P3]. split; [split; simpl; assumption|assumption].
    + intros j k1 c0 a H Hin Hr. rewrite nth_error_upd in H. destruct (Nat.eqb k j) eqn:Ej; [|eapply B; eauto].
      apply Nat.eqb_eq in Ej. subst j. rewrite E in H. inversion H; subst k1. clear H. simpl in *.
      destruct got as [c|]; [|eapply B; eauto]. apply in_app_iff in Hin. destruct Hin as [Hin|[Hin|[]]]; [eapply B; eauto|].
      subst c0. apply (TB c eq_refl). assumption.
  - unfold bind_sock. destruct (negb (host_has_ip t h ip)); [assumption|].
    destruct (existsb _ _); [assumption|]. simpl. destruct I as [A B C]. split; simpl; try assumption.
    + intros i k c H Hin. destruct (Nat.lt_ge_cases i (length (n_socks s))) as [Hl|Hl].
      * rewrite nth_error_app1 in H by assumption. eapply A; eauto.
      * rewrite nth_error_app2 in H by assumption. destruct (i - length (n_socks s))%nat; simpl in H.
        -- inversion H; subst k. destruct Hin.
        -- destruct n; discriminate.
    + intros i k c a H Hin. destruct (Nat.lt_ge_cases i (length (n_socks s))) as [Hl|Hl].
      * rewrite nth_error_app1 in H by assumption. eapply B; eauto.
      * rewrite nth_error_app2 in H by assumption. destruct (i - length (n_socks s))%nat; simpl in H.
        -- inversion H; subst k. destruct Hin.
        -- destruct n; discriminate.
  - unfold close. destruct (nth_error (n_socks s) k) as [kk|] eqn:E; [|assumption].
    destruct I as [A B C]. split; simpl; try assumption.
    + intros j k1 c0 H Hin. rewrite nth_error_upd in H. destruct (Nat.eqb k j) eqn:Ej; [|eapply A; eauto].
      apply Nat.eqb_eq in Ej. subst j. rewrite E in H. inversion H; subst k1. clear H.
      destruct (A k kk c0 E Hin) as [[P1 P2] P3]. split; [split; simpl; assumption|assumption].
    + intros j k1 c0 a H Hin Hr. rewrite nth_error_upd in H. destruct (Nat.eqb k j) eqn:Ej; [|eapply B; eauto].
      apply Nat.eqb_eq in Ej. subst j. rewrite E in H. inversion H; subst k1. simpl in *. eapply B; eauto.
  - destruct I as [A B C]. split; assumption.
  - destruct I as [A B C]. split; assumption.
  - destruct I as [A B C]. split; assumption.
Qed.

Theorem pinv_run t h : forall s, PlaceInv s -> PlaceInv (nrun t s h).
Proof. induction h as [|e h IH]; intros s I; [exact I|]. simpl. apply IH. apply pinv_step. assumption. Qed.

(* ---- order: datagrams that follow the same trail never overtake each other ------------------------------------------------ *)
Fixpoint lsorted (l : list chunk) : Prop :=
  match l with
  | [] => True
  | a :: t => (forall b, In b t -> c_trail a = c_trail b -> c_id a < c_id b) /\ lsorted t
  end.

Definition strict_prefix (x y : zs) : Prop := exists z, z <> [] /\ y = x ++ z.

Record FifoInv (s : nst) : Prop := {
  fi_q : forall r q, nth_error (n_q s) r = Some q -> lsorted q;
  fi_s : forall i k, nth_error (n_socks s) i = Some k -> lsorted (sock_chunks k);
  fi_no : forall a b, In a (places s) -> In b (places s) -> c_id a < c_id b -> ~ strict_prefix (c_trail a) (c_trail b)
}.

Lemma lsorted_app_one l x : lsorted l -> (forall a, In a l -> c_trail a = c_trail x -> c_id a < c_id x) -> lsorted (l ++ [x]).
Proof.
  induction l as [|a l IH]; intros H Hx; simpl.
  - split; [intros b []|exact I].
  - destruct H as [H1 H2]. split.
    + intros b Hb Ht. apply in_app_iff in Hb. destruct Hb as [Hb|[Hb|[]]]; [auto|]. subst b. apply Hx; [left; reflexivity|assumption].
    + apply IH; [assumption|]. intros a0 Ha. apply Hx. right. assumption.
Qed.

Lemma lsorted_drop pre l : lsorted (pre ++ l) -> lsorted l.
Proof. induction pre as [|a pre IH]; simpl; [auto|]. intros [_ H]. auto. Qed.

Lemma lsorted_remove_mid l1 pre l2 : lsorted (l1 ++ pre ++ l2) -> lsorted (l1 ++ l2).
Proof.
  induction l1 as [|a l1 IH]; simpl.
  - apply lsorted_drop.
  - intros [H1 H2]. split; [|auto]. intros b Hb. apply H1. apply in_app_iff in Hb. apply in_app_iff.
    destruct Hb; [left|right; apply in_app_iff; right]; assumption.
Qed.

Lemma sp_nil x : ~ strict_prefix x [].
Proof. intros [z [Hz H]]. destruct x, z; simpl in H; try discriminate. congruence. Qed.

Lemma sp_snoc x T p : strict_prefix x (T ++ [p]) -> x = T \/ strict_prefix x T.
Proof.
  intros [z [Hz H]]. destruct (exists_last Hz) as [z' [l Hl]]. subst z.
  rewrite app_assoc in H. apply app_inj_tail in H. destruct H as [H _].
  destruct z' as [|y z'].
  - left. rewrite app_nil_r in H. auto.
  - right. exists (y :: z'). split; [discriminate|assumption].
Qed.

Lemma sp_of_snoc T p y : strict_prefix (T ++ [p]) y -> strict_prefix T y.
Proof. intros [z [Hz H]]. exists ([p] ++ z). split; [discriminate|]. rewrite H, <- app_assoc. reflexivity. Qed.

Lemma sp_snoc_self T p : strict_prefix T (T ++ [p]).
Proof. exists [p]. split; [discriminate|reflexivity]. Qed.

Lemma cnt_concat id ll : cnt id (concat ll) = sumz (cnt id) ll.
Proof. induction ll as [|l ll IH]; simpl; [reflexivity|]. rewrite cnt_app, IH. reflexivity. Qed.

Lemma cnt_flat {A} id (f : A -> list chunk) l : cnt id (flat_map f l) = sumz (fun x => cnt id (f x)) l.
Proof. induction l as [|x l IH]; simpl; [reflexivity|]. rewrite cnt_app, IH. reflexivity. Qed.

Lemma idcount_places id s : idcount id s = cnt id (places s).
Proof. unfold idcount, places. rewrite cnt_app, cnt_concat, cnt_flat. reflexivity. Qed.

Lemma cnt_in c l : In c l -> 1 <= cnt (c_id c) l.
Proof.
  induction l as [|x l IH]; intros H; [destruct H|]. simpl. destruct H as [H|H].
  - subst x. rewrite Z.eqb_refl. pose proof (cnt_nonneg (c_id c) l). lia.
  - specialize (IH H). destruct (c_id x =? c_id c); lia.
Qed.

Lemma id_below_next s c : AtMostOnce s -> In c (places s) -> 0 <= c_id c < n_next s.
Proof.
  intros [Hn H] Hin. specialize (H (c_id c)). rewrite idcount_places in H. pose proof (cnt_in c _ Hin).
  destruct ((0 <=? c_id c) && (c_id c <? n_next s)) eqn:E; lia.
Qed.

Lemma head_distinct s r c rest a : AtMostOnce s -> getq s r = c :: rest -> In a (places (set_q s r rest)) -> c_id a <> c_id c.
Proof.
  intros [Hn H] Hq Hin Heq. pose proof (getq_error s r c rest Hq) as E.
  specialize (H (c_id c)). rewrite (idcount_places _ s) in H.
  assert (H1 : idcount (c_id c) (set_q s r rest) = idcount (c_id c) s - 1).
  { rewrite (idcount_set_q _ s r rest _ E). simpl. rewrite Z.eqb_refl. lia. }
  rewrite !idcount_places in H1. pose proof (cnt_in a _ Hin) as H2. rewrite Heq in H2.
  destruct ((0 <=? c_id c) && (c_id c <? n_next s)); lia.
Qed.

Lemma in_concat_inv {A} (x : A) ll : In x (concat ll) -> exists i l, nth_error ll i = Some l /\ In x l.
Proof.
  induction ll as [|l ll IH]; simpl; intro H; [destruct H|]. apply in_app_iff in H. destruct H as [H|H].
  - exists O, l. auto.
  - destruct (IH H) as [i [l0 [H1 H2]]]. exists (S i), l0. auto.
Qed.

Lemma in_flat_inv {A B} (f : A -> list B) (x : B) l : In x (flat_map f l) -> exists i k, nth_error l i = Some k /\ In x (f k).
Proof.
  induction l as [|k l IH]; simpl; intro H; [destruct H|]. apply in_app_iff in H. destruct H as [H|H].
  - exists O, k. auto.
  - destruct (IH H) as [i [k0 [H1 H2]]]. exists (S i), k0. auto.
Qed.

Lemma ends_at_inj c p q : ends_at c p -> ends_at c q -> p = q.
Proof. intros [T1 H1] [T2 H2]. rewrite H1 in H2. apply app_inj_tail in H2. tauto. Qed.

Lemma ends_at_nonempty c p : ends_at c p -> c_trail c <> [].
Proof. intros [T H] E. rewrite E in H. destruct T; discriminate. Qed.

Lemma place_router_sock r i : place_router r <> place_sock i.
Proof. unfold place_router, place_sock. lia. Qed.

(* a chunk whose trail ends at router r sits in r's queue *)
Lemma located_in_queue s a r : PlaceInv s -> In a (places s) -> ends_at a (place_router r) ->
  exists q, nth_error (n_q s) r = Some q /\ In a q.
Proof.
  intros [A B C] Hin He. unfold places in Hin. apply in_app_iff in Hin. destruct Hin as [Hin|Hin].
  - destruct (in_concat_inv _ _ Hin) as [r0 [q [H1 H2]]]. pose proof (C r0 q a H1 H2) as He2.
    pose proof (ends_at_inj _ _ _ He He2) as Hr. unfold place_router in Hr. apply Nat2Z.inj in Hr. subst r0. eauto.
  - destruct (in_flat_inv _ _ _ Hin) as [i [k [H1 H2]]]. destruct (A i k a H1 H2) as [_ He2].
    exfalso. apply (place_router_sock r i). eapply ends_at_inj; eauto.
Qed.

(* adding a chunk at the tail of a router queue / of a socket's receive queue *)
Definition addable (s1 : nst) (c : chunk) : Prop :=
  (forall a, In a (places s1) -> c_id a <> c_id c) /\
  (forall a, In a (places s1) -> c_id a < c_id c -> ~ strict_prefix (c_trail a) (c_trail c) /\ c_trail a <> c_trail c) /\
  (forall b, In b (places s1) -> c_id c < c_id b -> ~ strict_prefix (c_trail c) (c_trail b)).

Lemma added_ok s1 c p x : addable s1 c -> c_id x = c_id c -> c_trail x = c_trail c ++ [p] ->
  (forall a, In a (places s1) -> c_trail a = c_trail x -> c_id a < c_id x) /\
  (forall a, In a (places s1) -> c_id a < c_id x -> ~ strict_prefix (c_trail a) (c_trail x)) /\
  (forall b, In b (places s1) -> c_id x < c_id b -> ~ strict_prefix (c_trail x) (c_trail b)).
Proof.
  intros [H1 [H2 H3]] Hid Htr. rewrite Hid, Htr. split; [|split].
  - intros a Ha Ht. destruct (Z.lt_trichotomy (c_id a) (c_id c)) as [L|[L|L]]; [assumption| |].
    + exfalso. apply (H1 a Ha L).
    + exfalso. apply (H3 a Ha L). rewrite Ht. apply sp_snoc_self.
  - intros a Ha Hlt Hsp. destruct (H2 a Ha Hlt) as [N1 N2]. apply sp_snoc in Hsp. destruct Hsp; auto.
  - intros b Hb Hlt Hsp. apply (H3 b Hb Hlt). eapply sp_of_snoc; eauto.
Qed.

Lemma fifo_push t s1 r c c' : FifoInv s1 -> addable s1 c -> c_id c' = c_id c -> c_trail c' = c_trail c -> FifoInv (push t s1 r c').
Proof.
  intros [Q S N] Ad Hid Htr. unfold push. destruct (nth_error (t_routers t) r) as [rt|]; [|split; assumption].
  destruct (n_started s1 && _); [|split; assumption].
  set (x := at_place c' (place_router r)).
  destruct (added_ok s1 c (place_router r) x Ad) as [X1 [X2 X3]]; [simpl; assumption|simpl; rewrite Htr; reflexivity|].
  assert (Hpl : forall y, In y (places (set_q s1 r (getq s1 r ++ [x]))) -> In y (places s1) \/ y = x).
  { intros y Hy. pose proof (push_places t s1 r c' y) as P. unfold push in P.
    destruct (nth_error (t_routers t) r) as [rt0|] eqn:Er.
    - destruct (n_started s1 && ((rt_qcap rt0 <=? 0) || (zlen (getq s1 r) <? rt_qcap rt0))) eqn:Ec.
      + apply P. assumption.
      + (* the same state can be reached whatever the capacity test says *)
        unfold places, set_q in *. simpl in *. apply in_app_iff in Hy. destruct Hy as [Hy|Hy]; [|left; apply in_app_iff; right; assumption].
        apply in_concat_upd in Hy. destruct Hy as [Hy|Hy]; [left; apply in_app_iff; left; assumption|].
        apply in_app_iff in Hy. destruct Hy as [Hy|[Hy|[]]]; [|right; auto].
        left. apply in_app_iff. left. unfold getq in Hy. destruct (nth_error (n_q s1) r) as [q0|] eqn:E.
        * rewrite (nth_error_nth' _ _ [] _ E) in Hy. eapply in_concat_nth; eauto.
        * rewrite nth_overflow in Hy; [destruct Hy|]. apply nth_error_None. assumption.
    - unfold places, set_q in *. simpl in *. apply in_app_iff in Hy. destruct Hy as [Hy|Hy]; [|left; apply in_app_iff; right; assumption].
      apply in_concat_upd in Hy. destruct Hy as [Hy|Hy]; [left; apply in_app_iff; left; assumption|].
      apply in_app_iff in Hy. destruct Hy as [Hy|[Hy|[]]]; [|right; auto].
      left. apply in_app_iff. left. unfold getq in Hy. destruct (nth_error (n_q s1) r) as [q0|] eqn:E.
      * rewrite (nth_error_nth' _ _ [] _ E) in Hy. eapply in_concat_nth; eauto.
      * rewrite nth_overflow in Hy; [destruct Hy|]. apply nth_error_None. assumption. }
  split; simpl.
  - intros r0 q H. rewrite nth_error_upd in H. destruct (Nat.eqb r r0) eqn:E; [|eapply Q; eauto].
    apply Nat.eqb_eq in E. subst r0. destruct (nth_error (n_q s1) r) as [q0|] eqn:E0; [|discriminate].
    inversion H; subst q. unfold getq. rewrite (nth_error_nth' _ _ [] _ E0).
    apply lsorted_app_one; [eapply Q; eauto|]. intros a Ha. apply X1. unfold places. apply in_app_iff. left. eapply in_concat_nth; eauto.
  - assumption.
  - intros a b Ha Hb Hlt. apply Hpl in Ha. apply Hpl in Hb. destruct Ha as [Ha|Ha], Hb as [Hb|Hb].
    + apply N; assumption.
    + subst b. apply X2; assumption.
    + subst a. apply X3; assumption.
    + subst a b. lia.
Qed.

Lemma fifo_deliver s1 h c : FifoInv s1 -> addable s1 c -> FifoInv (deliver_host s1 h c).
Proof.
  intros [Q S N] Ad. unfold deliver_host.
  destruct (find_sock_idx s1 h (fst (c_dst c)) (snd (c_dst c))) as [i|] eqn:Ef; [|split; assumption].
  destruct (nth_error (n_socks s1) i) as [k|] eqn:E; [|split; assumption].
  destruct (zlen (k_q k) <? readq_cap) eqn:Ecap; [|split; assumption].
  set (x := at_place c (place_sock i)).
  destruct (added_ok s1 c (place_sock i) x Ad) as [X1 [X2 X3]]; [reflexivity|reflexivity|].
  assert (Hpl : forall y, In y (places (set_socks s1 (upd i (with_q k (k_q k ++ [x])) (n_socks s1)))) -> In y (places s1) \/ y = x).
  { intros y Hy. pose proof (deliver_places s1 h c y) as P. unfold deliver_host in P. rewrite Ef, E, Ecap in P.
    destruct (P Hy) as [H|[i0 [k0 [H1 [_ H2]]]]]; [left; assumption|]. inversion H1; subst i0. right. assumption. }
  split; simpl.
  - assumption.
  - intros j k1 H. rewrite nth_error_upd in H. destruct (Nat.eqb i j) eqn:Ej; [|eapply S; eauto].
    apply Nat.eqb_eq in Ej. subst j. rewrite E in H. inversion H; subst k1. unfold sock_chunks, with_q. simpl.
    rewrite app_assoc. apply lsorted_app_one; [apply (S i k E)|].
    intros a Ha. apply X1. unfold places. apply in_app_iff. right. eapply in_flat_nth; eauto.
  - intros a b Ha Hb Hlt. apply Hpl in Ha. apply Hpl in Hb. destruct Ha as [Ha|Ha], Hb as [Hb|Hb].
    + apply N; assumption.
    + subst b. apply X2; assumption.
    + subst a. apply X3; assumption.
    + subst a b. lia.
Qed.

Lemma fifo_set_q_tail s r c rest : getq s r = c :: rest -> FifoInv s -> FifoInv (set_q s r rest).
Proof.
  intros Hq [Q S N]. pose proof (getq_error s r c rest Hq) as E. split; simpl.
  - intros r0 q H. rewrite nth_error_upd in H. destruct (Nat.eqb r r0) eqn:E1; [|eapply Q; eauto].
    apply Nat.eqb_eq in E1. subst r0. rewrite E in H. inversion H; subst q. destruct (Q r _ E) as [_ H2]. assumption.
  - assumption.
  - intros a b Ha Hb. apply N; eapply places_set_q_tail; eauto.
Qed.

Lemma fifo_set_nat s r x : FifoInv s -> FifoInv (set_nat s r x).
Proof. intros [Q S N]. split; assumption. Qed.

Lemma addable_set_nat s r x c : addable s c -> addable (set_nat s r x) c.
Proof. auto. Qed.

(* the head of a router queue can be appended to any place once it has been taken off *)
Lemma head_addable s r c rest : AtMostOnce s -> PlaceInv s -> FifoInv s -> getq s r = c :: rest -> addable (set_q s r rest) c.
Proof.
  intros Am Pi [Q S N] Hq. pose proof (getq_error s r c rest Hq) as E.
  pose proof (head_in_places s r c rest Hq) as Hc.
  split; [|split].
  - intros a Ha. eapply head_distinct; eauto.
  - intros a Ha Hlt. pose proof (places_set_q_tail s r c rest a Hq Ha) as Ha0. split; [apply N; assumption|].
    intro Heq.
    assert (He : ends_at a (place_router r)).
    { destruct Pi as [_ _ C]. destruct (C r _ c E (or_introl eq_refl)) as [T HT]. exists T. rewrite Heq. assumption. }
    destruct (located_in_queue _ a r (pinv_set_q_tail s r c rest Hq Pi) Ha He) as [q [Hq1 Hq2]].
    simpl in Hq1. rewrite nth_error_upd, Nat.eqb_refl, E in Hq1. inversion Hq1; subst q.
    destruct (Q r _ E) as [H1 _]. specialize (H1 a Hq2 (eq_sym Heq)). lia.
  - intros b Hb Hlt. apply N; [assumption| |assumption]. eapply places_set_q_tail; eauto.
Qed.

Lemma fifo_route t s r : AtMostOnce s -> PlaceInv s -> FifoInv s -> FifoInv (route t s r).
Proof.
  intros Am Pi Fi. unfold route.
  destruct (nth_error (t_routers t) r) as [rt|]; [|assumption].
  destruct (getq s r) as [|c rest] eqn:Eq; [assumption|].
  destruct (negb (n_started s)); [assumption|].
  pose proof (fifo_set_q_tail s r c rest Eq Fi) as F1.
  pose proof (head_addable s r c rest Am Pi Fi Eq) as Ad.
  destruct (in_subnet rt (fst (c_dst c))).
  - destruct (lookup_nic (rt_nics rt) (fst (c_dst c))) as [[h|r2]|]; [| |assumption].
    + apply fifo_deliver; assumption.
    + destruct (translate_in _ _ _ _) as [n' res]. destruct res as [a| |]; try (apply fifo_set_nat; assumption).
      apply fifo_push with (c := c); [apply fifo_set_nat; assumption|apply addable_set_nat; assumption|reflexivity|reflexivity].
  - destruct (rt_parent rt) as [p|]; [|assumption].
    destruct (translate_out _ _ _ _) as [n' res]. destruct res as [a| |]; try (apply fifo_set_nat; assumption).
    apply fifo_push with (c := c); [apply fifo_set_nat; assumption|apply addable_set_nat; assumption|reflexivity|reflexivity].
Qed.

Lemma take_matching_split rem q : forall got rest, take_matching rem q = (got, rest) ->
  exists pre, q = pre ++ (match got with Some c => [c] | None => [] end) ++ rest.
Proof.
  induction q as [|c q IH]; intros got rest H; simpl in H.
  - inversion H; subst. exists []. reflexivity.
  - destruct rem as [a|].
    + destruct (ep_eqb (c_src c) a).
      * inversion H; subst. exists []. reflexivity.
      * destruct (IH got rest H) as [pre Hp]. exists (c :: pre). simpl. rewrite <- Hp. reflexivity.
    + inversion H; subst. exists []. reflexivity.
Qed.

Lemma fifo_step t s e : AtMostOnce s -> PlaceInv s -> FifoInv s -> FifoInv (nstep t s e).
Proof.
  intros Am Pi Fi. destruct e as [k dst data|r|k|h ip port rem|k|dt| |]; cbn [nstep].
  - (* write: the new datagram has the largest identity and an empty trail *)
    unfold write. destruct (nth_error (n_socks s) k) as [kk|]; [|assumption].
    set (dst' := match k_rem kk with Some a => a | None => dst end).
    destruct (source_ip t kk (fst dst')) as [sip|]; [|assumption].
    set (c := {| c_id := n_next s; c_src := (sip, k_port kk); c_dst := dst'; c_data := data; c_trail := [] |}).
    set (s0 := {| n_now := n_now s; n_next := n_next s + 1; n_started := n_started s; n_q := n_q s; n_nat := n_nat s;
                  n_socks := n_socks s; n_written := n_written s ++ [c] |}).
    assert (F0 : FifoInv s0) by (destruct Fi as [Q S N]; split; assumption).
    assert (Ad : addable s0 c).
    { split; [|split].
      - intros a Ha. pose proof (id_below_next s a Am Ha). simpl. lia.
      - intros a Ha _. split; [apply sp_nil|]. simpl.
        assert (He : exists p, ends_at a p).
        { unfold places in Ha. apply in_app_iff in Ha. destruct Pi as [A B C]. destruct Ha as [Ha|Ha].
          - destruct (in_concat_inv _ _ Ha) as [r0 [q [H1 H2]]]. eexists. eapply C; eauto.
          - destruct (in_flat_inv _ _ _ Ha) as [i [k0 [H1 H2]]]. eexists. eapply A; eauto. }
        destruct He as [p He]. eapply ends_at_nonempty; eauto.
      - intros b Hb Hlt. pose proof (id_below_next s b Am Hb). simpl in Hlt. lia. }
    destruct (is_loopback (fst dst')).
    + simpl. apply fifo_deliver; assumption.
    + destruct (nth_error (t_hosts t) (k_host kk)) as [[[r|] ips]|]; simpl; try assumption.
      apply fifo_push with (c := c); auto.
  - apply fifo_route; assumption.
  - (* read: discarded datagrams disappear, the others keep their order *)
    unfold read. destruct (nth_error (n_socks s) k) as [kk|] eqn:E; [|assumption].
    destruct (take_matching (k_rem kk) (k_q kk)) as [got rest] eqn:Et. simpl.
    destruct (take_matching_split _ _ _ _ Et) as [pre Hpre]. destruct Fi as [Q S N]. split; simpl.
    + assumption.
    + intros j k1 H. rewrite nth_error_upd in H. destruct (Nat.eqb k j) eqn:Ej; [|eapply S; eauto].
      apply Nat.eqb_eq in Ej. subst j. rewrite E in H. inversion H; subst k1. clear H. unfold sock_chunks. simpl.
      pose proof (S k kk E) as H0. unfold sock_chunks in H0. rewrite Hpre in H0.
      apply lsorted_remove_mid in H0. destruct got as [c|]; simpl in *; [rewrite <- app_assoc; assumption|assumption].
    + intros a b Ha Hb. apply N.
      * apply (read_places s k a). unfold read. rewrite E, Et. assumption.
      * apply (read_places s k b). unfold read. rewrite E, Et. assumption.
  - unfold bind_sock. destruct (negb (host_has_ip t h ip)); [assumption|].
    destruct (existsb _ _); [assumption|]. simpl. destruct Fi as [Q S N]. split; simpl.
    + assumption.
    + intros i k H. destruct (Nat.lt_ge_cases i (length (n_socks s))) as [Hl|Hl].
      * rewrite nth_error_app1 in H by assumption. eapply S; eauto.
      * rewrite nth_error_app2 in H by assumption. destruct (i - length (n_socks s))%nat; simpl in H.
        -- inversion H; subst k. exact I.
        -- destruct n; discriminate.
    + intros a b Ha Hb. apply N; unfold places in *; simpl in *; rewrite flat_map_app in *; simpl in *; rewrite !app_nil_r in *; assumption.
  - unfold close. destruct (nth_error (n_socks s) k) as [kk|] eqn:E; [|assumption].
    destruct Fi as [Q S N]. split; simpl.
    + assumption.
    + intros j k1 H. rewrite nth_error_upd in H. destruct (Nat.eqb k j) eqn:Ej; [|eapply S; eauto].
      apply Nat.eqb_eq in Ej. subst j. rewrite E in H. inversion H; subst k1. apply (S k kk E).
    + assert (Hp : forall x, In x (places (set_socks s (upd k {| k_host := k_host kk; k_ip := k_ip kk; k_port := k_port kk; k_rem := k_rem kk;
                    k_open := false; k_q := k_q kk; k_log := k_log kk |} (n_socks s)))) -> In x (places s)).
      { intros x H. unfold places, set_socks in *. simpl in *. apply in_app_iff in H. apply in_app_iff.
        destruct H as [H|H]; [left; assumption|right]. apply in_flat_upd in H. destruct H as [H|H]; [assumption|].
        eapply in_flat_nth; eauto. }
      intros a b Ha Hb. apply N; apply Hp; assumption.
  - destruct Fi as [Q S N]. split; assumption.
  - destruct Fi as [Q S N]. split; assumption.
  - destruct Fi as [Q S N]. split; assumption.
Qed.

Lemma fifo_init t nats : FifoInv (n_init t nats).
Proof.
  split; simpl.
  - intros r q H. apply nth_error_map_nil in H. subst. exact I.
  - intros i k H. destruct i; discriminate.
  - intros a b Ha. exfalso. unfold places, n_init in Ha. simpl in Ha. rewrite app_nil_r in Ha.
    induction (t_routers t); simpl in Ha; auto.
Qed.

(* all invariants together, for every event sequence *)
Record NetInv (s : nst) : Prop := { ni_amo : AtMostOnce s; ni_intact : Intact s; ni_place : PlaceInv s; ni_fifo : FifoInv s }.

Theorem netinv_run t h : forall s, NetInv s -> NetInv (nrun t s h).
Proof.
  induction h as [|e h IH]; intros s I; [exact I|]. simpl. apply IH. destruct I as [A B C D]. split.
  - apply amo_step; assumption.
  - apply intact_step; assumption.
  - apply pinv_step; assumption.
  - apply fifo_step; assumption.
Qed.

Lemma netinv_init t nats : NetInv (n_init t nats).
Proof. split; [apply amo_init|apply intact_init|apply pinv_init|apply fifo_init]. Qed.
