(* The reply clause of C01 at the level of the NATs on the path: a datagram that went out through a
   chain of NATs (innermost first) shows a source address to which a reply, sent from the address the
   original was sent to, is translated back hop by hop to the original sender - whatever other traffic
   the NATs have carried in between, for every mapping and filtering behaviour and for 1:1 mode, as long
   as no mapping lifetime has passed. Stated on the NAT Spec (Nat/Spec.v), which the executable NAT model
   used by Vnet/Network.v refines for histories with non-decreasing time stamps (C02_model_refines_spec). *)
From Tx Require Import Common.Base Nat.Model Nat.Spec Nat.Proofs Nat.SpecFacts.

Local Arguments Z.add : simpl never.
Local Arguments Z.gtb : simpl never.

(* the mapping that carries the reply: owner, external address, permission for the remote, expiry *)
Definition holds (s : nat_state) (ext loc : ep) (fk : rkey) (E : Z) : Prop :=
  exists M, In M (maps s) /\ m_mapped M = ext /\ m_local M = loc /\ has_key fk (m_filters M) = true /\ E <= m_expires M.

Lemma has_key_cons k k' l : has_key k l = true -> has_key k (k' :: l) = true.
Proof. unfold has_key. simpl. intro H. rewrite H. apply orb_true_r. Qed.

Lemma has_key_head k l : has_key k (k :: l) = true.
Proof.
  unfold has_key. simpl. assert (rkey_eqb k k = true) by (apply rkey_eqb_eq; reflexivity). rewrite H. reflexivity.
Qed.

Lemma config_step s o : let s' := fst (s_step s o) in
  one_to_one s' = one_to_one s /\ filtb s' = filtb s /\ lifetime s' = lifetime s /\ mapb s' = mapb s /\
  mappedIPs s' = mappedIPs s /\ localIPs s' = localIPs s.
Proof.
  destruct o as [t src dst|t src dst]; simpl; [|repeat split].
  unfold s_translate_out. destruct (one_to_one s) eqn:E.
  - destruct (paired _ _ _); simpl; repeat split; assumption.
  - destruct (find_map _ _); simpl; repeat split; assumption.
Qed.

Lemma out_creates t s src dst s1 ext : one_to_one s = false ->
  s_translate_out t s src dst = (s1, ROk ext) -> holds s1 ext src (key_of (filtb s) dst) (t + lifetime s).
Proof.
  intros H1 Ho. unfold s_translate_out in Ho. rewrite H1 in Ho. unfold find_map in Ho.
  set (sel := fun m => okey_match src (key_of (mapb s) dst) m && live t m) in *.
  destruct (find sel (maps s)) as [m|] eqn:Ef.
  - destruct (snd (m_mapped m) >? 65535); [discriminate|]. inversion Ho; subst s1 ext. clear Ho.
    apply find_some in Ef. destruct Ef as [Hin Hp].
    set (upd := fun m0 => {| m_local := m_local m0; m_mapped := m_mapped m0; m_bound := m_bound m0;
                             m_filters := if has_key (key_of (filtb s) dst) (m_filters m0) then m_filters m0
                                          else key_of (filtb s) dst :: m_filters m0;
                             m_expires := t + lifetime s |}).
    exists (upd m). simpl. split; [|split; [reflexivity|split]].
    + unfold update_map. apply in_map_iff. exists m. rewrite Hp. auto.
    + apply andb_prop in Hp. destruct Hp as [Hk _]. apply okey_match_eq in Hk. unfold okey in Hk. congruence.
    + split; [|lia]. destruct (has_key (key_of (filtb s) dst) (m_filters m)) eqn:Eh; [assumption|apply has_key_head].
  - destruct (49152 + counter s >? 65535); [discriminate|]. inversion Ho; subst s1 ext. clear Ho.
    eexists. split; [simpl; left; reflexivity|]. cbn [m_mapped m_local m_filters m_expires].
    split; [reflexivity|split; [reflexivity|split; [apply has_key_head|lia]]].
Qed.

Lemma step_keeps s o ext loc fk t : holds s ext loc fk (t + lifetime s) -> t <= op_time o ->
  holds (fst (s_step s o)) ext loc fk (t + lifetime s).
Proof.
  intros [M [Hin [Hm [Hl [Hf He]]]]] Ht. destruct o as [t1 src dst|t1 src dst]; simpl in *; [|exists M; auto].
  unfold s_translate_out. destruct (one_to_one s).
  - destruct (paired _ _ _); simpl; exists M; auto.
  - unfold find_map. set (sel := fun m => okey_match src (key_of (mapb s) dst) m && live t1 m).
    destruct (find sel (maps s)) as [m|]; simpl.
    + set (upd := fun m0 => {| m_local := m_local m0; m_mapped := m_mapped m0; m_bound := m_bound m0;
                               m_filters := if has_key (key_of (filtb s) dst) (m_filters m0) then m_filters m0
                                            else key_of (filtb s) dst :: m_filters m0;
                               m_expires := t1 + lifetime s |}).
      exists (if sel M then upd M else M). split.
      * unfold update_map. apply in_map_iff. exists M. auto.
      * destruct (sel M); simpl; [|auto]. repeat split; try assumption; [|lia].
        destruct (has_key (key_of (filtb s) dst) (m_filters M)); [assumption|apply has_key_cons; assumption].
    + exists M. simpl. auto.
Qed.

Lemma final_keeps h : forall s ext loc fk t, holds s ext loc fk (t + lifetime s) -> (forall o, In o h -> t <= op_time o) ->
  holds (s_final s h) ext loc fk (t + lifetime s) /\ lifetime (s_final s h) = lifetime s /\ filtb (s_final s h) = filtb s /\
  one_to_one (s_final s h) = one_to_one s /\ mappedIPs (s_final s h) = mappedIPs s /\ localIPs (s_final s h) = localIPs s.
Proof.
  induction h as [|o h IH]; intros s ext loc fk t H Ht; simpl; [auto 10|].
  destruct (config_step s o) as [C1 [C2 [C3 [C4 [C5 C6]]]]].
  pose proof (step_keeps s o ext loc fk t H (Ht o (or_introl eq_refl))) as H1.
  rewrite <- C3 in H1. destruct (IH _ ext loc fk t H1 (fun o' Ho => Ht o' (or_intror Ho))) as [K1 [K2 [K3 [K4 [K5 K6]]]]].
  rewrite C3 in K1. repeat split; try assumption; congruence.
Qed.

(* one NAT: NAPT of any behaviour, or 1:1 with a well-formed pairing *)
Definition hop_ok (n : nat_state) : Prop :=
  (one_to_one n = false /\ SInv n) \/
  (one_to_one n = true /\ NoDup (mappedIPs n) /\ length (localIPs n) = length (mappedIPs n)).

Theorem reply_one_nat n t src dst n1 ext h t' :
  hop_ok n -> s_translate_out t n src dst = (n1, ROk ext) ->
  (forall o, In o h -> t <= op_time o) -> t' <= t + lifetime n ->
  s_translate_in t' (s_final n1 h) dst ext = ROk src.
Proof.
  intros [[H1 SI]|[H1 [ND L]]] Ho Hh Ht.
  - pose proof (out_creates t n src dst n1 ext H1 Ho) as Hc.
    assert (Hcfg : lifetime n1 = lifetime n /\ filtb n1 = filtb n /\ one_to_one n1 = one_to_one n).
    { pose proof (config_step n (NOut t src dst)) as C. simpl in C. rewrite Ho in C. simpl in C. tauto. }
    destruct Hcfg as [L1 [F1 O1]]. rewrite <- L1 in Hc.
    destruct (final_keeps h n1 ext src _ t Hc Hh) as [K1 [K2 [K3 [K4 _]]]].
    assert (SI1 : SInv n1).
    { pose proof (s_step_inv n (NOut t src dst) SI) as S1. simpl in S1. rewrite Ho in S1. assumption. }
    pose proof (s_final_inv h n1 SI1) as SI2.
    apply (s_in_admit_iff t' (s_final n1 h) dst ext src); [congruence|assumption|].
    destruct K1 as [M [Hin [Hm [Hl [Hf He]]]]]. exists M. repeat split; try assumption; try lia; try congruence.
  - (* 1:1: the state never changes and the two rewritings are inverse *)
    unfold s_translate_out in Ho. rewrite H1 in Ho.
    destruct (paired (localIPs n) (mappedIPs n) (fst src)) as [y|] eqn:E; [|discriminate].
    inversion Ho; subst n1 ext. clear Ho.
    assert (Hcfg : one_to_one (s_final n h) = true /\ mappedIPs (s_final n h) = mappedIPs n /\ localIPs (s_final n h) = localIPs n).
    { clear -H1. revert n H1. induction h as [|o h IH]; intros n H1; simpl; [auto|].
      destruct (config_step n o) as [C1 [_ [_ [_ [C5 C6]]]]].
      destruct (IH (fst (s_step n o))) as [A [B C]]; [congruence|]. repeat split; congruence. }
    destruct Hcfg as [O2 [M2 L2]].
    destruct (paired_inverse _ _ _ _ ND L E) as [Hp _].
    unfold s_translate_in. rewrite O2, M2, L2. simpl. rewrite Hp. destruct src; reflexivity.
Qed.

(* a chain of NATs, innermost first *)
Fixpoint up (t : Z) (ns : list nat_state) (src dst : ep) : option (list nat_state * ep) :=
  match ns with
  | [] => Some ([], src)
  | n :: rest =>
      match s_translate_out t n src dst with
      | (n', ROk m) => match up t rest m dst with Some (rest', e) => Some (n' :: rest', e) | None => None end
      | _ => None
      end
  end.

Fixpoint down (t : Z) (ns : list nat_state) (src dst : ep) : option ep :=
  match ns with
  | [] => Some dst
  | n :: rest =>
      match down t rest src dst with
      | Some d => match s_translate_in t n src d with ROk a => Some a | _ => None end
      | None => None
      end
  end.

(* ns2: the same NATs after any further traffic (outbound and inbound, of any endpoints) *)
Inductive later (t : Z) : list nat_state -> list nat_state -> Prop :=
| later_nil : later t [] []
| later_cons n1 h ns1 ns2 : (forall o, In o h -> t <= op_time o) -> later t ns1 ns2 -> later t (n1 :: ns1) (s_final n1 h :: ns2).

Theorem reply_through_chain ns : forall t src dst ns1 ext ns2 t',
  Forall hop_ok ns -> up t ns src dst = Some (ns1, ext) -> later t ns1 ns2 ->
  (forall n, In n ns -> t' <= t + lifetime n) ->
  down t' ns2 dst ext = Some src.
Proof.
  induction ns as [|n ns IH]; intros t src dst ns1 ext ns2 t' Hok Hup Hl Ht; simpl in Hup.
  - inversion Hup; subst. inversion Hl; subst. reflexivity.
  - destruct (s_translate_out t n src dst) as [n' res] eqn:Eo. destruct res as [m| |]; try discriminate.
    destruct (up t ns m dst) as [[rest' e]|] eqn:Eu; [|discriminate]. inversion Hup; subst ns1 ext. clear Hup.
    inversion Hl as [|n1 h ns1' ns2' Hh Hl' E1 E2]; subst. inversion Hok as [|? ? Hn Hok']; subst.
    simpl. rewrite (IH t m dst rest' e ns2' t' Hok' Eu Hl' (fun n0 H0 => Ht n0 (or_intror H0))).
    rewrite (reply_one_nat n t src dst n' m h t' Hn Eo Hh (Ht n (or_introl eq_refl))). reflexivity.
Qed.
