(* Executable model of vnet's datagram path: UDPConn.WriteTo -> Net.write -> Router.push ->
   Router.processChunks (routing decision, NAT translation towards the parent, inbound translation in a
   child router) -> Net.onInboundChunk -> udpConnMap.find -> UDPConn.onInboundChunk -> ReadFrom.

   Topology (static): a forest of routers (subnet, parent, NICs by IP: hosts and child routers, queue
   capacity) and hosts (router, eth0 addresses). Dynamic: the router queues, the NAT state of every
   non-root router (Nat/Model.v), whether the routers are started, the sockets with their receive queues,
   the clock. One event = one atomic step of the code: a write, the forwarding of ONE chunk by one router,
   a read, bind, close, time passing. Every interleaving of the router goroutines with the writers is a
   sequence of such events (a router is one goroutine; between its pop and its push into the next queue
   nothing can overtake the chunk because only this goroutine moves chunks out of this queue).

   Addresses are IPv4 as integers; an endpoint is (ip, port). Minimum delay, jitter and chunk filters
   are absent here (C14-C16 treat them). *)
From Tx Require Import Common.Base Common.ListZ Nat.Model VnetAddr.Model.

(* c_id and c_trail are ghosts: the identity of the datagram (its rank among all writes) and the places it has
   been queued in so far (router r: r; receive queue of socket k: -(k+1)) *)
Record chunk := { c_id : Z; c_src : ep; c_dst : ep; c_data : zs; c_trail : zs }.

Inductive nic := NHost (h : nat) | NRouter (r : nat).

Record rtopo := {
  rt_parent : option nat;
  rt_net : Z; rt_mask : Z;
  rt_nics : list (Z * nic);         (* destination IP -> NIC *)
  rt_qcap : Z                        (* 0: unlimited *)
}.

Record htopo := { ht_router : option nat; ht_ips : list Z (* eth0 addresses *) }.

Record topo := { t_routers : list rtopo; t_hosts : list htopo }.

Record sockst := {
  k_host : nat; k_ip : Z; k_port : Z; k_rem : option ep;
  k_open : bool;
  k_q : list chunk;                  (* readCh, oldest first, capacity 1024 *)
  k_log : list chunk                 (* ghost: chunks handed out by ReadFrom, oldest first *)
}.

Record nst := {
  n_now : Z;
  n_next : Z;                        (* ghost: identity of the next datagram written *)
  n_started : bool;
  n_q : list (list chunk);           (* per router *)
  n_nat : list nat_state;            (* per router (unused for a root) *)
  n_socks : list sockst;
  n_written : list chunk             (* ghost: every datagram accepted by WriteTo, as written *)
}.

Definition readq_cap : Z := 1024.

(* ---- list helpers -------------------------------------------------------------------------------------- *)
Fixpoint upd {A} (i : nat) (x : A) (l : list A) : list A :=
  match l, i with
  | [], _ => []
  | _ :: t, O => x :: t
  | h :: t, S j => h :: upd j x t
  end.

Definition getq (s : nst) (r : nat) : list chunk := nth r (n_q s) [].

Definition set_q (s : nst) (r : nat) (q : list chunk) : nst :=
  {| n_now := n_now s; n_next := n_next s; n_started := n_started s; n_q := upd r q (n_q s); n_nat := n_nat s;
     n_socks := n_socks s; n_written := n_written s |}.
Definition set_nat (s : nst) (r : nat) (x : nat_state) : nst :=
  {| n_now := n_now s; n_next := n_next s; n_started := n_started s; n_q := n_q s; n_nat := upd r x (n_nat s);
     n_socks := n_socks s; n_written := n_written s |}.
Definition set_socks (s : nst) (ks : list sockst) : nst :=
  {| n_now := n_now s; n_next := n_next s; n_started := n_started s; n_q := n_q s; n_nat := n_nat s;
     n_socks := ks; n_written := n_written s |}.

Definition with_q (k : sockst) (q : list chunk) : sockst :=
  {| k_host := k_host k; k_ip := k_ip k; k_port := k_port k; k_rem := k_rem k; k_open := k_open k; k_q := q; k_log := k_log k |}.

Definition at_place (c : chunk) (p : Z) : chunk :=
  {| c_id := c_id c; c_src := c_src c; c_dst := c_dst c; c_data := c_data c; c_trail := c_trail c ++ [p] |}.
Definition place_router (r : nat) : Z := Z.of_nat r.
Definition place_sock (k : nat) : Z := - (Z.of_nat k + 1).

(* ---- host side -------------------------------------------------------------------------------------------- *)
Definition is_loopback (ip : Z) : bool := ip / 16777216 =? 127.

(* udpConnMap.find on host h: the open socket covering (ip, port) *)
Definition sock_covers (h : nat) (ip port : Z) (k : sockst) : bool :=
  k_open k && Nat.eqb (k_host k) h && covers ip port {| s_ip := k_ip k; s_port := k_port k; s_id := 0 |}.

Fixpoint find_idx {A} (p : A -> bool) (l : list A) (i : nat) : option nat :=
  match l with
  | [] => None
  | x :: t => if p x then Some i else find_idx p t (S i)
  end.

Definition find_sock_idx (s : nst) (h : nat) (ip port : Z) : option nat := find_idx (sock_covers h ip port) (n_socks s) O.

(* Net.onInboundChunk + UDPConn.onInboundChunk: the covering open socket queues the chunk unless its queue is full *)
Definition deliver_host (s : nst) (h : nat) (c : chunk) : nst :=
  match find_sock_idx s h (fst (c_dst c)) (snd (c_dst c)) with
  | None => s
  | Some i =>
      match nth_error (n_socks s) i with
      | None => s
      | Some k => if zlen (k_q k) <? readq_cap then set_socks s (upd i (with_q k (k_q k ++ [at_place c (place_sock i)])) (n_socks s)) else s
      end
  end.

(* ---- router side ------------------------------------------------------------------------------------------- *)
Definition push (t : topo) (s : nst) (r : nat) (c : chunk) : nst :=
  match nth_error (t_routers t) r with
  | None => s
  | Some rt =>
      if n_started s && ((rt_qcap rt <=? 0) || (zlen (getq s r) <? rt_qcap rt)) then set_q s r (getq s r ++ [at_place c (place_router r)]) else s
  end.

Definition in_subnet (rt : rtopo) (ip : Z) : bool := Z.land ip (rt_mask rt) =? rt_net rt.

Fixpoint lookup_nic (l : list (Z * nic)) (ip : Z) : option nic :=
  match l with
  | [] => None
  | (a, n) :: t => if a =? ip then Some n else lookup_nic t ip
  end.

Definition re_src (c : chunk) (a : ep) : chunk := {| c_id := c_id c; c_src := a; c_dst := c_dst c; c_data := c_data c; c_trail := c_trail c |}.
Definition re_dst (c : chunk) (a : ep) : chunk := {| c_id := c_id c; c_src := c_src c; c_dst := a; c_data := c_data c; c_trail := c_trail c |}.

Definition natof (s : nst) (r : nat) : nat_state := nth r (n_nat s) (new_nat false 0 0 0 [] []).

(* one iteration of the loop in processChunks: forward (or drop) the head of router r's queue *)
Definition route (t : topo) (s : nst) (r : nat) : nst :=
  match nth_error (t_routers t) r, getq s r with
  | Some rt, c :: rest =>
      if negb (n_started s) then s else
      let s1 := set_q s r rest in
      let dip := fst (c_dst c) in
      if in_subnet rt dip then
        match lookup_nic (rt_nics rt) dip with
        | None => s1
        | Some (NHost h) => deliver_host s1 h c
        | Some (NRouter r2) =>
            (* Router.onInboundChunk of the child: translate the destination back, then push *)
            let '(n', res) := translate_in (n_now s1) (natof s1 r2) (c_src c) (c_dst c) in
            let s2 := set_nat s1 r2 n' in
            match res with
            | ROk a => push t s2 r2 (re_dst c a)
            | _ => s2
            end
        end
      else
        match rt_parent rt with
        | None => s1
        | Some p =>
            let '(n', res) := translate_out (n_now s1) (natof s1 r) (c_src c) (c_dst c) in
            let s2 := set_nat s1 r n' in
            match res with
            | ROk a => push t s2 p (re_src c a)
            | _ => s2     (* dropped by the NAT, or the NAT failed: the chunk is dropped, the router goes on *)
            end
        end
  | _, _ => s
  end.

(* ---- socket operations ------------------------------------------------------------------------------------ *)
Definition loopback_ip : Z := 2130706433.

(* determineSourceIP *)
Definition source_ip (t : topo) (k : sockst) (dip : Z) : option Z :=
  if negb (k_ip k =? 0) then Some (k_ip k)
  else if is_loopback dip then Some loopback_ip
  else match nth_error (t_hosts t) (k_host k) with
       | Some ht => match ht_ips ht with ip :: _ => Some ip | [] => None end
       | None => None
       end.

(* WriteTo (Write on a connected socket: the destination is its remote address): result 0 = ok (n = len), 1 = error *)
Definition write (t : topo) (s : nst) (ki : nat) (dst0 : ep) (data : zs) : nst * Z :=
  match nth_error (n_socks s) ki with
  | None => (s, 1)
  | Some k =>
      let dst := match k_rem k with Some a => a | None => dst0 end in
      match source_ip t k (fst dst) with
      | None => (s, 1)
      | Some sip =>
          let c := {| c_id := n_next s; c_src := (sip, k_port k); c_dst := dst; c_data := data; c_trail := [] |} in
          let s0 := {| n_now := n_now s; n_next := n_next s + 1; n_started := n_started s; n_q := n_q s; n_nat := n_nat s;
                       n_socks := n_socks s; n_written := n_written s ++ [c] |} in
          if is_loopback (fst dst) then (deliver_host s0 (k_host k) c, 0)
          else match nth_error (t_hosts t) (k_host k) with
               | Some {| ht_router := Some r |} => (push t s0 r c, 0)
               | _ => (s, 1)
               end
      end
  end.

(* ReadFrom on a socket with something queued: a connected socket discards datagrams of other sources.
   Returns the datagram handed out (None: the queue ran empty - the real call would block) *)
Fixpoint take_matching (rem : option ep) (q : list chunk) : option chunk * list chunk :=
  match q with
  | [] => (None, [])
  | c :: rest =>
      match rem with
      | Some a => if ep_eqb (c_src c) a then (Some c, rest) else take_matching rem rest
      | None => (Some c, rest)
      end
  end.

Definition read (s : nst) (ki : nat) : nst * option chunk :=
  match nth_error (n_socks s) ki with
  | None => (s, None)
  | Some k =>
      let '(got, rest) := take_matching (k_rem k) (k_q k) in
      let k' := {| k_host := k_host k; k_ip := k_ip k; k_port := k_port k; k_rem := k_rem k; k_open := k_open k; k_q := rest;
                   k_log := match got with Some c => k_log k ++ [c] | None => k_log k end |} in
      (set_socks s (upd ki k' (n_socks s)), got)
  end.

(* bind with an explicit port (the port the implementation chose is passed for port 0): 0 ok, 1 cannot assign, 2 in use *)
Definition host_has_ip (t : topo) (h : nat) (ip : Z) : bool :=
  match nth_error (t_hosts t) h with
  | None => false
  | Some ht => (ip =? 0) || (ip =? loopback_ip) || memz ip (ht_ips ht)
  end.

Definition bind_sock (t : topo) (s : nst) (h : nat) (ip port : Z) (rem : option ep) : nst * Z :=
  if negb (host_has_ip t h ip) then (s, 1)
  else if existsb (fun k => k_open k && Nat.eqb (k_host k) h && (k_port k =? port) &&
                            ((ip =? 0) || (k_ip k =? 0) || (k_ip k =? ip))) (n_socks s) then (s, 2)
  else (set_socks s (n_socks s ++ [{| k_host := h; k_ip := ip; k_port := port; k_rem := rem; k_open := true; k_q := []; k_log := [] |}]), 0).

Definition close (s : nst) (ki : nat) : nst :=
  match nth_error (n_socks s) ki with
  | None => s
  | Some k => set_socks s (upd ki {| k_host := k_host k; k_ip := k_ip k; k_port := k_port k; k_rem := k_rem k; k_open := false;
                                     k_q := k_q k; k_log := k_log k |} (n_socks s))
  end.

Definition advance (s : nst) (dt : Z) : nst :=
  {| n_now := n_now s + (if dt <? 0 then 0 else dt); n_next := n_next s; n_started := n_started s; n_q := n_q s; n_nat := n_nat s;
     n_socks := n_socks s; n_written := n_written s |}.
Definition set_started (s : nst) (b : bool) : nst :=
  {| n_now := n_now s; n_next := n_next s; n_started := b; n_q := n_q s; n_nat := n_nat s;
     n_socks := n_socks s; n_written := n_written s |}.

(* ---- events ------------------------------------------------------------------------------------------------ *)
Inductive nev :=
| NWrite (k : nat) (dst : ep) (data : zs)
| NStep (r : nat)
| NRead (k : nat)
| NBind (h : nat) (ip port : Z) (rem : option ep)
| NClose (k : nat)
| NAdvance (dt : Z)
| NStart | NStop.

Definition nstep (t : topo) (s : nst) (e : nev) : nst :=
  match e with
  | NWrite k dst data => fst (write t s k dst data)
  | NStep r => route t s r
  | NRead k => fst (read s k)
  | NBind h ip port rem => fst (bind_sock t s h ip port rem)
  | NClose k => close s k
  | NAdvance dt => advance s dt
  | NStart => set_started s true
  | NStop => set_started s false
  end.

Fixpoint nrun (t : topo) (s : nst) (h : list nev) : nst :=
  match h with [] => s | e :: h' => nrun t (nstep t s e) h' end.

Definition n_init (t : topo) (nats : list nat_state) : nst :=
  {| n_now := 0; n_next := 0; n_started := false; n_q := map (fun _ => []) (t_routers t); n_nat := nats; n_socks := []; n_written := [] |}.

(* ---- run to quiescence and the wire interface ------------------------------------------------------------------ *)
(* after an operation the routers forward until every queue is empty (what synctest.Wait observes) *)
Fixpoint first_busy (qs : list (list chunk)) (i : nat) : option nat :=
  match qs with
  | [] => None
  | [] :: t => first_busy t (S i)
  | _ :: t => Some i
  end.

Fixpoint settle (fuel : nat) (t : topo) (s : nst) : nst :=
  match fuel with
  | O => s
  | S f => if n_started s then
             match first_busy (n_q s) O with
             | Some r => settle f t (route t s r)
             | None => s
             end
           else s
  end.

(* topology from the configuration segments:
   router [1; parent | -1; netip; mask; qcap; one-to-one?; mapping behaviour; filtering behaviour; lifetime; n; n mapped IPs; local IPs]
   host   [2; router | -1; eth0 addresses] *)
Fixpoint take_n (n : nat) (l : zs) : zs * zs :=
  match n, l with
  | O, _ => ([], l)
  | S m, x :: t => let '(a, b) := take_n m t in (x :: a, b)
  | S _, [] => ([], [])
  end.

Definition opt_idx (x : Z) : option nat := if x <? 0 then None else Some (Z.to_nat x).

Record rconf := { rc_parent : option nat; rc_net : Z; rc_mask : Z; rc_qcap : Z; rc_nat : nat_state; rc_mapped : zs }.

Definition parse_router (seg : zs) : option rconf :=
  match seg with
  | 1 :: par :: netip :: mask :: qcap :: o2o :: mb :: fb :: life :: n :: rest =>
      let '(mapped, locals) := take_n (Z.to_nat n) rest in
      Some {| rc_parent := opt_idx par; rc_net := netip; rc_mask := mask; rc_qcap := qcap;
              rc_nat := new_nat (z2b o2o) mb fb life mapped locals; rc_mapped := mapped |}
  | _ => None
  end.

Definition parse_host (seg : zs) : option htopo :=
  match seg with
  | 2 :: r :: ips => Some {| ht_router := opt_idx r; ht_ips := ips |}
  | _ => None
  end.

Fixpoint opt_list {A} (l : list (option A)) : list A :=
  match l with [] => [] | Some x :: t => x :: opt_list t | None :: t => opt_list t end.

Fixpoint enumerate {A} (l : list A) (i : nat) : list (nat * A) :=
  match l with [] => [] | x :: t => (i, x) :: enumerate t (S i) end.

Definition opt_nat_eqb (a : option nat) (r : nat) : bool := match a with Some x => Nat.eqb x r | None => false end.

Definition build_topo (conf : list zs) : topo * list nat_state :=
  let rcs := opt_list (map parse_router conf) in
  let hts := opt_list (map parse_host conf) in
  let nics_of (r : nat) : list (Z * nic) :=
    flat_map (fun ih => if opt_nat_eqb (ht_router (snd ih)) r then map (fun ip => (ip, NHost (fst ih))) (ht_ips (snd ih)) else [])
             (enumerate hts O) ++
    flat_map (fun ir => if opt_nat_eqb (rc_parent (snd ir)) r then map (fun ip => (ip, NRouter (fst ir))) (rc_mapped (snd ir)) else [])
             (enumerate rcs O) in
  ({| t_routers := map (fun ir => {| rt_parent := rc_parent (snd ir); rt_net := rc_net (snd ir); rt_mask := rc_mask (snd ir);
                                      rt_nics := nics_of (fst ir); rt_qcap := rc_qcap (snd ir) |}) (enumerate rcs O);
      t_hosts := hts |},
   map rc_nat rcs).

Definition sock_count (s : nst) : Z := zlen (n_socks s).

Definition net_op (t : topo) (s : nst) (o : zs) : nst * zs :=
  match o with
  | 1 :: k :: dip :: dport :: data =>
      let '(s', code) := write t s (Z.to_nat k) (dip, dport) data in (s', [code])
  | [2; k] =>
      match read s (Z.to_nat k) with
      | (s', Some c) => (s', 1 :: fst (c_src c) :: snd (c_src c) :: zlen (c_data c) :: c_data c)
      | (s', None) => (advance s' 1000000, [-1])   (* the harness waits one (virtual) millisecond for a datagram *)
      end
  | [3; h; ip; port; rf; rip; rport] =>
      let '(s', code) := bind_sock t s (Z.to_nat h) ip port (if rf =? 0 then None else Some (rip, rport)) in
      (s', [code; if code =? 0 then sock_count s else -1])
  | [4; k] => (close s (Z.to_nat k), [0])
  | [5; dt] => (advance s dt, [0])
  | [6] => (set_started s false, [0])
  | [7] => (set_started s true, [0])
  | _ => (s, [-9])
  end.

Fixpoint net_ops (t : topo) (s : nst) (ops : list zs) : list zs :=
  match ops with
  | [] => []
  | o :: rest => let '(s', out) := net_op t s o in out :: net_ops t (settle 64 t s') rest
  end.

Definition net_model_run (conf : list zs) (ops : list zs) : list zs :=
  let '(t, nats) := build_topo conf in net_ops t (n_init t nats) ops.
