(* Loss freedom, hop by hop: the conditions under which a write or a forwarding step keeps the datagram
   are exactly "the routing and NAT rules admit it, the routers are started, the next queue has room";
   under them the datagram is in the next place afterwards. *)
From Tx Require Import Common.Base Common.ListZ Nat.Model VnetAddr.Model Vnet.Network Vnet.NetProofs.

Local Arguments Z.add : simpl never.
Local Arguments Z.of_nat : simpl never.

(* router r accepts a pushed chunk *)
Definition room (t : topo) (s : nst) (r : nat) : bool :=
  match nth_error (t_routers t) r, nth_error (n_q s) r with
  | Some rt, Some q => n_started s && ((rt_qcap rt <=? 0) || (zlen q <? rt_qcap rt))
  | _, _ => false
  end.

(* host h has an open socket covering the destination whose receive queue is not full *)
Definition sock_room (s : nst) (h : nat) (dst : ep) : bool :=
  match find_sock_idx s h (fst dst) (snd dst) with
  | Some i => match nth_error (n_socks s) i with Some k => zlen (k_q k) <? readq_cap | None => false end
  | None => false
  end.

Definition hop_admits (t : topo) (s : nst) (r : nat) : bool :=
  match nth_error (t_routers t) r, getq s r with
  | Some rt, c :: rest =>
      n_started s &&
      let s1 := set_q s r rest in
      if in_subnet rt (fst (c_dst c)) then
        match lookup_nic (rt_nics rt) (fst (c_dst c)) with
        | None => false                                            (* no NIC holds the destination address *)
        | Some (NHost h) => sock_room s1 h (c_dst c)               (* no socket bound there / socket queue full *)
        | Some (NRouter r2) =>
            match translate_in (n_now s1) (natof s1 r2) (c_src c) (c_dst c) with
            | (n', ROk _) => room t (set_nat s1 r2 n') r2          (* child queue full / stopped *)
            | _ => false                                           (* the child's NAT refuses (C03) *)
            end
        end
      else
        match rt_parent rt with
        | None => false                                            (* no route at the root *)
        | Some p =>
            match translate_out (n_now s1) (natof s1 r) (c_src c) (c_dst c) with
            | (n', ROk _) => room t (set_nat s1 r n') p
            | _ => false                                           (* 1:1 NAT without a pairing, or no port left *)
            end
        end
  | _, _ => false
  end.

Lemma push_keeps t s r c : room t s r = true -> In (at_place c (place_router r)) (places (push t s r c)).
Proof.
  unfold room, push. destruct (nth_error (t_routers t) r) as [rt|]; [|discriminate].
  destruct (nth_error (n_q s) r) as [q|] eqn:E; [|discriminate]. unfold getq. rewrite (nth_error_nth' _ _ [] _ E).
  intro H. rewrite H. unfold places, set_q. simpl. apply in_app_iff. left.
  apply (in_concat_nth _ r (q ++ [at_place c (place_router r)])).
  - rewrite nth_error_upd, Nat.eqb_refl, E. reflexivity.
  - apply in_app_iff. right. left. reflexivity.
Qed.

Lemma deliver_keeps s h c : sock_room s h (c_dst c) = true -> exists i, In (at_place c (place_sock i)) (places (deliver_host s h c)).
Proof.
  unfold sock_room, deliver_host. destruct (find_sock_idx s h _ _) as [i|]; [|discriminate].
  destruct (nth_error (n_socks s) i) as [k|] eqn:E; [|discriminate]. intro H. rewrite H. exists i.
  unfold places, set_socks. simpl. apply in_app_iff. right.
  apply (in_flat_nth _ _ i (with_q k (k_q k ++ [at_place c (place_sock i)]))).
  - rewrite nth_error_upd, Nat.eqb_refl, E. reflexivity.
  - unfold sock_chunks, with_q. simpl. apply in_app_iff. right. apply in_app_iff. right. left. reflexivity.
Qed.

Theorem hop_not_lost t s r c rest : getq s r = c :: rest -> hop_admits t s r = true ->
  exists c' p, In c' (places (route t s r)) /\ same_dgram c' c /\ c_trail c' = c_trail c ++ [p].
Proof.
  intros Hq. unfold hop_admits, route. rewrite Hq.
  destruct (nth_error (t_routers t) r) as [rt|]; [|discriminate].
  destruct (n_started s); [|discriminate]. simpl.
  destruct (in_subnet rt (fst (c_dst c))).
  - destruct (lookup_nic (rt_nics rt) (fst (c_dst c))) as [[h|r2]|]; [| |discriminate].
    + intro H. destruct (deliver_keeps _ h c H) as [i Hi]. exists (at_place c (place_sock i)), (place_sock i).
      split; [assumption|split; [apply same_at_place|reflexivity]].
    + destruct (translate_in _ _ _ _) as [n' res]. destruct res as [a| |]; try discriminate.
      intro H. exists (at_place (re_dst c a) (place_router r2)), (place_router r2).
      split; [apply push_keeps; assumption|split; [split; reflexivity|reflexivity]].
  - destruct (rt_parent rt) as [p|]; [|discriminate].
    destruct (translate_out _ _ _ _) as [n' res]. destruct res as [a| |]; try discriminate.
    intro H. exists (at_place (re_src c a) (place_router p)), (place_router p).
    split; [apply push_keeps; assumption|split; [split; reflexivity|reflexivity]].
Qed.

(* a write: the socket exists, a source address can be chosen, and either the destination is a loopback
   address with a covering socket on the same host, or the host's router takes the chunk *)
Definition write_admits (t : topo) (s : nst) (ki : nat) (dst0 : ep) : bool :=
  match nth_error (n_socks s) ki with
  | None => false
  | Some k =>
      let dst := match k_rem k with Some a => a | None => dst0 end in
      match source_ip t k (fst dst) with
      | None => false
      | Some _ =>
          if is_loopback (fst dst) then sock_room s (k_host k) dst
          else match nth_error (t_hosts t) (k_host k) with
               | Some {| ht_router := Some r |} => room t s r
               | _ => false
               end
      end
  end.

Theorem write_not_lost t s ki dst data : write_admits t s ki dst = true ->
  snd (write t s ki dst data) = 0 /\
  exists c' p, In c' (places (fst (write t s ki dst data))) /\ c_id c' = n_next s /\ c_data c' = data /\ c_trail c' = [p].
Proof.
  unfold write_admits, write. destruct (nth_error (n_socks s) ki) as [k|]; [|discriminate].
  set (dst' := match k_rem k with Some a => a | None => dst end).
  destruct (source_ip t k (fst dst')) as [sip|]; [|discriminate].
  destruct (is_loopback (fst dst')).
  - intro H. simpl. split; [reflexivity|].
    match goal with |- context [deliver_host ?s0 ?h ?c] => destruct (deliver_keeps s0 h c H) as [i Hi]; exists (at_place c (place_sock i)), (place_sock i) end.
    auto.
  - destruct (nth_error (t_hosts t) (k_host k)) as [[[r|] ips]|]; try discriminate.
    intro H. simpl. split; [reflexivity|].
    match goal with |- context [push t ?s0 r ?c] => exists (at_place c (place_router r)), (place_router r); split; [apply (push_keeps t s0 r c H)|auto] end.
Qed.
