(* UDP listener: the socket is closed exactly when the listener and all accepted connections
   are closed (C12, sequential histories); dispatch facts (C11). *)
From Tx Require Import Common.Base UdpListener.Model.

Local Arguments Z.add : simpl never.
Local Arguments Z.sub : simpl never.

Definition is_open (c : uconn) : bool := c_accepted c && negb (c_closed c).
Definition open_acc (l : list uconn) : Z := fold_right (fun c a => (if is_open c then 1 else 0) + a) 0 l.

Lemma open_acc_app a b : open_acc (a ++ b) = open_acc a + open_acc b.
Proof. induction a as [|x a IH]; simpl; [lia|]. rewrite IH. lia. Qed.

Lemma open_acc_nonneg l : 0 <= open_acc l.
Proof. induction l as [|x l IH]; simpl; [lia|]. destruct (is_open x); lia. Qed.

Lemma open_acc_upd l : forall id f c, nth_error l id = Some c ->
  open_acc (upd_conn l id f) = open_acc l - (if is_open c then 1 else 0) + (if is_open (f c) then 1 else 0).
Proof.
  induction l as [|x l IH]; intros id f c H; destruct id; simpl in *; try discriminate.
  - inversion H; subst. lia.
  - rewrite (IH id f c H). lia.
Qed.

Lemma nth_upd_conn_same l : forall id f c, nth_error l id = Some c -> nth_error (upd_conn l id f) id = Some (f c).
Proof.
  induction l as [|x l IH]; intros id f c H; destruct id; simpl in *; try discriminate; [inversion H; reflexivity|].
  apply IH. assumption.
Qed.

Lemma nth_upd_conn_other l : forall id j f, id <> j -> nth_error (upd_conn l id f) j = nth_error l j.
Proof.
  induction l as [|x l IH]; intros id j f H; destruct id, j; simpl; try reflexivity; try lia. apply IH. lia.
Qed.

Lemma length_upd_conn l : forall id f, length (upd_conn l id f) = length l.
Proof. induction l as [|x l IH]; intros id f; destruct id; simpl; auto. Qed.

(* the queued connections are waiting: created, not accepted, not closed, each queued once *)
Definition queued_ok (s : lst) : Prop :=
  NoDup (acceptq s) /\
  forall id, In id (acceptq s) -> exists c, nth_error (allc s) id = Some c /\ c_accepted c = false /\ c_closed c = false.

Record LInv (s : lst) : Prop := {
  li_refs : refs s = (if l_closed s then 0 else 1) + zlen (acceptq s) + open_acc (allc s);
  li_closed : l_closed s = true -> acceptq s = [] /\ accepting s = false;
  li_queue : queued_ok s
}.

Lemma LInv_init bl fk : LInv (l_init bl fk).
Proof. split; simpl; try discriminate; [reflexivity|]. split; [constructor|intros ? []]. Qed.

(* the socket is closed exactly when the listener is closed and no accepted connection is open *)
Lemma socket_closed_iff s : LInv s ->
  sock_closed s = true <-> (l_closed s = true /\ open_acc (allc s) = 0).
Proof.
  intros [R C Q]. unfold sock_closed. rewrite R. pose proof (open_acc_nonneg (allc s)) as Ho.
  pose proof (zlen_nonneg (acceptq s)) as Hq. split.
  - intros H. destruct (l_closed s) eqn:E; [|lia]. split; [reflexivity|lia].
  - intros [Hc Ho0]. rewrite Hc. destruct (C Hc) as [Hq0 _]. rewrite Hq0, Ho0. reflexivity.
Qed.

(* ---- preservation ---------------------------------------------------------------------------- *)

Lemma deliver_fn_flags p c : c_accepted (deliver_fn p c) = c_accepted c /\ c_closed (deliver_fn p c) = c_closed c.
Proof. unfold deliver_fn. destruct (c_closed c) eqn:E; [auto|]. destruct (buf_full c); simpl; auto. Qed.

Lemma deliver_keeps_open l id p :
  open_acc (upd_conn l id (deliver_fn p)) = open_acc l.
Proof.
  unfold deliver_fn.
  destruct (nth_error l id) as [c|] eqn:E.
  - rewrite (open_acc_upd l id _ c E). unfold is_open.
    destruct (c_closed c) eqn:Ec; destruct (c_accepted c) eqn:Ea; destruct (buf_full c); simpl; rewrite ?Ec, ?Ea; simpl; lia.
  - clear - E. revert id E. induction l as [|x l IH]; intros id E; destruct id; simpl in *; try reflexivity; try discriminate.
    rewrite IH by assumption. reflexivity.
Qed.

Lemma NoDup_snoc {A} (l : list A) x : NoDup l -> ~ In x l -> NoDup (l ++ [x]).
Proof.
  induction l as [|y l IH]; intros ND Hn; simpl; [constructor; [intros []|constructor]|].
  inversion ND; subst. constructor.
  - intros Hin. apply in_app_iff in Hin. destruct Hin as [Hin|[<-|[]]]; [contradiction|]. apply Hn. left. reflexivity.
  - apply IH; [assumption|]. intros Hin. apply Hn. right. assumption.
Qed.

Lemma arrive_inv s r p : LInv s -> LInv (arrive s r p).
Proof.
  intros I. pose proof I as [R C [ND Q]]. unfold arrive.
  destruct (sock_closed s); [exact I|].
  fold (deliver_fn p).
  destruct (lookup (conns s) r) as [id|].
  - split; simpl.
    + rewrite deliver_keeps_open. exact R.
    + exact C.
    + split; [exact ND|]. intros j Hj; simpl in *. destruct (Q j Hj) as [c [H1 [H2 H3]]].
      destruct (Nat.eq_dec id j) as [->|Hne].
      * exists (deliver_fn p c). rewrite (nth_upd_conn_same _ _ _ c H1). destruct (deliver_fn_flags p c) as [F1 F2].
        rewrite F1, F2. auto.
      * exists c. rewrite nth_upd_conn_other by assumption. auto.
  - destruct (accepting s) eqn:Ea; simpl; [|exact I].
    destruct (filter_admits (filter_kind s) p); simpl; [|exact I].
    destruct (zlen (acceptq s) >=? backlog s); [exact I|].
    assert (Hlc : l_closed s = false).
    { destruct (l_closed s) eqn:E; [|reflexivity]. destruct (C eq_refl) as [_ H]. congruence. }
    set (id := length (allc s)).
    set (c := {| c_remote := r; c_buf := []; c_closed := false; c_accepted := false; c_limit := 0 |}).
    assert (Hnth : nth_error (allc s ++ [c]) id = Some c).
    { unfold id. rewrite nth_error_app2 by lia. rewrite Nat.sub_diag. reflexivity. }
    assert (Hfresh : ~ In id (acceptq s)).
    { intros Hin. destruct (Q id Hin) as [c0 [H1 _]]. assert (id < length (allc s))%nat by (apply nth_error_Some; congruence).
      unfold id in *. lia. }
    split; simpl.
    + rewrite deliver_keeps_open. rewrite open_acc_app, zlen_app. simpl. rewrite R, Hlc.
      unfold zlen. simpl. lia.
    + intros H. congruence.
    + split.
      * apply NoDup_snoc; assumption.
      * intros j Hj; simpl in *. apply in_app_iff in Hj.
        destruct Hj as [Hj|[<-|[]]].
        -- destruct (Q j Hj) as [c0 [H1 [H2 H3]]].
           assert (Hlt : (j < id)%nat) by (apply nth_error_Some; congruence).
           exists c0. rewrite nth_upd_conn_other by lia. rewrite nth_error_app1 by (fold id; lia). auto.
        -- exists (deliver_fn p c). rewrite (nth_upd_conn_same _ _ _ c Hnth).
           destruct (deliver_fn_flags p c) as [F1 F2]. rewrite F1, F2. auto.
Qed.

Lemma accept_inv s : LInv s -> LInv (fst (accept s)).
Proof.
  intros I. pose proof I as [R C [ND Q]]. unfold accept.
  destruct (acceptq s) as [|id rest] eqn:Eq.
  - destruct (l_closed s || sock_closed s); exact I.
  - simpl. destruct (Q id (or_introl eq_refl)) as [c [H1 [H2 H3]]].
    inversion ND as [|? ? Hnin ND']; subst.
    split; simpl.
    + rewrite (open_acc_upd _ _ _ c H1). unfold is_open at 1 2. simpl. rewrite H2, H3. simpl.
      rewrite R. rewrite zlen_cons. lia.
    + intros Hc. destruct (C Hc) as [H _]. discriminate.
    + split; [exact ND'|]. intros j Hj; simpl in *. destruct (Q j (or_intror Hj)) as [c0 [G1 [G2 G3]]].
      exists c0. rewrite nth_upd_conn_other; [auto|]. intros <-. contradiction.
Qed.

Lemma conn_read_inv s id k : LInv s -> LInv (fst (conn_read s id k)).
Proof.
  intros I. pose proof I as [R C [ND Q]]. unfold conn_read.
  destruct (nth_error (allc s) id) as [c|] eqn:E; [|exact I].
  destruct (c_buf c) as [|p rest] eqn:Eb; [exact I|]. simpl.
  split; simpl.
  - rewrite (open_acc_upd _ _ _ c E). unfold is_open. simpl. rewrite R. destruct (c_accepted c && negb (c_closed c)); lia.
  - exact C.
  - split; [exact ND|]. intros j Hj; simpl in *. destruct (Q j Hj) as [c0 [G1 [G2 G3]]].
    destruct (Nat.eq_dec id j) as [->|Hne].
    + rewrite G1 in E. inversion E; subst c0. eexists. rewrite (nth_upd_conn_same _ _ _ c G1). simpl. auto.
    + exists c0. rewrite nth_upd_conn_other by assumption. auto.
Qed.

(* changing the count limit of a connection's buffer touches nothing the invariant speaks about *)
Lemma set_limit_inv s id n : LInv s -> LInv (set_limit s id n).
Proof.
  intros I. pose proof I as [R C [ND Q]]. unfold set_limit.
  destruct (nth_error (allc s) id) as [c|] eqn:E.
  - split; simpl.
    + rewrite (open_acc_upd _ _ _ c E). unfold is_open. simpl. rewrite R. destruct (c_accepted c && negb (c_closed c)); lia.
    + exact C.
    + split; [exact ND|]. intros j Hj; simpl in *. destruct (Q j Hj) as [c0 [G1 [G2 G3]]].
      destruct (Nat.eq_dec id j) as [->|Hne].
      * rewrite G1 in E. inversion E; subst c0. eexists. rewrite (nth_upd_conn_same _ _ _ c G1). simpl. auto.
      * exists c0. rewrite nth_upd_conn_other by assumption. auto.
  - assert (Hsame : forall (l : list uconn) i f, nth_error l i = None -> upd_conn l i f = l).
    { induction l as [|x l IH]; intros i f Hn; destruct i; simpl in *; try reflexivity; try discriminate. rewrite IH by assumption. reflexivity. }
    rewrite Hsame by assumption. destruct s; exact I.
Qed.

(* closing an accepted connection *)
Lemma conn_close_inv s id c : LInv s -> nth_error (allc s) id = Some c -> c_accepted c = true ->
  LInv (conn_close s id).
Proof.
  intros I E Ha. pose proof I as [R C [ND Q]]. unfold conn_close. rewrite E.
  destruct (c_closed c) eqn:Ec; [exact I|].
  split; simpl.
  - rewrite (open_acc_upd _ _ _ c E). unfold is_open. simpl. rewrite Ha, Ec. simpl. rewrite R. lia.
  - exact C.
  - split; [exact ND|]. intros j Hj; simpl in *. destruct (Q j Hj) as [c0 [G1 [G2 G3]]].
    destruct (Nat.eq_dec id j) as [->|Hne].
    + rewrite G1 in E. inversion E; subst c0. congruence.
    + exists c0. rewrite nth_upd_conn_other by assumption. auto.
Qed.

Lemma discard_fold q : forall s,
  let s1 := fold_left (fun st id =>
      match nth_error (allc st) id with
      | Some c => with_parts st (remove_key (conns st) (c_remote c)) (allc st) (acceptq st) (accepting st) (l_closed st) (refs st - 1)
      | None => st
      end) q s in
  (forall id, In id q -> nth_error (allc s) id <> None) ->
  allc s1 = allc s /\ refs s1 = refs s - zlen q /\ l_closed s1 = l_closed s /\ accepting s1 = accepting s /\
  backlog s1 = backlog s /\ filter_kind s1 = filter_kind s.
Proof.
  induction q as [|id q IH]; intros s s1 H; simpl in *.
  - repeat split; try reflexivity. unfold s1. rewrite zlen_nil. lia.
  - destruct (nth_error (allc s) id) as [c|] eqn:E; [|exfalso; apply (H id); auto].
    set (s' := with_parts s (remove_key (conns s) (c_remote c)) (allc s) (acceptq s) (accepting s) (l_closed s) (refs s - 1)).
    destruct (IH s') as [A1 [A2 [A3 [A4 [A5 A6]]]]].
    + intros j Hj. simpl. apply H. right. assumption.
    + fold s' in s1. unfold s1. rewrite A1, A2, A3, A4, A5, A6. simpl. rewrite zlen_cons. repeat split; try reflexivity. lia.
Qed.

Lemma listener_close_inv s : LInv s -> LInv (listener_close s).
Proof.
  intros I. pose proof I as [R C [ND Q]]. unfold listener_close.
  destruct (l_closed s) eqn:Ec; [exact I|].
  destruct (discard_fold (acceptq s) s) as [A1 [A2 [A3 [A4 _]]]].
  { intros id Hid. destruct (Q id Hid) as [c [H _]]. congruence. }
  split; simpl.
  - rewrite A1, A2, R. change (zlen (@nil nat)) with 0. lia.
  - auto.
  - split; [constructor|intros ? []].
Qed.

Definition op_valid (s : lst) (o : lop) : Prop :=
  match o with
  | LConnClose id => exists c, nth_error (allc s) id = Some c /\ c_accepted c = true
  | _ => True
  end.

Fixpoint hist_valid (s : lst) (h : list lop) : Prop :=
  match h with [] => True | o :: h' => op_valid s o /\ hist_valid (fst (l_step s o)) h' end.

Lemma step_inv s o : LInv s -> op_valid s o -> LInv (fst (l_step s o)).
Proof.
  intros I V. destruct o as [r p| |id k|id| |id n|id]; simpl.
  - apply arrive_inv. assumption.
  - pose proof (accept_inv s I) as A. destruct (accept s) as [s' r]. exact A.
  - pose proof (conn_read_inv s id k I) as A. destruct (conn_read s id k) as [s' [c bs]]. exact A.
  - destruct V as [c [H1 H2]]. eapply conn_close_inv; eassumption.
  - apply listener_close_inv. assumption.
  - apply set_limit_inv. assumption.
  - exact I.
Qed.

Theorem final_inv h : forall s, LInv s -> hist_valid s h -> LInv (l_final s h).
Proof.
  induction h as [|o h IH]; intros s I V; [exact I|]. destruct V as [V1 V2]. simpl.
  apply IH; [apply step_inv; assumption|assumption].
Qed.
