(* Interleaving model of the reference counting that decides when the UDP listener's shared socket is closed
   (udp/conn.go: getConn, Accept, listener.Close, Conn.Close, the closer goroutine started by Listen).

   Connection identities do not matter for the count, so the state keeps numbers: the length of the accept queue,
   the number of connections that Accept has handed out and whose Close has not yet executed its connWG.Done, and
   the WaitGroup counter itself. The read loop is one goroutine (dispatching one datagram at a time), listener.Close
   runs once (doneOnce), any number of Accept calls and connection Closes run concurrently: every step below is one
   synchronisation operation of the code; every interleaving is a sequence of steps. *)
From Tx Require Import Common.Base.

Local Arguments Z.add : simpl never.
Local Arguments Z.sub : simpl never.

Inductive rlpc := RIdle | RAdd | RSend | RUnl.        (* read loop inside getConn; RAdd..RUnl hold connLock *)
Inductive lcpc := L0 | L1 | L2 | L3 | L4 | L5 | L6 | L7.
(* listener.Close: L0 not started or before accepting.Store(false); L1 before close(doneCh); L2 before connLock.Lock;
   L3 in the drain loop (lock held); L4 took a queued connection, before its connWG.Done; L5 drain finished, before Unlock;
   L6 before its own connWG.Done; L7 reference dropped *)

Record cstate := {
  wg : Z;              (* connWG counter *)
  qlen : Z; qcap : Z;  (* accept queue *)
  n_open : Z;          (* accepted connections whose Close has not run connWG.Done yet *)
  accepting : bool;
  lref : bool;         (* the listener's own reference is still counted *)
  sock_closed : bool;
  rl : rlpc; lc : lcpc
}.

Definition c_init (cap : Z) : cstate :=
  {| wg := 1; qlen := 0; qcap := cap; n_open := 0; accepting := true; lref := true; sock_closed := false; rl := RIdle; lc := L0 |}.

Inductive cev :=
| ERlEnter (known : bool)   (* getConn takes connLock, looks the remote up, reads accepting *)
| ERlAdd                    (* connWG.Add(1) for the connection about to be queued *)
| ERlSend                   (* select: queue it, or (backlog full) connWG.Done *)
| ERlUnlock
| ELcStore | ELcCloseDone | ELcLock | ELcTake | ELcDrainDone | ELcDrainEnd | ELcUnlock | ELcRelease
| EAccept                   (* Accept takes a queued connection *)
| ECcDone                   (* Conn.Close of an accepted connection: connWG.Done (its first action, once) *)
| ECloser                   (* the closer goroutine: connWG.Wait has returned, the socket is closed *)
| ELockProbe.               (* somebody else (Conn.Close deleting its map entry) takes connLock: it must be free *)

Definition lock_free (s : cstate) : bool :=
  match rl s, lc s with
  | RIdle, (L0 | L1 | L2 | L6 | L7) => true
  | _, _ => false
  end.

Definition set_rl (s : cstate) (p : rlpc) : cstate :=
  {| wg := wg s; qlen := qlen s; qcap := qcap s; n_open := n_open s; accepting := accepting s; lref := lref s;
     sock_closed := sock_closed s; rl := p; lc := lc s |}.
Definition set_lc (s : cstate) (p : lcpc) : cstate :=
  {| wg := wg s; qlen := qlen s; qcap := qcap s; n_open := n_open s; accepting := accepting s; lref := lref s;
     sock_closed := sock_closed s; rl := rl s; lc := p |}.
Definition set_wg_q (s : cstate) (w q : Z) : cstate :=
  {| wg := w; qlen := q; qcap := qcap s; n_open := n_open s; accepting := accepting s; lref := lref s;
     sock_closed := sock_closed s; rl := rl s; lc := lc s |}.

(* None: the event is not enabled in this state *)
Definition cstep (s : cstate) (e : cev) : option cstate :=
  match e with
  | ERlEnter known =>
      if lock_free s then
        Some (set_rl s (if known then RUnl else if accepting s then RAdd else RUnl))
      else None
  | ERlAdd => match rl s with RAdd => Some (set_rl (set_wg_q s (wg s + 1) (qlen s)) RSend) | _ => None end
  | ERlSend =>
      match rl s with
      | RSend => if qlen s <? qcap s then Some (set_rl (set_wg_q s (wg s) (qlen s + 1)) RUnl)
                 else Some (set_rl (set_wg_q s (wg s - 1) (qlen s)) RUnl)
      | _ => None
      end
  | ERlUnlock => match rl s with RUnl => Some (set_rl s RIdle) | _ => None end
  | ELcStore =>
      match lc s with
      | L0 => Some {| wg := wg s; qlen := qlen s; qcap := qcap s; n_open := n_open s; accepting := false; lref := lref s;
                      sock_closed := sock_closed s; rl := rl s; lc := L1 |}
      | _ => None
      end
  | ELcCloseDone => match lc s with L1 => Some (set_lc s L2) | _ => None end
  | ELcLock => match lc s with L2 => if lock_free s then Some (set_lc s L3) else None | _ => None end
  | ELcTake => match lc s with L3 => if 0 <? qlen s then Some (set_lc (set_wg_q s (wg s) (qlen s - 1)) L4) else None | _ => None end
  | ELcDrainDone => match lc s with L4 => Some (set_lc (set_wg_q s (wg s - 1) (qlen s)) L3) | _ => None end
  | ELcDrainEnd => match lc s with L3 => if qlen s =? 0 then Some (set_lc s L5) else None | _ => None end
  | ELcUnlock => match lc s with L5 => Some (set_lc s L6) | _ => None end
  | ELcRelease =>
      match lc s with
      | L6 => Some {| wg := wg s - 1; qlen := qlen s; qcap := qcap s; n_open := n_open s; accepting := accepting s; lref := false;
                      sock_closed := sock_closed s; rl := rl s; lc := L7 |}
      | _ => None
      end
  | EAccept =>
      if 0 <? qlen s then
        Some {| wg := wg s; qlen := qlen s - 1; qcap := qcap s; n_open := n_open s + 1; accepting := accepting s; lref := lref s;
                sock_closed := sock_closed s; rl := rl s; lc := lc s |}
      else None
  | ECcDone =>
      if 0 <? n_open s then
        Some {| wg := wg s - 1; qlen := qlen s; qcap := qcap s; n_open := n_open s - 1; accepting := accepting s; lref := lref s;
                sock_closed := sock_closed s; rl := rl s; lc := lc s |}
      else None
  | ELockProbe => if lock_free s then Some s else None
  | ECloser =>
      if (wg s =? 0) && negb (sock_closed s) then
        Some {| wg := wg s; qlen := qlen s; qcap := qcap s; n_open := n_open s; accepting := accepting s; lref := lref s;
                sock_closed := true; rl := rl s; lc := lc s |}
      else None
  end.

Fixpoint crun (s : cstate) (h : list cev) : option cstate :=
  match h with
  | [] => Some s
  | e :: h' => match cstep s e with Some s' => crun s' h' | None => None end
  end.

(* ---- invariant ------------------------------------------------------------------------------------------------------ *)
Definition inflight (s : cstate) : Z :=
  (match rl s with RSend => 1 | _ => 0 end) + (match lc s with L4 => 1 | _ => 0 end).

Record CInv (s : cstate) : Prop := {
  ci_count : wg s = b2z (lref s) + qlen s + n_open s + inflight s;
  ci_nonneg : 0 <= qlen s /\ 0 <= n_open s;
  ci_lref : lref s = false <-> lc s = L7;
  ci_acc : lc s <> L0 -> accepting s = false;
  ci_excl : (rl s = RAdd \/ rl s = RSend) -> (lc s = L0 \/ lc s = L1 \/ lc s = L2);
  ci_lockx : rl s <> RIdle -> (lc s <> L3 /\ lc s <> L4 /\ lc s <> L5);
  ci_drained : (lc s = L5 \/ lc s = L6 \/ lc s = L7) -> qlen s = 0;
  ci_sock : sock_closed s = true -> lref s = false /\ n_open s = 0
}.

Lemma cinv_init cap : CInv (c_init cap).
Proof.
  split; simpl; try lia; try tauto; try discriminate;
    try (split; intro H; discriminate); try (intros [H|H]; discriminate); try (intros [H|[H|H]]; discriminate).
Qed.

Lemma cstep_inv s e s' : CInv s -> cstep s e = Some s' -> CInv s'.
Proof.
  intros [C N LR AC EX LX DR SK] H.
  destruct s as [w q cap no acc lr sk r l]. unfold inflight, b2z in *. simpl in *.
  destruct e; simpl in H; unfold lock_free, set_rl, set_lc, set_wg_q in H; simpl in H;
    destruct r, l; simpl in H; try discriminate;
    repeat match type of H with context [if ?b then _ else _] => destruct b eqn:? end; try discriminate;
    inversion H; subst; clear H;
    destruct lr, sk; simpl in *;
    try (exfalso; solve [ intuition discriminate | intuition congruence | intuition lia ]);
    (split; unfold inflight, b2z; simpl in *;
     solve [ lia | intuition (try discriminate; try congruence; try lia) ]).
Qed.

Theorem crun_inv h : forall s s', CInv s -> crun s h = Some s' -> CInv s'.
Proof.
  induction h as [|e h IH]; intros s s' I H; simpl in H.
  - inversion H; subst. assumption.
  - destruct (cstep s e) as [s1|] eqn:E; [|discriminate]. apply (IH s1); [|assumption]. eapply cstep_inv; eauto.
Qed.

(* nothing can move any more *)
Definition quiescent (s : cstate) : Prop := forall e, cstep s e = None.

Lemma quiescent_closed s : CInv s -> quiescent s -> lc s = L7 -> n_open s = 0 -> sock_closed s = true.
Proof.
  intros [C N LR AC EX LX DR SK] Q Hl Hn.
  assert (Hq : qlen s = 0) by (apply DR; auto).
  assert (Hlr : lref s = false) by (apply LR; assumption).
  pose proof (Q ECloser) as Hc. simpl in Hc.
  assert (Hr : rl s = RIdle).
  { destruct (rl s) eqn:Er; try reflexivity.
    - pose proof (Q ERlAdd) as H. simpl in H. rewrite Er in H. discriminate.
    - pose proof (Q ERlSend) as H. simpl in H. rewrite Er in H. destruct (qlen s <? qcap s); discriminate.
    - pose proof (Q ERlUnlock) as H. simpl in H. rewrite Er in H. discriminate. }
  unfold inflight, b2z in C. rewrite Hr, Hl, Hlr, Hq, Hn in C. simpl in C.
  destruct (sock_closed s) eqn:Es; [reflexivity|]. rewrite C in Hc. simpl in Hc. discriminate.
Qed.


(* ---- replay of scheduler logs (trace validation of udp/conn.go under the controlled scheduler) -----------------------
   entries [code; argument]: 0 ERlEnter (argument 1: remote known or not accepting), 1 ERlAdd, 2 ERlSend, 3 ERlUnlock,
   4 ELcStore, 5 ELcCloseDone, 6 ELcLock, 7 ELcTake, 8 ELcDrainDone, 9 ELcDrainEnd, 10 ELcUnlock, 11 ELcRelease,
   12 EAccept, 13 ECcDone, 14 ECloser, 15 ELockProbe *)
Definition cev_of (o : zs) : option cev :=
  match o with
  | 0 :: k :: _ => Some (ERlEnter (negb (k =? 0)))
  | 1 :: _ => Some ERlAdd | 2 :: _ => Some ERlSend | 3 :: _ => Some ERlUnlock
  | 4 :: _ => Some ELcStore | 5 :: _ => Some ELcCloseDone | 6 :: _ => Some ELcLock | 7 :: _ => Some ELcTake
  | 8 :: _ => Some ELcDrainDone | 9 :: _ => Some ELcDrainEnd | 10 :: _ => Some ELcUnlock | 11 :: _ => Some ELcRelease
  | 12 :: _ => Some EAccept | 13 :: _ => Some ECcDone | 14 :: _ => Some ECloser | 15 :: _ => Some ELockProbe
  | _ => None
  end.

Fixpoint c12_follow (s : cstate) (log : list zs) (idx : Z) : cstate * option Z :=
  match log with
  | [] => (s, None)
  | o :: rest =>
      match cev_of o with
      | Some e => match cstep s e with Some s' => c12_follow s' rest (idx + 1) | None => (s, Some idx) end
      | None => (s, Some idx)
      end
  end.

(* conf [9; seed; backlog]; answer [1; socket closed; accepted connections still open; listener reference held] | [0; index] *)
Definition c12_replay (conf : zs) (log : list zs) : list zs :=
  let cap := match conf with _ :: _ :: c :: _ => c | _ => 1 end in
  match c12_follow (c_init cap) log 0 with
  | (s, None) => [[1; b2z (sock_closed s); n_open s; b2z (lref s)]]
  | (_, Some i) => [[0; i]]
  end.
