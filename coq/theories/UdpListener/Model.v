(* Executable model of udp/conn.go: the listener that turns one UDP socket into per-remote
   connections. Sequential view: each event below is one critical section of the code (arrival
   of a datagram = one iteration of the read loop; Accept; Conn.Read; Conn.Close; listener
   Close). Connections are numbered in creation order; a remote address is an integer.

   connWG of the Go code = [refs]: one reference for the listener plus one per connection that
   was queued for Accept and is neither closed nor discarded. The socket is closed by the
   closer goroutine as soon as [refs] reaches 0. *)
From Tx Require Import Common.Base.
From Tx Require Export Common.ListZ.

Record uconn := {
  c_remote : Z;
  c_buf : list (list Z);        (* unread datagrams, oldest first *)
  c_closed : bool;              (* Conn.Close was called (buffer closed) *)
  c_accepted : bool;            (* returned by Accept *)
  c_limit : Z                   (* packet-count limit of the connection's buffer (SetLimitCount of its packetio.Buffer); 0 = none *)
}.

Record lst := {
  conns : list (Z * nat);       (* remote -> connection id: the map l.conns *)
  allc : list uconn;            (* every connection ever created, by id *)
  acceptq : list nat;           (* l.acceptCh: queued connection ids, oldest first *)
  backlog : Z;
  accepting : bool;
  l_closed : bool;              (* listener Close was called *)
  refs : Z;                     (* connWG *)
  filter_kind : Z               (* accept filter: 0 none, 1 first byte odd, 2 reject all, 3 empty or first byte odd *)
}.

Definition sock_closed (s : lst) : bool := refs s <=? 0.

Definition l_init (bl fk : Z) : lst :=
  {| conns := []; allc := []; acceptq := []; backlog := bl; accepting := true; l_closed := false; refs := 1;
     filter_kind := fk |}.

Definition filter_admits (k : Z) (p : list Z) : bool :=
  if k =? 1 then match p with x :: _ => Z.odd x | [] => false end
  else if k =? 2 then false
  else if k =? 3 then match p with x :: _ => Z.odd x | [] => true end
  else true.

Fixpoint lookup (m : list (Z * nat)) (r : Z) : option nat :=
  match m with [] => None | (r', id) :: t => if r' =? r then Some id else lookup t r end.

Definition remove_key (m : list (Z * nat)) (r : Z) : list (Z * nat) :=
  filter (fun e => negb (fst e =? r)) m.

Fixpoint upd_conn (l : list uconn) (i : nat) (f : uconn -> uconn) : list uconn :=
  match l, i with
  | [], _ => []
  | c :: t, O => f c :: t
  | c :: t, S n => c :: upd_conn t n f
  end.

Definition with_parts (s : lst) (cs : list (Z * nat)) (ac : list uconn) (q : list nat) (acc lc : bool) (rf : Z) : lst :=
  {| conns := cs; allc := ac; acceptq := q; backlog := backlog s; accepting := acc; l_closed := lc; refs := rf;
     filter_kind := filter_kind s |}.

(* the connection's buffer refuses a datagram when its packet-count limit is reached (packetio.ErrFull): the datagram is dropped,
   the connection stays what and where it is *)
Definition buf_full (c : uconn) : bool := (0 <? c_limit c) && (zlen (c_buf c) >=? c_limit c).

Definition deliver_fn (p : list Z) (c : uconn) : uconn :=
  if c_closed c then c
  else if buf_full c then c
  else {| c_remote := c_remote c; c_buf := c_buf c ++ [p]; c_closed := false; c_accepted := c_accepted c; c_limit := c_limit c |}.

(* one datagram read by the read loop (only while the socket is open) *)
Definition arrive (s : lst) (r : Z) (p : list Z) : lst :=
  if sock_closed s then s
  else
    let deliver id st :=
      with_parts st (conns st) (upd_conn (allc st) id (deliver_fn p))
        (acceptq st) (accepting st) (l_closed st) (refs st) in
    match lookup (conns s) r with
    | Some id => deliver id s
    | None =>
        if negb (accepting s) then s
        else if negb (filter_admits (filter_kind s) p) then s
        else if zlen (acceptq s) >=? backlog s then s
        else
          let id := length (allc s) in
          let c := {| c_remote := r; c_buf := []; c_closed := false; c_accepted := false; c_limit := 0 |} in
          deliver id (with_parts s ((r, id) :: conns s) (allc s ++ [c]) (acceptq s ++ [id]) (accepting s) (l_closed s) (refs s + 1))
    end.

(* Accept without blocking: Some (Some id) a connection, Some None "listener closed", None would block *)
Definition accept (s : lst) : lst * option (option nat) :=
  match acceptq s with
  | id :: rest =>
      (with_parts s (conns s) (upd_conn (allc s) id (fun c =>
         {| c_remote := c_remote c; c_buf := c_buf c; c_closed := c_closed c; c_accepted := true; c_limit := c_limit c |}))
         rest (accepting s) (l_closed s) (refs s), Some (Some id))
  | [] => if l_closed s || sock_closed s then (s, Some None) else (s, None)
  end.

(* Conn.Read into a slice of k bytes: class 0 ok, 1 short buffer, 2 EOF, 3 would block *)
Definition conn_read (s : lst) (id : nat) (k : Z) : lst * (Z * list Z) :=
  match nth_error (allc s) id with
  | None => (s, (3, []))
  | Some c =>
      match c_buf c with
      | p :: rest =>
          (with_parts s (conns s) (upd_conn (allc s) id (fun c0 =>
             {| c_remote := c_remote c0; c_buf := rest; c_closed := c_closed c0; c_accepted := c_accepted c0; c_limit := c_limit c0 |}))
             (acceptq s) (accepting s) (l_closed s) (refs s),
           (if k <? zlen p then 1 else 0, zfirstn k p))
      | [] => (s, (if c_closed c then 2 else 3, []))
      end
  end.

(* Conn.Close (idempotent) *)
Definition conn_close (s : lst) (id : nat) : lst :=
  match nth_error (allc s) id with
  | None => s
  | Some c =>
      if c_closed c then s
      else
        with_parts s (remove_key (conns s) (c_remote c))
          (upd_conn (allc s) id (fun c0 =>
             {| c_remote := c_remote c0; c_buf := c_buf c0; c_closed := true; c_accepted := c_accepted c0; c_limit := c_limit c0 |}))
          (acceptq s) (accepting s) (l_closed s) (refs s - 1)
  end.

(* listener Close (idempotent): stop accepting, discard the queued connections, drop the listener's reference *)
Definition listener_close (s : lst) : lst :=
  if l_closed s then s
  else
    let discard st id :=
      match nth_error (allc st) id with
      | Some c => with_parts st (remove_key (conns st) (c_remote c)) (allc st) (acceptq st) (accepting st) (l_closed st) (refs st - 1)
      | None => st
      end in
    let s1 := fold_left discard (acceptq s) s in
    with_parts s1 (conns s1) (allc s1) [] false true (refs s1 - 1).

(* the count limit of a connection's buffer is changed (harness accessor: Conn.buffer.SetLimitCount) *)
Definition set_limit (s : lst) (id : nat) (n : Z) : lst :=
  with_parts s (conns s) (upd_conn (allc s) id (fun c =>
    {| c_remote := c_remote c; c_buf := c_buf c; c_closed := c_closed c; c_accepted := c_accepted c; c_limit := n |}))
    (acceptq s) (accepting s) (l_closed s) (refs s).

Inductive lop :=
| LArrive (r : Z) (p : list Z) | LAccept | LRead (id : nat) (k : Z) | LConnClose (id : nat) | LClose | LSetLimit (id : nat) (n : Z)
| LWrite (id : nat).   (* Conn.Write: whatever becomes of the datagram, the listener's state is not touched *)

(* observation after every operation ends with the socket state (1 = closed) *)
Definition l_step (s : lst) (o : lop) : lst * zs :=
  match o with
  | LArrive r p => let s' := arrive s r p in (s', [b2z (sock_closed s')])
  | LAccept =>
      let '(s', r) := accept s in
      (s', match r with
           | Some (Some id) => [0; Z.of_nat id; match nth_error (allc s') id with Some c => c_remote c | None => -1 end; b2z (sock_closed s')]
           | Some None => [2; b2z (sock_closed s')]
           | None => [3; b2z (sock_closed s')]
           end)
  | LRead id k => let '(s', (c, bs)) := conn_read s id k in (s', c :: zlen bs :: bs ++ [b2z (sock_closed s')])
  | LConnClose id => let s' := conn_close s id in (s', [b2z (sock_closed s')])
  | LClose => let s' := listener_close s in (s', [b2z (sock_closed s')])
  | LSetLimit id n => let s' := set_limit s id n in (s', [b2z (sock_closed s')])
  | LWrite _ => (s, [b2z (sock_closed s)])
  end.

Fixpoint l_run (s : lst) (h : list lop) : list zs :=
  match h with [] => [] | o :: h' => let '(s', r) := l_step s o in r :: l_run s' h' end.

Fixpoint l_final (s : lst) (h : list lop) : lst :=
  match h with [] => s | o :: h' => l_final (fst (l_step s o)) h' end.

(* wire: conf [backlog; filter kind]; op [1; remote; bytes...] arrive | [2] accept | [3; id; k] read |
   [4; id] conn close | [5] listener close | [6; id; n] count limit of the connection's buffer *)
Definition dec_lop (o : zs) : lop :=
  match o with
  | 1 :: r :: p => LArrive r p
  | 2 :: _ => LAccept
  | 3 :: id :: k :: _ => LRead (Z.to_nat id) k
  | 4 :: id :: _ => LConnClose (Z.to_nat id)
  | 6 :: id :: n :: _ => LSetLimit (Z.to_nat id) n
  | 7 :: id :: _ => LWrite (Z.to_nat id)
  | _ => LClose
  end.

Definition udp_run (conf : zs) (ops : list zs) : list zs :=
  match conf with
  | bl :: fk :: _ => l_run (l_init bl fk) (map dec_lop ops)
  | _ => []
  end.
