(* Invariant of the Deadline bookkeeping under every interleaving of Set, time, timer
   dispatch and (possibly stale) callbacks. *)
From Tx Require Import Common.Base Deadline.Model.

Record DInv (d : dl) : Prop := {
  i_out : 0 <= outstanding d;
  i_pending : pending d = outstanding d + (if isStarted (st d) && isSome (armed d) then 1 else 0);
  i_armed : forall t, armed d = Some t -> st d = Started /\ t = deadline d;
  i_closed : done_closed d = isExceeded (st d);
  i_exceeded : st d = Exceeded -> deadline d <> 0 /\ deadline d <= now d;
  i_started : st d = Started -> deadline d <> 0 /\ (armed d = None -> 1 <= outstanding d /\ deadline d <= now d);
  i_stopped : st d = Stopped -> deadline d = 0;
  i_nodouble : double_close d = false;
  i_now : 0 < now d
}.

Lemma DInv_init t0 : 0 < t0 -> DInv (dl0 t0).
Proof. intros H. split; simpl; try reflexivity; try lia; try discriminate; intros; discriminate. Qed.

Lemma u8_id z : 0 <= z < 256 -> u8 z = z.
Proof. intros. unfold u8. apply Z.mod_small. lia. Qed.

Ltac dfin :=
  simpl; rewrite ?u8_id by (rewrite ?u8_id by lia; lia);
  try reflexivity; try lia; try discriminate; try assumption;
  try (intros; discriminate);
  try (intros ? H; inversion H; subst; split; [reflexivity|lia]);
  try (split; lia).

Lemma set_inv d t : DInv d -> outstanding d < 254 -> DInv (set d t).
Proof.
  intros [I1 I2 I3 I4 I5 I6 I7 I8 I9] Hb. unfold set.
  destruct (st d) eqn:Es; simpl in *;
  destruct (armed d) as [a|] eqn:Ea; simpl in *;
  try (destruct (I3 a eq_refl) as [Hc _]; discriminate);
  rewrite ?I2;
  destruct (t =? 0) eqn:E0; destruct (t >? now d) eqn:E1; split; dfin.
  all: try (intros _; split; [lia|intros; discriminate]).
  all: try (rewrite I8, I4; reflexivity).
  all: try (rewrite I4; reflexivity).
  all: try (rewrite I8; reflexivity).
  all: repeat match goal with |- context[u8 ?x] => rewrite (u8_id x) by lia end; lia.
Qed.

Lemma fire_inv d : DInv d -> DInv (fire d).
Proof.
  intros I. pose proof I as [I1 I2 I3 I4 I5 I6 I7 I8 I9]. unfold fire.
  destruct (armed d) as [a|] eqn:Ea; [|exact I].
  destruct (a <=? now d) eqn:E; [|exact I].
  destruct (I3 a eq_refl) as [Hs Ha]. rewrite Hs in *. simpl in *.
  split; simpl; rewrite ?Hs; simpl; try assumption; try lia; try discriminate.
  all: try (intros; discriminate).
  all: try (intros _; split; [apply I6; reflexivity|]; intros _; split; lia).
Qed.

Ltac u8s := repeat match goal with |- context[u8 ?x] => rewrite (u8_id x) by lia end.

Lemma run_inv d : DInv d -> outstanding d < 254 -> DInv (run_callback d).
Proof.
  intros I Hb. pose proof I as [I1 I2 I3 I4 I5 I6 I7 I8 I9]. unfold run_callback.
  destruct (outstanding d <=? 0) eqn:E0; [exact I|].
  destruct (st d) eqn:Es; simpl in *.
  - (* Stopped *)
    destruct (armed d) as [a|] eqn:Ea; [destruct (I3 a eq_refl); discriminate|]. simpl in *.
    rewrite orb_true_r. split; simpl; rewrite ?Es; simpl; try assumption; try lia; try discriminate.
    all: try (rewrite I2; u8s; lia).
    all: try (intros; discriminate).
  - (* Started *)
    destruct (armed d) as [a|] eqn:Ea; simpl in *.
    + (* timer re-armed: the callback is stale *)
      rewrite I2. replace (outstanding d + 1 - 1) with (outstanding d) by lia. rewrite u8_id by lia.
      destruct (outstanding d =? 0) eqn:E1; [lia|]. simpl.
      split; simpl; rewrite ?Es, ?Ea; simpl; try assumption; try lia; try discriminate.
      all: try (intros _; split; [apply I6; reflexivity|intros; discriminate]).
    + rewrite I2. replace (outstanding d + 0 - 1) with (outstanding d - 1) by lia. rewrite u8_id by lia.
      destruct (I6 eq_refl) as [Hd Hq]. destruct (Hq eq_refl) as [Ho Hdl].
      destruct (outstanding d - 1 =? 0) eqn:E1; simpl.
      * split; simpl; try assumption; try lia; try discriminate; try reflexivity.
        all: try (intros; discriminate).
        all: try (intros _; split; assumption).
        all: try (rewrite I8, I4; reflexivity).
      * split; simpl; rewrite ?Es, ?Ea; simpl; try assumption; try lia; try discriminate.
        all: try (intros; discriminate).
        all: try (intros _; split; [assumption|]; intros _; split; lia).
  - (* Exceeded *)
    destruct (armed d) as [a|] eqn:Ea; [destruct (I3 a eq_refl); discriminate|]. simpl in *.
    rewrite orb_true_r. split; simpl; rewrite ?Es; simpl; try assumption; try lia; try discriminate.
    all: try (rewrite I2; u8s; lia).
    all: try (intros; discriminate).
Qed.

Lemma advance_inv d dt : DInv d -> DInv (advance d dt).
Proof.
  intros [I1 I2 I3 I4 I5 I6 I7 I8 I9]. unfold advance.
  assert (Hn : now d <= now d + (if dt <? 0 then 0 else dt)) by (destruct (dt <? 0) eqn:E; lia).
  split; simpl; try assumption; try lia.
  all: try (intros H; destruct (I5 H); split; [assumption|lia]).
  all: try (intros H; destruct (I6 H) as [Hd Hq]; split; [assumption|]; intros Ha; destruct (Hq Ha); split; [assumption|lia]).
Qed.

(* histories in which the number of dispatched-but-not-run callbacks stays below the range of
   the uint8 counter *)
Fixpoint bounded (d : dl) (h : list dop) : Prop :=
  match h with
  | [] => True
  | o :: h' => outstanding d < 254 /\ bounded (dl_step d o) h'
  end.

Lemma step_inv d o : DInv d -> outstanding d < 254 -> DInv (dl_step d o).
Proof.
  intros I Hb. destruct o; simpl.
  - apply set_inv; assumption.
  - apply fire_inv; assumption.
  - apply run_inv; assumption.
  - apply advance_inv; assumption.
Qed.

Theorem final_inv h : forall d, DInv d -> bounded d h -> DInv (dl_final d h).
Proof.
  induction h as [|o h IH]; intros d I B; [exact I|]. destruct B as [Hb B]. simpl.
  apply IH; [apply step_inv; assumption|assumption].
Qed.

