(* Executable model of deadline/deadline.go together with its environment: a one-shot timer
   (time.AfterFunc) whose expiry is DISPATCHED by the runtime at some moment ([Fire]) and whose
   callback RUNS at a later moment ([RunCallback]); in between any number of Set calls may
   happen - the stale-callback race the `pending` counter exists for.
   Time is an integer (ns); the zero time.Time is 0, all real instants are > 0. *)
From Tx Require Import Common.Base.

Inductive dstate := Stopped | Started | Exceeded.

Record dl := {
  st : dstate;
  pending : Z;               (* uint8 *)
  deadline : Z;              (* last Set argument; 0 = zero time *)
  done : Z;                  (* identity of the current Done channel *)
  done_closed : bool;        (* is the current Done channel closed? *)
  double_close : bool;       (* a closed channel was closed again (Go would panic) *)
  armed : option Z;          (* environment: the timer is armed for this instant *)
  outstanding : Z;           (* environment: expiries dispatched, callbacks not yet run *)
  now : Z
}.

Definition dl0 (t0 : Z) : dl :=
  {| st := Stopped; pending := 0; deadline := 0; done := 0; done_closed := false; double_close := false;
     armed := None; outstanding := 0; now := t0 |}.

Definition u8 (z : Z) : Z := z mod 256.

Definition isStarted (s : dstate) : bool := match s with Started => true | _ => false end.
Definition isExceeded (s : dstate) : bool := match s with Exceeded => true | _ => false end.
Definition isSome {A} (o : option A) : bool := match o with Some _ => true | None => false end.

(* Deadline.Set *)
Definition set (d : dl) (t : Z) : dl :=
  (* if state == started && timer.Stop() { pending-- } *)
  let stopped := isStarted (st d) && isSome (armed d) in
  let armed1 := if isStarted (st d) then None else armed d in
  let p1 := if stopped then u8 (pending d - 1) else pending d in
  let p2 := u8 (p1 + 1) in
  let '(done1, closed1) := if isExceeded (st d) then (done d + 1, false) else (done d, done_closed d) in
  if t =? 0 then
    {| st := Stopped; pending := u8 (p2 - 1); deadline := t; done := done1; done_closed := closed1;
       double_close := double_close d; armed := armed1; outstanding := outstanding d; now := now d |}
  else if t >? now d then
    {| st := Started; pending := p2; deadline := t; done := done1; done_closed := closed1;
       double_close := double_close d; armed := Some t; outstanding := outstanding d; now := now d |}
  else
    {| st := Exceeded; pending := u8 (p2 - 1); deadline := t; done := done1; done_closed := true;
       double_close := double_close d || closed1; armed := armed1; outstanding := outstanding d; now := now d |}.

(* the runtime dispatches the expiry of an armed, due timer *)
Definition fire (d : dl) : dl :=
  match armed d with
  | Some t =>
      if t <=? now d then
        {| st := st d; pending := pending d; deadline := deadline d; done := done d; done_closed := done_closed d;
           double_close := double_close d; armed := None; outstanding := outstanding d + 1; now := now d |}
      else d
  | None => d
  end.

(* a dispatched callback runs: Deadline.timeout *)
Definition run_callback (d : dl) : dl :=
  if outstanding d <=? 0 then d
  else
    let p := u8 (pending d - 1) in
    if negb (p =? 0) || negb (isStarted (st d)) then
      {| st := st d; pending := p; deadline := deadline d; done := done d; done_closed := done_closed d;
         double_close := double_close d; armed := armed d; outstanding := outstanding d - 1; now := now d |}
    else
      {| st := Exceeded; pending := p; deadline := deadline d; done := done d; done_closed := true;
         double_close := double_close d || done_closed d; armed := armed d; outstanding := outstanding d - 1; now := now d |}.

Definition advance (d : dl) (dt : Z) : dl :=
  {| st := st d; pending := pending d; deadline := deadline d; done := done d; done_closed := done_closed d;
     double_close := double_close d; armed := armed d; outstanding := outstanding d;
     now := now d + (if dt <? 0 then 0 else dt) |}.

Inductive dop := DSet (t : Z) | DFire | DRun | DAdvance (dt : Z).

Definition dl_step (d : dl) (o : dop) : dl :=
  match o with DSet t => set d t | DFire => fire d | DRun => run_callback d | DAdvance dt => advance d dt end.

(* observation after every operation: [Done closed; Done identity; Err != nil; Deadline; panicked] *)
Definition dl_obs (d : dl) : zs :=
  [b2z (done_closed d); done d; b2z (isExceeded (st d)); deadline d; b2z (double_close d)].

Fixpoint dl_run (d : dl) (h : list dop) : list zs :=
  match h with
  | [] => []
  | o :: h' => let d' := dl_step d o in dl_obs d' :: dl_run d' h'
  end.

Fixpoint dl_final (d : dl) (h : list dop) : dl :=
  match h with [] => d | o :: h' => dl_final (dl_step d o) h' end.

(* wire: conf [t0]; op [1; t] Set (absolute instant, 0 = zero time) | [2] Fire | [3] RunCallback | [4; dt] Advance *)
Definition dec_dop (o : zs) : dop :=
  match o with
  | 1 :: t :: _ => DSet t
  | 2 :: _ => DFire
  | 3 :: _ => DRun
  | 4 :: dt :: _ => DAdvance dt
  | _ => DAdvance 0
  end.

Definition deadline_run (conf : zs) (ops : list zs) : list zs :=
  dl_run (dl0 (match conf with t0 :: _ => t0 | [] => 1 end)) (map dec_dop ops).
