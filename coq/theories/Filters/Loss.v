(* vnet/loss_filter.go: one uniform draw in 0..99 per datagram; dropped iff draw < chance. *)
From Tx Require Import Common.Base.

Definition loss_forward (chance draw : Z) : bool := negb (draw <? chance).

(* a stream of (draw, datagram id) *)
Definition loss_run (chance : Z) (stream : list (Z * Z)) : list Z :=
  map snd (filter (fun x => loss_forward chance (fst x)) stream).

Inductive subseq {A} : list A -> list A -> Prop :=
| sub_nil : subseq [] []
| sub_skip x l1 l2 : subseq l1 l2 -> subseq l1 (x :: l2)
| sub_keep x l1 l2 : subseq l1 l2 -> subseq (x :: l1) (x :: l2).

Lemma filter_subseq {A} (p : A -> bool) (l : list A) : subseq (filter p l) l.
Proof. induction l as [|x l IH]; simpl; [constructor|]. destruct (p x); constructor; assumption. Qed.

Lemma map_subseq {A B} (f : A -> B) l1 l2 : subseq l1 l2 -> subseq (map f l1) (map f l2).
Proof. induction 1; simpl; constructor; assumption. Qed.

Lemma loss_subseq chance stream : subseq (loss_run chance stream) (map snd stream).
Proof. unfold loss_run. apply map_subseq. apply filter_subseq. Qed.

Definition draws_ok (stream : list (Z * Z)) : Prop := Forall (fun x => 0 <= fst x < 100) stream.

Lemma loss_zero chance stream : chance <= 0 -> draws_ok stream -> loss_run chance stream = map snd stream.
Proof.
  intros Hc Hd. unfold loss_run. f_equal. induction Hd as [|x l Hx Hl IH]; [reflexivity|].
  simpl. unfold loss_forward at 1. destruct (fst x <? chance) eqn:E; [lia|]. simpl. f_equal. exact IH.
Qed.

Lemma loss_hundred chance stream : 100 <= chance -> draws_ok stream -> loss_run chance stream = [].
Proof.
  intros Hc Hd. unfold loss_run. induction Hd as [|x l Hx Hl IH]; [reflexivity|].
  simpl. unfold loss_forward at 1. destruct (fst x <? chance) eqn:E; [|lia]. simpl. exact IH.
Qed.

(* of the 100 equally likely draws exactly clamp(chance,0,100) drop the datagram *)
Lemma count_below n c :
  Z.of_nat (length (filter (fun d => d <? c) (map Z.of_nat (seq 0 n)))) = Z.max 0 (Z.min c (Z.of_nat n)).
Proof.
  induction n as [|n IH]; [simpl; lia|].
  rewrite seq_S, map_app, filter_app, app_length. simpl seq. simpl map. simpl filter.
  destruct (Z.of_nat n <? c) eqn:E; simpl length; lia.
Qed.

(* wire: conf [chance]; op [id; draw]; observation [forwarded; intact(1)] *)
Definition loss_model_run (conf : zs) (ops : list zs) : list zs :=
  let chance := match conf with c :: _ => c | [] => 0 end in
  map (fun o => match o with
                | _ :: draw :: _ => if loss_forward chance draw then [1; 1] else [0; 1]
                | _ => [0; 1]
                end) ops.
