(* Executable model of vnet/tbf.go (TokenBucketFilter) after the repair of the lumpy refill:
   on every arrival the bucket is credited for exactly the time since the previous arrival,
   capped at the burst size, the chunk is queued (or discarded when the byte queue is full) and
   the queue is drained while the head fits.
   Exact arithmetic: tokens are counted in units of 1/(8*10^9) byte, i.e. one nanosecond of one
   bit/s, so that [rate * dt_ns] is the exact credit. (The Go code uses float64; the check
   skips histories in which a comparison is decided by a rounding error, see [tb_ambiguous].) *)
From Tx Require Import Common.Base.

Definition K : Z := 8000000000.

(* float64 rounding can move the bucket by far less than this (10^-5 byte) *)
Definition margin : Z := 80000.

Record tbf := {
  tokens : Z;                 (* in units of 1/K byte *)
  last : Z;                   (* time of the last refill, ns *)
  queue : list (Z * Z);       (* (id, size) oldest first *)
  cur_bytes : Z;
  rate : Z;                   (* bits per second *)
  burst : Z;                  (* bytes *)
  max_bytes : Z;              (* queue limit in bytes; <= 0: unlimited *)
  clean : bool                (* the float64 value of the bucket is known to be exact *)
}.

Definition tbf_init (t0 r b qsz : Z) : tbf :=
  (* run(): refillTokens(minRefillDuration = 100 ms) before the loop *)
  let credit := r * 100000000 in
  {| tokens := Z.min (b * K) credit; last := t0; queue := []; cur_bytes := 0;
     rate := r; burst := b; max_bytes := qsz;
     clean := (b * K + margin <=? credit) || ((credit mod K =? 0) && (credit + margin <? b * K)) |}.

(* drainQueue: forward while the head fits; fuel = queue length *)
Fixpoint drain (fuel : nat) (tok : Z) (q : list (Z * Z)) (cb : Z) : Z * list (Z * Z) * Z * list (Z * Z) :=
  match fuel, q with
  | S f, (id, size) :: rest =>
      if tok <? size * K then (tok, q, cb, [])
      else let '(tok', q', cb', out) := drain f (tok - size * K) rest (cb - size) in (tok', q', cb', (id, size) :: out)
  | _, _ => (tok, q, cb, [])
  end.

(* is some comparison of this drain decided within the rounding margin? *)
Fixpoint drain_equal (fuel : nat) (tok : Z) (q : list (Z * Z)) : bool :=
  match fuel, q with
  | S f, (id, size) :: rest =>
      if tok <? size * K then size * K - tok <=? margin
      else (tok - size * K <=? margin) || drain_equal f (tok - size * K) rest
  | _, _ => false
  end.

(* one arrival at time t: (state', discarded?, forwarded (id, size), ambiguous?) *)
Definition arrive (s : tbf) (t id size : Z) : tbf * bool * list (Z * Z) * bool :=
  let dt := t - last s in
  let credit := tokens s + rate s * dt in
  let capped := burst s * K <=? credit in
  let tok := if capped then burst s * K else credit in
  let cl := (burst s * K + margin <=? credit)
            || (clean s && (rate s * dt mod K =? 0) && (credit + margin <? burst s * K)) in
  let full := (max_bytes s >? 0) && (cur_bytes s + size >=? max_bytes s) in
  let q1 := if full then queue s else queue s ++ [(id, size)] in
  let cb1 := if full then cur_bytes s else cur_bytes s + size in
  let amb := negb cl && drain_equal (length q1) tok q1 in
  let '(tok', q', cb', out) := drain (length q1) tok q1 cb1 in
  ({| tokens := tok'; last := t; queue := q'; cur_bytes := cb'; rate := rate s; burst := burst s;
      max_bytes := max_bytes s; clean := cl |}, full, out, amb).

Definition set_rate (s : tbf) (r : Z) : tbf :=
  {| tokens := tokens s; last := last s; queue := queue s; cur_bytes := cur_bytes s; rate := r; burst := burst s;
     max_bytes := max_bytes s; clean := clean s |}.
Definition set_burst (s : tbf) (b : Z) : tbf :=
  {| tokens := tokens s; last := last s; queue := queue s; cur_bytes := cur_bytes s; rate := rate s; burst := b;
     max_bytes := max_bytes s; clean := clean s |}.

Inductive tev := Arrive (t id size : Z) | SetRate (r : Z) | SetBurst (b : Z).

(* observation per event: Arrive -> forwarded ids, or [-7] when a comparison of this arrival is
   decided at an exact equality the float64 implementation may round either way; Set -> [] *)
Definition tbf_step (s : tbf) (e : tev) : tbf * zs :=
  match e with
  | Arrive t id size => let '(s', full, out, amb) := arrive s t id size in (s', if amb then [-7] else map fst out)
  | SetRate r => (set_rate s r, [])
  | SetBurst b => (set_burst s b, [])
  end.

Fixpoint tbf_run (s : tbf) (h : list tev) : list zs :=
  match h with
  | [] => []
  | e :: h' => let '(s', o) := tbf_step s e in o :: tbf_run s' h'
  end.

(* wire: conf [rate; burst; queue bytes]; op [1; t; id; size] | [2; rate] | [3; burst] *)
Definition dec_tev (o : zs) : tev :=
  match o with
  | 1 :: t :: id :: size :: _ => Arrive t id size
  | 2 :: r :: _ => SetRate r
  | 3 :: b :: _ => SetBurst b
  | _ => SetRate 0
  end.

Definition tbf_model_run (conf : zs) (ops : list zs) : list zs :=
  match conf with
  | r :: b :: q :: _ => tbf_run (tbf_init 0 r b q) (map dec_tev ops)
  | _ => []
  end.
