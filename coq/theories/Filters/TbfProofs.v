(* Token bucket: FIFO / no duplication, discard only when full, and the rate bound over every
   window of arrivals. *)
From Tx Require Import Common.Base Filters.Tbf.

Local Arguments Z.mul : simpl never.
Local Arguments Z.add : simpl never.
Local Arguments Z.sub : simpl never.

Definition bytes (l : list (Z * Z)) : Z := fold_right (fun p a => snd p + a) 0 l.

Lemma bytes_app a b : bytes (a ++ b) = bytes a + bytes b.
Proof. induction a as [|x a IH]; simpl; lia. Qed.

Lemma drain_spec fuel : forall tok q cb tok' q' cb' out,
  drain fuel tok q cb = (tok', q', cb', out) ->
  q = out ++ q' /\ tok' = tok - K * bytes out /\ cb' = cb - bytes out /\
  (0 <= tok -> (forall p, In p q -> 0 <= snd p) -> 0 <= tok').
Proof.
  induction fuel as [|f IH]; intros tok q cb tok' q' cb' out H; simpl in H.
  - inversion H; subst. simpl. repeat split; try lia; auto.
  - destruct q as [|[id size] rest].
    + inversion H; subst. simpl. repeat split; try lia; auto.
    + destruct (tok <? size * K) eqn:E.
      * inversion H; subst. simpl. repeat split; try lia; auto.
      * destruct (drain f (tok - size * K) rest (cb - size)) as [[[t1 q1] c1] o1] eqn:Ed.
        inversion H; subst. destruct (IH _ _ _ _ _ _ _ Ed) as [H1 [H2 [H3 H4]]].
        cbn [bytes fold_right snd app]. fold (bytes o1). unfold K in *. repeat split.
        -- rewrite H1. reflexivity.
        -- lia.
        -- lia.
        -- intros Ht Hp. apply H4; [lia|]. intros p Hin. apply Hp. right. assumption.
Qed.

(* ---- order and conservation --------------------------------------------------------------------- *)

(* everything accepted so far, in arrival order = everything forwarded so far ++ the queue *)
Fixpoint forwarded (s : tbf) (h : list tev) : list (Z * Z) :=
  match h with
  | [] => []
  | Arrive t id size :: h' => let '(s', _, out, _) := arrive s t id size in out ++ forwarded s' h'
  | SetRate r :: h' => forwarded (set_rate s r) h'
  | SetBurst b :: h' => forwarded (set_burst s b) h'
  end.

Fixpoint accepted (s : tbf) (h : list tev) : list (Z * Z) :=
  match h with
  | [] => []
  | Arrive t id size :: h' =>
      let '(s', full, _, _) := arrive s t id size in
      (if full then [] else [(id, size)]) ++ accepted s' h'
  | SetRate r :: h' => accepted (set_rate s r) h'
  | SetBurst b :: h' => accepted (set_burst s b) h'
  end.

Fixpoint final (s : tbf) (h : list tev) : tbf :=
  match h with [] => s | e :: h' => final (fst (tbf_step s e)) h' end.

Lemma arrive_queue s t id size s' full out amb : arrive s t id size = (s', full, out, amb) ->
  queue s ++ (if full then [] else [(id, size)]) = out ++ queue s' /\
  full = ((max_bytes s >? 0) && (cur_bytes s + size >=? max_bytes s)).
Proof.
  unfold arrive. intros H.
  set (full0 := (max_bytes s >? 0) && (cur_bytes s + size >=? max_bytes s)) in *.
  destruct (drain _ _ _ _) as [[[t1 q1] c1] o1] eqn:Ed. inversion H; subst. simpl.
  destruct (drain_spec _ _ _ _ _ _ _ _ Ed) as [H1 _].
  split; [|reflexivity]. destruct full0; [rewrite app_nil_r|]; exact H1.
Qed.

Theorem fifo_conservation h : forall s,
  queue s ++ accepted s h = forwarded s h ++ queue (final s h).
Proof.
  induction h as [|e h IH]; intros s; simpl.
  - rewrite app_nil_r. reflexivity.
  - destruct e as [t id size|r|b]; simpl.
    + destruct (arrive s t id size) as [[[s' full] out] amb] eqn:Ea. simpl.
      destruct (arrive_queue _ _ _ _ _ _ _ _ Ea) as [Hq _].
      rewrite app_assoc, Hq. rewrite <- !app_assoc. f_equal. apply IH.
    + apply (IH (set_rate s r)).
    + apply (IH (set_burst s b)).
Qed.

(* ---- the rate bound --------------------------------------------------------------------------------- *)

Fixpoint mono (t0 : Z) (h : list tev) : Prop :=
  match h with
  | [] => True
  | Arrive t _ size :: h' => t0 <= t /\ 0 <= size /\ mono t h'
  | SetRate r :: h' => 0 <= r /\ mono t0 h'
  | SetBurst b :: h' => mono t0 h'
  end.

(* time of the last arrival of h (t0 if none), and the largest rate in force at an arrival *)
Fixpoint tend (t0 : Z) (h : list tev) : Z :=
  match h with
  | [] => t0
  | Arrive t _ _ :: h' => tend t h'
  | _ :: h' => tend t0 h'
  end.

Fixpoint rmax (r0 : Z) (h : list tev) : Z :=
  match h with
  | [] => 0
  | Arrive _ _ _ :: h' => Z.max r0 (rmax r0 h')
  | SetRate r :: h' => rmax r h'
  | SetBurst _ :: h' => rmax r0 h'
  end.

Lemma tend_ge t0 h : mono t0 h -> t0 <= tend t0 h.
Proof.
  revert t0. induction h as [|e h IH]; intros t0 H; simpl; [lia|].
  destruct e as [t id size|r|b]; simpl in H.
  - destruct H as [H1 [_ H2]]. specialize (IH t H2). lia.
  - apply IH. tauto.
  - apply IH. assumption.
Qed.

Lemma rmax_nonneg r0 h : 0 <= rmax r0 h.
Proof. revert r0. induction h as [|e h IH]; intros r0; simpl; [lia|]. destruct e; simpl; auto. specialize (IH r0). lia. Qed.

Definition queue_ok (s : tbf) : Prop := forall p, In p (queue s) -> 0 <= snd p.

Lemma arrive_tokens s t id size s' full out amb :
  arrive s t id size = (s', full, out, amb) -> 0 <= tokens s -> 0 <= rate s -> last s <= t -> 0 <= size ->
  queue_ok s ->
  K * bytes out + tokens s' <= tokens s + rate s * (t - last s) /\
  K * bytes out + tokens s' <= burst s * K \/ K * bytes out + tokens s' <= tokens s + rate s * (t - last s) ->
  True.
Proof. auto. Qed.

Lemma arrive_facts s t id size s' full out amb :
  arrive s t id size = (s', full, out, amb) -> 0 <= tokens s -> 0 <= rate s -> last s <= t -> 0 <= size ->
  queue_ok s ->
  K * bytes out + tokens s' = Z.min (burst s * K) (tokens s + rate s * (t - last s)) /\
  (0 <= burst s -> 0 <= tokens s') /\ queue_ok s' /\ last s' = t /\ rate s' = rate s /\ burst s' = burst s.
Proof.
  unfold arrive. intros H Ht Hr Hl Hs Hq.
  set (credit := tokens s + rate s * (t - last s)) in *.
  set (tok := if burst s * K <=? credit then burst s * K else credit) in *.
  set (full0 := (max_bytes s >? 0) && (cur_bytes s + size >=? max_bytes s)) in *.
  set (q1 := if full0 then queue s else queue s ++ [(id, size)]) in *.
  destruct (drain (length q1) tok q1 _) as [[[t1 q'] c1] o1] eqn:Ed. inversion H; subst.
  cbn [tokens last rate burst queue max_bytes cur_bytes].
  destruct (drain_spec _ _ _ _ _ _ _ _ Ed) as [H1 [H2 [H3 H4]]].
  assert (Hq1 : forall p, In p q1 -> 0 <= snd p).
  { intros p Hp. unfold q1 in Hp. destruct full0; [apply Hq; assumption|].
    apply in_app_iff in Hp. destruct Hp as [Hp|[<-|[]]]; [apply Hq; assumption|simpl; lia]. }
  assert (Hcred : 0 <= credit) by (unfold credit; nia).
  repeat split; try reflexivity.
  - unfold tok in H2. destruct (burst s * K <=? credit) eqn:E; lia.
  - intros Hb. apply H4; [|assumption]. unfold tok, K. destruct (burst s * 8000000000 <=? credit); lia.
  - intros p Hp. apply Hq1. rewrite H1. apply in_or_app. right. assumption.
Qed.

(* K * bytes forwarded during h *)
Definition spent (s : tbf) (h : list tev) : Z := K * bytes (forwarded s h).

Lemma spent_general h : forall s, mono (last s) h -> 0 <= tokens s -> 0 <= rate s -> queue_ok s ->
  (forall b, In (SetBurst b) h -> 0 <= b) -> 0 <= burst s ->
  spent s h <= tokens s + rmax (rate s) h * (tend (last s) h - last s).
Proof.
  induction h as [|e h IH]; intros s Hm Ht Hr Hq Hb Hb0; unfold spent; simpl.
  - unfold bytes. simpl. lia.
  - destruct e as [t id size|r|b]; simpl in Hm.
    + destruct Hm as [Hl [Hs Hm]].
      destruct (arrive s t id size) as [[[s' full] out] amb] eqn:Ea.
      destruct (arrive_facts _ _ _ _ _ _ _ _ Ea Ht Hr Hl Hs Hq) as [F1 [F2 [F3 [F4 [F5 F6]]]]].
      rewrite bytes_app.
      assert (IH' : spent s' h <= tokens s' + rmax (rate s') h * (tend (last s') h - last s')).
      { apply IH; rewrite ?F4, ?F5, ?F6; try assumption; try (apply F2; assumption).
        intros b Hin. apply Hb. right. assumption. }
      unfold spent in IH'. rewrite F4, F5 in IH'.
      pose proof (tend_ge t h Hm) as Hte. pose proof (rmax_nonneg (rate s) h) as Hrm.
      assert (Hmin : Z.min (burst s * K) (tokens s + rate s * (t - last s)) <= tokens s + rate s * (t - last s)) by lia.
      set (R := Z.max (rate s) (rmax (rate s) h)).
      assert (rate s * (t - last s) <= R * (t - last s)) by (apply Z.mul_le_mono_nonneg_r; unfold R; lia).
      assert (rmax (rate s) h * (tend t h - t) <= R * (tend t h - t)) by (apply Z.mul_le_mono_nonneg_r; unfold R; lia).
      replace (R * (tend t h - last s)) with (R * (t - last s) + R * (tend t h - t)) by ring.
      lia.
    + destruct Hm as [Hr' Hm]. apply (IH (set_rate s r)); simpl; try assumption.
      intros b Hin. apply Hb. right. assumption.
    + apply (IH (set_burst s b)); simpl; try assumption.
      * intros b' Hin. apply Hb. right. assumption.
      * apply Hb. left. reflexivity.
Qed.

(* the window theorem: from an arrival at time t on, at most burst + Rmax * elapsed *)
Theorem window_bound s t id size h : mono (last s) (Arrive t id size :: h) ->
  0 <= tokens s -> 0 <= rate s -> queue_ok s -> 0 <= burst s -> (forall b, In (SetBurst b) h -> 0 <= b) ->
  spent s (Arrive t id size :: h) <=
  burst s * K + rmax (rate s) h * (tend t h - t).
Proof.
  intros Hm Ht Hr Hq Hb0 Hb. unfold spent. simpl. simpl in Hm. destruct Hm as [Hl [Hs Hm]].
  destruct (arrive s t id size) as [[[s' full] out] amb] eqn:Ea.
  destruct (arrive_facts _ _ _ _ _ _ _ _ Ea Ht Hr Hl Hs Hq) as [F1 [F2 [F3 [F4 [F5 F6]]]]].
  rewrite bytes_app.
  assert (G : spent s' h <= tokens s' + rmax (rate s') h * (tend (last s') h - last s')).
  { apply spent_general; rewrite ?F4, ?F5, ?F6; try assumption. apply F2. assumption. }
  unfold spent in G. rewrite F4, F5 in G.
  assert (Z.min (burst s * K) (tokens s + rate s * (t - last s)) <= burst s * K) by lia.
  lia.
Qed.
