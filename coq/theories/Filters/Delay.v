(* Interleaving model of vnet/delay_filter.go (after the repair that ignores a notification
   for an already forwarded chunk).

   Threads: any number of arrivals - onInboundChunk pushes (chunk, now + delay) into the queue
   and then blocks handing a notification to the Run loop over an unbuffered channel - and the
   Run loop, which sits in its select and reacts either to a notification or to a timer tick.
   Environment: the clock, and the timer (armed for an instant / fired with its tick waiting
   in the channel / idle). One event = one atomic step; every sequence of events is allowed. *)
From Tx Require Import Common.Base.

Inductive tmr := TArmed (due : Z) | TFired (tick : Z) | TIdle.

Record dstate := {
  now : Z;
  queue : list (Z * Z);          (* (id, deadline), oldest first *)
  senders : Z;                   (* arrivals blocked in "f.push <- struct{}{}" *)
  timer : tmr;
  fwd : list (Z * Z * Z);        (* (id, deadline, forward time), oldest first *)
  arrived : list Z;              (* ghost: ids in arrival order *)
  bad : bool                     (* the loop panicked or blocked for ever *)
}.

Definition minute : Z := 60000000000.

Definition d_init (t0 : Z) : dstate :=
  {| now := t0; queue := []; senders := 0; timer := TFired t0 (* NewTimer(0) *); fwd := []; arrived := []; bad := false |}.

Inductive dev := EArrive (id : Z) | EAdvance (dt : Z) | EFire | ERecvPush | ERecvTick.

Definition d_step (delay : Z) (s : dstate) (e : dev) : dstate :=
  match e with
  | EArrive id =>
      {| now := now s; queue := queue s ++ [(id, now s + delay)]; senders := senders s + 1; timer := timer s;
         fwd := fwd s; arrived := arrived s ++ [id]; bad := bad s |}
  | EAdvance dt =>
      {| now := now s + (if dt <? 0 then 0 else dt); queue := queue s; senders := senders s; timer := timer s;
         fwd := fwd s; arrived := arrived s; bad := bad s |}
  | EFire =>
      match timer s with
      | TArmed due => if due <=? now s
                      then {| now := now s; queue := queue s; senders := senders s; timer := TFired (now s);
                              fwd := fwd s; arrived := arrived s; bad := bad s |}
                      else s
      | _ => s
      end
  | ERecvPush =>
      if senders s <=? 0 then s
      else match queue s with
           | [] => (* the chunk was already forwarded by the timer branch: ignore the notification *)
               {| now := now s; queue := []; senders := senders s - 1; timer := timer s;
                  fwd := fwd s; arrived := arrived s; bad := bad s |}
           | (_, dl) :: _ =>
               (* if !timer.Stop() { <-timer.C }; timer.Reset(time.Until(next.deadline)) *)
               {| now := now s; queue := queue s; senders := senders s - 1; timer := TArmed (Z.max dl (now s));
                  fwd := fwd s; arrived := arrived s;
                  bad := bad s || match timer s with TIdle => true | _ => false end |}
           end
  | ERecvTick =>
      match timer s with
      | TFired tk =>
          match queue s with
          | [] => {| now := now s; queue := []; senders := senders s; timer := TArmed (now s + minute);
                     fwd := fwd s; arrived := arrived s; bad := bad s |}
          | (id, dl) :: rest =>
              if dl <? tk then
                {| now := now s; queue := rest; senders := senders s;
                   timer := match rest with [] => TArmed (now s + minute) | (_, dl2) :: _ => TArmed (Z.max dl2 (now s)) end;
                   fwd := fwd s ++ [(id, dl, now s)]; arrived := arrived s; bad := bad s |}
              else
                {| now := now s; queue := queue s; senders := senders s; timer := TArmed (Z.max dl (now s));
                   fwd := fwd s; arrived := arrived s; bad := bad s |}
          end
      | _ => s
      end
  end.

Fixpoint d_run (delay : Z) (s : dstate) (h : list dev) : dstate :=
  match h with [] => s | e :: h' => d_run delay (d_step delay s e) h' end.

(* ---- invariant ------------------------------------------------------------------------------------- *)

Definition head_dl (q : list (Z * Z)) : option Z := match q with [] => None | (_, dl) :: _ => Some dl end.

Record DInv (delay : Z) (s : dstate) : Prop := {
  v_bad : bad s = false;
  v_timer : timer s <> TIdle;
  v_tick : forall tk, timer s = TFired tk -> tk <= now s;
  v_dl : forall id dl, In (id, dl) (queue s) -> dl <= now s + delay;
  v_fwd : forall id dl t, In (id, dl, t) (fwd s) -> dl < t /\ t <= now s;
  v_order : map (fun x => fst (fst x)) (fwd s) ++ map fst (queue s) = arrived s;
  v_progress : forall dl, head_dl (queue s) = Some dl ->
      0 < senders s \/ (exists tk, timer s = TFired tk) \/ (exists due, timer s = TArmed due /\ due <= Z.max dl (now s));
  v_senders : 0 <= senders s
}.

Lemma DInv_init delay t0 : DInv delay (d_init t0).
Proof.
  split; simpl; try reflexivity; try discriminate; try lia.
  all: try (intros tk H; inversion H; lia).
  all: try (intros ? ? []).
  all: try (intros ? ? ? []).
  all: try (intros dl H; discriminate).
Qed.

Lemma step_inv delay s e : 0 <= delay -> DInv delay s -> DInv delay (d_step delay s e).
Proof.
  intros Hd I0. pose proof I0 as [B T K D F O P S]. destruct e as [id|dt| | |]; simpl.
  - (* arrive *)
    split; simpl.
    + assumption.
    + assumption.
    + assumption.
    + intros i dl Hin. apply in_app_iff in Hin. destruct Hin as [Hin|[Hin|[]]].
      * apply D with i. assumption.
      * inversion Hin; subst. lia.
    + assumption.
    + rewrite map_app. simpl. rewrite app_assoc, O. reflexivity.
    + intros dl Hh. left. lia.
    + lia.
  - (* advance *)
    assert (Hn : now s <= now s + (if dt <? 0 then 0 else dt)) by (destruct (dt <? 0) eqn:Edt; lia).
    split; simpl.
    + assumption.
    + assumption.
    + intros tk H. specialize (K tk H). lia.
    + intros i dl Hin. specialize (D i dl Hin). lia.
    + intros i dl t Hin. destruct (F i dl t Hin). split; lia.
    + assumption.
    + intros dl Hh. destruct (P dl Hh) as [H|[H|[due [H1 H2]]]]; auto. right. right. exists due. split; [assumption|lia].
    + assumption.
  - (* fire *)
    destruct (timer s) as [due| |] eqn:Et; try exact I0.
    destruct (due <=? now s) eqn:E; [|exact I0].
    split; simpl.
    + assumption.
    + discriminate.
    + intros tk H. inversion H. lia.
    + assumption.
    + assumption.
    + assumption.
    + intros dl Hh. right. left. eauto.
    + assumption.
  - (* the loop receives a notification *)
    destruct (senders s <=? 0) eqn:E; [exact I0|].
    destruct (queue s) as [|[i dl] rest] eqn:Eq.
    + split; simpl.
      * assumption.
      * assumption.
      * assumption.
      * intros ? ? [].
      * assumption.
      * exact O.
      * intros dl Hh. discriminate.
      * lia.
    + split; simpl.
      * rewrite B. destruct (timer s); try reflexivity. congruence.
      * discriminate.
      * intros tk H. discriminate.
      * intros i2 dl2 Hin. apply D with i2. assumption.
      * assumption.
      * exact O.
      * intros dl2 Hh. inversion Hh; subst. right. right. exists (Z.max dl2 (now s)). split; [reflexivity|lia].
      * lia.
  - (* the loop receives a tick *)
    destruct (timer s) as [due|tk|] eqn:Et; try exact I0.
    destruct (queue s) as [|[i dl] rest] eqn:Eq.
    + split; simpl.
      * assumption.
      * discriminate.
      * intros tk2 H. discriminate.
      * intros ? ? [].
      * assumption.
      * exact O.
      * intros dl Hh. discriminate.
      * assumption.
    + specialize (K tk eq_refl).
      destruct (dl <? tk) eqn:E.
      * split; simpl.
        -- assumption.
        -- destruct rest as [|[i2 dl2] r2]; discriminate.
        -- intros tk2 H. destruct rest as [|[i2 dl2] r2]; discriminate.
        -- intros i2 dl2 Hin. apply D with i2. right. assumption.
        -- intros i2 dl2 t Hin. apply in_app_iff in Hin. destruct Hin as [Hin|[Hin|[]]].
           ++ apply F with i2. assumption.
           ++ inversion Hin; subst. split; lia.
        -- rewrite map_app. simpl. rewrite <- app_assoc. simpl. simpl in O. exact O.
        -- intros dl2 Hh. destruct rest as [|[i2 dl3] r2]; [discriminate|]. simpl in Hh. inversion Hh; subst.
           right. right. exists (Z.max dl2 (now s)). split; [reflexivity|lia].
        -- assumption.
      * split; simpl.
        -- assumption.
        -- discriminate.
        -- intros tk2 H. discriminate.
        -- intros i2 dl2 Hin. apply D with i2. assumption.
        -- assumption.
        -- exact O.
        -- intros dl2 Hh. inversion Hh; subst. right. right. exists (Z.max dl2 (now s)). split; [reflexivity|lia].
        -- assumption.
Qed.

Theorem run_inv delay h : 0 <= delay -> forall s, DInv delay s -> DInv delay (d_run delay s h).
Proof.
  intros Hd. induction h as [|e h IH]; intros s I; [exact I|]. simpl. apply IH. apply step_inv; assumption.
Qed.
