(* vnet/router.go, the delay part of processChunks: at a wake-up at time [now] the router
   forwards, in queue order, every chunk whose enqueue stamp is at most now - minDelay, and
   then sleeps until the new head is due (or waits for a push when the queue is empty). *)
From Tx Require Import Common.Base.

(* queue of (id, enqueue stamp), oldest first *)
Fixpoint process (q : list (Z * Z)) (min_delay now : Z) : list Z * list (Z * Z) :=
  match q with
  | [] => ([], [])
  | (id, ts) :: rest =>
      if ts >? now - min_delay then ([], q)
      else let '(out, q') := process rest min_delay now in (id :: out, q')
  end.

(* the next sleep: 0 = wait for a push *)
Definition next_sleep (q : list (Z * Z)) (min_delay now : Z) : Z :=
  match q with [] => 0 | (_, ts) :: _ => ts + min_delay - now end.

Definition stamps_sorted (q : list (Z * Z)) : Prop :=
  forall i j a b, (i <= j)%nat -> nth_error q i = Some a -> nth_error q j = Some b -> snd a <= snd b.

Lemma process_split q d now : forall out q', process q d now = (out, q') ->
  map fst q = out ++ map fst q' /\
  (forall id ts, In (id, ts) q -> In id out -> True) /\
  (forall p, In p q' -> In p q).
Proof.
  induction q as [|[id ts] rest IH]; intros out q' H; simpl in H.
  - inversion H; subst. simpl. auto.
  - destruct (ts >? now - d) eqn:E.
    + inversion H; subst. simpl. auto.
    + destruct (process rest d now) as [o1 q1] eqn:Ep. inversion H; subst.
      destruct (IH _ _ eq_refl) as [H1 [_ H3]]. simpl. rewrite H1. repeat split; auto.
Qed.

(* never earlier than the minimum delay: whatever the wake-up time (jitter, late timers) *)
Lemma process_lower_bound q d now : forall out q', process q d now = (out, q') ->
  forall id, In id out -> exists ts, In (id, ts) q /\ ts + d <= now.
Proof.
  induction q as [|[id0 ts0] rest IH]; intros out q' H id Hin; simpl in H.
  - inversion H; subst. contradiction.
  - destruct (ts0 >? now - d) eqn:E.
    + inversion H; subst. contradiction.
    + destruct (process rest d now) as [o1 q1] eqn:Ep. inversion H; subst.
      destruct Hin as [<-|Hin].
      * exists ts0. split; [left; reflexivity|lia].
      * destruct (IH _ _ eq_refl id Hin) as [ts [H1 H2]]. exists ts. split; [right; assumption|assumption].
Qed.

(* progress: after a wake-up either nothing is queued, or the timer is armed for a positive
   time, namely exactly until the head is due *)
Lemma process_progress q d now out q' : process q d now = (out, q') ->
  q' = [] \/ (0 < next_sleep q' d now /\
              exists id ts rest, q' = (id, ts) :: rest /\ now + next_sleep q' d now = ts + d).
Proof.
  revert out q'. induction q as [|[id ts] rest IH]; intros out q' H; simpl in H.
  - inversion H; subst. left. reflexivity.
  - destruct (ts >? now - d) eqn:E.
    + inversion H; subst. right. simpl. split; [lia|]. exists id, ts, rest. split; [reflexivity|lia].
    + destruct (process rest d now) as [o1 q1] eqn:Ep. inversion H; subst. apply (IH _ _ eq_refl).
Qed.

(* exact behaviour with no jitter in virtual time: every chunk leaves exactly min_delay after
   it entered.  wire: conf [mode; min_delay; ...]; op [t; id] = push at time t; observation [forward time] *)
Definition rdelay_run (conf : zs) (ops : list zs) : list zs :=
  let d := match conf with _ :: x :: _ => x | _ => 0 end in
  map (fun o => match o with t :: id :: _ => [t + d; id] | _ => [] end) ops.

(* ---- oracle for observed (arrival, forward) logs of a delaying element (router with jitter,
   DelayFilter): wire: conf [mode; delay; ...]; ops [t_arrive; id] in arrival order; observed [t_forward; id]
   in forward order. Flags: 1 = forwarded earlier than arrival + delay, 2 = order differs from the
   arrival order of its sender (id / 1000) / duplicate / unknown id, 4 = a chunk was never forwarded, 8 = the loop panicked
   (observed entry [-1]) -------------------------------------------------------------------------- *)
Fixpoint lookup_arrival (ops : list zs) (id : Z) : option Z :=
  match ops with
  | (t :: i :: _) :: rest => if i =? id then Some t else lookup_arrival rest id
  | _ :: rest => lookup_arrival rest id
  | [] => None
  end.

Fixpoint zs_list_eqb (a b : list Z) : bool :=
  match a, b with
  | [], [] => true
  | x :: a', y :: b' => (x =? y) && zs_list_eqb a' b'
  | _, _ => false
  end.

Definition delay_oracle (conf : zs) (ops observed : list zs) : list Z :=
  let d := match conf with _ :: x :: _ => x | _ => 0 end in
  let panicked := existsb (fun o => match o with x :: _ => x =? -1 | [] => false end) observed in
  let fw := filter (fun o => match o with x :: _ => negb (x =? -1) | [] => false end) observed in
  let early := existsb (fun o => match o with
                                 | t :: id :: _ => match lookup_arrival ops id with Some ta => t <? ta + d | None => false end
                                 | _ => false end) fw in
  let ids_fw := map (fun o => match o with _ :: id :: _ => id | _ => -1 end) fw in
  let ids_ar := map (fun o => match o with _ :: id :: _ => id | _ => -1 end) ops in
  (* arrival order is defined per sender (id / 1000): concurrent senders are not ordered *)
  let of_sender k l := filter (fun id => id / 1000 =? k) l in
  let prefix_ok :=
    forallb (fun k => let f := of_sender k ids_fw in zs_list_eqb f (firstn (length f) (of_sender k ids_ar)))
            [0; 1; 2; 3; 4; 5; 6; 7]
    && forallb (fun id => (0 <=? id) && (id <? 8000)) ids_fw in
  let missing := negb (length ids_fw =? length ids_ar)%nat in
  [ (if early then 1 else 0) + (if prefix_ok then 0 else 2) + (if missing && prefix_ok then 4 else 0)
    + (if panicked then 8 else 0) ].
