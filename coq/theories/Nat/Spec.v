(* Specification of the NAT: the same bookkeeping without lazy removal. A mapping is simply
   ignored once its lifetime has passed ("live" is a function of the current time), so an
   inbound datagram never changes the state at all. Nat/Proofs.v shows that the model - which
   mirrors the Go code's removal of expired entries when it stumbles on them - gives the same
   answers for every history with non-decreasing time stamps. *)
From Tx Require Import Common.Base Nat.Model.

Definition live (now : Z) (m : mapping) : bool := now <=? m_expires m.

Definition s_translate_out (now : Z) (s : nat_state) (src dst : ep) : nat_state * tres :=
  if one_to_one s then
    match paired (localIPs s) (mappedIPs s) (fst src) with
    | Some ip => (s, ROk (ip, snd src))
    | None => (s, RDrop)
    end
  else
    let bound := key_of (mapb s) dst in
    let fkey := key_of (filtb s) dst in
    let sel m := okey_match src bound m && live now m in
    match find_map sel (maps s) with
    | Some m =>
        let upd m0 := {| m_local := m_local m0; m_mapped := m_mapped m0; m_bound := m_bound m0;
                         m_filters := if has_key fkey (m_filters m0) then m_filters m0 else fkey :: m_filters m0;
                         m_expires := now + lifetime s |} in
        (with_maps s (update_map sel upd (maps s)) (counter s),
         if snd (m_mapped m) >? 65535 then RErr else ROk (m_mapped m))
    | None =>
        let port := 49152 + counter s in
        let ip0 := match mappedIPs s with ip :: _ => ip | [] => 0 end in
        let m := {| m_local := src; m_mapped := (ip0, port); m_bound := bound; m_filters := [fkey];
                    m_expires := now + lifetime s |} in
        (with_maps s (m :: maps s) (counter s + 1), if port >? 65535 then RErr else ROk (ip0, port))
    end.

(* inbound: a pure query *)
Definition s_translate_in (now : Z) (s : nat_state) (src dst : ep) : tres :=
  if one_to_one s then
    match paired (mappedIPs s) (localIPs s) (fst dst) with
    | Some ip => ROk (ip, snd dst)
    | None => RErr
    end
  else
    match find_map (fun m => ikey_match dst m && live now m) (maps s) with
    | Some m => if has_key (key_of (filtb s) src) (m_filters m) then ROk (m_local m) else RErr
    | None => RErr
    end.

Definition s_step (s : nat_state) (o : nop) : nat_state * zs :=
  match o with
  | NOut now src dst => let '(s', r) := s_translate_out now s src dst in (s', enc_res r)
  | NIn now src dst => (s, enc_res (s_translate_in now s src dst))
  end.

Fixpoint s_run (s : nat_state) (h : list nop) : list zs :=
  match h with
  | [] => []
  | o :: h' => let '(s', r) := s_step s o in r :: s_run s' h'
  end.

Definition op_time (o : nop) : Z := match o with NOut t _ _ => t | NIn t _ _ => t end.

(* time stamps never decrease, starting from [t0] *)
Fixpoint monotone (t0 : Z) (h : list nop) : Prop :=
  match h with
  | [] => True
  | o :: h' => t0 <= op_time o /\ monotone (op_time o) h'
  end.

Definition nat_spec_run (conf : zs) (ops : list zs) : list zs :=
  match conf with
  | m :: mb :: fb :: life :: k :: rest =>
      let kn := Z.to_nat k in
      s_run (new_nat (Z.odd m) mb fb life (firstn kn rest) (firstn kn (skipn kn rest))) (map dec_nop ops)
  | _ => []
  end.

(* ---- oracle: the first operation at which observed answers differ from the Spec's.
   flag 1 = an outbound answer (C02), flag 2 = an inbound answer (C03) -------------------- *)
Fixpoint zs_eqb (a b : zs) : bool :=
  match a, b with
  | [], [] => true
  | x :: a', y :: b' => (x =? y) && zs_eqb a' b'
  | _, _ => false
  end.

Fixpoint first_diff (h : list nop) (expect observed : list zs) : list Z :=
  match h, expect, observed with
  | o :: h', e :: es, ob :: obs =>
      if zs_eqb e ob then 0 :: first_diff h' es obs
      else [match o with NOut _ _ _ => 1 | NIn _ _ _ => 2 end]
  | _, _, _ => []
  end.

Definition nat_oracle (conf : zs) (ops observed : list zs) : list Z :=
  first_diff (map dec_nop ops) (nat_spec_run conf ops) observed.
