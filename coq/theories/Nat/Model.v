(* Executable model of vnet/nat.go: networkAddressTranslator (NAPT with RFC 4787 mapping and
   filtering behaviours, mapping lifetime, and 1:1 mode). IPv4 addresses are integers, an
   endpoint is (ip, port). Time is an explicit argument (nanoseconds).

   The Go code keeps two maps (outboundMap keyed by "udp:<local>:<bound>", inboundMap keyed by
   "udp:<mapped>") that always hold the same mappings; the model keeps one list and looks it
   up by either key (abstraction of the string keys to tuples: DESIGN.md section 6). *)
From Tx Require Import Common.Base.

Definition ep := (Z * Z)%type.                (* ip, port *)
Definition ep_eqb (a b : ep) : bool := (fst a =? fst b) && (snd a =? snd b).

(* what a mapping / a permission is keyed on: nothing, the remote IP, the remote IP and port *)
Inductive rkey := KNone | KIp (ip : Z) | KEp (ip port : Z).
Definition rkey_eqb (a b : rkey) : bool :=
  match a, b with
  | KNone, KNone => true
  | KIp x, KIp y => x =? y
  | KEp x p, KEp y q => (x =? y) && (p =? q)
  | _, _ => false
  end.

(* behaviour 0 = endpoint independent, 1 = address dependent, 2 = address and port dependent *)
Definition key_of (behaviour : Z) (remote : ep) : rkey :=
  if behaviour =? 0 then KNone else if behaviour =? 1 then KIp (fst remote) else KEp (fst remote) (snd remote).

Record mapping := {
  m_local : ep; m_mapped : ep; m_bound : rkey; m_filters : list rkey; m_expires : Z
}.

Record nat_state := {
  one_to_one : bool;
  mapb : Z; filtb : Z; lifetime : Z;
  mappedIPs : list Z; localIPs : list Z;
  maps : list mapping;          (* newest first *)
  counter : Z
}.

Definition default_lifetime : Z := 30000000000.

(* newNAT: normalisation of the configuration *)
Definition new_nat (mode1to1 : bool) (mb fb life : Z) (mips lips : list Z) : nat_state :=
  if mode1to1 then
    {| one_to_one := true; mapb := 0; filtb := 0; lifetime := 0; mappedIPs := mips; localIPs := lips;
       maps := []; counter := 0 |}
  else
    {| one_to_one := false; mapb := mb; filtb := fb;
       lifetime := if life =? 0 then default_lifetime else life;
       mappedIPs := mips; localIPs := lips; maps := []; counter := 0 |}.

Fixpoint paired (keys vals : list Z) (x : Z) : option Z :=
  match keys, vals with
  | k :: ks, v :: vs => if k =? x then Some v else paired ks vs x
  | _, _ => None
  end.

Definition with_maps (s : nat_state) (ms : list mapping) (c : Z) : nat_state :=
  {| one_to_one := one_to_one s; mapb := mapb s; filtb := filtb s; lifetime := lifetime s;
     mappedIPs := mappedIPs s; localIPs := localIPs s; maps := ms; counter := c |}.

Definition okey_match (local : ep) (bound : rkey) (m : mapping) : bool :=
  ep_eqb (m_local m) local && rkey_eqb (m_bound m) bound.
Definition ikey_match (mapped : ep) (m : mapping) : bool := ep_eqb (m_mapped m) mapped.

Definition find_map (p : mapping -> bool) (ms : list mapping) : option mapping := find p ms.
Definition remove_map (p : mapping -> bool) (ms : list mapping) : list mapping :=
  filter (fun m => negb (p m)) ms.
Definition update_map (p : mapping -> bool) (f : mapping -> mapping) (ms : list mapping) : list mapping :=
  map (fun m => if p m then f m else m) ms.

Definition has_key (k : rkey) (l : list rkey) : bool := existsb (rkey_eqb k) l.

(* result of a translation: ROk addr = the rewritten address (source for outbound, destination
   for inbound); RDrop = (nil, nil); RErr = an error is returned *)
Inductive tres := ROk (a : ep) | RDrop | RErr.

Definition translate_out (now : Z) (s : nat_state) (src dst : ep) : nat_state * tres :=
  if one_to_one s then
    match paired (localIPs s) (mappedIPs s) (fst src) with
    | Some ip => (s, ROk (ip, snd src))
    | None => (s, RDrop)
    end
  else
    let bound := key_of (mapb s) dst in
    let fkey := key_of (filtb s) dst in
    let found := find_map (okey_match src bound) (maps s) in
    (* findOutboundMapping: expired => removed, else refreshed *)
    let '(ms1, live) :=
      match found with
      | Some m =>
          if now >? m_expires m then (remove_map (okey_match src bound) (maps s), None)
          else (maps s, Some m)
      | None => (maps s, None)
      end in
    match live with
    | Some m =>
        let upd m0 := {| m_local := m_local m0; m_mapped := m_mapped m0; m_bound := m_bound m0;
                         m_filters := if has_key fkey (m_filters m0) then m_filters m0 else fkey :: m_filters m0;
                         m_expires := now + lifetime s |} in
        let ms2 := update_map (okey_match src bound) upd ms1 in
        (with_maps s ms2 (counter s),
         if snd (m_mapped m) >? 65535 then RErr else ROk (m_mapped m))
    | None =>
        let port := 49152 + counter s in
        let ip0 := match mappedIPs s with ip :: _ => ip | [] => 0 end in
        let m := {| m_local := src; m_mapped := (ip0, port); m_bound := bound; m_filters := [fkey];
                    m_expires := now + lifetime s |} in
        (with_maps s (m :: ms1) (counter s + 1), if port >? 65535 then RErr else ROk (ip0, port))
    end.

Definition translate_in (now : Z) (s : nat_state) (src dst : ep) : nat_state * tres :=
  if one_to_one s then
    match paired (mappedIPs s) (localIPs s) (fst dst) with
    | Some ip => (s, ROk (ip, snd dst))
    | None => (s, RErr)
    end
  else
    match find_map (ikey_match dst) (maps s) with
    | None => (s, RErr)
    | Some m =>
        if now >? m_expires m then (with_maps s (remove_map (ikey_match dst) (maps s)) (counter s), RErr)
        else if has_key (key_of (filtb s) src) (m_filters m) then (s, ROk (m_local m))
        else (s, RErr)
    end.

(* ---- histories ------------------------------------------------------------------------------ *)

Inductive nop := NOut (now : Z) (src dst : ep) | NIn (now : Z) (src dst : ep).

Definition enc_res (r : tres) : zs :=
  match r with ROk (ip, port) => [0; ip; port] | RDrop => [1] | RErr => [2] end.

Definition nat_step (s : nat_state) (o : nop) : nat_state * zs :=
  match o with
  | NOut now src dst => let '(s', r) := translate_out now s src dst in (s', enc_res r)
  | NIn now src dst => let '(s', r) := translate_in now s src dst in (s', enc_res r)
  end.

Fixpoint nat_run (s : nat_state) (h : list nop) : list zs :=
  match h with
  | [] => []
  | o :: h' => let '(s', r) := nat_step s o in r :: nat_run s' h'
  end.

(* wire: conf = [flags; mapb; filtb; lifetime; k; mapped ips (k); local ips (k)]; flags: bit 0 = 1:1 mode, bits 1 and 2 = the
   NATType options PortPreservation and Hairpinning, which the code documents as "not implemented yet" and ignores - as does the model;
   op = [dir (0 out, 1 in); now; src ip; src port; dst ip; dst port] *)
Definition dec_nop (o : zs) : nop :=
  match o with
  | d :: now :: si :: sp :: di :: dp :: _ =>
      if d =? 0 then NOut now (si, sp) (di, dp) else NIn now (si, sp) (di, dp)
  | _ => NIn 0 (0, 0) (0, 0)
  end.

Definition nat_model_run (conf : zs) (ops : list zs) : list zs :=
  match conf with
  | m :: mb :: fb :: life :: k :: rest =>
      let kn := Z.to_nat k in
      nat_run (new_nat (Z.odd m) mb fb life (firstn kn rest) (firstn kn (skipn kn rest))) (map dec_nop ops)
  | _ => []
  end.
