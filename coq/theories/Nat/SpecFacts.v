(* Facts about the NAT Spec that spell out C02 and C03. *)
From Tx Require Import Common.Base Nat.Model Nat.Spec Nat.Proofs.

Local Arguments Z.add : simpl never.
Local Arguments Z.gtb : simpl never.

Fixpoint s_final (s : nat_state) (h : list nop) : nat_state :=
  match h with [] => s | o :: h' => s_final (fst (s_step s o)) h' end.

Lemma s_step_inv s o : SInv s -> SInv (fst (s_step s o)).
Proof.
  intros SI. destruct o as [t src dst|t src dst]; simpl; [|assumption].
  assert (MI0 : True) by exact I.
  unfold s_translate_out. destruct (one_to_one s).
  - destruct (paired (localIPs s) (mappedIPs s) (fst src)); assumption.
  - unfold find_map.
    destruct (find (fun m => okey_match src (key_of (mapb s) dst) m && live t m) (maps s)); simpl.
    + fold (refresh (key_of (filtb s) dst) (t + lifetime s)). apply SInv_update. assumption.
    + apply (SInv_new s); [destruct SI; split; assumption|reflexivity].
Qed.

Lemma s_final_inv h : forall s, SInv s -> SInv (s_final s h).
Proof. induction h as [|o h IH]; intros s SI; [assumption|]. simpl. apply IH. apply s_step_inv. assumption. Qed.

(* outbound, normal mode: reuse exactly while a mapping with the same key is live *)
Lemma s_out_reuse t s src dst m : one_to_one s = false -> SInv s ->
  find (fun m0 => okey_match src (key_of (mapb s) dst) m0 && live t m0) (maps s) = Some m ->
  snd (s_translate_out t s src dst) = (if snd (m_mapped m) >? 65535 then RErr else ROk (m_mapped m)) /\
  In m (maps s) /\ okey m = (src, key_of (mapb s) dst) /\ t <= m_expires m /\
  counter (fst (s_translate_out t s src dst)) = counter s.
Proof.
  intros H1 SI Hf. unfold s_translate_out. rewrite H1. unfold find_map. rewrite Hf. simpl.
  apply find_some in Hf. destruct Hf as [Hin Hp]. apply andb_true_iff in Hp. destruct Hp as [Hk Hl].
  apply okey_match_eq in Hk. unfold live in Hl. repeat split; try assumption; lia.
Qed.

Lemma s_out_fresh t s src dst : one_to_one s = false -> SInv s ->
  find (fun m0 => okey_match src (key_of (mapb s) dst) m0 && live t m0) (maps s) = None ->
  let a := (ip0 s, 49152 + counter s) in
  snd (s_translate_out t s src dst) = (if 49152 + counter s >? 65535 then RErr else ROk a) /\
  (forall m, In m (maps s) -> m_mapped m <> a) /\
  (forall m, In m (maps s) -> okey m = (src, key_of (mapb s) dst) -> m_expires m < t) /\
  counter (fst (s_translate_out t s src dst)) = counter s + 1.
Proof.
  intros H1 SI Hf. unfold s_translate_out. rewrite H1. unfold find_map. rewrite Hf. simpl.
  split; [reflexivity|]. split; [|split; [|reflexivity]].
  - intros m Hm E. destruct (si_ports s SI m Hm) as [_ Hp]. rewrite E in Hp. simpl in Hp. lia.
  - intros m Hm Hk. pose proof (find_none _ _ Hf m Hm) as Hn. simpl in Hn.
    assert (okey_match src (key_of (mapb s) dst) m = true) by (apply okey_match_eq; assumption).
    rewrite H in Hn. unfold live in Hn. simpl in Hn. lia.
Qed.

Lemma s_out_valid t s src dst a : one_to_one s = false -> SInv s ->
  snd (s_translate_out t s src dst) = ROk a -> fst a = ip0 s /\ 49152 <= snd a <= 65535.
Proof.
  intros H1 SI Hr. unfold s_translate_out in Hr. rewrite H1 in Hr. unfold find_map in Hr.
  destruct (find (fun m => okey_match src (key_of (mapb s) dst) m && live t m) (maps s)) as [m|] eqn:Ef; simpl in Hr.
  - apply find_some in Ef. destruct Ef as [Hin _]. destruct (si_ports s SI m Hin) as [Hi Hp].
    destruct (snd (m_mapped m) >? 65535) eqn:E; [discriminate|]. inversion Hr; subst a. split; [assumption|lia].
  - destruct (49152 + counter s >? 65535) eqn:E; [discriminate|]. inversion Hr; subst a. simpl.
    pose proof (si_counter s SI). split; [reflexivity|lia].
Qed.

(* inbound, normal mode: admitted iff a live mapping owns the address and permits the sender *)
Lemma s_in_admit_iff t s src dst a : one_to_one s = false -> SInv s ->
  s_translate_in t s src dst = ROk a <->
  exists m, In m (maps s) /\ m_mapped m = dst /\ t <= m_expires m /\
            has_key (key_of (filtb s) src) (m_filters m) = true /\ a = m_local m.
Proof.
  intros H1 SI. unfold s_translate_in. rewrite H1. unfold find_map. split.
  - destruct (find (fun m => ikey_match dst m && live t m) (maps s)) as [m|] eqn:Ef; [|discriminate].
    apply find_some in Ef. destruct Ef as [Hin Hp]. apply andb_true_iff in Hp. destruct Hp as [Hk Hl].
    apply ikey_match_eq in Hk. unfold live in Hl.
    destruct (has_key (key_of (filtb s) src) (m_filters m)) eqn:Eh; [|discriminate].
    intros Hr. inversion Hr; subst a. exists m. repeat split; try assumption; lia.
  - intros [m [Hin [Hk [Hl [Hh ->]]]]].
    destruct (find (fun m0 => ikey_match dst m0 && live t m0) (maps s)) as [m'|] eqn:Ef.
    + apply find_some in Ef. destruct Ef as [Hin' Hp]. apply andb_true_iff in Hp. destruct Hp as [Hk' _].
      apply ikey_match_eq in Hk'.
      assert (m' = m) by (apply (nodup_map_inj m_mapped (maps s)); try apply SI; try assumption; congruence).
      subst m'. rewrite Hh. reflexivity.
    + exfalso. pose proof (find_none _ _ Ef m Hin) as Hn. simpl in Hn.
      assert (ikey_match dst m = true) by (apply ikey_match_eq; assumption).
      rewrite H in Hn. unfold live in Hn. simpl in Hn. lia.
Qed.

(* 1:1 mode: the two rewritings are inverse to each other on the paired addresses *)
Lemma paired_inverse ks : forall vs x y, NoDup vs -> length ks = length vs ->
  paired ks vs x = Some y -> paired vs ks y = Some x /\ In y vs.
Proof.
  induction ks as [|k ks IH]; intros vs x y ND L H; destruct vs as [|v vs]; simpl in *; try discriminate.
  inversion ND as [|? ? Hn ND']; subst.
  destruct (k =? x) eqn:E.
  - inversion H; subst y. rewrite Z.eqb_refl. apply Z.eqb_eq in E. subst. auto.
  - destruct (IH vs x y ND' ltac:(lia) H) as [Hp Hin].
    destruct (v =? y) eqn:E2.
    + apply Z.eqb_eq in E2. subst v. contradiction.
    + auto.
Qed.

(* an inbound datagram changes no later answer of the model *)
Lemma inbound_neutral t0 t s sp src dst h :
  t0 <= t -> monotone t h -> Rel t0 s sp -> MInv s -> SInv sp ->
  nat_run s (NIn t src dst :: h) = enc_res (s_translate_in t sp src dst) :: nat_run s h /\
  (exists r, nat_run s (NIn t src dst :: h) = r :: nat_run s h).
Proof.
  intros Ht Hm R MI SI.
  assert (E1 : nat_run s (NIn t src dst :: h) = s_run sp (NIn t src dst :: h)).
  { apply (nat_run_refines _ t0); simpl; auto. }
  assert (E2 : nat_run s h = s_run sp h).
  { apply (nat_run_refines _ t); try assumption. apply (Rel_later t0); assumption. }
  rewrite E1, E2. simpl. split; [reflexivity|eauto].
Qed.

Lemma model_refines_spec m mb fb life mips lips h : monotone 0 h ->
  nat_run (new_nat m mb fb life mips lips) h = s_run (new_nat m mb fb life mips lips) h.
Proof.
  intros Hm.
  destruct (init_inv (new_nat m mb fb life mips lips)) as [R [MI SI]];
    try (unfold new_nat; destruct m; reflexivity).
  exact (nat_run_refines h 0 _ _ Hm R MI SI).
Qed.
