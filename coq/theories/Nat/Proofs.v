(* The NAT model (lazy removal of expired mappings, as in the Go code) gives the same answers
   as the removal-free Spec for every history with non-decreasing time stamps. *)
From Tx Require Import Common.Base Nat.Model Nat.Spec.

Local Arguments Z.add : simpl never.
Local Arguments Z.sub : simpl never.
Local Arguments Z.leb : simpl never.
Local Arguments Z.gtb : simpl never.

(* ---- keys -------------------------------------------------------------------------------------- *)

Lemma ep_eqb_eq a b : ep_eqb a b = true <-> a = b.
Proof.
  destruct a as [a1 a2], b as [b1 b2]. unfold ep_eqb. simpl. rewrite andb_true_iff, !Z.eqb_eq.
  split; [intros [-> ->]; reflexivity|intros H; inversion H; auto].
Qed.

Lemma rkey_eqb_eq a b : rkey_eqb a b = true <-> a = b.
Proof.
  destruct a, b; simpl; try (split; [discriminate|intros H; inversion H]); try tauto.
  - rewrite Z.eqb_eq. split; [intros ->; reflexivity|intros H; inversion H; reflexivity].
  - rewrite andb_true_iff, !Z.eqb_eq. split; [intros [-> ->]; reflexivity|intros H; inversion H; auto].
Qed.

Definition okey (m : mapping) : ep * rkey := (m_local m, m_bound m).

Lemma okey_match_eq src bound m : okey_match src bound m = true <-> okey m = (src, bound).
Proof.
  unfold okey_match, okey. rewrite andb_true_iff, ep_eqb_eq, rkey_eqb_eq.
  split; [intros [-> ->]; reflexivity|intros H; inversion H; auto].
Qed.

Lemma ikey_match_eq dst m : ikey_match dst m = true <-> m_mapped m = dst.
Proof. unfold ikey_match. apply ep_eqb_eq. Qed.

(* ---- list facts --------------------------------------------------------------------------------- *)

Lemma nodup_map_inj {A B} (f : A -> B) (l : list A) a b :
  NoDup (map f l) -> In a l -> In b l -> f a = f b -> a = b.
Proof.
  induction l as [|x l IH]; intros ND Ha Hb E; [contradiction|].
  simpl in ND. inversion ND as [|? ? Hn ND']; subst.
  destruct Ha as [->|Ha]; destruct Hb as [->|Hb]; try reflexivity.
  - exfalso. apply Hn. rewrite E. apply in_map. assumption.
  - exfalso. apply Hn. rewrite <- E. apply in_map. assumption.
  - apply IH; assumption.
Qed.

Lemma filter_filter_dead {A} (p q : A -> bool) (l : list A) :
  (forall x, In x l -> q x = true -> p x = false) ->
  filter p (filter (fun x => negb (q x)) l) = filter p l.
Proof.
  induction l as [|x l IH]; intros H; [reflexivity|]. simpl.
  destruct (q x) eqn:Eq; simpl.
  - rewrite (H x (or_introl eq_refl) Eq). apply IH. intros y Hy. apply H. right. assumption.
  - destruct (p x); [f_equal|]; apply IH; intros y Hy; apply H; right; assumption.
Qed.

Lemma filter_map_preserving {A} (p : A -> bool) (g : A -> A) (l : list A) :
  (forall x, p x = false -> g x = x) ->
  filter p (map g l) = filter p (map g (filter p l)).
Proof.
  intros H. induction l as [|x l IH]; [reflexivity|]. simpl.
  destruct (p x) eqn:E; simpl.
  - destruct (p (g x)); [f_equal|]; exact IH.
  - rewrite (H x E), E. exact IH.
Qed.

Lemma filter_mono (l : list mapping) t0 t : t0 <= t ->
  filter (live t) l = filter (live t) (filter (live t0) l).
Proof.
  intros Ht. induction l as [|x l IH]; [reflexivity|]. simpl.
  destruct (live t0 x) eqn:E0; simpl.
  - destruct (live t x); [f_equal|]; exact IH.
  - assert (live t x = false) as -> by (unfold live in *; lia). exact IH.
Qed.

(* ---- invariants ----------------------------------------------------------------------------------- *)

Definition ip0 (s : nat_state) : Z := match mappedIPs s with ip :: _ => ip | [] => 0 end.

Record SInv (s : nat_state) : Prop := {
  si_ports : forall m, In m (maps s) ->
      fst (m_mapped m) = ip0 s /\ 49152 <= snd (m_mapped m) < 49152 + counter s;
  si_nodup : NoDup (map m_mapped (maps s));
  si_counter : 0 <= counter s
}.

Record MInv (s : nat_state) : Prop := {
  mi_s : SInv s;
  mi_okeys : NoDup (map okey (maps s))
}.

Record Rel (t : Z) (s sp : nat_state) : Prop := {
  rl_mode : one_to_one s = one_to_one sp;
  rl_mapb : mapb s = mapb sp; rl_filtb : filtb s = filtb sp; rl_life : lifetime s = lifetime sp;
  rl_mips : mappedIPs s = mappedIPs sp; rl_lips : localIPs s = localIPs sp;
  rl_counter : counter s = counter sp;
  rl_live : filter (live t) (maps s) = filter (live t) (maps sp)
}.

Lemma Rel_later t0 t s sp : t0 <= t -> Rel t0 s sp -> Rel t s sp.
Proof.
  intros Ht [? ? ? ? ? ? ? Hl]. split; try assumption.
  rewrite (filter_mono (maps s) t0 t Ht), (filter_mono (maps sp) t0 t Ht), Hl. reflexivity.
Qed.

Lemma in_live_transfer t s sp m : Rel t s sp -> In m (maps s) -> live t m = true -> In m (maps sp).
Proof.
  intros R Hin Hl. assert (In m (filter (live t) (maps sp))) as H.
  { rewrite <- (rl_live t s sp R). apply filter_In. auto. }
  apply filter_In in H. tauto.
Qed.

Lemma in_live_transfer' t s sp m : Rel t s sp -> In m (maps sp) -> live t m = true -> In m (maps s).
Proof.
  intros R Hin Hl. assert (In m (filter (live t) (maps s))) as H.
  { rewrite (rl_live t s sp R). apply filter_In. auto. }
  apply filter_In in H. tauto.
Qed.

(* ---- inbound ----------------------------------------------------------------------------------------- *)

Lemma translate_in_spec t s sp src dst : Rel t s sp -> MInv s -> SInv sp ->
  let '(s', r) := translate_in t s src dst in
  r = s_translate_in t sp src dst /\ Rel t s' sp /\ MInv s'.
Proof.
  intros R MI SI. unfold translate_in, s_translate_in.
  rewrite <- (rl_mode t s sp R), <- (rl_mips t s sp R), <- (rl_lips t s sp R), <- (rl_filtb t s sp R).
  destruct (one_to_one s).
  - destruct (paired (mappedIPs s) (localIPs s) (fst dst)); auto.
  - unfold find_map.
    destruct (find (ikey_match dst) (maps s)) as [m|] eqn:Ef.
    + apply find_some in Ef. destruct Ef as [Hin Hk]. apply ikey_match_eq in Hk.
      destruct (t >? m_expires m) eqn:Ed.
      * (* expired: removed by the model, invisible to the Spec *)
        assert (Hnone : find (fun m0 => ikey_match dst m0 && live t m0) (maps sp) = None).
        { destruct (find (fun m0 => ikey_match dst m0 && live t m0) (maps sp)) as [m'|] eqn:Ef'; [|reflexivity].
          apply find_some in Ef'. destruct Ef' as [Hin' Hp]. apply andb_true_iff in Hp. destruct Hp as [Hk' Hl'].
          apply ikey_match_eq in Hk'.
          pose proof (in_live_transfer' t s sp m' R Hin' Hl') as Hin2.
          assert (m' = m) by (apply (nodup_map_inj m_mapped (maps s)); try apply MI; try assumption; congruence).
          subst m'. unfold live in Hl'. lia. }
        rewrite Hnone. split; [reflexivity|]. split.
        -- destruct R. split; simpl; try assumption.
           unfold remove_map. rewrite filter_filter_dead; [assumption|].
           intros x Hx Hkx. apply ikey_match_eq in Hkx.
           assert (x = m) by (apply (nodup_map_inj m_mapped (maps s)); try apply MI; try assumption; congruence).
           subst x. unfold live. lia.
        -- destruct MI as [[P1 P2 P3] P4]. split; [split|]; simpl.
           ++ intros x Hx. apply filter_In in Hx. apply P1. tauto.
           ++ unfold remove_map. clear - P2. induction (maps s) as [|x l IH]; simpl; [constructor|].
              simpl in P2. inversion P2; subst. destruct (negb (ikey_match dst x)); simpl; auto.
              constructor; auto. intros Hc. apply H1. apply in_map_iff in Hc. destruct Hc as [y [Ey Hy]].
              apply filter_In in Hy. apply in_map_iff. exists y. tauto.
           ++ assumption.
           ++ unfold remove_map. clear - P4. induction (maps s) as [|x l IH]; simpl; [constructor|].
              simpl in P4. inversion P4; subst. destruct (negb (ikey_match dst x)); simpl; auto.
              constructor; auto. intros Hc. apply H1. apply in_map_iff in Hc. destruct Hc as [y [Ey Hy]].
              apply filter_In in Hy. apply in_map_iff. exists y. tauto.
      * (* live: the Spec finds the same mapping *)
        assert (Hl : live t m = true) by (unfold live; lia).
        pose proof (in_live_transfer t s sp m R Hin Hl) as Hin'.
        destruct (find (fun m0 => ikey_match dst m0 && live t m0) (maps sp)) as [m'|] eqn:Ef'.
        -- apply find_some in Ef'. destruct Ef' as [Hin2 Hp]. apply andb_true_iff in Hp. destruct Hp as [Hk' _].
           apply ikey_match_eq in Hk'.
           assert (m' = m) by (apply (nodup_map_inj m_mapped (maps sp)); try apply SI; try assumption; congruence).
           subst m'. destruct (has_key (key_of (filtb s) src) (m_filters m)); auto.
        -- exfalso. pose proof (find_none _ _ Ef' m Hin') as Hn. simpl in Hn.
           assert (ikey_match dst m = true) by (apply ikey_match_eq; assumption).
           rewrite H, Hl in Hn. discriminate.
    + assert (Hnone : find (fun m0 => ikey_match dst m0 && live t m0) (maps sp) = None).
      { destruct (find (fun m0 => ikey_match dst m0 && live t m0) (maps sp)) as [m'|] eqn:Ef'; [|reflexivity].
        apply find_some in Ef'. destruct Ef' as [Hin' Hp]. apply andb_true_iff in Hp. destruct Hp as [Hk' Hl'].
        pose proof (in_live_transfer' t s sp m' R Hin' Hl') as Hin2.
        pose proof (find_none _ _ Ef m' Hin2) as Hn. congruence. }
      rewrite Hnone. auto.
Qed.

(* ---- outbound --------------------------------------------------------------------------------------- *)

Lemma nodup_filter {A B} (f : A -> B) (p : A -> bool) (l : list A) :
  NoDup (map f l) -> NoDup (map f (filter p l)).
Proof.
  induction l as [|x l IH]; intros H; simpl; [constructor|]. simpl in H. inversion H; subst.
  destruct (p x); simpl; auto. constructor; auto.
  intros Hc. apply H2. apply in_map_iff in Hc. destruct Hc as [y [Ey Hy]].
  apply filter_In in Hy. apply in_map_iff. exists y. tauto.
Qed.

Lemma map_update_same {B} (f : mapping -> B) sel upd (l : list mapping) :
  (forall m, f (upd m) = f m) -> map f (update_map sel upd l) = map f l.
Proof.
  intros H. unfold update_map. rewrite map_map. apply map_ext. intros m. destruct (sel m); auto.
Qed.

Lemma update_map_ext sel1 sel2 upd (l : list mapping) :
  (forall m, In m l -> sel1 m = sel2 m) -> update_map sel1 upd l = update_map sel2 upd l.
Proof.
  intros H. unfold update_map. apply map_ext_in. intros m Hm. rewrite (H m Hm). reflexivity.
Qed.

Definition refresh (fkey : rkey) (exp : Z) (m0 : mapping) : mapping :=
  {| m_local := m_local m0; m_mapped := m_mapped m0; m_bound := m_bound m0;
     m_filters := if has_key fkey (m_filters m0) then m_filters m0 else fkey :: m_filters m0;
     m_expires := exp |}.

Lemma SInv_update s sel fkey exp : SInv s ->
  SInv (with_maps s (update_map sel (refresh fkey exp) (maps s)) (counter s)).
Proof.
  intros [P1 P2 P3]. split; simpl; try assumption.
  - intros m Hm. unfold update_map in Hm. apply in_map_iff in Hm. destruct Hm as [x [Ex Hx]].
    specialize (P1 x Hx). destruct (sel x); subst m; simpl; exact P1.
  - rewrite map_update_same; [assumption|reflexivity].
Qed.

Lemma SInv_new s m ms : SInv (with_maps s ms (counter s)) ->
  m_mapped m = (ip0 s, 49152 + counter s) ->
  SInv (with_maps s (m :: ms) (counter s + 1)).
Proof.
  intros [P1 P2 P3] Hm. simpl in *. split; simpl.
  - intros x [<-|Hx].
    + rewrite Hm. simpl. unfold ip0. simpl. lia.
    + specialize (P1 x Hx). unfold ip0 in *. simpl in *. lia.
  - constructor; [|assumption]. intros Hc. apply in_map_iff in Hc. destruct Hc as [x [Ex Hx]].
    specialize (P1 x Hx). rewrite Ex, Hm in P1. simpl in P1. lia.
  - lia.
Qed.

Lemma translate_out_spec t s sp src dst : Rel t s sp -> MInv s -> SInv sp ->
  let '(s', r) := translate_out t s src dst in
  let '(sp', r') := s_translate_out t sp src dst in
  r = r' /\ Rel t s' sp' /\ MInv s' /\ SInv sp'.
Proof.
  intros R MI SI. unfold translate_out, s_translate_out.
  rewrite <- (rl_mode t s sp R), <- (rl_mips t s sp R), <- (rl_lips t s sp R), <- (rl_filtb t s sp R),
          <- (rl_mapb t s sp R), <- (rl_life t s sp R), <- (rl_counter t s sp R).
  destruct (one_to_one s).
  - destruct (paired (localIPs s) (mappedIPs s) (fst src)); auto.
  - set (bound := key_of (mapb s) dst). set (fkey := key_of (filtb s) dst).
    set (sel := fun m => okey_match src bound m && live t m).
    fold (refresh fkey (t + lifetime s)).
    unfold find_map.
    assert (Huniq : forall x y, In x (maps s) -> In y (maps s) ->
                    okey_match src bound x = true -> okey_match src bound y = true -> x = y).
    { intros x y Hx Hy Kx Ky. apply okey_match_eq in Kx, Ky.
      apply (nodup_map_inj okey (maps s)); try apply MI; try assumption. congruence. }
    (* what the Spec finds is determined by what the model finds *)
    destruct (find (okey_match src bound) (maps s)) as [m|] eqn:Ef.
    + apply find_some in Ef. destruct Ef as [Hin Hk].
      destruct (t >? m_expires m) eqn:Ed.
      * (* expired: the model removes it, then both create *)
        assert (Hnone : find sel (maps sp) = None).
        { destruct (find sel (maps sp)) as [m'|] eqn:Ef'; [|reflexivity].
          apply find_some in Ef'. destruct Ef' as [Hin' Hp]. unfold sel in Hp.
          apply andb_true_iff in Hp. destruct Hp as [Hk' Hl'].
          pose proof (in_live_transfer' t s sp m' R Hin' Hl') as Hin2.
          assert (m' = m) by (apply Huniq; assumption). subst m'. unfold live in Hl'. lia. }
        rewrite Hnone.
        set (newm := {| m_local := src; m_mapped := (match mappedIPs s with ip :: _ => ip | [] => 0 end, 49152 + counter s);
                        m_bound := bound; m_filters := [fkey]; m_expires := t + lifetime s |}).
        assert (Hrm : filter (live t) (remove_map (okey_match src bound) (maps s)) = filter (live t) (maps s)).
        { unfold remove_map. apply filter_filter_dead. intros x Hx Kx.
          assert (x = m) by (apply Huniq; assumption). subst x. unfold live. lia. }
        split; [reflexivity|]. split; [|split].
        -- destruct R. split; simpl; try assumption; try lia.
           rewrite Hrm, rl_live0. reflexivity.
        -- destruct MI as [MS MK]. split.
           ++ apply SInv_new; [|reflexivity].
              destruct MS as [P1 P2 P3]. split; simpl; try assumption.
              ** intros x Hx. apply filter_In in Hx. apply P1. tauto.
              ** apply nodup_filter. assumption.
           ++ simpl. constructor.
              ** intros Hc. apply in_map_iff in Hc. destruct Hc as [x [Ex Hx]].
                 unfold remove_map in Hx. apply filter_In in Hx. destruct Hx as [_ Hn].
                 assert (okey_match src bound x = true) by (apply okey_match_eq; exact Ex).
                 rewrite H in Hn. discriminate.
              ** apply nodup_filter. assumption.
        -- rewrite (rl_counter t s sp R).
           apply (SInv_new sp); [destruct SI; split; assumption|].
           unfold newm, ip0. cbn [m_mapped]. rewrite (rl_mips t s sp R), (rl_counter t s sp R). reflexivity.
      * (* live: both refresh the same mapping *)
        assert (Hl : live t m = true) by (unfold live; lia).
        pose proof (in_live_transfer t s sp m R Hin Hl) as Hin'.
        assert (Hfs : find sel (maps sp) = Some m).
        { destruct (find sel (maps sp)) as [m'|] eqn:Ef'.
          - apply find_some in Ef'. destruct Ef' as [Hin2 Hp]. unfold sel in Hp.
            apply andb_true_iff in Hp. destruct Hp as [Hk' Hl'].
            pose proof (in_live_transfer' t s sp m' R Hin2 Hl') as Hin3.
            f_equal. apply Huniq; assumption.
          - exfalso. pose proof (find_none _ _ Ef' m Hin') as Hn. unfold sel in Hn.
            rewrite Hk, Hl in Hn. discriminate. }
        rewrite Hfs. split; [reflexivity|].
        assert (Hsel : update_map (okey_match src bound) (refresh fkey (t + lifetime s)) (maps s)
                       = update_map sel (refresh fkey (t + lifetime s)) (maps s)).
        { apply update_map_ext. intros x Hx. unfold sel.
          destruct (okey_match src bound x) eqn:Kx; [|reflexivity].
          assert (x = m) by (apply Huniq; assumption). subst x. rewrite Hl. reflexivity. }
        rewrite Hsel. split; [|split].
        -- destruct R. split; cbn [with_maps one_to_one mapb filtb lifetime mappedIPs localIPs counter maps]; try assumption; try reflexivity.
           unfold update_map.
           rewrite (filter_map_preserving (live t) _ (maps s)),
                   (filter_map_preserving (live t) _ (maps sp)).
           ++ rewrite rl_live0. reflexivity.
           ++ intros x Hx. unfold sel. rewrite Hx, andb_false_r. reflexivity.
           ++ intros x Hx. unfold sel. rewrite Hx, andb_false_r. reflexivity.
        -- destruct MI as [MS MK]. split.
           ++ apply SInv_update. assumption.
           ++ simpl. rewrite map_update_same; [assumption|reflexivity].
        -- rewrite (rl_counter t s sp R). apply SInv_update. assumption.
    + (* no entry at all *)
      assert (Hnone : find sel (maps sp) = None).
      { destruct (find sel (maps sp)) as [m'|] eqn:Ef'; [|reflexivity].
        apply find_some in Ef'. destruct Ef' as [Hin' Hp]. unfold sel in Hp.
        apply andb_true_iff in Hp. destruct Hp as [Hk' Hl'].
        pose proof (in_live_transfer' t s sp m' R Hin' Hl') as Hin2.
        pose proof (find_none _ _ Ef m' Hin2) as Hn. congruence. }
      rewrite Hnone. split; [reflexivity|]. split; [|split].
      * destruct R. split; simpl; try assumption; try lia.
        rewrite rl_live0. reflexivity.
      * destruct MI as [MS MK]. split.
        -- apply SInv_new; [destruct MS; split; assumption|reflexivity].
        -- simpl. constructor; [|assumption].
           intros Hc. apply in_map_iff in Hc. destruct Hc as [x [Ex Hx]].
           pose proof (find_none _ _ Ef x Hx) as Hn.
           assert (okey_match src bound x = true) by (apply okey_match_eq; exact Ex). congruence.
      * rewrite (rl_counter t s sp R).
        apply (SInv_new sp); [destruct SI; split; assumption|].
        unfold ip0. cbn [m_mapped]. rewrite (rl_mips t s sp R). reflexivity.
Qed.

(* ---- histories --------------------------------------------------------------------------------------- *)

Theorem nat_run_refines h : forall t0 s sp, monotone t0 h -> Rel t0 s sp -> MInv s -> SInv sp ->
  nat_run s h = s_run sp h.
Proof.
  induction h as [|o h IH]; intros t0 s sp Hm R MI SI; [reflexivity|].
  destruct Hm as [Ht Hm]. simpl.
  pose proof (Rel_later t0 (op_time o) s sp Ht R) as R'.
  destruct o as [t src dst|t src dst]; simpl in *.
  - pose proof (translate_out_spec t s sp src dst R' MI SI) as S.
    destruct (translate_out t s src dst) as [s' r]. destruct (s_translate_out t sp src dst) as [sp' r'].
    destruct S as [-> [R2 [MI2 SI2]]]. f_equal. apply (IH t); assumption.
  - pose proof (translate_in_spec t s sp src dst R' MI SI) as S.
    destruct (translate_in t s src dst) as [s' r].
    destruct S as [-> [R2 MI2]]. f_equal. apply (IH t); assumption.
Qed.

Lemma init_inv s : maps s = [] -> counter s = 0 -> Rel 0 s s /\ MInv s /\ SInv s.
Proof.
  intros Hm Hc. assert (SInv s) by (split; rewrite ?Hm, ?Hc; simpl; try constructor; try lia; intros m []).
  split; [split; reflexivity|]. split; [split; [assumption|rewrite Hm; constructor]|assumption].
Qed.
