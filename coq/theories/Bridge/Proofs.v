(* Bridge: conservation of messages (nothing duplicated or invented), exact effect of the
   scripted impairments; dpipe: FIFO per direction, independence of the two ends. *)
From Coq Require Import Permutation.
From Tx Require Import Common.Base Bridge.Model.

Local Arguments Z.sub : simpl never.
Local Arguments Z.add : simpl never.
Local Arguments Z.eqb : simpl never.
Local Arguments tick_close : simpl never.

Definition content (b : bridge) (dir : Z) : list msg :=
  queue (get_dir b dir) ++ stack (get_dir b dir).

Definition dirn (x : Z) : Z := if x =? 0 then 0 else 1.

Lemma get_set_same b from d : get_dir (set_dir b from d) from = d.
Proof. unfold get_dir, set_dir. destruct (from =? 0); reflexivity. Qed.

Lemma get_set_other b from d dir : dirn dir <> dirn from -> get_dir (set_dir b from d) dir = get_dir b dir.
Proof.
  unfold get_dir, set_dir, dirn. destruct (from =? 0) eqn:E1; destruct (dir =? 0) eqn:E2; simpl; congruence.
Qed.

Lemma get_dir_dirn b x y : dirn x = dirn y -> get_dir b x = get_dir b y.
Proof. unfold get_dir, dirn. destruct (x =? 0); destruct (y =? 0); congruence. Qed.

(* messages entering and leaving direction [dir] at one step *)
Definition push_discards (d : dirstate) (m : msg) : bool :=
  (dropN d >? 0) || (negb (reorderN d >? 0) && negb (filter_pass (filt d) m)).

Definition flow (b : bridge) (o : bop) (dir : Z) : list msg * list msg :=
  match o with
  | BWrite from m =>
      if (dirn from =? dirn dir) && negb (closing0 b || closing1 b)
      then ([m], if push_discards (get_dir b from) m then [m] else [])
      else ([], [])
  | BRead side k =>
      if dirn (1 - side) =? dirn dir then
        let b1 := tick_close b in
        if (if side =? 0 then closed0 b1 else closed1 b1) then ([], [])
        else match queue (get_dir b1 (1 - side)) with m :: _ => ([], [m]) | [] => ([], []) end
      else ([], [])
  | BDrop from offset n =>
      if dirn from =? dirn dir then
        let q := queue (get_dir b from) in
        let n' := if offset + n >? zlen q then zlen q - offset else n in
        ([], zfirstn n' (zskipn offset q))
      else ([], [])
  | _ => ([], [])
  end.

Lemma push_dir_conserves d m :
  Permutation (queue (push_dir d m) ++ stack (push_dir d m) ++ (if push_discards d m then [m] else []))
              (queue d ++ stack d ++ [m]).
Proof.
  unfold push_dir, push_discards.
  destruct (dropN d >? 0) eqn:E1; simpl.
  - reflexivity.
  - destruct (reorderN d >? 0) eqn:E2; simpl.
    + destruct (reorderN d - 1 =? 0) eqn:E3; simpl.
      * rewrite !app_nil_r. apply Permutation_app_head. symmetry. apply Permutation_rev.
      * rewrite app_nil_r. reflexivity.
    + destruct (filter_pass (filt d) m) eqn:E4; simpl.
      * rewrite app_nil_r. rewrite <- !app_assoc. apply Permutation_app_head. apply Permutation_app_comm.
      * reflexivity.
Qed.

Lemma tick_close_dir b dir : get_dir (tick_close b) dir = get_dir b dir.
Proof. unfold get_dir, tick_close. destruct (dir =? 0); reflexivity. Qed.

Lemma zfirstn_zskipn_split {A} (q : list A) off n : 0 <= off -> 0 <= n ->
  Permutation (zfirstn off q ++ zskipn (off + n) q ++ zfirstn n (zskipn off q)) q.
Proof.
  intros Ho Hn.
  assert (Es : zskipn n (zskipn off q) = zskipn (off + n) q).
  { rewrite zskipn_zskipn by lia. f_equal. lia. }
  assert (E : zfirstn off q ++ zfirstn n (zskipn off q) ++ zskipn (off + n) q = q).
  { rewrite <- Es. rewrite zfirstn_zskipn. apply zfirstn_zskipn. }
  rewrite <- E at 4.
  apply Permutation_app_head. apply Permutation_app_comm.
Qed.

(* one step conserves the messages of each direction: what is held afterwards plus what
   left (delivered or discarded) is what was held before plus what entered *)
Lemma step_conserves b o dir :
  (forall from off n, o = BDrop from off n -> 0 <= off /\ 0 <= n) ->
  Permutation (content (fst (br_step b o)) dir ++ snd (flow b o dir))
              (content b dir ++ fst (flow b o dir)).
Proof.
  intros Hdrop. unfold content. destruct o as [from m|side k|from n|from n|from off n|from|from kind|from|side|];
    [simpl| |simpl|simpl|simpl|simpl|simpl|simpl|simpl|simpl].
  - (* write *)
    unfold br_write. destruct (closing0 b || closing1 b) eqn:Ec; simpl.
    + rewrite andb_false_r. simpl. reflexivity.
    + rewrite andb_true_r. destruct (dirn from =? dirn dir) eqn:Ed; simpl.
      * rewrite (get_dir_dirn _ dir from) by lia. rewrite get_set_same.
        rewrite (get_dir_dirn b dir from) by lia.
        rewrite <- !app_assoc. apply push_dir_conserves.
      * rewrite get_set_other by lia. reflexivity.
  - (* read *)
    cbn [br_step flow]. unfold br_read. cbv zeta.
    destruct (if side =? 0 then closed0 (tick_close b) else closed1 (tick_close b)) eqn:Ecl.
    + cbn [fst snd]. rewrite tick_close_dir. destruct (dirn (1 - side) =? dirn dir); reflexivity.
    + destruct (queue (get_dir (tick_close b) (1 - side))) as [|m rest] eqn:Eq.
      * cbn [fst snd]. rewrite tick_close_dir. destruct (dirn (1 - side) =? dirn dir); reflexivity.
      * cbn [fst snd]. destruct (dirn (1 - side) =? dirn dir) eqn:Ed; cbn [fst snd].
        -- rewrite (get_dir_dirn _ dir (1 - side)) by lia. rewrite get_set_same.
           rewrite (get_dir_dirn b dir (1 - side)) by lia.
           rewrite tick_close_dir in *. unfold with_queue. cbn [queue stack]. rewrite Eq. rewrite app_nil_r.
           change ((m :: rest) ++ stack (get_dir b (1 - side))) with ([m] ++ (rest ++ stack (get_dir b (1 - side)))).
           apply Permutation_app_comm.
        -- rewrite get_set_other by lia. rewrite tick_close_dir. reflexivity.
  - destruct (dirn from =? dirn dir) eqn:Ed.
    + rewrite (get_dir_dirn _ dir from) by lia. rewrite get_set_same. rewrite (get_dir_dirn b dir from) by lia. reflexivity.
    + rewrite get_set_other by lia. reflexivity.
  - destruct (dirn from =? dirn dir) eqn:Ed.
    + rewrite (get_dir_dirn _ dir from) by lia. rewrite get_set_same. rewrite (get_dir_dirn b dir from) by lia. reflexivity.
    + rewrite get_set_other by lia. reflexivity.
  - (* Drop *)
    destruct (Hdrop from off n eq_refl) as [Ho Hn].
    destruct (dirn from =? dirn dir) eqn:Ed; simpl.
    + rewrite (get_dir_dirn _ dir from) by lia. rewrite get_set_same. simpl.
      rewrite (get_dir_dirn b dir from) by lia. rewrite app_nil_r.
      unfold drop_range. set (q := queue (get_dir b from)).
      set (n' := if off + n >? zlen q then zlen q - off else n).
      destruct (Z_le_gt_dec 0 n') as [Hn'|Hn'].
      * rewrite <- !app_assoc.
        rewrite (Permutation_app_comm (stack (get_dir b from))).
        rewrite !app_assoc. apply Permutation_app_tail. rewrite <- app_assoc.
        apply zfirstn_zskipn_split; assumption.
      * (* offset beyond the end: nothing is removed *)
        rewrite (zfirstn_0 _ n') by lia. rewrite app_nil_r.
        apply Permutation_app_tail.
        assert (Hoff : zlen q < off) by (unfold n' in Hn'; destruct (off + n >? zlen q); lia).
        rewrite zfirstn_all by lia.
        assert (zskipn (off + n') q = []) as ->.
        { rewrite zskipn_skipn. apply skipn_all2. unfold n', zlen in *.
          destruct (off + n >? Z.of_nat (length q)) eqn:E; lia. }
        rewrite app_nil_r. reflexivity.
    + rewrite get_set_other by lia. rewrite app_nil_r. reflexivity.
  - (* Reorder *)
    unfold reorder_q. destruct (zlen (queue (get_dir b from)) <? 2); simpl; rewrite !app_nil_r.
    + destruct (dirn from =? dirn dir) eqn:Ed.
      * rewrite (get_dir_dirn _ dir from) by lia. rewrite get_set_same. simpl. rewrite (get_dir_dirn b dir from) by lia. reflexivity.
      * rewrite get_set_other by lia. reflexivity.
    + destruct (dirn from =? dirn dir) eqn:Ed.
      * rewrite (get_dir_dirn _ dir from) by lia. rewrite get_set_same. simpl. rewrite (get_dir_dirn b dir from) by lia.
        apply Permutation_app_tail. symmetry. apply Permutation_rev.
      * rewrite get_set_other by lia. reflexivity.
  - destruct (dirn from =? dirn dir) eqn:Ed.
    + rewrite (get_dir_dirn _ dir from) by lia. rewrite get_set_same. rewrite (get_dir_dirn b dir from) by lia. reflexivity.
    + rewrite get_set_other by lia. reflexivity.
  - rewrite !app_nil_r. reflexivity.
  - unfold br_close. destruct (if side =? 0 then closing0 b else closing1 b); simpl; rewrite !app_nil_r; [reflexivity|].
    destruct (side =? 0); simpl; unfold get_dir; simpl; reflexivity.
  - rewrite !app_nil_r. rewrite tick_close_dir. reflexivity.
Qed.

(* whole histories: messages that entered / left direction [dir] *)
Fixpoint flows (b : bridge) (h : list bop) (dir : Z) : list msg * list msg :=
  match h with
  | [] => ([], [])
  | o :: h' =>
      let '(i1, o1) := flow b o dir in
      let '(i2, o2) := flows (fst (br_step b o)) h' dir in
      (i1 ++ i2, o1 ++ o2)
  end.

Fixpoint br_final (b : bridge) (h : list bop) : bridge :=
  match h with [] => b | o :: h' => br_final (fst (br_step b o)) h' end.

Definition drops_ok (h : list bop) : Prop :=
  Forall (fun o => match o with BDrop _ off n => 0 <= off /\ 0 <= n | _ => True end) h.

Lemma history_conserves h : drops_ok h -> forall b dir,
  Permutation (content (br_final b h) dir ++ snd (flows b h dir))
              (content b dir ++ fst (flows b h dir)).
Proof.
  induction h as [|o h IH]; intros Hd b dir; simpl.
  - reflexivity.
  - inversion Hd as [|? ? Ho Hd']; subst.
    destruct (flow b o dir) as [i1 o1] eqn:Ef.
    destruct (flows (fst (br_step b o)) h dir) as [i2 o2] eqn:Efs. simpl.
    specialize (IH Hd' (fst (br_step b o)) dir). rewrite Efs in IH. simpl in IH.
    pose proof (step_conserves b o dir) as S. rewrite Ef in S. simpl in S.
    assert (Hdo : forall from off n, o = BDrop from off n -> 0 <= off /\ 0 <= n).
    { intros from off n ->. exact Ho. }
    specialize (S Hdo).
    rewrite app_assoc.
    rewrite (Permutation_app_comm (content (br_final (fst (br_step b o)) h) dir) o1).
    rewrite <- app_assoc. rewrite IH.
    rewrite app_assoc. rewrite (Permutation_app_comm o1). rewrite S.
    rewrite <- !app_assoc. reflexivity.
Qed.

(* ---- exact effect of the scripted impairments ---------------------------------------------- *)

Definition pushes (d : dirstate) (ms : list msg) : dirstate := fold_left push_dir ms d.

Lemma reorder_group ms : forall d, dropN d = 0 -> ms <> [] ->
  reorderN d = zlen ms ->
  pushes d ms = {| queue := queue d ++ rev (stack d ++ ms); dropN := 0; reorderN := 0; stack := []; filt := filt d |}.
Proof.
  induction ms as [|m ms IH]; intros d Hd Hne Hr; [congruence|].
  change (pushes d (m :: ms)) with (pushes (push_dir d m) ms).
  rewrite zlen_cons in Hr. pose proof (zlen_nonneg ms) as Hl.
  assert (E : push_dir d m =
    if reorderN d - 1 =? 0
    then {| queue := queue d ++ rev (stack d ++ [m]); dropN := dropN d; reorderN := 0; stack := []; filt := filt d |}
    else {| queue := queue d; dropN := dropN d; reorderN := reorderN d - 1; stack := stack d ++ [m]; filt := filt d |}).
  { unfold push_dir. rewrite Hd. simpl. destruct (reorderN d >? 0) eqn:E1; [reflexivity|lia]. }
  rewrite E. destruct (reorderN d - 1 =? 0) eqn:E2.
  - assert (ms = []) as -> by (apply zlen_0_nil; lia). simpl. rewrite Hd. reflexivity.
  - rewrite IH; simpl; try lia.
    + rewrite <- app_assoc. reflexivity.
    + intros ->. rewrite zlen_nil in Hr. lia.
Qed.

Lemma drop_group ms : forall d, zlen ms <= dropN d ->
  pushes d ms = {| queue := queue d; dropN := dropN d - zlen ms; reorderN := reorderN d; stack := stack d; filt := filt d |}.
Proof.
  induction ms as [|m ms IH]; intros d Hd.
  - simpl. rewrite zlen_nil. replace (dropN d - 0) with (dropN d) by lia. destruct d; reflexivity.
  - change (pushes d (m :: ms)) with (pushes (push_dir d m) ms).
    rewrite zlen_cons in *. pose proof (zlen_nonneg ms).
    assert (E : push_dir d m =
      {| queue := queue d; dropN := dropN d - 1; reorderN := reorderN d; stack := stack d; filt := filt d |}).
    { unfold push_dir. destruct (dropN d >? 0) eqn:E; [reflexivity|lia]. }
    rewrite E. rewrite IH; simpl; [|lia]. f_equal. lia.
Qed.

Lemma plain_pushes ms : forall d, dropN d <= 0 -> reorderN d <= 0 ->
  pushes d ms = {| queue := queue d ++ filter (filter_pass (filt d)) ms; dropN := dropN d; reorderN := reorderN d;
                   stack := stack d; filt := filt d |}.
Proof.
  induction ms as [|m ms IH]; intros d Hd Hr.
  - simpl. rewrite app_nil_r. destruct d; reflexivity.
  - change (pushes d (m :: ms)) with (pushes (push_dir d m) ms).
    assert (E : push_dir d m =
      if filter_pass (filt d) m
      then {| queue := queue d ++ [m]; dropN := dropN d; reorderN := reorderN d; stack := stack d; filt := filt d |}
      else d).
    { unfold push_dir. destruct (dropN d >? 0) eqn:E1; [lia|]. destruct (reorderN d >? 0) eqn:E2; [lia|].
      destruct (filter_pass (filt d) m); reflexivity. }
    rewrite E. simpl. destruct (filter_pass (filt d) m) eqn:E3.
    + rewrite IH; simpl; try lia. rewrite <- app_assoc. reflexivity.
    + rewrite IH; simpl; try lia. reflexivity.
Qed.

(* ---- dpipe -------------------------------------------------------------------------------------- *)

(* the answers and effects of end [side]'s operations do not depend on whether the other end is closed *)
Definition flip_other_closed (p : dpipe) (side : Z) : dpipe :=
  if side =? 0 then {| ch0 := ch0 p; ch1 := ch1 p; dclosed0 := dclosed0 p; dclosed1 := negb (dclosed1 p); wexp0 := wexp0 p; wexp1 := wexp1 p |}
  else {| ch0 := ch0 p; ch1 := ch1 p; dclosed0 := negb (dclosed0 p); dclosed1 := dclosed1 p; wexp0 := wexp0 p; wexp1 := wexp1 p |}.

Definition op_side (o : dop) : Z := match o with DWrite s _ => s | DRead s _ => s | DClose s => s | DSetWD s _ => s end.

Lemma dp_close_independent p o :
  let side := dirn (op_side o) in
  snd (dp_step (flip_other_closed p side) o) = snd (dp_step p o) /\
  fst (dp_step (flip_other_closed p side) o) = flip_other_closed (fst (dp_step p o)) side.
Proof.
  destruct o as [s m|s k|s|s e]; simpl; unfold dirn, flip_other_closed;
    destruct (s =? 0) eqn:E; simpl; rewrite ?E; simpl;
    repeat match goal with
           | |- context[if ?c then _ else _] => destruct c eqn:?; simpl
           | |- context[match ?l with [] => _ | _ :: _ => _ end] => destruct l eqn:?; simpl
           end; (split; [reflexivity|]); try reflexivity; try (f_equal; congruence).
Qed.

(* writing a batch on one end and reading it on the other: same messages, same order, each cut
   to the reader's slice *)
Lemma dp_fifo ms : forall p k, dclosed0 p = false -> dclosed1 p = false -> wexp0 p = false -> ch1 p = [] ->
  zlen ms <= dp_cap ->
  dp_run p (map (DWrite 0) ms ++ map (fun _ => DRead 1 k) ms) =
  map (fun m => [zlen m; 0]) ms ++ map (fun m => 0 :: zlen (zfirstn k m) :: zfirstn k m) ms.
Proof.
  intros p k H0 H1 Hw Hc Hcap.
  assert (W : forall ms p, dclosed0 p = false -> wexp0 p = false -> zlen (ch1 p) + zlen ms <= dp_cap -> forall rest,
            dp_run p (map (DWrite 0) ms ++ rest) =
            map (fun m => [zlen m; 0]) ms ++
            dp_run {| ch0 := ch0 p; ch1 := ch1 p ++ ms; dclosed0 := dclosed0 p; dclosed1 := dclosed1 p; wexp0 := wexp0 p; wexp1 := wexp1 p |} rest).
  { clear. induction ms as [|m ms IH]; intros p H0 Hw Hcap rest.
    - simpl. rewrite app_nil_r. destruct p; reflexivity.
    - simpl. rewrite H0, Hw. rewrite zlen_cons in Hcap. pose proof (zlen_nonneg ms).
      destruct (zlen (ch1 p) >=? dp_cap) eqn:E; [lia|]. f_equal.
      rewrite IH; cbn [dclosed0 dclosed1 wexp0 wexp1 ch0 ch1]; try assumption; try reflexivity.
      + rewrite <- app_assoc. reflexivity.
      + rewrite zlen_app, zlen_cons, zlen_nil. lia. }
  assert (R : forall ms p, dclosed1 p = false -> forall tl, ch1 p = ms ++ tl ->
            dp_run p (map (fun _ => DRead 1 k) ms) = map (fun m => 0 :: zlen (zfirstn k m) :: zfirstn k m) ms).
  { clear. induction ms as [|m ms IH]; intros p H1 tl Hq; [reflexivity|].
    simpl. rewrite H1, Hq. simpl. f_equal. apply (fun p => IH p) with (tl := tl); reflexivity. }
  rewrite W by (rewrite ?Hc, ?zlen_nil; assumption || lia). f_equal.
  apply R with (tl := []); simpl; [exact H1|]. rewrite Hc, app_nil_r. reflexivity.
Qed.

(* a write that fails because its end's write deadline has passed discards what that end had queued for the peer (as the code
   does) and nothing else: the other direction, both closed flags and the deadlines stay as they are *)
Lemma dp_write_timeout_local p side m :
  (if side =? 0 then dclosed0 p else dclosed1 p) = false -> (if side =? 0 then wexp0 p else wexp1 p) = true ->
  snd (dp_step p (DWrite side m)) = [0; 4] /\
  (if side =? 0 then ch0 else ch1) (fst (dp_step p (DWrite side m))) = (if side =? 0 then ch0 else ch1) p /\
  dclosed0 (fst (dp_step p (DWrite side m))) = dclosed0 p /\ dclosed1 (fst (dp_step p (DWrite side m))) = dclosed1 p.
Proof.
  intros Hc Hw. unfold dp_step. rewrite Hc, Hw. destruct (side =? 0); simpl; auto.
Qed.
