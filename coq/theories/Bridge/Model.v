(* Executable models of test/bridge.go (Bridge: scripted drop / reorder / filter of messages
   between two endpoints) and dpipe/dpipe.go (two bounded FIFO channels). Sequential view:
   every Bridge method runs under br.mutex, every dpipe operation is one channel operation. *)
From Tx Require Import Common.Base.
From Tx Require Export Common.ListZ.

Definition msg := list Z.

(* filter callbacks the harness can install: 0 none, 1 pass iff first byte is odd,
   2 reject everything, 3 pass iff at most 3 bytes long *)
Definition filter_pass (kind : Z) (m : msg) : bool :=
  if kind =? 1 then match m with x :: _ => Z.odd x | [] => false end
  else if kind =? 2 then false
  else if kind =? 3 then zlen m <=? 3
  else true.

(* one direction of the bridge (messages written by endpoint [from]) *)
Record dirstate := {
  queue : list msg; dropN : Z; reorderN : Z; stack : list msg; filt : Z
}.
Definition dir0 : dirstate := {| queue := []; dropN := 0; reorderN := 0; stack := []; filt := 0 |}.

Record bridge := {
  d0 : dirstate;            (* written by conn0, read by conn1 *)
  d1 : dirstate;            (* written by conn1, read by conn0 *)
  closing0 : bool; closing1 : bool; closed0 : bool; closed1 : bool
}.
Definition bridge0 : bridge :=
  {| d0 := dir0; d1 := dir0; closing0 := false; closing1 := false; closed0 := false; closed1 := false |}.

Definition get_dir (b : bridge) (from : Z) : dirstate := if from =? 0 then d0 b else d1 b.
Definition set_dir (b : bridge) (from : Z) (d : dirstate) : bridge :=
  if from =? 0 then
    {| d0 := d; d1 := d1 b; closing0 := closing0 b; closing1 := closing1 b; closed0 := closed0 b; closed1 := closed1 b |}
  else
    {| d0 := d0 b; d1 := d; closing0 := closing0 b; closing1 := closing1 b; closed0 := closed0 b; closed1 := closed1 b |}.

(* Bridge.Push for one direction, neither endpoint closing *)
Definition push_dir (d : dirstate) (m : msg) : dirstate :=
  if dropN d >? 0 then
    {| queue := queue d; dropN := dropN d - 1; reorderN := reorderN d; stack := stack d; filt := filt d |}
  else if reorderN d >? 0 then
    let st := stack d ++ [m] in
    if reorderN d - 1 =? 0 then
      {| queue := queue d ++ rev st; dropN := dropN d; reorderN := 0; stack := []; filt := filt d |}
    else
      {| queue := queue d; dropN := dropN d; reorderN := reorderN d - 1; stack := st; filt := filt d |}
  else if negb (filter_pass (filt d) m) then d
  else {| queue := queue d ++ [m]; dropN := dropN d; reorderN := reorderN d; stack := stack d; filt := filt d |}.

(* conn.Write(m) on endpoint [from]: (bridge', accepted?)  (loss chance 0, no write deadline) *)
Definition br_write (b : bridge) (from : Z) (m : msg) : bridge * bool :=
  if closing0 b || closing1 b then
    (b, negb (if from =? 0 then closing0 b else closing1 b))
  else (set_dir b from (push_dir (get_dir b from) m), true).

(* Bridge.Drop(from, offset, n): remove n messages starting at offset (0 <= offset <= length) *)
Definition drop_range (q : list msg) (offset n : Z) : list msg :=
  let n := if offset + n >? zlen q then zlen q - offset else n in
  zfirstn offset q ++ zskipn (offset + n) q.

(* Bridge.Reorder(from): reverse the queue; error (1) when it holds fewer than two messages *)
Definition reorder_q (q : list msg) : list msg * Z :=
  if zlen q <? 2 then (q, 1) else (rev q, 0).

Definition with_queue (d : dirstate) (q : list msg) : dirstate :=
  {| queue := q; dropN := dropN d; reorderN := reorderN d; stack := stack d; filt := filt d |}.

(* Bridge.Tick, first half: an endpoint that asked to close is closed once nothing is left
   to deliver to it *)
Definition tick_close (b : bridge) : bridge :=
  let c0 := closed0 b || (closing0 b && negb (closed0 b) && (zlen (queue (d1 b)) =? 0)) in
  let c1 := closed1 b || (closing1 b && negb (closed1 b) && (zlen (queue (d0 b)) =? 0)) in
  {| d0 := d0 b; d1 := d1 b; closing0 := closing0 b; closing1 := closing1 b; closed0 := c0; closed1 := c1 |}.

(* Tick while a reader with a slice of [k] bytes is parked on endpoint [side] (and nobody on the
   other endpoint): the head of the direction towards [side] is handed over.
   Result: None = nothing delivered; Some None = the reader saw end-of-file;
   Some (Some bytes) = the message, cut to k bytes. *)
Definition br_read (b : bridge) (side k : Z) : bridge * option (option msg) :=
  let b1 := tick_close b in
  let from := 1 - side in
  let isclosed := if side =? 0 then closed0 b1 else closed1 b1 in
  if isclosed then (b1, Some None)
  else match queue (get_dir b1 from) with
       | m :: rest => (set_dir b1 from (with_queue (get_dir b1 from) rest), Some (Some (zfirstn k m)))
       | [] => (b1, None)
       end.

Definition br_close (b : bridge) (side : Z) : bridge * bool :=
  let already := if side =? 0 then closing0 b else closing1 b in
  if already then (b, false)
  else if side =? 0 then
    ({| d0 := d0 b; d1 := d1 b; closing0 := true; closing1 := closing1 b; closed0 := closed0 b; closed1 := closed1 b |}, true)
  else
    ({| d0 := d0 b; d1 := d1 b; closing0 := closing0 b; closing1 := true; closed0 := closed0 b; closed1 := closed1 b |}, true).

Inductive bop :=
| BWrite (from : Z) (m : msg)
| BRead (side k : Z)
| BDropNext (from n : Z) | BReorderNext (from n : Z)
| BDrop (from offset n : Z) | BReorder (from : Z)
| BFilter (from kind : Z) | BLen (from : Z) | BClose (side : Z) | BTick.

Definition with_counters (d : dirstate) (dn rn : Z) : dirstate :=
  {| queue := queue d; dropN := dn; reorderN := rn; stack := stack d; filt := filt d |}.
Definition with_filter (d : dirstate) (k : Z) : dirstate :=
  {| queue := queue d; dropN := dropN d; reorderN := reorderN d; stack := stack d; filt := k |}.

(* observation encodings: Write [accepted]; Read [0] nothing | [2] EOF | 1 :: len :: bytes;
   Reorder [err]; Len [n]; Close [ok]; others [] *)
Definition br_step (b : bridge) (o : bop) : bridge * zs :=
  match o with
  | BWrite from m => let '(b', ok) := br_write b from m in (b', [b2z ok])
  | BRead side k =>
      let '(b', r) := br_read b side k in
      (b', match r with None => [0] | Some None => [2] | Some (Some bs) => 1 :: zlen bs :: bs end)
  | BDropNext from n => (set_dir b from (with_counters (get_dir b from) n (reorderN (get_dir b from))), [])
  | BReorderNext from n => (set_dir b from (with_counters (get_dir b from) (dropN (get_dir b from)) n), [])
  | BDrop from offset n =>
      (set_dir b from (with_queue (get_dir b from) (drop_range (queue (get_dir b from)) offset n)), [])
  | BReorder from =>
      let '(q', e) := reorder_q (queue (get_dir b from)) in
      (set_dir b from (with_queue (get_dir b from) q'), [e])
  | BFilter from kind => (set_dir b from (with_filter (get_dir b from) kind), [])
  | BLen from => (b, [zlen (queue (get_dir b from))])
  | BClose side => let '(b', ok) := br_close b side in (b', [b2z ok])
  | BTick => (tick_close b, [])
  end.

Fixpoint br_run (b : bridge) (h : list bop) : list zs :=
  match h with
  | [] => []
  | o :: h' => let '(b', r) := br_step b o in r :: br_run b' h'
  end.

Definition dec_bop (o : zs) : bop :=
  match o with
  | 1 :: from :: m => BWrite from m
  | 2 :: side :: k :: _ => BRead side k
  | 3 :: from :: n :: _ => BDropNext from n
  | 4 :: from :: n :: _ => BReorderNext from n
  | 5 :: from :: off :: n :: _ => BDrop from off n
  | 6 :: from :: _ => BReorder from
  | 7 :: from :: kind :: _ => BFilter from kind
  | 8 :: from :: _ => BLen from
  | 9 :: side :: _ => BClose side
  | _ => BTick
  end.

Definition bridge_run (ops : list zs) : list zs := br_run bridge0 (map dec_bop ops).

(* ---- dpipe ------------------------------------------------------------------------------- *)

Definition dp_cap : Z := 1000.

Record dpipe := { ch0 : list msg;   (* read by end 0, written by end 1 *)
                  ch1 : list msg;   (* read by end 1, written by end 0 *)
                  dclosed0 : bool; dclosed1 : bool;
                  wexp0 : bool; wexp1 : bool   (* the write deadline of end 0 / 1 has passed *) }.
Definition dpipe0 : dpipe := {| ch0 := []; ch1 := []; dclosed0 := false; dclosed1 := false; wexp0 := false; wexp1 := false |}.

Inductive dop := DWrite (side : Z) (m : msg) | DRead (side k : Z) | DClose (side : Z) | DSetWD (side : Z) (expired : bool).

(* Write [n; class]: class 0 ok, 2 closed pipe, 3 would block (channel full), 4 write deadline passed;
   Read 0 :: n :: bytes | [2] end-of-file | [3] would block; Close [] *)
Definition dp_step (p : dpipe) (o : dop) : dpipe * zs :=
  match o with
  | DWrite side m =>
      if (if side =? 0 then dclosed0 p else dclosed1 p) then (p, [0; 2])
      else if (if side =? 0 then wexp0 p else wexp1 p) then
        (* the write deadline has passed: the write fails, and (dpipe.cleanWriteBuffer) what this end had written and the peer has
           not read yet is discarded; the other direction is not touched *)
        (if side =? 0 then {| ch0 := ch0 p; ch1 := []; dclosed0 := dclosed0 p; dclosed1 := dclosed1 p; wexp0 := wexp0 p; wexp1 := wexp1 p |}
         else {| ch0 := []; ch1 := ch1 p; dclosed0 := dclosed0 p; dclosed1 := dclosed1 p; wexp0 := wexp0 p; wexp1 := wexp1 p |}, [0; 4])
      else if side =? 0 then
        if zlen (ch1 p) >=? dp_cap then (p, [0; 3])
        else ({| ch0 := ch0 p; ch1 := ch1 p ++ [m]; dclosed0 := dclosed0 p; dclosed1 := dclosed1 p; wexp0 := wexp0 p; wexp1 := wexp1 p |}, [zlen m; 0])
      else
        if zlen (ch0 p) >=? dp_cap then (p, [0; 3])
        else ({| ch0 := ch0 p ++ [m]; ch1 := ch1 p; dclosed0 := dclosed0 p; dclosed1 := dclosed1 p; wexp0 := wexp0 p; wexp1 := wexp1 p |}, [zlen m; 0])
  | DRead side k =>
      if (if side =? 0 then dclosed0 p else dclosed1 p) then (p, [2])
      else if side =? 0 then
        match ch0 p with
        | m :: rest => ({| ch0 := rest; ch1 := ch1 p; dclosed0 := dclosed0 p; dclosed1 := dclosed1 p; wexp0 := wexp0 p; wexp1 := wexp1 p |},
                        0 :: zlen (zfirstn k m) :: zfirstn k m)
        | [] => (p, [3])
        end
      else
        match ch1 p with
        | m :: rest => ({| ch0 := ch0 p; ch1 := rest; dclosed0 := dclosed0 p; dclosed1 := dclosed1 p; wexp0 := wexp0 p; wexp1 := wexp1 p |},
                        0 :: zlen (zfirstn k m) :: zfirstn k m)
        | [] => (p, [3])
        end
  | DClose side =>
      (* a Write on an end that is closed and whose write deadline has passed gets either error (the select in the code picks at
         random): the harness clears the write deadline before it closes an end, and so does the model *)
      if side =? 0 then ({| ch0 := ch0 p; ch1 := ch1 p; dclosed0 := true; dclosed1 := dclosed1 p; wexp0 := false; wexp1 := wexp1 p |}, [])
      else ({| ch0 := ch0 p; ch1 := ch1 p; dclosed0 := dclosed0 p; dclosed1 := true; wexp0 := wexp0 p; wexp1 := false |}, [])
  | DSetWD side e =>
      if (if side =? 0 then dclosed0 p else dclosed1 p) then (p, [])   (* not applied to a closed end, for the same reason *)
      else if side =? 0 then ({| ch0 := ch0 p; ch1 := ch1 p; dclosed0 := dclosed0 p; dclosed1 := dclosed1 p; wexp0 := e; wexp1 := wexp1 p |}, [])
      else ({| ch0 := ch0 p; ch1 := ch1 p; dclosed0 := dclosed0 p; dclosed1 := dclosed1 p; wexp0 := wexp0 p; wexp1 := e |}, [])
  end.

Fixpoint dp_run (p : dpipe) (h : list dop) : list zs :=
  match h with
  | [] => []
  | o :: h' => let '(p', r) := dp_step p o in r :: dp_run p' h'
  end.

Definition dec_dop (o : zs) : dop :=
  match o with
  | 1 :: side :: m => DWrite side m
  | 2 :: side :: k :: _ => DRead side k
  | 4 :: side :: e :: _ => DSetWD side (z2b e)
  | _ :: side :: _ => DClose side
  | _ => DClose 0
  end.

Definition dpipe_run (ops : list zs) : list zs := dp_run dpipe0 (map dec_dop ops).

(* entry used by the harness: conf [0] = Bridge, [1] = dpipe *)
Definition c18_run (conf : zs) (ops : list zs) : list zs :=
  match conf with
  | 1 :: _ => dpipe_run ops
  | _ => bridge_run ops
  end.
