(* The wrapping detector: arithmetic of the wrapped distance, no replay of a guarded number
   (C04) and refinement of the modular sliding-window Spec (C05). *)
From Tx Require Import Common.Base ReplayDetector.Model ReplayDetector.Spec ReplayDetector.PlainProofs.

Definition cfg_ok (c : cfg) : Prop :=
  2 <= maxSeq c < 2 ^ 62 /\ 0 <= window c < 2 ^ 62.

(* distances in case form: what [ahead]/[behind] compute on numbers of the space *)
Definition aheadc (c : cfg) (n seq : Z) : Z := if n <=? seq then seq - n else seq - n + space c.
Definition behindc (c : cfg) (n seq : Z) : Z := if seq <=? n then n - seq else n - seq + space c.

Lemma mod_cases x m : 0 < m -> - m <= x < m -> x mod m = if 0 <=? x then x else x + m.
Proof.
  intros Hm Hx. destruct (0 <=? x) eqn:E.
  - apply Z.mod_small. lia.
  - symmetry. apply (Z.mod_unique x m (-1) (x + m)); lia.
Qed.

Lemma ahead_cases c n seq : 0 <= maxSeq c -> 0 <= n <= maxSeq c -> 0 <= seq <= maxSeq c ->
  ahead c n seq = aheadc c n seq.
Proof.
  intros Hm Hn Hs. unfold ahead, aheadc, space. rewrite mod_cases by lia.
  destruct (0 <=? seq - n) eqn:E1; destruct (n <=? seq) eqn:E2; lia.
Qed.

Lemma behind_cases c n seq : 0 <= maxSeq c -> 0 <= n <= maxSeq c -> 0 <= seq <= maxSeq c ->
  behind c n seq = behindc c n seq.
Proof.
  intros Hm Hn Hs. unfold behind, behindc, space. rewrite mod_cases by lia.
  destruct (0 <=? n - seq) eqn:E1; destruct (seq <=? n) eqn:E2; lia.
Qed.

(* the wrapped difference on numbers of the space, without the 64-bit conversions *)
Definition wd (c : cfg) (l seq : Z) : Z :=
  let d0 := l - seq in
  if d0 >? half c then d0 - space c
  else if d0 <=? - half c then d0 + space c else d0.

Lemma w_diff_wd c l seq : cfg_ok c -> 0 <= l <= maxSeq c -> 0 <= seq <= maxSeq c ->
  w_diff c l seq = wd c l seq.
Proof.
  intros [[Hm1 Hm2] _] Hl Hs. unfold w_diff, wd, half, space.
  assert (P62 : 2 ^ 62 = 4611686018427387904) by reflexivity. rewrite P62 in *.
  rewrite (i64_id l) by (unfold two63; lia).
  rewrite (i64_id seq) by (unfold two63; lia).
  rewrite (i64_id (maxSeq c)) by (unfold two63; lia).
  rewrite (i64_id (l - seq)) by (unfold two63; lia).
  rewrite (i64_id (- maxSeq c)) by (unfold two63; lia).
  rewrite (u64_id (maxSeq c + 1)) by (unfold two64; lia).
  rewrite (i64_id (maxSeq c + 1)) by (unfold two63; lia).
  rewrite Z.quot_div_nonneg by lia.
  rewrite Z.quot_opp_l by lia. rewrite Z.quot_div_nonneg by lia.
  destruct (l - seq >? maxSeq c / 2) eqn:E1.
  - apply i64_id. unfold two63. lia.
  - destruct (l - seq <=? - (maxSeq c / 2)) eqn:E2; [|reflexivity].
    apply i64_id. unfold two63. lia.
Qed.

(* what the wrapped difference means *)
Lemma wd_nonneg_behind c l seq : cfg_ok c -> 0 <= l <= maxSeq c -> 0 <= seq <= maxSeq c ->
  0 <= wd c l seq -> wd c l seq = behindc c l seq.
Proof.
  intros [[Hm1 Hm2] _] Hl Hs. unfold wd, behindc, half, space.
  destruct (l - seq >? maxSeq c / 2) eqn:E1; [lia|].
  destruct (l - seq <=? - (maxSeq c / 2)) eqn:E2; destruct (seq <=? l) eqn:E3; lia.
Qed.

Lemma wd_neg_ahead c l seq : cfg_ok c -> 0 <= l <= maxSeq c -> 0 <= seq <= maxSeq c ->
  wd c l seq < 0 -> - wd c l seq = aheadc c l seq /\ 1 <= aheadc c l seq <= maxSeq c - half c.
Proof.
  intros [[Hm1 Hm2] _] Hl Hs. unfold wd, aheadc, half, space.
  destruct (l - seq >? maxSeq c / 2) eqn:E1; destruct (l <=? seq) eqn:E3;
    destruct (l - seq <=? - (maxSeq c / 2)) eqn:E2; lia.
Qed.

Lemma wd_behind_le_half c l seq : cfg_ok c -> 0 <= l <= maxSeq c -> 0 <= seq <= maxSeq c ->
  behindc c l seq <= half c -> wd c l seq = behindc c l seq.
Proof.
  intros [[Hm1 Hm2] _] Hl Hs. unfold wd, behindc, half, space.
  destruct (l - seq >? maxSeq c / 2) eqn:E1; destruct (seq <=? l) eqn:E3;
    destruct (l - seq <=? - (maxSeq c / 2)) eqn:E2; lia.
Qed.

(* the tentative position of an unpositioned detector is a number of the space *)
Lemma w_pos_range c s seq : cfg_ok c -> 0 <= seq <= maxSeq c ->
  (w_init s = true -> 0 <= w_latest s <= maxSeq c) -> 0 <= w_pos c s seq <= maxSeq c.
Proof.
  intros [[Hm1 Hm2] _] Hs Hi. unfold w_pos. destruct (w_init s); [auto|].
  destruct (seq =? 0) eqn:E; lia.
Qed.

(* ---- C04: a guarded number never passes Check again ------------------------------------ *)

(* [g]: the numbers accepted so far that the newest number has never been more than half
   the space ahead of, from the moment each was accepted *)
Definition guard_next (c : cfg) (s' : wstate) (seq : Z) (g : list Z) : list Z :=
  filter (fun x => behind c (w_latest s') x <=? half c) (seq :: g).

Fixpoint w_safe (c : cfg) (s : wstate) (g : list Z) (h : list op) : bool :=
  match h with
  | [] => true
  | (seq, inv) :: h' =>
      let '(s', (ok, _)) := w_step c s seq inv in
      negb (ok && memz seq g) &&
      w_safe c s' (if ok && inv then guard_next c s' seq g else g) h'
  end.

Record GInv (c : cfg) (s : wstate) (g : list Z) : Prop := {
  gi_uninit : w_init s = false -> g = [];
  gi_latest : w_init s = true -> 0 <= w_latest s <= maxSeq c;
  gi_guard : forall x, In x g ->
      0 <= x <= maxSeq c /\ behindc c (w_latest s) x <= half c /\
      (behindc c (w_latest s) x < window c ->
       mbit (window c) (w_mask s) (behindc c (w_latest s) x) = true)
}.

Lemma GInv_init c : GInv c w_init_state [].
Proof. split; simpl; intros; try discriminate; try reflexivity; contradiction. Qed.

Lemma w_check_above c s seq : maxSeq c < seq -> w_check c s seq = false.
Proof. intros H. unfold w_check. destruct (seq >? maxSeq c) eqn:E; [reflexivity|lia]. Qed.

Lemma i64_window c : cfg_ok c -> i64 (window c) = window c.
Proof.
  intros [_ [H1 H2]]. apply i64_id. unfold two63.
  assert (P62 : 2 ^ 62 = 4611686018427387904) by reflexivity. lia.
Qed.

Lemma w_check_guarded c s g seq : cfg_ok c -> GInv c s g -> In seq g -> w_check c s seq = false.
Proof.
  intros Hc I Hin. pose proof Hc as [[Hm1 Hm2] [Hw1 Hw2]].
  destruct I as [IU IL IG]. destruct (IG _ Hin) as [Hr [Hb Hbit]].
  destruct (w_init s) eqn:Ei; [|rewrite IU in Hin by reflexivity; contradiction].
  specialize (IL eq_refl).
  unfold w_check. destruct (seq >? maxSeq c) eqn:E0; [reflexivity|].
  unfold w_pos. rewrite Ei. rewrite w_diff_wd by (assumption || lia).
  rewrite wd_behind_le_half by (assumption || lia).
  rewrite i64_window by assumption.
  destruct (behindc c (w_latest s) seq >=? window c) eqn:E1; [reflexivity|].
  assert (0 <= behindc c (w_latest s) seq).
  { unfold behindc, space. destruct (seq <=? w_latest s) eqn:E; lia. }
  destruct (behindc c (w_latest s) seq >=? 0) eqn:E2; [|lia].
  assert (P62 : 2 ^ 62 = 4611686018427387904) by reflexivity.
  rewrite u64_id by (unfold two64; unfold behindc, space in *; destruct (seq <=? w_latest s); lia).
  rewrite Hbit by lia. reflexivity.
Qed.

Lemma behindc_range c n x : 0 <= maxSeq c -> 0 <= n <= maxSeq c -> 0 <= x <= maxSeq c ->
  0 <= behindc c n x <= maxSeq c.
Proof. intros. unfold behindc, space. destruct (x <=? n) eqn:E; lia. Qed.

Lemma w_accept_guard c s g seq s' l :
  cfg_ok c -> 0 <= seq <= maxSeq c -> GInv c s g ->
  w_check c s seq = true -> w_accept c s seq = (s', l) ->
  GInv c s' (guard_next c s' seq g).
Proof.
  intros Hc Hs I Hchk Hacc. pose proof Hc as [[Hm1 Hm2] [Hw1 Hw2]].
  assert (P62 : 2 ^ 62 = 4611686018427387904) by reflexivity. rewrite P62 in *.
  assert (Hh : 1 <= half c /\ 2 * half c <= maxSeq c) by (unfold half; lia).
  pose proof I as [IU IL IG].
  assert (Hl : 0 <= w_pos c s seq <= maxSeq c) by (apply w_pos_range; assumption).
  unfold w_check in Hchk. destruct (seq >? maxSeq c) eqn:E0; [discriminate|].
  unfold w_accept in Hacc.
  rewrite w_diff_wd in Hchk, Hacc by assumption.
  rewrite i64_window in Hchk by assumption.
  set (lpos := w_pos c s seq) in *. set (d := wd c lpos seq) in *.
  (* the guarded numbers of the old state, seen from the position used by Check *)
  assert (IG' : forall x, In x g -> w_latest s = lpos /\
            0 <= x <= maxSeq c /\ behindc c lpos x <= half c /\
            (behindc c lpos x < window c -> mbit (window c) (w_mask s) (behindc c lpos x) = true)).
  { intros x Hx. destruct (w_init s) eqn:Ei.
    - assert (w_latest s = lpos) as E by (unfold lpos, w_pos; rewrite Ei; reflexivity).
      rewrite <- E. split; [reflexivity|]. apply IG. assumption.
    - rewrite IU in Hx by reflexivity. contradiction. }
  destruct (d <? 0) eqn:Ed.
  - (* the window advances to seq *)
    inversion Hacc; subst s' l; clear Hacc.
    destruct (wd_neg_ahead c lpos seq Hc Hl Hs) as [Ha Har]; [fold d; lia|]. fold d in Ha.
    split; simpl.
    + discriminate.
    + intros _. assumption.
    + intros x Hx. unfold guard_next in Hx. apply filter_In in Hx. simpl in Hx.
      destruct Hx as [Hx Hk].
      destruct Hx as [<-|Hx].
      * split; [assumption|].
        assert (E : behindc c seq seq = 0) by (unfold behindc; destruct (seq <=? seq) eqn:E; lia).
        rewrite E. split; [unfold half; lia|]. intros Hw.
        rewrite mbit_mset by lia. reflexivity.
      * destruct (IG' x Hx) as [El [Hxr [Hb Hbit]]].
        rewrite behind_cases in Hk by lia.
        split; [assumption|]. split; [lia|].
        intros Hw. rewrite u64_id by (unfold two64; lia).
        rewrite mbit_mset by (pose proof (behindc_range c seq x); lia).
        rewrite mbit_mlsh by (pose proof (behindc_range c seq x); lia).
        assert (Hrel : behindc c seq x = behindc c lpos x + - d).
        { rewrite Ha. unfold behindc, aheadc, space, half in *.
          destruct (x <=? seq) eqn:E1; destruct (x <=? lpos) eqn:E2;
            destruct (lpos <=? seq) eqn:E3; lia. }
        rewrite Hrel.
        replace (behindc c lpos x + - d - - d) with (behindc c lpos x) by lia.
        rewrite Hbit by lia.
        pose proof (behindc_range c lpos x).
        destruct (- d <=? behindc c lpos x + - d) eqn:E4; [|lia].
        apply orb_true_r.
  - (* a late arrival: the position stays *)
    inversion Hacc; subst s' l; clear Hacc.
    destruct (d >=? window c) eqn:E1; [discriminate|].
    assert (Hd0 : 0 <= d) by lia.
    split; simpl.
    + discriminate.
    + intros _. assumption.
    + intros x Hx. unfold guard_next in Hx. apply filter_In in Hx. simpl in Hx.
      destruct Hx as [Hx Hk].
      destruct Hx as [<-|Hx].
      * rewrite behind_cases in Hk by lia.
        split; [assumption|]. split; [lia|]. intros Hw.
        pose proof (wd_behind_le_half c lpos seq Hc Hl Hs) as E. fold d in E.
        rewrite <- E by lia.
        rewrite u64_id by (unfold two64; lia).
        rewrite mbit_mset by lia. rewrite Z.eqb_refl. reflexivity.
      * destruct (IG' x Hx) as [El [Hxr [Hb Hbit]]].
        split; [assumption|]. split; [assumption|]. intros Hw.
        rewrite u64_id by (unfold two64; lia).
        rewrite mbit_mset by (pose proof (behindc_range c lpos x); lia).
        rewrite Hbit by assumption. apply orb_true_r.
Qed.

Lemma w_safe_holds c h : cfg_ok c -> ops_in_range h ->
  forall s g, GInv c s g -> w_safe c s g h = true.
Proof.
  intros Hc. induction h as [|[seq inv] h IH]; intros Hr s g I; [reflexivity|].
  inversion Hr as [|? ? Hseq Hr']; subst. simpl in Hseq. unfold in_u64 in Hseq.
  simpl. destruct (w_step c s seq inv) as [s' [ok res]] eqn:Hst.
  unfold w_step in Hst.
  destruct (w_check c s seq) eqn:Hchk.
  - assert (Hs : 0 <= seq <= maxSeq c).
    { destruct (Z_le_gt_dec seq (maxSeq c)); [lia|].
      rewrite w_check_above in Hchk by lia. discriminate. }
    assert (Hng : memz seq g = false).
    { destruct (memz seq g) eqn:E; [|reflexivity]. apply memz_In in E.
      rewrite (w_check_guarded c s g seq Hc I E) in Hchk. discriminate. }
    destruct inv.
    + destruct (w_accept c s seq) as [s1 l] eqn:Ha. inversion Hst; subst; clear Hst.
      rewrite Hng. simpl. apply IH; [assumption|].
      eapply w_accept_guard; eassumption.
    + inversion Hst; subst; clear Hst. rewrite Hng. simpl. apply IH; assumption.
  - inversion Hst; subst; clear Hst. simpl. apply IH; assumption.
Qed.

(* nothing above the maximum is accepted, by either detector *)
Lemma w_step_above c s seq inv : maxSeq c < seq -> fst (snd (w_step c s seq inv)) = false.
Proof. intros H. unfold w_step. rewrite w_check_above by assumption. reflexivity. Qed.

Lemma p_step_above c s seq inv : maxSeq c < seq -> fst (snd (p_step c s seq inv)) = false.
Proof.
  intros H. unfold p_step, p_check. destruct (seq >? maxSeq c) eqn:E; [reflexivity|lia].
Qed.

(* ---- C05: refinement of the modular sliding-window Spec --------------------------------- *)

Definition cfg_ok5 (c : cfg) : Prop :=
  4 <= maxSeq c < 2 ^ 62 /\ 0 <= window c /\ 2 * window c <= maxSeq c + 1.

Lemma cfg_ok5_ok c : cfg_ok5 c -> cfg_ok c.
Proof.
  unfold cfg_ok5, cfg_ok. assert (P62 : 2 ^ 62 = 4611686018427387904) by reflexivity.
  rewrite P62. lia.
Qed.

Record WInv (c : cfg) (s : wstate) (sp : wspec) : Prop := {
  wi_uninit : w_init s = false ->
      ws_newest sp = None /\ ws_acc sp = [] /\ forall e, mbit (window c) (w_mask s) e = false;
  wi_init : w_init s = true -> ws_newest sp = Some (w_latest s) /\ 0 <= w_latest s <= maxSeq c;
  wi_acc : forall x, In x (ws_acc sp) ->
      0 <= x <= maxSeq c /\ (behindc c (w_latest s) x < window c \/ x = w_latest s);
  wi_bits : w_init s = true -> forall e, 0 <= e < window c ->
      (mbit (window c) (w_mask s) e = true <->
       exists x, In x (ws_acc sp) /\ behindc c (w_latest s) x = e)
}.

Lemma WInv_init c : WInv c w_init_state ws_init.
Proof.
  split; simpl; intros; try discriminate; try contradiction.
  repeat split. intros e. unfold mbit. destruct (e >=? window c); [reflexivity|apply Z.testbit_0_l].
Qed.

Lemma uninit_wd c s seq : cfg_ok5 c -> w_init s = false -> 0 <= seq <= maxSeq c ->
  wd c (w_pos c s seq) seq = -1.
Proof.
  intros [[Hm1 Hm2] _] Hi Hs. unfold w_pos. rewrite Hi. unfold wd, half, space.
  destruct (seq =? 0) eqn:E.
  - destruct (maxSeq c - seq >? maxSeq c / 2) eqn:E1; [lia|].
    destruct (maxSeq c - seq <=? - (maxSeq c / 2)) eqn:E2; lia.
  - destruct (seq - 1 - seq >? maxSeq c / 2) eqn:E1; [lia|].
    destruct (seq - 1 - seq <=? - (maxSeq c / 2)) eqn:E2; lia.
Qed.

(* under the constraint, "judged newer" is the Spec's "newer" *)
Lemma wd_neg_iff_newer c l seq : cfg_ok5 c -> 0 <= l <= maxSeq c -> 0 <= seq <= maxSeq c ->
  ahead c l seq <> half c -> ahead c l seq <> half c + 1 ->
  ws_newer c l seq = (wd c l seq <? 0).
Proof.
  intros [[Hm1 Hm2] _] Hl Hs. unfold ws_newer. rewrite ahead_cases by lia.
  unfold wd, aheadc, half, space. intros H1 H2.
  destruct (l <=? seq) eqn:E0;
  destruct (l - seq >? maxSeq c / 2) eqn:E1;
  destruct (l - seq <=? - (maxSeq c / 2)) eqn:E2; lia.
Qed.

Lemma behindc_inj c n x y : 0 <= maxSeq c -> 0 <= n <= maxSeq c ->
  0 <= x <= maxSeq c -> 0 <= y <= maxSeq c -> behindc c n x = behindc c n y -> x = y.
Proof.
  intros Hm Hn Hx Hy. unfold behindc, space.
  destruct (x <=? n) eqn:E1; destruct (y <=? n) eqn:E2; lia.
Qed.

Lemma w_check_spec c s sp seq :
  cfg_ok5 c -> in_u64 seq -> WInv c s sp -> ws_unconstrained c sp seq = false ->
  w_check c s seq = ws_ok c sp seq /\
  (w_check c s seq = true ->
   (wd c (w_pos c s seq) seq <? 0) = ws_latest c sp seq).
Proof.
  intros Hc5 Hr I Hu. pose proof (cfg_ok5_ok c Hc5) as Hc.
  pose proof Hc5 as [[Hm1 Hm2] [Hw1 Hw2]].
  assert (P62 : 2 ^ 62 = 4611686018427387904) by reflexivity. rewrite P62 in *.
  destruct I as [IU II IA IB]. unfold in_u64 in Hr.
  unfold w_check, ws_ok, ws_latest.
  destruct (seq >? maxSeq c) eqn:E0.
  - destruct (seq <=? maxSeq c) eqn:E0'; [lia|]. split; [|discriminate].
    destruct (ws_newest sp); reflexivity.
  - destruct (seq <=? maxSeq c) eqn:E0'; [|lia].
    assert (Hs : 0 <= seq <= maxSeq c) by lia.
    destruct (w_init s) eqn:Ei.
    + destruct (II eq_refl) as [En Hl]. specialize (IB eq_refl).
      unfold ws_unconstrained in Hu. rewrite En in *.
      apply orb_false_iff in Hu. destruct Hu as [Hu1 Hu2].
      assert (Hpos : w_pos c s seq = w_latest s) by (unfold w_pos; rewrite Ei; reflexivity).
      rewrite Hpos. rewrite w_diff_wd by assumption. rewrite i64_window by assumption.
      pose proof (wd_neg_iff_newer c (w_latest s) seq Hc5 Hl Hs) as Hnew.
      rewrite Hnew by lia. set (d := wd c (w_latest s) seq) in *.
      split; [|reflexivity]. simpl.
      destruct (d <? 0) eqn:Ed.
      * (* newer: cannot be in the accepted set *)
        destruct (d >=? window c) eqn:E1; [lia|]. destruct (d >=? 0) eqn:E2; [lia|].
        simpl. rewrite andb_true_r.
        destruct (memz seq (ws_acc sp)) eqn:Em; [|reflexivity]. exfalso.
        apply memz_In in Em. destruct (IA _ Em) as [_ Hb].
        destruct (wd_neg_ahead c (w_latest s) seq Hc Hl Hs) as [Ha Har]; [fold d; lia|].
        fold d in Ha. rewrite ahead_cases in Hu1, Hu2 by lia.
        unfold behindc, aheadc, space, half in *.
        destruct (seq <=? w_latest s) eqn:E3; destruct (w_latest s <=? seq) eqn:E4; lia.
      * (* judged behind: d is the distance behind the newest *)
        pose proof (wd_nonneg_behind c (w_latest s) seq Hc Hl Hs) as Hd. fold d in Hd.
        specialize (Hd ltac:(lia)).
        rewrite behind_cases by lia. rewrite <- Hd. simpl.
        destruct (d >=? window c) eqn:E1.
        -- destruct (d <? window c) eqn:E1'; [lia|]. rewrite andb_false_r. reflexivity.
        -- destruct (d <? window c) eqn:E1'; [|lia]. rewrite andb_true_r.
           destruct (d >=? 0) eqn:E2; [|lia].
           rewrite u64_id by (unfold two64; lia). f_equal.
           destruct (mbit (window c) (w_mask s) d) eqn:Eb;
             destruct (memz seq (ws_acc sp)) eqn:Em; try reflexivity.
           ++ apply IB in Eb; [|lia]. destruct Eb as [x [Hx Ex]].
              destruct (IA _ Hx) as [Hxr _]. rewrite Hd in Ex.
              apply behindc_inj in Ex; try lia. subst x.
              apply memz_In in Hx. congruence.
           ++ apply memz_In in Em.
              assert (mbit (window c) (w_mask s) d = true) as Eb'.
              { apply IB; [lia|]. exists seq. split; [assumption|congruence]. }
              congruence.
    + destruct (IU eq_refl) as [En [Ea Hz]]. rewrite En.
      rewrite w_diff_wd by (try assumption; apply w_pos_range; try assumption; intros; congruence).
      rewrite uninit_wd by assumption. rewrite i64_window by assumption.
      destruct (-1 >=? window c) eqn:E1; [lia|]. simpl. split; reflexivity.
Qed.

Lemma filter_behind c n acc x :
  0 <= maxSeq c -> 0 <= n <= maxSeq c -> (forall y, In y acc -> 0 <= y <= maxSeq c) ->
  (In x (filter (fun a => behind c n a <? window c) acc) <->
   In x acc /\ behindc c n x < window c).
Proof.
  intros Hm Hn Hr. rewrite filter_In. split; intros [H1 H2]; (split; [assumption|]).
  - rewrite behind_cases in H2 by (try lia; apply Hr; assumption). lia.
  - rewrite behind_cases by (try lia; apply Hr; assumption). lia.
Qed.

Lemma w_accept_spec c s sp seq s' l :
  cfg_ok5 c -> 0 <= seq <= maxSeq c -> WInv c s sp ->
  ws_unconstrained c sp seq = false ->
  w_check c s seq = true -> w_accept c s seq = (s', l) ->
  l = ws_latest c sp seq /\ WInv c s' (ws_accept c sp seq l).
Proof.
  intros Hc5 Hs I Hu Hchk Hacc. pose proof (cfg_ok5_ok c Hc5) as Hc.
  pose proof Hc5 as [[Hm1 Hm2] [Hw1 Hw2]].
  assert (P62 : 2 ^ 62 = 4611686018427387904) by reflexivity. rewrite P62 in *.
  assert (Hh : 2 <= half c /\ 2 * half c <= maxSeq c /\ maxSeq c <= 2 * half c + 1) by (unfold half; lia).
  assert (Hr : in_u64 seq) by (unfold in_u64, two64; lia).
  destruct (w_check_spec c s sp seq Hc5 Hr I Hu) as [_ Hlat]. specialize (Hlat Hchk).
  pose proof I as [IU II IA IB].
  assert (Hl : 0 <= w_pos c s seq <= maxSeq c).
  { apply w_pos_range; try assumption. intros Ei. apply II. assumption. }
  unfold w_check in Hchk. destruct (seq >? maxSeq c) eqn:E0; [discriminate|].
  unfold w_accept in Hacc.
  rewrite w_diff_wd in Hchk, Hacc by assumption. rewrite i64_window in Hchk by assumption.
  set (lpos := w_pos c s seq) in *. set (d := wd c lpos seq) in *.
  (* facts about the old accepted set seen from lpos *)
  assert (IA' : forall x, In x (ws_acc sp) ->
            w_init s = true /\ w_latest s = lpos /\ 0 <= x <= maxSeq c /\
            (behindc c lpos x < window c \/ x = lpos)).
  { intros x Hx. destruct (w_init s) eqn:Ei.
    - assert (w_latest s = lpos) as E by (unfold lpos, w_pos; rewrite Ei; reflexivity).
      rewrite <- E. destruct (IA x Hx). auto.
    - destruct (IU eq_refl) as [_ [Ea _]]. rewrite Ea in Hx. contradiction. }
  assert (IB' : forall e, 0 <= e < window c ->
            (mbit (window c) (w_mask s) e = true <->
             exists x, In x (ws_acc sp) /\ behindc c lpos x = e)).
  { intros e He. destruct (w_init s) eqn:Ei.
    - assert (w_latest s = lpos) as E by (unfold lpos, w_pos; rewrite Ei; reflexivity).
      rewrite <- E. apply IB; [reflexivity|assumption].
    - destruct (IU eq_refl) as [_ [Ea Hz]]. rewrite Hz, Ea. split; [discriminate|].
      intros [x [Hx _]]. contradiction. }
  destruct (d <? 0) eqn:Ed.
  - (* the window advances to seq *)
    inversion Hacc; subst s' l; clear Hacc. split; [rewrite <- Hlat; reflexivity|].
    unfold ws_accept.
    destruct (wd_neg_ahead c lpos seq Hc Hl Hs) as [Ha Har]; [fold d; lia|]. fold d in Ha.
    (* under the constraint the advance is less than half *)
    assert (Hah : - d < half c).
    { destruct (w_init s) eqn:Ei.
      - destruct (II eq_refl) as [En _]. unfold ws_latest in Hlat. rewrite En in Hlat.
        unfold ws_newer in Hlat. symmetry in Hlat. apply andb_true_iff in Hlat.
        assert (w_latest s = lpos) as E by (unfold lpos, w_pos; rewrite Ei; reflexivity).
        rewrite E in Hlat. rewrite ahead_cases in Hlat by lia. lia.
      - pose proof (uninit_wd c s seq Hc5 Ei Hs) as E. fold lpos in E. fold d in E. lia. }
    split; simpl.
    + discriminate.
    + intros _. split; [reflexivity|assumption].
    + intros x [<-|Hx]; [split; [assumption|right; reflexivity]|].
      apply filter_behind in Hx; [|lia|assumption|intros y Hy; apply IA'; assumption].
      destruct Hx as [Hx Hb]. destruct (IA' x Hx) as [_ [_ [Hxr _]]]. split; [assumption|left; assumption].
    + intros _ e He. rewrite u64_id by (unfold two64; lia).
      rewrite mbit_mset by lia. rewrite mbit_mlsh by lia.
      rewrite orb_true_iff, andb_true_iff. split.
      * intros [E|[E1 E2]].
        -- exists seq. split; [left; reflexivity|]. unfold behindc.
           destruct (seq <=? seq) eqn:E'; lia.
        -- apply IB' in E2; [|lia]. destruct E2 as [x [Hx Ex]].
           destruct (IA' x Hx) as [_ [_ [Hxr _]]].
           assert (Hrel : behindc c seq x = e).
           { rewrite Ha in *. unfold behindc, aheadc, space in *.
             destruct (x <=? seq) eqn:F1; destruct (x <=? lpos) eqn:F2;
               destruct (lpos <=? seq) eqn:F3; lia. }
           exists x. split; [|assumption]. right.
           apply filter_behind; [lia|assumption|intros y Hy; apply IA'; assumption|].
           split; [assumption|lia].
      * intros [x [[<-|Hx] Ex]].
        -- left. unfold behindc in Ex. destruct (seq <=? seq) eqn:E'; lia.
        -- apply filter_behind in Hx; [|lia|assumption|intros y Hy; apply IA'; assumption].
           destruct Hx as [Hx Hb]. destruct (IA' x Hx) as [_ [_ [Hxr Hold]]].
           assert (Hb0 : behindc c lpos x < window c).
           { destruct Hold as [Hold| ->]; [assumption|].
             unfold behindc. destruct (lpos <=? lpos) eqn:E'; lia. }
           assert (Hrel : e = behindc c lpos x + - d).
           { rewrite <- Ex. rewrite Ha in *. unfold behindc, aheadc, space in *.
             destruct (x <=? seq) eqn:F1; destruct (x <=? lpos) eqn:F2;
               destruct (lpos <=? seq) eqn:F3; lia. }
           right. pose proof (behindc_range c lpos x).
           split; [lia|]. apply IB'; [lia|]. exists x. split; [assumption|lia].
  - (* late arrival *)
    inversion Hacc; subst s' l; clear Hacc. split; [rewrite <- Hlat; reflexivity|].
    unfold ws_accept.
    destruct (d >=? window c) eqn:E1; [discriminate|].
    pose proof (wd_nonneg_behind c lpos seq Hc Hl Hs) as Hd. fold d in Hd. specialize (Hd ltac:(lia)).
    assert (Ei : w_init s = true).
    { destruct (w_init s) eqn:Ei; [reflexivity|].
      pose proof (uninit_wd c s seq Hc5 Ei Hs) as E. fold lpos in E. fold d in E. lia. }
    assert (Elp : w_latest s = lpos) by (unfold lpos, w_pos; rewrite Ei; reflexivity).
    destruct (II Ei) as [En _].
    split; simpl.
    + discriminate.
    + intros _. rewrite En, Elp. split; [reflexivity|assumption].
    + intros x [<-|Hx]; [split; [assumption|left; lia]|].
      destruct (IA' x Hx) as [_ [_ [Hxr Hb]]]. split; assumption.
    + intros _ e He. rewrite u64_id by (unfold two64; lia).
      rewrite mbit_mset by lia. rewrite orb_true_iff. split.
      * intros [E|E].
        -- exists seq. split; [left; reflexivity|lia].
        -- apply IB' in E; [|lia]. destruct E as [x [Hx Ex]]. exists x. split; [right; assumption|assumption].
      * intros [x [[<-|Hx] Ex]]; [left; lia|].
        right. apply IB'; [lia|]. exists x. split; assumption.
Qed.

Lemma w_step_spec c s sp seq inv s' o :
  cfg_ok5 c -> in_u64 seq -> WInv c s sp -> ws_unconstrained c sp seq = false ->
  w_step c s seq inv = (s', o) ->
  exists sp', ws_step c sp seq inv = (sp', o) /\ WInv c s' sp'.
Proof.
  intros Hc5 Hr I Hu H. unfold w_step in H. unfold ws_step.
  destruct (w_check_spec c s sp seq Hc5 Hr I Hu) as [Hok _]. rewrite <- Hok.
  destruct (w_check c s seq) eqn:Hchk.
  - assert (Hs : 0 <= seq <= maxSeq c).
    { unfold in_u64 in Hr. destruct (Z_le_gt_dec seq (maxSeq c)); [lia|].
      rewrite w_check_above in Hchk by lia. discriminate. }
    destruct inv.
    + destruct (w_accept c s seq) as [s1 l] eqn:Ha. inversion H; subst; clear H.
      destruct (w_accept_spec c s sp seq s' l Hc5 Hs I Hu Hchk Ha) as [El I'].
      rewrite <- El. eexists; split; [reflexivity|assumption].
    + inversion H; subst. eexists; split; [reflexivity|assumption].
  - inversion H; subst. eexists; split; [reflexivity|assumption].
Qed.

Theorem w_run_refines c h : cfg_ok5 c -> ops_in_range h ->
  forall s sp, WInv c s sp -> ws_constrained c sp h = true -> w_run c s h = ws_run c sp h.
Proof.
  intros Hc5. induction h as [|[seq inv] h IH]; intros Hr s sp I Hcon; [reflexivity|].
  inversion Hr as [|? ? Hseq Hr']; subst. simpl in Hseq. simpl in Hcon.
  apply andb_true_iff in Hcon. destruct Hcon as [Hu Hcon]. apply negb_true_iff in Hu.
  simpl. destruct (w_step c s seq inv) as [s' o] eqn:Hst.
  destruct (w_step_spec c s sp seq inv s' o Hc5 Hseq I Hu Hst) as [sp' [E I']].
  rewrite E in *. simpl in Hcon. f_equal. apply IH; assumption.
Qed.

(* ---- index-based reading of the run functions ------------------------------------------- *)

Lemma p_run_nth c h : forall s i seq inv o,
  nth_error h i = Some (seq, inv) -> nth_error (p_run c s h) i = Some o ->
  exists s0, o = snd (p_step c s0 seq inv).
Proof.
  induction h as [|[sq iv] h IH]; intros s i seq inv o Hn Ho; [destruct i; discriminate|].
  simpl in Ho. destruct (p_step c s sq iv) as [s' o'] eqn:E. destruct i as [|i]; simpl in *.
  - inversion Hn; subst. inversion Ho; subst. exists s. rewrite E. reflexivity.
  - eapply IH; eassumption.
Qed.

Lemma w_run_nth c h : forall s i seq inv o,
  nth_error h i = Some (seq, inv) -> nth_error (w_run c s h) i = Some o ->
  exists s0, o = snd (w_step c s0 seq inv).
Proof.
  induction h as [|[sq iv] h IH]; intros s i seq inv o Hn Ho; [destruct i; discriminate|].
  simpl in Ho. destruct (w_step c s sq iv) as [s' o'] eqn:E. destruct i as [|i]; simpl in *.
  - inversion Hn; subst. inversion Ho; subst. exists s. rewrite E. reflexivity.
  - eapply IH; eassumption.
Qed.

Lemma ps_no_replay_idx c h : forall acc i j seq ivj oi oj, (i < j)%nat ->
  nth_error h i = Some (seq, true) -> nth_error (ps_run c acc h) i = Some oi -> fst oi = true ->
  nth_error h j = Some (seq, ivj) -> nth_error (ps_run c acc h) j = Some oj ->
  fst oj = false.
Proof.
  induction h as [|[sq iv] h IH]; intros acc i j seq ivj oi oj Hij Hi Hoi Hok Hj Hoj.
  - destruct i; discriminate.
  - simpl in Hoi, Hoj. destruct (ps_step c acc sq iv) as [a' o'] eqn:E.
    destruct j as [|j]; [inversion Hij|]. simpl in Hj, Hoj.
    destruct i as [|i]; simpl in Hi, Hoi.
    + inversion Hi; subst. inversion Hoi; subst.
      assert (Hin : In seq a').
      { unfold ps_step in E. destruct (ps_ok c acc seq).
        - inversion E; subst. left. reflexivity.
        - inversion E; subst. simpl in Hok. discriminate. }
      eapply ps_run_no_replay; eassumption.
    + apply (IH a' i j seq ivj oi oj); try assumption. lia.
Qed.
