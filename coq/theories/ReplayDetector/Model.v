(* Executable model of replaydetector/replaydetector.go and fixedbig.go.

   Two layers for the window bitmap:
   - [mbit]/[mset]/[mlsh]: the bitmap as one non-negative integer (used by the
     detectors below and by the proofs);
   - ReplayDetector/Words.v: the bitmap as the Go code stores it, a list of 64-bit words with the
     word-by-word shift of fixedBigInt.Lsh, proved to compute [mbit]/[mset]/[mlsh].

   Go's uint/uint64 arithmetic is written with explicit [u64], int64 with [i64]. *)
From Tx Require Import Common.Base.

Record cfg := { window : Z; maxSeq : Z }.

(* ---- window bitmap, integer view -------------------------------------------------- *)

Definition mbit (n mask d : Z) : bool :=
  if d >=? n then false else Z.testbit mask d.

Definition mset (n mask d : Z) : Z :=
  if d >=? n then mask else Z.setbit mask d.

Definition mlsh (n mask k : Z) : Z :=
  if k >=? n then 0 else (Z.shiftl mask k) mod 2 ^ n.

(* ---- plain detector ---------------------------------------------------------------- *)

Record pstate := { p_latest : Z; p_mask : Z }.

Definition p_init : pstate := {| p_latest := 0; p_mask := 0 |}.

Definition p_check (c : cfg) (s : pstate) (seq : Z) : bool :=
  if seq >? maxSeq c then false
  else if seq <=? p_latest s then
    if u64 (p_latest s - seq) >=? window c then false
    else negb (mbit (window c) (p_mask s) (u64 (p_latest s - seq)))
  else true.

(* the closure returned by a successful Check, invoked at once *)
Definition p_accept (c : cfg) (s : pstate) (seq : Z) : pstate * bool :=
  if seq >? p_latest s then
    ({| p_latest := seq;
        p_mask := mset (window c) (mlsh (window c) (p_mask s) (u64 (seq - p_latest s))) 0 |},
     true)
  else
    ({| p_latest := p_latest s;
        p_mask := mset (window c) (p_mask s) (u64 (p_latest s - seq)) |},
     (seq =? 0) && (p_latest s =? 0)).

(* one history step: Check(seq), then the callback iff [invoke].
   Observable: (ok, result of the callback if invoked). *)
Definition p_step (c : cfg) (s : pstate) (seq : Z) (invoke : bool)
  : pstate * (bool * option bool) :=
  if p_check c s seq then
    if invoke then let '(s', l) := p_accept c s seq in (s', (true, Some l))
    else (s, (true, None))
  else (s, (false, if invoke then Some false else None)).

(* ---- wrapping detector ------------------------------------------------------------- *)

Record wstate := { w_latest : Z; w_init : bool; w_mask : Z }.

Definition w_init_state : wstate := {| w_latest := 0; w_init := false; w_mask := 0 |}.

(* the tentative position used by Check *)
Definition w_pos (c : cfg) (s : wstate) (seq : Z) : Z :=
  if w_init s then w_latest s
  else if seq =? 0 then maxSeq c else seq - 1.

Definition w_diff (c : cfg) (l seq : Z) : Z :=
  let d := i64 (i64 l - i64 seq) in
  let m := i64 (maxSeq c) in
  if d >? Z.quot m 2 then i64 (d - i64 (u64 (maxSeq c + 1)))
  else if d <=? Z.quot (i64 (- m)) 2 then i64 (d + i64 (u64 (maxSeq c + 1)))
  else d.

Definition w_check (c : cfg) (s : wstate) (seq : Z) : bool :=
  if seq >? maxSeq c then false
  else
    let d := w_diff c (w_pos c s seq) seq in
    if d >=? i64 (window c) then false
    else if d >=? 0 then negb (mbit (window c) (w_mask s) (u64 d))
    else true.

Definition w_accept (c : cfg) (s : wstate) (seq : Z) : wstate * bool :=
  let l := w_pos c s seq in
  let d := w_diff c l seq in
  if d <? 0 then
    ({| w_latest := seq; w_init := true;
        w_mask := mset (window c) (mlsh (window c) (w_mask s) (u64 (- d))) 0 |}, true)
  else
    ({| w_latest := l; w_init := true;
        w_mask := mset (window c) (w_mask s) (u64 d) |}, false).

Definition w_step (c : cfg) (s : wstate) (seq : Z) (invoke : bool)
  : wstate * (bool * option bool) :=
  if w_check c s seq then
    if invoke then let '(s', l) := w_accept c s seq in (s', (true, Some l))
    else (s, (true, None))
  else (s, (false, if invoke then Some false else None)).

(* ---- histories --------------------------------------------------------------------- *)

Definition op := (Z * bool)%type.          (* sequence number, invoke the callback? *)
Definition obs := (bool * option bool)%type.

Fixpoint p_run (c : cfg) (s : pstate) (h : list op) : list obs :=
  match h with
  | [] => []
  | (seq, inv) :: h' => let '(s', o) := p_step c s seq inv in o :: p_run c s' h'
  end.

Fixpoint w_run (c : cfg) (s : wstate) (h : list op) : list obs :=
  match h with
  | [] => []
  | (seq, inv) :: h' => let '(s', o) := w_step c s seq inv in o :: w_run c s' h'
  end.

(* ---- integer-encoded interface used by the correspondence check ---------------------
   configuration [kind; window; max] with kind 0 = New, 1 = WithWrap;
   operation [seq; invoke]; observable [ok; callback result or -1]. *)

Definition dec_op (o : zs) : op :=
  match o with
  | seq :: inv :: _ => (seq, z2b inv)
  | _ => (0, false)
  end.

Definition enc_obs (o : obs) : zs :=
  [b2z (fst o); match snd o with Some b => b2z b | None => -1 end].

Definition rd_run (conf : zs) (ops : list zs) : list zs :=
  match conf with
  | kind :: w :: m :: _ =>
      let c := {| window := w; maxSeq := m |} in
      map enc_obs (if kind =? 0 then p_run c p_init (map dec_op ops)
                   else w_run c w_init_state (map dec_op ops))
  | _ => []
  end.
