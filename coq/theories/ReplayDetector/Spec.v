(* Abstract specification of the replay detectors (the sentences of C04/C05) and the
   executable oracle the check applies to the implementation's observed answers. *)
From Tx Require Import Common.Base ReplayDetector.Model.

Definition memz (x : Z) (l : list Z) : bool := existsb (Z.eqb x) l.

(* ---- plain detector: the state is the list of accepted numbers --------------------- *)

Definition newest (acc : list Z) : Z := fold_right Z.max 0 acc.

Definition ps_ok (c : cfg) (acc : list Z) (seq : Z) : bool :=
  (seq <=? maxSeq c) && negb (memz seq acc) &&
  ((newest acc <? seq) || (newest acc - seq <? window c)).

(* the callback reports "latest" iff the number is newer than everything accepted *)
Definition ps_latest (acc : list Z) (seq : Z) : bool := forallb (fun a => a <? seq) acc.

Definition ps_step (c : cfg) (acc : list Z) (seq : Z) (invoke : bool) : list Z * obs :=
  if ps_ok c acc seq then
    if invoke then (seq :: acc, (true, Some (ps_latest acc seq)))
    else (acc, (true, None))
  else (acc, (false, if invoke then Some false else None)).

Fixpoint ps_run (c : cfg) (acc : list Z) (h : list op) : list obs :=
  match h with
  | [] => []
  | (seq, inv) :: h' => let '(a', o) := ps_step c acc seq inv in o :: ps_run c a' h'
  end.

(* ---- wrapping detector --------------------------------------------------------------
   State: the newest accepted number (None: nothing accepted yet) and the accepted numbers
   that are still inside the window behind it. Distances are modulo the space max+1. *)

Record wspec := { ws_newest : option Z; ws_acc : list Z }.

Definition ws_init : wspec := {| ws_newest := None; ws_acc := [] |}.

Definition space (c : cfg) : Z := maxSeq c + 1.
Definition half (c : cfg) : Z := maxSeq c / 2.
Definition ahead (c : cfg) (n seq : Z) : Z := (seq - n) mod space c.
Definition behind (c : cfg) (n seq : Z) : Z := (n - seq) mod space c.

(* "newer" = less than half the space ahead; the two distances nearest the boundary,
   half and half+1, are the ones the property leaves unconstrained *)
Definition ws_newer (c : cfg) (n seq : Z) : bool :=
  (1 <=? ahead c n seq) && (ahead c n seq <? half c).

Definition ws_unconstrained (c : cfg) (s : wspec) (seq : Z) : bool :=
  match ws_newest s with
  | None => false
  | Some n => (ahead c n seq =? half c) || (ahead c n seq =? half c + 1)
  end.

Definition ws_ok (c : cfg) (s : wspec) (seq : Z) : bool :=
  match ws_newest s with
  | None => seq <=? maxSeq c
  | Some n =>
      (seq <=? maxSeq c) && negb (memz seq (ws_acc s)) &&
      (ws_newer c n seq || (behind c n seq <? window c))
  end.

Definition ws_latest (c : cfg) (s : wspec) (seq : Z) : bool :=
  match ws_newest s with
  | None => true
  | Some n => ws_newer c n seq
  end.

Definition ws_accept (c : cfg) (s : wspec) (seq : Z) (latest : bool) : wspec :=
  if latest then
    {| ws_newest := Some seq;
       ws_acc := seq :: filter (fun a => behind c seq a <? window c) (ws_acc s) |}
  else {| ws_newest := ws_newest s; ws_acc := seq :: ws_acc s |}.

Definition ws_step (c : cfg) (s : wspec) (seq : Z) (invoke : bool) : wspec * obs :=
  if ws_ok c s seq then
    if invoke then
      let l := ws_latest c s seq in (ws_accept c s seq l, (true, Some l))
    else (s, (true, None))
  else (s, (false, if invoke then Some false else None)).

Fixpoint ws_run (c : cfg) (s : wspec) (h : list op) : list obs :=
  match h with
  | [] => []
  | (seq, inv) :: h' => let '(s', o) := ws_step c s seq inv in o :: ws_run c s' h'
  end.

(* a history none of whose checks hits an unconstrained distance *)
Fixpoint ws_constrained (c : cfg) (s : wspec) (h : list op) : bool :=
  match h with
  | [] => true
  | (seq, inv) :: h' =>
      negb (ws_unconstrained c s seq) && ws_constrained c (fst (ws_step c s seq inv)) h'
  end.

(* ---- oracle applied to observed answers ----------------------------------------------
   Walks a history together with the answers some implementation gave and reports, per
   operation, the sum of: 1 = a number accepted earlier (and, wrapping: never more than
   half the space behind the newest since) passed Check again [C04], 2 = a number above the
   maximum passed Check [C04], 4 = Check differs from the sliding-window rule [C05],
   8 = the callback's result differs from "became the newest" [C05]; 0 = consistent.
   The oracle follows the implementation's own accepts, so that one wrong answer is
   reported once and not again for every later operation. *)

Definition flag (v : Z) (b : bool) : Z := if b then v else 0.

(* plain: [acc] all numbers the implementation accepted *)
Fixpoint p_oracle (c : cfg) (acc : list Z) (h : list op) (os : list obs) : list Z :=
  match h, os with
  | (seq, inv) :: h', (ok, res) :: os' =>
      let lat := match res with Some b => b | None => false end in
      let code :=
        flag 1 (ok && memz seq acc) + flag 2 (ok && (seq >? maxSeq c)) +
        flag 4 (negb (Bool.eqb ok (ps_ok c acc seq))) +
        flag 8 ((inv && ok && negb (Bool.eqb lat (ps_latest acc seq))) || (negb ok && lat)) in
      code :: p_oracle c (if ok && inv then seq :: acc else acc) h' os'
  | _, _ => []
  end.

(* wrapping: [prot] the accepted numbers the newest has stayed at most half the space
   ahead of; [s] the Spec state, advanced by the implementation's accepts *)
Fixpoint w_oracle (c : cfg) (prot : list Z) (s : wspec) (h : list op) (os : list obs)
  : list Z :=
  match h, os with
  | (seq, inv) :: h', (ok, res) :: os' =>
      let unc := ws_unconstrained c s seq || (maxSeq c <? 4) ||
                 (space c <? 2 * window c) in
      let lat := match res with Some b => b | None => false end in
      let code :=
        flag 1 (ok && memz seq prot) + flag 2 (ok && (seq >? maxSeq c)) +
        flag 4 (negb unc && negb (Bool.eqb ok (ws_ok c s seq))) +
        flag 8 ((negb unc && inv && ok && negb (Bool.eqb lat (ws_latest c s seq))) || (negb ok && lat)) in
      let accepted := ok && inv in
      let adv := if unc then lat else ws_latest c s seq in
      let s' := if accepted then ws_accept c s seq adv else s in
      let prot' :=
        if accepted then
          match ws_newest s' with
          | Some n => filter (fun a => behind c n a <=? half c) (seq :: prot)
          | None => seq :: prot
          end
        else prot in
      code :: w_oracle c prot' s' h' os'
  | _, _ => []
  end.

Definition dec_obs (o : zs) : obs :=
  match o with
  | ok :: r :: _ => (z2b ok, if r <? 0 then None else Some (z2b r))
  | _ => (false, None)
  end.

Definition rd_oracle (conf : zs) (ops : list zs) (observed : list zs) : list Z :=
  match conf with
  | kind :: w :: m :: _ =>
      let c := {| window := w; maxSeq := m |} in
      if kind =? 0 then p_oracle c [] (map dec_op ops) (map dec_obs observed)
      else w_oracle c [] ws_init (map dec_op ops) (map dec_obs observed)
  | _ => []
  end.

(* the Spec's own answers, in the encoded interface *)
Definition rd_spec_run (conf : zs) (ops : list zs) : list zs :=
  match conf with
  | kind :: w :: m :: _ =>
      let c := {| window := w; maxSeq := m |} in
      map enc_obs (if kind =? 0 then ps_run c [] (map dec_op ops)
                   else ws_run c ws_init (map dec_op ops))
  | _ => []
  end.
