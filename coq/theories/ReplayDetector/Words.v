(* The window bitmap as the Go code stores it (replaydetector/fixedbig.go): a slice of 64-bit words, least
   significant first, with the word-by-word left shift of fixedBigInt.Lsh, and the proof that these operations
   compute what the integer view of ReplayDetector/Model.v ([mbit], [mset], [mlsh]) says. *)
From Tx Require Import Common.Base Common.ListZ ReplayDetector.Model.

Local Open Scope Z_scope.
Local Arguments Z.mul : simpl never.
Local Arguments Z.add : simpl never.
Local Arguments Z.sub : simpl never.
Local Arguments Z.pow : simpl never.
Local Arguments Z.div : simpl never.
Local Arguments Z.modulo : simpl never.

Definition W : Z := 2 ^ 64.

Record fbi := { f_bits : list Z; f_n : Z; f_msb : Z }.

Definition chunks (n : Z) : Z := if (n + 63) / 64 =? 0 then 1 else (n + 63) / 64.

Definition fbi_new (n : Z) : fbi :=
  {| f_bits := repeat 0 (Z.to_nat (chunks n)); f_n := n;
     f_msb := if n mod 64 =? 0 then W - 1 else 2 ^ (n mod 64) - 1 |}.

Definition wnth (ws : list Z) (i : Z) : Z := if i <? 0 then 0 else nth (Z.to_nat i) ws 0.

(* Go's uint64 shifts: x << k is 0 for k >= 64, x >> k likewise *)
Definition shl64 (w k : Z) : Z := if k >=? 64 then 0 else (Z.shiftl w k) mod W.
Definition shr64 (w k : Z) : Z := Z.shiftr w k.

(* the value stored into s.bits[i] by the loop of Lsh (it reads only words that are not yet overwritten) *)
Definition lsh_word (ws : list Z) (k i : Z) : Z :=
  let nChunk := k / 64 in
  let nN := k mod 64 in
  let carry :=
    if i - nChunk >=? 0 then
      Z.lor (shl64 (wnth ws (i - nChunk)) nN)
            (if i - nChunk - 1 >=? 0 then shr64 (wnth ws (i - nChunk - 1)) (64 - nN) else 0)
    else 0 in
  Z.lor (shl64 (wnth ws i) k) carry.

Fixpoint zrange_from (s : Z) (n : nat) : list Z :=
  match n with O => [] | S m => s :: zrange_from (s + 1) m end.

Definition fbi_lsh (f : fbi) (k : Z) : fbi :=
  if k =? 0 then f
  else
    let len := zlen (f_bits f) in
    {| f_bits := map (fun i => let r := lsh_word (f_bits f) k i in if i =? len - 1 then Z.land r (f_msb f) else r)
                     (zrange_from 0 (length (f_bits f)));
       f_n := f_n f; f_msb := f_msb f |}.

Definition fbi_bit (f : fbi) (i : Z) : Z :=
  if i >=? f_n f then 0
  else if Z.land (wnth (f_bits f) (i / 64)) (Z.shiftl 1 (i mod 64)) =? 0 then 0 else 1.

Fixpoint set_word (ws : list Z) (c : nat) (v : Z) : list Z :=
  match ws, c with
  | [], _ => []
  | w :: t, O => Z.lor w v :: t
  | w :: t, S c' => w :: set_word t c' v
  end.

Definition fbi_set (f : fbi) (i : Z) : fbi :=
  if i >=? f_n f then f
  else {| f_bits := set_word (f_bits f) (Z.to_nat (i / 64)) (Z.shiftl 1 (i mod 64)); f_n := f_n f; f_msb := f_msb f |}.

(* ---- value of a word list ------------------------------------------------------------------------------- *)
Fixpoint val (ws : list Z) : Z :=
  match ws with [] => 0 | w :: t => w + W * val t end.

Definition word (w : Z) : Prop := 0 <= w < W.

Lemma W_pos : 0 < W. Proof. unfold W. lia. Qed.
Lemma W_eq : W = 2 ^ 64. Proof. reflexivity. Qed.

Lemma val_bounds ws : Forall word ws -> 0 <= val ws < 2 ^ (64 * zlen ws).
Proof.
  induction ws as [|w t IH]; intro H.
  - unfold zlen. simpl. lia.
  - cbn [val]. inversion H as [|? ? Hw Ht]; subst. specialize (IH Ht). rewrite zlen_cons.
    replace (64 * (1 + zlen t)) with (64 + 64 * zlen t) by lia.
    pose proof (zlen_nonneg t). rewrite Z.pow_add_r by lia. fold W. destruct Hw as [Hw1 Hw2].
    pose proof W_pos as HW. destruct IH as [I1 I2]. split.
    + apply Z.add_nonneg_nonneg; [assumption|]. apply Z.mul_nonneg_nonneg; lia.
    + assert (W * val t <= W * (2 ^ (64 * zlen t) - 1)) by (apply Z.mul_le_mono_nonneg_l; lia). lia.
Qed.

Lemma testbit_word_high w j : word w -> 64 <= j -> Z.testbit w j = false.
Proof.
  intros [H1 H2] Hj. destruct (Z.eq_dec w 0) as [->|Hn]; [apply Z.testbit_0_l|].
  apply Z.bits_above_log2; [lia|]. apply Z.log2_lt_pow2; [lia|]. unfold W in H2.
  apply Z.lt_le_trans with (2 ^ 64); [assumption|]. apply Z.pow_le_mono_r; lia.
Qed.

Lemma val_cons_low w t j : word w -> 0 <= j < 64 -> Z.testbit (w + W * val t) j = Z.testbit w j.
Proof.
  intros [H1 H2] Hj. rewrite <- (Z.mod_pow2_bits_low (w + W * val t) 64 j) by lia.
  f_equal. unfold W in *. rewrite Z.mul_comm, Z.mod_add by lia. apply Z.mod_small. lia.
Qed.

Lemma val_cons_high w t j : word w -> 64 <= j -> Z.testbit (w + W * val t) j = Z.testbit (val t) (j - 64).
Proof.
  intros [H1 H2] Hj. replace j with ((j - 64) + 64) at 1 by lia.
  rewrite <- Z.div_pow2_bits by lia. f_equal. unfold W in *.
  rewrite Z.mul_comm, Z.div_add by lia. rewrite Z.div_small by lia. lia.
Qed.

(* bit j of the value is bit (j mod 64) of word (j / 64) *)
Lemma testbit_val ws : Forall word ws -> forall j, 0 <= j ->
  Z.testbit (val ws) j = Z.testbit (wnth ws (j / 64)) (j mod 64).
Proof.
  induction ws as [|w t IH]; intros H j Hj.
  - cbn [val]. unfold wnth. rewrite Z.testbit_0_l. destruct (j / 64 <? 0); [rewrite Z.testbit_0_l; reflexivity|].
    destruct (Z.to_nat (j / 64)); simpl; rewrite Z.testbit_0_l; reflexivity.
  - inversion H as [|? ? Hw Ht]; subst. cbn [val].
    assert (Hd : 0 <= j / 64) by (apply Z.div_pos; lia).
    unfold wnth. destruct (j / 64 <? 0) eqn:E; [lia|].
    destruct (Z.lt_ge_cases j 64) as [Hlt|Hge].
    + rewrite val_cons_low by (try assumption; lia). rewrite Z.div_small, Z.mod_small by lia. reflexivity.
    + rewrite val_cons_high by assumption. rewrite (IH Ht (j - 64)) by lia.
      assert (E1 : (j - 64) / 64 = j / 64 - 1).
      { replace (j - 64) with (j + (-1) * 64) by lia. rewrite Z.div_add by lia. lia. }
      assert (E2 : (j - 64) mod 64 = j mod 64).
      { replace (j - 64) with (j + (-1) * 64) by lia. apply Z.mod_add. lia. }
      rewrite E1, E2. unfold wnth. assert (1 <= j / 64) by (apply Z.div_le_lower_bound; lia).
      destruct (j / 64 - 1 <? 0) eqn:E3; [lia|].
      replace (Z.to_nat (j / 64)) with (S (Z.to_nat (j / 64 - 1))) by lia. reflexivity.
Qed.

(* ---- words ------------------------------------------------------------------------------------------------ *)
Lemma below_pow2_of_bits x n : 0 <= x -> 0 <= n -> (forall j, n <= j -> Z.testbit x j = false) -> x < 2 ^ n.
Proof.
  intros Hx Hn H. assert (E : x mod 2 ^ n = x).
  { apply Z.bits_inj'. intros j Hj. destruct (Z.lt_ge_cases j n) as [Hl|Hg].
    - apply Z.mod_pow2_bits_low. lia.
    - rewrite Z.mod_pow2_bits_high by lia. symmetry. apply H. assumption. }
  rewrite <- E. apply Z.mod_pos_bound. apply Z.pow_pos_nonneg; lia.
Qed.

Lemma bits_above_of_below x n : 0 <= x < 2 ^ n -> 0 <= n -> forall j, n <= j -> Z.testbit x j = false.
Proof.
  intros [H1 H2] Hn j Hj. destruct (Z.eq_dec x 0) as [->|Hne]; [apply Z.testbit_0_l|].
  apply Z.bits_above_log2; [lia|]. apply Z.lt_le_trans with n; [|assumption]. apply Z.log2_lt_pow2; lia.
Qed.

Lemma word_of_bits x : 0 <= x -> (forall j, 64 <= j -> Z.testbit x j = false) -> word x.
Proof. intros Hx H. split; [assumption|]. unfold W. apply below_pow2_of_bits; [assumption|lia|assumption]. Qed.

Lemma word_0 : word 0. Proof. unfold word, W. lia. Qed.

Lemma word_lor a b : word a -> word b -> word (Z.lor a b).
Proof.
  intros Ha Hb. apply word_of_bits.
  - apply Z.lor_nonneg. split; [apply Ha|apply Hb].
  - intros j Hj. rewrite Z.lor_spec, (testbit_word_high a), (testbit_word_high b) by assumption. reflexivity.
Qed.

Lemma word_land a b : word a -> word b -> word (Z.land a b).
Proof.
  intros Ha Hb. apply word_of_bits.
  - apply Z.land_nonneg. left. apply Ha.
  - intros j Hj. rewrite Z.land_spec, (testbit_word_high a) by assumption. reflexivity.
Qed.

Lemma word_shl64 w k : word (shl64 w k).
Proof. unfold shl64. destruct (k >=? 64); [apply word_0|]. unfold word. apply Z.mod_pos_bound. apply W_pos. Qed.

Lemma word_shr64 w k : word w -> 0 <= k -> word (shr64 w k).
Proof.
  intros Hw Hk. unfold shr64. apply word_of_bits.
  - apply Z.shiftr_nonneg. apply Hw.
  - intros j Hj. rewrite Z.shiftr_spec by lia. apply testbit_word_high; [assumption|lia].
Qed.

Lemma testbit_shl64 w k p : 0 <= k -> 0 <= p < 64 ->
  Z.testbit (shl64 w k) p = if p >=? k then Z.testbit w (p - k) else false.
Proof.
  intros Hk Hp. unfold shl64, W. destruct (k >=? 64) eqn:E64.
  - rewrite Z.testbit_0_l. destruct (p >=? k) eqn:E; [lia|reflexivity].
  - rewrite Z.mod_pow2_bits_low by lia. rewrite Z.shiftl_spec by lia.
    destruct (p >=? k) eqn:E; [reflexivity|]. apply Z.testbit_neg_r. lia.
Qed.

Lemma wnth_word ws i : Forall word ws -> word (wnth ws i).
Proof.
  intro H. unfold wnth. destruct (i <? 0); [apply word_0|].
  destruct (nth_in_or_default (Z.to_nat i) ws 0) as [Hin|Hd]; [|rewrite Hd; apply word_0].
  rewrite Forall_forall in H. apply H. assumption.
Qed.

(* bit p of the word that Lsh stores at index i is bit 64*i + p - k of the old value *)
Lemma testbit_lsh_word ws k i p : Forall word ws -> 0 < k -> 0 <= i -> 0 <= p < 64 ->
  Z.testbit (lsh_word ws k i) p =
  if 64 * i + p - k >=? 0 then Z.testbit (val ws) (64 * i + p - k) else false.
Proof.
  intros Hws Hk Hi Hp.
  assert (Hc : 0 <= k / 64) by (apply Z.div_pos; lia).
  assert (Hn : 0 <= k mod 64 < 64) by (apply Z.mod_pos_bound; lia).
  assert (Hkd : k = 64 * (k / 64) + k mod 64) by (apply Z.div_mod; lia).
  set (nC := k / 64) in *. set (nN := k mod 64) in *.
  (* the right-hand side in terms of words *)
  assert (RHS : (if 64 * i + p - k >=? 0 then Z.testbit (val ws) (64 * i + p - k) else false) =
                if p >=? nN then Z.testbit (wnth ws (i - nC)) (p - nN)
                else Z.testbit (wnth ws (i - nC - 1)) (64 + p - nN)).
  { destruct (p >=? nN) eqn:Ep.
    - assert (E1 : 64 * i + p - k = 64 * (i - nC) + (p - nN)) by lia.
      destruct (64 * i + p - k >=? 0) eqn:Eg.
      + rewrite testbit_val by (try assumption; lia). rewrite E1.
        replace ((64 * (i - nC) + (p - nN)) / 64) with (i - nC)
          by (symmetry; rewrite Z.mul_comm, Z.div_add_l by lia; rewrite Z.div_small by lia; lia).
        replace ((64 * (i - nC) + (p - nN)) mod 64) with (p - nN)
          by (symmetry; rewrite Z.add_comm, Z.mul_comm, Z.mod_add by lia; apply Z.mod_small; lia).
        reflexivity.
      + assert (i - nC < 0) by lia. unfold wnth. destruct (i - nC <? 0) eqn:E2; [|lia]. rewrite Z.testbit_0_l. reflexivity.
    - assert (E1 : 64 * i + p - k = 64 * (i - nC - 1) + (64 + p - nN)) by lia.
      destruct (64 * i + p - k >=? 0) eqn:Eg.
      + rewrite testbit_val by (try assumption; lia). rewrite E1.
        replace ((64 * (i - nC - 1) + (64 + p - nN)) / 64) with (i - nC - 1)
          by (symmetry; rewrite Z.mul_comm, Z.div_add_l by lia; rewrite Z.div_small by lia; lia).
        replace ((64 * (i - nC - 1) + (64 + p - nN)) mod 64) with (64 + p - nN)
          by (symmetry; rewrite Z.add_comm, Z.mul_comm, Z.mod_add by lia; apply Z.mod_small; lia).
        reflexivity.
      + assert (i - nC - 1 < 0) by lia. unfold wnth. destruct (i - nC - 1 <? 0) eqn:E2; [|lia]. rewrite Z.testbit_0_l. reflexivity. }
  rewrite RHS. clear RHS.
  unfold lsh_word. fold nC nN. rewrite Z.lor_spec.
  (* the term (bits[i] << n) *)
  rewrite (testbit_shl64 (wnth ws i) k p) by lia.
  assert (HwA : forall j, word (wnth ws j)) by (intro; apply wnth_word; assumption).
  (* the carry *)
  assert (Carry : Z.testbit (if i - nC >=? 0
                             then Z.lor (shl64 (wnth ws (i - nC)) nN)
                                        (if i - nC - 1 >=? 0 then shr64 (wnth ws (i - nC - 1)) (64 - nN) else 0)
                             else 0) p =
                  if p >=? nN then Z.testbit (wnth ws (i - nC)) (p - nN)
                  else Z.testbit (wnth ws (i - nC - 1)) (64 + p - nN)).
  { destruct (i - nC >=? 0) eqn:E1.
    - rewrite Z.lor_spec. rewrite testbit_shl64 by lia.
      assert (C2 : Z.testbit (if i - nC - 1 >=? 0 then shr64 (wnth ws (i - nC - 1)) (64 - nN) else 0) p =
                   Z.testbit (wnth ws (i - nC - 1)) (64 + p - nN)).
      { destruct (i - nC - 1 >=? 0) eqn:E2.
        - unfold shr64. rewrite Z.shiftr_spec by lia. f_equal. lia.
        - rewrite Z.testbit_0_l. unfold wnth. destruct (i - nC - 1 <? 0) eqn:E3; [|lia]. rewrite Z.testbit_0_l. reflexivity. }
      rewrite C2. destruct (p >=? nN) eqn:Ep.
      + rewrite (testbit_word_high (wnth ws (i - nC - 1))) by (try apply HwA; lia). apply orb_false_r.
      + reflexivity.
    - rewrite Z.testbit_0_l. unfold wnth.
      destruct (i - nC <? 0) eqn:E2; [|lia]. destruct (i - nC - 1 <? 0) eqn:E3; [|lia].
      rewrite !Z.testbit_0_l. destruct (p >=? nN); reflexivity. }
  rewrite Carry. clear Carry.
  destruct (p >=? k) eqn:Epk.
  - (* k < 64: the first term equals the carry's first term *)
    assert (nC = 0) by (apply Z.div_small; lia). assert (nN = k) by (unfold nN; apply Z.mod_small; lia).
    assert (Ep : p >=? nN = true) by lia. rewrite Ep. replace (i - nC) with i by lia. rewrite H0. apply orb_diag.
  - reflexivity.
Qed.

(* ---- well-formed bitmaps and the three operations ------------------------------------------------------------------ *)
Record WF (f : fbi) : Prop := {
  wf_words : Forall word (f_bits f);
  wf_n : 0 <= f_n f;
  wf_len : zlen (f_bits f) = chunks (f_n f);
  wf_msb : f_msb f = if f_n f mod 64 =? 0 then W - 1 else 2 ^ (f_n f mod 64) - 1;
  wf_clear : forall j, f_n f <= j -> Z.testbit (val (f_bits f)) j = false
}.

Lemma chunks_bounds n : 0 <= n -> 1 <= chunks n /\ n <= 64 * chunks n /\ (0 < n -> 64 * (chunks n - 1) < n).
Proof.
  intro Hn. unfold chunks.
  assert (H : n + 63 = 64 * ((n + 63) / 64) + (n + 63) mod 64) by (apply Z.div_mod; lia).
  assert (H2 : 0 <= (n + 63) mod 64 < 64) by (apply Z.mod_pos_bound; lia).
  assert (H3 : 0 <= (n + 63) / 64) by (apply Z.div_pos; lia).
  destruct ((n + 63) / 64 =? 0) eqn:E; lia.
Qed.

Lemma val_repeat0 k : val (repeat 0 k) = 0.
Proof. induction k as [|k IH]; simpl; [reflexivity|]. rewrite IH. lia. Qed.

Lemma wf_new n : 0 <= n -> WF (fbi_new n).
Proof.
  intro Hn. destruct (chunks_bounds n Hn) as [C1 _]. split; simpl.
  - apply Forall_forall. intros x Hx. apply repeat_spec in Hx. subst. apply word_0.
  - assumption.
  - unfold zlen. rewrite repeat_length. lia.
  - reflexivity.
  - intros j Hj. rewrite val_repeat0. apply Z.testbit_0_l.
Qed.

Lemma val_nonneg ws : Forall word ws -> 0 <= val ws.
Proof. intro H. apply (val_bounds ws H). Qed.

(* Bit *)
Theorem fbi_bit_spec f i : WF f -> 0 <= i -> fbi_bit f i = b2z (mbit (f_n f) (val (f_bits f)) i).
Proof.
  intros [Hw Hn Hl Hm Hc] Hi. unfold fbi_bit, mbit. destruct (i >=? f_n f) eqn:E; [reflexivity|].
  rewrite testbit_val by assumption.
  assert (Hp : 0 <= i mod 64 < 64) by (apply Z.mod_pos_bound; lia).
  rewrite Z.shiftl_1_l.
  set (w := wnth (f_bits f) (i / 64)). set (p := i mod 64) in *.
  assert (HL : Z.land w (2 ^ p) = if Z.testbit w p then 2 ^ p else 0).
  { apply Z.bits_inj'. intros m Hm0. rewrite Z.land_spec, Z.pow2_bits_eqb by lia.
    destruct (Z.eqb_spec p m) as [->|Hne].
    - destruct (Z.testbit w m) eqn:Et; [rewrite Z.pow2_bits_true by lia; reflexivity|rewrite Z.testbit_0_l; reflexivity].
    - rewrite andb_false_r. destruct (Z.testbit w p); [rewrite Z.pow2_bits_false by lia; reflexivity|rewrite Z.testbit_0_l; reflexivity]. }
  rewrite HL. destruct (Z.testbit w p); simpl.
  - assert (0 < 2 ^ p) by (apply Z.pow_pos_nonneg; lia). destruct (2 ^ p =? 0) eqn:E2; [lia|reflexivity].
  - reflexivity.
Qed.

(* SetBit *)
Lemma set_word_spec ws : forall c v j, Forall word ws -> word v -> (c < length ws)%nat -> 0 <= j ->
  Forall word (set_word ws c v) /\ length (set_word ws c v) = length ws /\
  wnth (set_word ws c v) j = if j =? Z.of_nat c then Z.lor (wnth ws j) v else wnth ws j.
Proof.
  induction ws as [|w t IH]; intros c v j Hws Hv Hc Hj; [simpl in Hc; lia|].
  inversion Hws as [|? ? Hw Ht]; subst. destruct c as [|c]; simpl.
  - split; [constructor; [apply word_lor; assumption|assumption]|]. split; [reflexivity|].
    unfold wnth. destruct (j <? 0) eqn:E; [lia|]. destruct (j =? 0) eqn:E0.
    + apply Z.eqb_eq in E0. subst. reflexivity.
    + destruct (Z.to_nat j) eqn:En; [lia|]. reflexivity.
  - simpl in Hc. destruct (Z.eq_dec j 0) as [->|Hj0].
    + destruct (IH c v 0 Ht Hv ltac:(lia) ltac:(lia)) as [I1 [I2 _]].
      split; [constructor; assumption|]. split; [simpl; lia|]. unfold wnth. simpl.
      destruct (0 =? Z.of_nat (S c)) eqn:E; [lia|reflexivity].
    + destruct (IH c v (j - 1) Ht Hv ltac:(lia) ltac:(lia)) as [I1 [I2 I3]].
      split; [constructor; assumption|]. split; [simpl; lia|].
      unfold wnth in *. destruct (j <? 0) eqn:E; [lia|]. destruct (j - 1 <? 0) eqn:E1; [lia|].
      replace (Z.to_nat j) with (S (Z.to_nat (j - 1))) by lia. simpl.
      rewrite I3. replace (j - 1 =? Z.of_nat c) with (j =? Z.of_nat (S c)) by lia. reflexivity.
Qed.

Theorem fbi_set_spec f i : WF f -> 0 <= i ->
  WF (fbi_set f i) /\ val (f_bits (fbi_set f i)) = mset (f_n f) (val (f_bits f)) i.
Proof.
  intros Hwf Hi. pose proof Hwf as [Hw Hn Hl Hm Hc]. unfold fbi_set, mset.
  destruct (i >=? f_n f) eqn:E; [split; [assumption|reflexivity]|].
  destruct (chunks_bounds (f_n f) Hn) as [C1 [C2 C3]].
  assert (Hp : 0 <= i mod 64 < 64) by (apply Z.mod_pos_bound; lia).
  assert (Hd : 0 <= i / 64) by (apply Z.div_pos; lia).
  assert (Hdl : i / 64 < zlen (f_bits f)).
  { rewrite Hl. apply Z.div_lt_upper_bound; lia. }
  assert (Hv : word (Z.shiftl 1 (i mod 64))).
  { rewrite Z.shiftl_1_l. split; [apply Z.pow_nonneg; lia|]. unfold W. apply Z.pow_lt_mono_r; lia. }
  assert (Hcn : (Z.to_nat (i / 64) < length (f_bits f))%nat) by (unfold zlen in Hdl; lia).
  simpl.
  assert (Hsw : forall j, 0 <= j -> _) by (intros j Hj; exact (set_word_spec (f_bits f) (Z.to_nat (i / 64)) _ j Hw Hv Hcn Hj)).
  destruct (Hsw 0 ltac:(lia)) as [S1 [S2 _]].
  assert (Hval : val (set_word (f_bits f) (Z.to_nat (i / 64)) (Z.shiftl 1 (i mod 64))) = Z.setbit (val (f_bits f)) i).
  { apply Z.bits_inj'. intros j Hj. rewrite testbit_val by assumption.
    destruct (Hsw (j / 64) ltac:(apply Z.div_pos; lia)) as [_ [_ S3]]. rewrite S3.
    rewrite Z2Nat.id by lia. rewrite Z.setbit_eqb by lia. rewrite (testbit_val (f_bits f)) by assumption.
    assert (Hjp : 0 <= j mod 64 < 64) by (apply Z.mod_pos_bound; lia).
    destruct (j / 64 =? i / 64) eqn:Ed.
    - rewrite Z.lor_spec, Z.shiftl_1_l, Z.pow2_bits_eqb by lia. apply Z.eqb_eq in Ed.
      destruct (Z.eqb_spec (i mod 64) (j mod 64)) as [Em|Em].
      + assert (i = j) by (rewrite (Z.div_mod i 64), (Z.div_mod j 64) by lia; congruence).
        subst. rewrite Z.eqb_refl. rewrite orb_true_r. reflexivity.
      + destruct (Z.eqb_spec i j) as [->|Hne]; [congruence|]. simpl. rewrite orb_false_r. reflexivity.
    - destruct (Z.eqb_spec i j) as [->|Hne]; [rewrite Z.eqb_refl in Ed; discriminate|]. reflexivity. }
  split; [|assumption].
  split; simpl; try assumption.
  - unfold zlen in *. rewrite S2. assumption.
  - intros j Hj. rewrite Hval. rewrite Z.setbit_eqb by lia. rewrite (Hc j Hj).
    destruct (Z.eqb_spec i j); [lia|reflexivity].
Qed.

(* Lsh *)
Lemma zrange_length s n : length (zrange_from s n) = n.
Proof. revert s. induction n as [|n IH]; intro s; simpl; [reflexivity|]. rewrite IH. reflexivity. Qed.

Lemma zrange_nth n : forall s i, (i < n)%nat -> nth i (zrange_from s n) 0 = s + Z.of_nat i.
Proof.
  induction n as [|n IH]; intros s i Hi; [lia|]. destruct i as [|i]; simpl; [lia|].
  rewrite IH by lia. lia.
Qed.

Lemma wnth_map_range (g : Z -> Z) L i : g 0 = g 0 -> 0 <= i ->
  wnth (map g (zrange_from 0 L)) i = if i <? Z.of_nat L then g i else 0.
Proof.
  intros _ Hi. unfold wnth. destruct (i <? 0) eqn:E; [lia|].
  destruct (i <? Z.of_nat L) eqn:El.
  - rewrite (nth_indep _ 0 (g 0)) by (rewrite map_length, zrange_length; lia).
    rewrite map_nth. rewrite zrange_nth by lia. f_equal. lia.
  - apply nth_overflow. rewrite map_length, zrange_length. lia.
Qed.

Lemma testbit_ones_minus m p : 0 <= m -> 0 <= p -> Z.testbit (2 ^ m - 1) p = (p <? m).
Proof.
  intros Hm Hp. replace (2 ^ m - 1) with (Z.ones m) by (rewrite Z.ones_equiv; lia).
  destruct (p <? m) eqn:E.
  - apply Z.ones_spec_low. lia.
  - apply Z.ones_spec_high. lia.
Qed.

Lemma lsh_word_is_word ws k i : Forall word ws -> 0 <= k -> word (lsh_word ws k i).
Proof.
  intros Hws Hk. unfold lsh_word.
  assert (Hn : 0 <= k mod 64 < 64) by (apply Z.mod_pos_bound; lia).
  apply word_lor; [apply word_shl64|].
  destruct (i - k / 64 >=? 0); [|apply word_0].
  apply word_lor; [apply word_shl64|]. destruct (i - k / 64 - 1 >=? 0); [|apply word_0].
  apply word_shr64; [apply wnth_word; assumption|lia].
Qed.

Lemma val_zero_of_clear ws : Forall word ws -> (forall j, 0 <= j -> Z.testbit (val ws) j = false) -> val ws = 0.
Proof. intros Hw H. apply Z.bits_inj_0. intro n. destruct (Z.lt_ge_cases n 0); [apply Z.testbit_neg_r; lia|apply H; lia]. Qed.

Theorem fbi_lsh_spec f k : WF f -> 0 <= k ->
  WF (fbi_lsh f k) /\ val (f_bits (fbi_lsh f k)) = mlsh (f_n f) (val (f_bits f)) k.
Proof.
  intros Hwf Hk. pose proof Hwf as [Hw Hn Hl Hm Hc].
  destruct (chunks_bounds (f_n f) Hn) as [C1 [C2 C3]].
  set (n := f_n f) in *. set (ws := f_bits f) in *.
  assert (Hv0 : 0 <= val ws) by (apply val_nonneg; assumption).
  assert (Hvn : val ws < 2 ^ n) by (apply below_pow2_of_bits; assumption).
  unfold fbi_lsh. destruct (k =? 0) eqn:Ek0.
  - (* no shift *)
    apply Z.eqb_eq in Ek0. subst k. split; [assumption|]. unfold mlsh. fold ws. destruct (0 >=? n) eqn:E.
    + assert (n = 0) by lia. rewrite H in Hvn. simpl in Hvn. lia.
    + rewrite Z.shiftl_0_r. symmetry. apply Z.mod_small. lia.
  - assert (Hkpos : 0 < k) by lia. clear Ek0.
    set (L := length ws). assert (HL : Z.of_nat L = chunks n) by (unfold L; unfold zlen in Hl; assumption).
    fold ws.
    set (g := fun i => let r := lsh_word ws k i in if i =? zlen ws - 1 then Z.land r (f_msb f) else r).
    set (rs := map g (zrange_from 0 L)).
    assert (Hmsbw : word (f_msb f)).
    { rewrite Hm. fold n. destruct (n mod 64 =? 0); unfold word, W.
      - lia.
      - assert (0 <= n mod 64 < 64) by (apply Z.mod_pos_bound; lia).
        split; [assert (0 < 2 ^ (n mod 64)) by (apply Z.pow_pos_nonneg; lia); lia|].
        assert (2 ^ (n mod 64) < 2 ^ 64) by (apply Z.pow_lt_mono_r; lia). lia. }
    assert (Hgw : forall i, word (g i)).
    { intro i. unfold g. simpl. destruct (i =? zlen ws - 1); [apply word_land; [apply lsh_word_is_word; assumption|assumption]|apply lsh_word_is_word; assumption]. }
    assert (Hrs : Forall word rs).
    { apply Forall_forall. intros x Hx. unfold rs in Hx. apply in_map_iff in Hx. destruct Hx as [i [<- _]]. apply Hgw. }
    (* bit j of the new value *)
    assert (Bits : forall j, 0 <= j -> Z.testbit (val rs) j =
                   if (j <? n) && (j >=? k) then Z.testbit (val ws) (j - k) else false).
    { intros j Hj. rewrite testbit_val by assumption.
      assert (Hd : 0 <= j / 64) by (apply Z.div_pos; lia).
      assert (Hp : 0 <= j mod 64 < 64) by (apply Z.mod_pos_bound; lia).
      assert (Hjd : j = 64 * (j / 64) + j mod 64) by (apply Z.div_mod; lia).
      unfold rs. rewrite wnth_map_range by (try reflexivity; assumption).
      destruct (j / 64 <? Z.of_nat L) eqn:EL.
      - assert (Hlw : Z.testbit (lsh_word ws k (j / 64)) (j mod 64) =
                      if j >=? k then Z.testbit (val ws) (j - k) else false).
        { rewrite testbit_lsh_word by (try assumption; lia). rewrite <- Hjd.
          destruct (j - k >=? 0) eqn:E1; destruct (j >=? k) eqn:E2; try lia; reflexivity. }
        unfold g. simpl. unfold zlen. fold L.
        destruct (j / 64 =? Z.of_nat L - 1) eqn:Etop.
        + rewrite Z.land_spec, Hlw. rewrite Hm. fold n.
          assert (Hmsb : Z.testbit (if n mod 64 =? 0 then W - 1 else 2 ^ (n mod 64) - 1) (j mod 64) = (j <? n) || (n =? 0)).
          { assert (Hnm : 0 <= n mod 64 < 64) by (apply Z.mod_pos_bound; lia).
            assert (Hnd : n = 64 * (n / 64) + n mod 64) by (apply Z.div_mod; lia).
            destruct (n mod 64 =? 0) eqn:Em0.
            - unfold W. rewrite testbit_ones_minus by lia. assert (j mod 64 <? 64 = true) by lia. rewrite H.
              destruct (Z.eq_dec n 0) as [Hz|Hz]; [rewrite Hz; rewrite orb_true_r; reflexivity|].
              assert (j < n) by (specialize (C3 ltac:(lia)); lia). symmetry. apply orb_true_iff. left. lia.
            - rewrite testbit_ones_minus by lia.
              assert (n <> 0) by (intro Hz; rewrite Hz in Em0; discriminate).
              assert (Hn0 : (n =? 0) = false) by lia. rewrite Hn0, orb_false_r.
              specialize (C3 ltac:(lia)).
              (* n = 64 (L-1) + n mod 64 *)
              assert (n / 64 = Z.of_nat L - 1).
              { rewrite HL. unfold chunks in *. assert ((n + 63) / 64 = n / 64 + 1).
                { replace (n + 63) with ((n mod 64 + 63) + (n / 64) * 64) by lia. rewrite Z.div_add by lia.
                  assert (n mod 64 <> 0) by (intro Hz0; rewrite Hz0 in Em0; discriminate).
                  assert ((n mod 64 + 63) / 64 = 1) by (symmetry; apply Z.div_unique with (n mod 64 - 1); lia). lia. }
                destruct ((n + 63) / 64 =? 0) eqn:E3; lia. }
              destruct (j mod 64 <? n mod 64) eqn:E4; destruct (j <? n) eqn:E5; try reflexivity; exfalso; lia. }
          rewrite Hmsb. destruct (Z.eq_dec n 0) as [Hz|Hz].
          * (* window size 0: the bitmap is 0 and stays 0 *)
            assert (val ws = 0) by (rewrite Hz in Hvn; simpl in Hvn; lia).
            rewrite H in *. rewrite Z.testbit_0_l.
            destruct (j >=? k); destruct (j <? n); simpl; rewrite ?andb_false_r; reflexivity.
          * assert (Hn0 : (n =? 0) = false) by lia. rewrite Hn0, orb_false_r.
            destruct (j <? n); destruct (j >=? k); simpl; rewrite ?andb_false_r, ?andb_true_r; reflexivity.
        + rewrite Hlw.
          assert (j < n). { assert (j / 64 < Z.of_nat L - 1) by lia. destruct (Z.eq_dec n 0) as [Hz|Hz]; [rewrite Hz in HL; change (chunks 0) with 1 in HL; lia|]. specialize (C3 ltac:(lia)). lia. }
          assert (E : (j <? n) = true) by lia. rewrite E. reflexivity.
      - rewrite Z.testbit_0_l. assert (n <= j) by lia. assert (E : (j <? n) = false) by lia. rewrite E. reflexivity. }
    split.
    + split; simpl; try assumption.
      * unfold zlen. rewrite map_length, zrange_length. unfold zlen in Hl. assumption.
      * intros j Hj. fold n in Hj. change (Z.testbit (val rs) j = false). rewrite Bits by lia.
        assert (E : (j <? n) = false) by lia. rewrite E. reflexivity.
    + simpl. change (val rs = mlsh n (val ws) k). unfold mlsh. apply Z.bits_inj'. intros j Hj. rewrite Bits by assumption.
      destruct (k >=? n) eqn:Ekn.
      * rewrite Z.testbit_0_l. destruct ((j <? n) && (j >=? k)) eqn:E; [lia|reflexivity].
      * destruct (j <? n) eqn:Ejn; simpl.
        -- rewrite Z.mod_pow2_bits_low by lia. rewrite Z.shiftl_spec by lia.
           destruct (j >=? k) eqn:Ejk; [reflexivity|]. symmetry. apply Z.testbit_neg_r. lia.
        -- rewrite Z.mod_pow2_bits_high by lia. reflexivity.
Qed.

(* ---- wire interface (differential check of fixedBigInt itself): conf [2; n; _]; op [1; k] Lsh, [2; i] SetBit,
   [3; i] Bit; observation: the words after Lsh / SetBit, the bit for Bit -------------------------------------------- *)
Fixpoint fbi_run (f : fbi) (ops : list zs) : list zs :=
  match ops with
  | [] => []
  | [1; k] :: rest => let f' := fbi_lsh f k in f_bits f' :: fbi_run f' rest
  | [2; i] :: rest => let f' := fbi_set f i in f_bits f' :: fbi_run f' rest
  | [3; i] :: rest => [fbi_bit f i] :: fbi_run f rest
  | _ :: rest => [] :: fbi_run f rest
  end.

Definition fbi_model_run (conf : zs) (ops : list zs) : list zs :=
  match conf with
  | _ :: n :: _ => fbi_run (fbi_new n) ops
  | _ => []
  end.
