(* The plain detector refines the sliding-window Spec (C05) and never accepts twice (C04). *)
From Tx Require Import Common.Base ReplayDetector.Model ReplayDetector.Spec.

(* ---- bitmap lemmas ------------------------------------------------------------------ *)

Lemma mbit_high n m e : n <= e -> mbit n m e = false.
Proof. unfold mbit. intros. destruct (e >=? n) eqn:E; [reflexivity|lia]. Qed.

Lemma mbit_mset n m d e : 0 <= d -> 0 <= e -> e < n ->
  mbit n (mset n m d) e = (d =? e) || mbit n m e.
Proof.
  intros Hd He Hen. unfold mbit, mset.
  destruct (e >=? n) eqn:E1; [lia|].
  destruct (d >=? n) eqn:E2.
  - destruct (d =? e) eqn:E3; [lia|reflexivity].
  - apply Z.setbit_eqb. assumption.
Qed.

Lemma mbit_mlsh n m k e : 0 <= k -> 0 <= e -> e < n ->
  mbit n (mlsh n m k) e = (k <=? e) && mbit n m (e - k).
Proof.
  intros Hk He Hen. unfold mbit, mlsh.
  destruct (e >=? n) eqn:E1; [lia|].
  destruct (k >=? n) eqn:E2.
  - rewrite Z.testbit_0_l. destruct (k <=? e) eqn:E3; [lia|reflexivity].
  - rewrite Z.mod_pow2_bits_low by lia. rewrite Z.shiftl_spec by lia.
    destruct (k <=? e) eqn:E3.
    + destruct (e - k >=? n) eqn:E4; [lia|reflexivity].
    + rewrite Z.testbit_neg_r by lia. reflexivity.
Qed.

(* ---- facts about the Spec state -------------------------------------------------------- *)

Lemma memz_In x l : memz x l = true <-> In x l.
Proof.
  unfold memz. rewrite existsb_exists. split.
  - intros [y [Hy E]]. apply Z.eqb_eq in E. subst. assumption.
  - intros H. exists x. split; [assumption|apply Z.eqb_refl].
Qed.

Lemma newest_ge acc a : In a acc -> a <= newest acc.
Proof.
  induction acc as [|b acc IH]; simpl; intros H; [contradiction|].
  destruct H as [->|H]; [lia|]. specialize (IH H). lia.
Qed.

Lemma newest_nonneg acc : 0 <= newest acc.
Proof. induction acc as [|b acc IH]; simpl; lia. Qed.

Lemma newest_in acc : acc <> [] -> (forall a, In a acc -> 0 <= a) -> In (newest acc) acc.
Proof.
  induction acc as [|b acc IH]; intros Hne Hpos; [congruence|].
  simpl. destruct acc as [|b' acc'].
  - simpl. left. specialize (Hpos b (or_introl eq_refl)). lia.
  - destruct (Z.max_spec b (newest (b' :: acc'))) as [[_ E]|[_ E]]; rewrite E.
    + right. apply IH; [congruence|]. intros a Ha. apply Hpos. right. assumption.
    + left. reflexivity.
Qed.

(* ---- representation invariant ---------------------------------------------------------- *)

Record PInv (c : cfg) (s : pstate) (acc : list Z) : Prop := {
  pi_latest : p_latest s = newest acc;
  pi_pos : forall a, In a acc -> 0 <= a;
  pi_bits : forall d, 0 <= d < window c ->
            (mbit (window c) (p_mask s) d = true <-> In (p_latest s - d) acc)
}.

Lemma PInv_init c : PInv c p_init [].
Proof.
  split; simpl; try tauto. intros d Hd. unfold mbit.
  destruct (d >=? window c); [|rewrite Z.testbit_0_l]; split; intros; try discriminate; contradiction.
Qed.

Definition in_u64 (z : Z) : Prop := 0 <= z < two64.

Lemma p_check_spec c s acc seq :
  in_u64 (window c) -> in_u64 seq -> in_u64 (p_latest s) -> PInv c s acc ->
  p_check c s seq = ps_ok c acc seq.
Proof.
  intros Hw Hs Hl I. destruct I as [IL IP IB]. unfold p_check, ps_ok, in_u64 in *.
  destruct (seq >? maxSeq c) eqn:E1.
  - destruct (seq <=? maxSeq c) eqn:E1'; [lia|reflexivity].
  - destruct (seq <=? maxSeq c) eqn:E1'; [|lia]. simpl.
    destruct (seq <=? p_latest s) eqn:E2.
    + rewrite u64_id by lia.
      destruct (p_latest s - seq >=? window c) eqn:E3.
      * rewrite <- IL.
        destruct (p_latest s <? seq) eqn:E4; [lia|].
        destruct (p_latest s - seq <? window c) eqn:E5; [lia|].
        rewrite andb_false_r. reflexivity.
      * rewrite <- IL.
        destruct (p_latest s <? seq) eqn:E4; [lia|].
        destruct (p_latest s - seq <? window c) eqn:E5; [|lia].
        simpl. rewrite andb_true_r. f_equal.
        specialize (IB (p_latest s - seq)).
        replace (p_latest s - (p_latest s - seq)) with seq in IB by lia.
        destruct (mbit (window c) (p_mask s) (p_latest s - seq)) eqn:Eb;
          destruct (memz seq acc) eqn:Em; try reflexivity.
        -- assert (In seq acc) by (apply IB; [lia|reflexivity]).
           apply memz_In in H. congruence.
        -- apply memz_In in Em. apply IB in Em; [congruence|lia].
    + rewrite <- IL. destruct (p_latest s <? seq) eqn:E4; [|lia].
      simpl. rewrite andb_true_r.
      destruct (memz seq acc) eqn:Em; [|reflexivity].
      apply memz_In in Em. apply newest_ge in Em. lia.
Qed.

Lemma p_accept_spec c s acc seq s' l :
  in_u64 (window c) -> in_u64 seq -> in_u64 (p_latest s) -> PInv c s acc ->
  p_check c s seq = true -> p_accept c s seq = (s', l) ->
  l = ps_latest acc seq /\ PInv c s' (seq :: acc) /\ in_u64 (p_latest s').
Proof.
  intros Hw Hs Hl I Hc Ha. pose proof I as [IL IP IB].
  unfold p_accept in Ha. unfold p_check in Hc. unfold in_u64 in *.
  destruct (seq >? maxSeq c) eqn:E0; [discriminate|].
  destruct (seq >? p_latest s) eqn:E1.
  - (* the window advances *)
    destruct (seq <=? p_latest s) eqn:E1'; [lia|].
    inversion Ha; subst s' l; clear Ha. simpl.
    split; [|split].
    + symmetry. unfold ps_latest. apply forallb_forall. intros a Ha.
      apply newest_ge in Ha. apply Z.ltb_lt. lia.
    + split; simpl.
      * rewrite <- IL. lia.
      * intros a [<-|Ha]; [lia|auto].
      * intros d Hd. rewrite u64_id by lia.
        rewrite mbit_mset by lia. rewrite mbit_mlsh by lia.
        rewrite orb_true_iff, andb_true_iff.
        split.
        -- intros [E|[E1a E2]].
           ++ left. lia.
           ++ right. apply IB in E2; [|lia].
              replace (p_latest s - (d - (seq - p_latest s))) with (seq - d) in E2 by lia.
              assumption.
        -- intros [E|Hin].
           ++ left. lia.
           ++ right. pose proof (newest_ge _ _ Hin) as Hge. rewrite <- IL in Hge.
              split; [lia|]. apply IB; [lia|].
              replace (p_latest s - (d - (seq - p_latest s))) with (seq - d) by lia.
              assumption.
    + lia.
  - (* a late arrival inside the window *)
    destruct (seq <=? p_latest s) eqn:E1'; [|lia].
    rewrite u64_id in * by lia.
    destruct (p_latest s - seq >=? window c) eqn:E2; [discriminate|].
    inversion Ha; subst s' l; clear Ha. simpl.
    assert (Hnotin : ~ In seq acc).
    { intros Hin. specialize (IB (p_latest s - seq)).
      replace (p_latest s - (p_latest s - seq)) with seq in IB by lia.
      apply IB in Hin; [|lia]. rewrite Hin in Hc. discriminate. }
    split; [|split].
    + destruct acc as [|a0 acc0].
      * simpl in IL. simpl. destruct (seq =? 0) eqn:Ea; destruct (p_latest s =? 0) eqn:Eb; try reflexivity; lia.
      * assert (Hin : In (newest (a0 :: acc0)) (a0 :: acc0)) by (apply newest_in; [congruence|assumption]).
        transitivity false.
        -- destruct (seq =? 0) eqn:Ea; [|reflexivity]. destruct (p_latest s =? 0) eqn:Eb; [|reflexivity].
           exfalso. apply Hnotin. rewrite <- IL in Hin.
           replace seq with (p_latest s) by lia. assumption.
        -- symmetry. apply not_true_is_false. intros Hall. unfold ps_latest in Hall.
           rewrite forallb_forall in Hall. specialize (Hall _ Hin).
           rewrite <- IL in Hall. lia.
    + split; simpl.
      * rewrite IL. pose proof (newest_nonneg acc). rewrite <- IL. lia.
      * intros a [<-|Ha]; [lia|auto].
      * intros d Hd. rewrite mbit_mset by lia. rewrite orb_true_iff.
        split.
        -- intros [E|E]; [left; lia|right; apply IB; assumption].
        -- intros [E|Hin]; [left; lia|right; apply IB; assumption].
    + assumption.
Qed.

Lemma p_step_spec c s acc seq inv s' o :
  in_u64 (window c) -> in_u64 seq -> in_u64 (p_latest s) -> PInv c s acc ->
  p_step c s seq inv = (s', o) ->
  exists acc', ps_step c acc seq inv = (acc', o) /\ PInv c s' acc' /\ in_u64 (p_latest s').
Proof.
  intros Hw Hs Hl I H. unfold p_step in H. unfold ps_step.
  rewrite <- (p_check_spec c s acc seq) by assumption.
  destruct (p_check c s seq) eqn:Hc.
  - destruct inv.
    + destruct (p_accept c s seq) as [s1 l] eqn:Ha. inversion H; subst; clear H.
      destruct (p_accept_spec c s acc seq s' l Hw Hs Hl I Hc Ha) as [-> [I' R]].
      eexists; split; [reflexivity|split; assumption].
    + inversion H; subst. eexists; split; [reflexivity|split; assumption].
  - inversion H; subst. eexists; split; [reflexivity|split; assumption].
Qed.

Definition ops_in_range (h : list op) : Prop := Forall (fun o => in_u64 (fst o)) h.

Theorem p_run_refines c h : in_u64 (window c) -> ops_in_range h ->
  forall s acc, in_u64 (p_latest s) -> PInv c s acc -> p_run c s h = ps_run c acc h.
Proof.
  intros Hw. induction h as [|[seq inv] h IH]; intros Hr s acc Hl I; [reflexivity|].
  inversion Hr as [|? ? Hseq Hr']; subst. simpl in Hseq. simpl.
  destruct (p_step c s seq inv) as [s' o] eqn:Hst.
  destruct (p_step_spec c s acc seq inv s' o Hw Hseq Hl I Hst) as [acc' [E [I' R]]].
  rewrite E. f_equal. apply IH; assumption.
Qed.

(* ---- C04 for the Spec: an accepted number is refused for ever ------------------------- *)

Lemma ps_step_acc_mono c acc seq inv a :
  In a acc -> In a (fst (ps_step c acc seq inv)).
Proof.
  unfold ps_step. destruct (ps_ok c acc seq); [destruct inv|]; simpl; auto.
Qed.

Lemma ps_refuses_accepted c acc seq inv : In seq acc -> fst (snd (ps_step c acc seq inv)) = false.
Proof.
  intros Hin. unfold ps_step, ps_ok. apply memz_In in Hin. rewrite Hin.
  rewrite andb_false_r. reflexivity.
Qed.

Lemma ps_above_max c acc seq inv : maxSeq c < seq -> fst (snd (ps_step c acc seq inv)) = false.
Proof.
  intros H. unfold ps_step, ps_ok. destruct (seq <=? maxSeq c) eqn:E; [lia|]. reflexivity.
Qed.

(* every observation of a history after [seq] was accepted refuses [seq] *)
Lemma ps_run_no_replay c h : forall acc seq, In seq acc ->
  forall i inv o, nth_error h i = Some (seq, inv) -> nth_error (ps_run c acc h) i = Some o ->
  fst o = false.
Proof.
  induction h as [|[sq iv] h IH]; intros acc seq Hin i inv o Hn Ho.
  - destruct i; discriminate.
  - simpl in Ho. destruct (ps_step c acc sq iv) as [a' o'] eqn:E.
    destruct i as [|i]; simpl in *.
    + inversion Hn; subst. inversion Ho; subst.
      pose proof (ps_refuses_accepted c acc seq inv Hin) as R. rewrite E in R. exact R.
    + eapply IH; [|exact Hn|exact Ho].
      pose proof (ps_step_acc_mono c acc sq iv seq Hin) as M. rewrite E in M. exact M.
Qed.
