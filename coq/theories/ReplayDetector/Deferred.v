(* Plain detector: callbacks that are kept and invoked later - after other checks and accepts, in any order, more than
   once. The representation invariant of PlainProofs.v does not need the check to have succeeded in the state in which the
   callback runs, so "an accepted number is refused for ever" (C04) holds for every order of Check and accept calls. *)
From Tx Require Import Common.Base ReplayDetector.Model ReplayDetector.Spec ReplayDetector.PlainProofs.

Inductive pev := PCheck (seq : Z) | PAccept (seq : Z).

(* Check is pure; the callback of a successful Check(seq), whenever it is invoked, runs [p_accept] on the state of that moment *)
Definition pe_step (c : cfg) (s : pstate) (e : pev) : pstate * option bool :=
  match e with
  | PCheck seq => (s, Some (p_check c s seq))
  | PAccept seq => (fst (p_accept c s seq), None)
  end.

Fixpoint pe_run (c : cfg) (s : pstate) (h : list pev) : list (option bool) :=
  match h with
  | [] => []
  | e :: h' => let '(s', o) := pe_step c s e in o :: pe_run c s' h'
  end.

Definition pev_seq (e : pev) : Z := match e with PCheck s | PAccept s => s end.
Definition pevs_in_range (h : list pev) : Prop := Forall (fun e => in_u64 (pev_seq e)) h.

(* the invariant survives an accept of any number, whether or not a check of it would succeed now *)
Lemma p_accept_inv c s acc seq :
  in_u64 (window c) -> in_u64 seq -> in_u64 (p_latest s) -> PInv c s acc ->
  PInv c (fst (p_accept c s seq)) (seq :: acc) /\ in_u64 (p_latest (fst (p_accept c s seq))).
Proof.
  intros Hw Hs Hl I. pose proof I as [IL IP IB]. unfold p_accept, in_u64 in *.
  destruct (seq >? p_latest s) eqn:E1; simpl.
  - (* the window advances *)
    split; [|lia]. split; simpl.
    + rewrite <- IL. lia.
    + intros a [<-|Ha]; [lia|auto].
    + intros d Hd. rewrite u64_id by lia.
      rewrite mbit_mset by lia. rewrite mbit_mlsh by lia.
      rewrite orb_true_iff, andb_true_iff.
      split.
      * intros [E|[E1a E2]].
        -- left. lia.
        -- right. apply IB in E2; [|lia].
           replace (p_latest s - (d - (seq - p_latest s))) with (seq - d) in E2 by lia.
           assumption.
      * intros [E|Hin].
        -- left. lia.
        -- right. pose proof (newest_ge _ _ Hin) as Hge. rewrite <- IL in Hge.
           split; [lia|]. apply IB; [lia|].
           replace (p_latest s - (d - (seq - p_latest s))) with (seq - d) by lia.
           assumption.
  - (* at or behind the head: inside the window the bit is set (again), behind it nothing changes *)
    split; [|lia]. rewrite u64_id by lia. split; simpl.
    + rewrite IL. pose proof (newest_nonneg acc). rewrite <- IL. lia.
    + intros a [<-|Ha]; [lia|auto].
    + intros d Hd.
      destruct (p_latest s - seq >=? window c) eqn:E2.
      * (* too old: the bitmap is untouched and no position of the window stands for [seq] *)
        unfold mset. rewrite E2. split.
        -- intros Hb. right. apply IB; assumption.
        -- intros [E|Hin]; [lia|apply IB; assumption].
      * rewrite mbit_mset by lia. rewrite orb_true_iff. split.
        -- intros [E|E]; [left; lia|right; apply IB; assumption].
        -- intros [E|Hin]; [left; lia|right; apply IB; assumption].
Qed.

(* the numbers whose accept has been invoked along a history *)
Fixpoint pe_acc (acc : list Z) (h : list pev) : list Z :=
  match h with
  | [] => acc
  | PAccept seq :: h' => pe_acc (seq :: acc) h'
  | PCheck _ :: h' => pe_acc acc h'
  end.

Lemma pe_step_inv c s acc e :
  in_u64 (window c) -> in_u64 (pev_seq e) -> in_u64 (p_latest s) -> PInv c s acc ->
  PInv c (fst (pe_step c s e)) (pe_acc acc [e]) /\ in_u64 (p_latest (fst (pe_step c s e))).
Proof.
  intros Hw Hs Hl I. destruct e as [seq|seq]; simpl in *.
  - split; assumption.
  - apply p_accept_inv; assumption.
Qed.

(* every Check answers by the sliding-window rule over the numbers accepted so far - whatever the order of the calls *)
Theorem pe_check_is_rule c h : in_u64 (window c) -> pevs_in_range h ->
  forall s acc, in_u64 (p_latest s) -> PInv c s acc ->
  forall i seq, nth_error h i = Some (PCheck seq) ->
  nth_error (pe_run c s h) i = Some (Some (ps_ok c (pe_acc acc (firstn i h)) seq)).
Proof.
  intros Hw. induction h as [|e h IH]; intros Hr s acc Hl I i seq Hn.
  - destruct i; discriminate.
  - inversion Hr as [|? ? He Hr']; subst.
    destruct (pe_step_inv c s acc e Hw He Hl I) as [I' L'].
    simpl. destruct (pe_step c s e) as [s' o] eqn:Est. simpl in I', L'.
    destruct i as [|i]; simpl in *.
    + inversion Hn; subst e. simpl in Est. inversion Est; subst.
      rewrite (p_check_spec c s' acc seq Hw He Hl I). reflexivity.
    + destruct e as [sq|sq]; simpl in *; apply IH; assumption.
Qed.

Lemma pe_acc_mono h : forall acc a, In a acc -> In a (pe_acc acc h).
Proof.
  induction h as [|e h IH]; intros acc a Ha; simpl; [assumption|].
  destruct e; apply IH; [assumption|right; assumption].
Qed.

Lemma pe_acc_has h : forall acc i seq, nth_error h i = Some (PAccept seq) -> In seq (pe_acc acc h).
Proof.
  induction h as [|e h IH]; intros acc i seq Hn; [destruct i; discriminate|].
  destruct i as [|i]; simpl in *.
  - inversion Hn; subst. apply pe_acc_mono. left. reflexivity.
  - destruct e; eapply IH; exact Hn.
Qed.

Lemma firstn_nth_error {A} (l : list A) : forall i j x, (i < j)%nat -> nth_error l i = Some x -> nth_error (firstn j l) i = Some x.
Proof.
  induction l as [|a l IH]; intros i j x Hij Hn; [destruct i; discriminate|].
  destruct j as [|j]; [lia|]. destruct i as [|i]; simpl in *; [assumption|]. apply IH; [lia|assumption].
Qed.

(* C04 for every order of calls: once the callback of [seq] has run, every later Check of [seq] is refused *)
Theorem pe_no_replay c h i j seq :
  in_u64 (window c) -> pevs_in_range h -> (i < j)%nat ->
  nth_error h i = Some (PAccept seq) -> nth_error h j = Some (PCheck seq) ->
  nth_error (pe_run c p_init h) j = Some (Some false).
Proof.
  intros Hw Hr Hij Hi Hj.
  rewrite (pe_check_is_rule c h Hw Hr p_init [] ltac:(unfold in_u64, two64; simpl; lia) (PInv_init c) j seq Hj).
  f_equal. f_equal. unfold ps_ok.
  assert (Hin : In seq (pe_acc [] (firstn j h))).
  { apply pe_acc_has with i. apply firstn_nth_error; assumption. }
  apply memz_In in Hin. rewrite Hin. rewrite andb_false_r. reflexivity.
Qed.

(* ---- the wire-level runner of the correspondence check, defined through [pe_step] -----------------------------------
   operations [seq; 0] Check, [seq; 1] Check and invoke its callback at once, [seq; 2] Check and keep the callback,
   [j; 3] invoke the callback kept by operation j (a refused Check's callback does nothing and answers false).
   observations [ok; callback result or -1] and, for [j; 3], [2; callback result] *)
Fixpoint lookup_kept (j : Z) (kept : list (Z * (Z * bool))) : option (Z * bool) :=
  match kept with
  | [] => None
  | (k, v) :: t => if k =? j then Some v else lookup_kept j t
  end.

Fixpoint px_run (c : cfg) (s : pstate) (idx : Z) (kept : list (Z * (Z * bool))) (ops : list zs) : list zs :=
  match ops with
  | [] => []
  | o :: rest =>
      match o with
      | x :: k :: _ =>
          if k =? 2 then
            let ok := p_check c s x in
            [b2z ok; -1] :: px_run c s (idx + 1) ((idx, (x, ok)) :: kept) rest
          else if k =? 3 then
            match lookup_kept x kept with
            | Some (sq, true) =>
                let '(s', l) := p_accept c s sq in [2; b2z l] :: px_run c s' (idx + 1) kept rest
            | _ => [2; 0] :: px_run c s (idx + 1) kept rest
            end
          else
            let '(s', ob) := p_step c s x (z2b k) in enc_obs ob :: px_run c s' (idx + 1) kept rest
      | _ => [0; -1] :: px_run c s (idx + 1) kept rest
      end
  end.

(* on histories without kept callbacks it is the runner of Model.v *)
Lemma px_run_plain c : forall ops s idx kept,
  Forall (fun o => match o with _ :: k :: _ => k = 0 \/ k = 1 | _ => False end) ops ->
  px_run c s idx kept ops = map enc_obs (p_run c s (map dec_op ops)).
Proof.
  induction ops as [|o ops IH]; intros s idx kept Hf; [reflexivity|].
  inversion Hf as [|? ? Ho Hf']; subst.
  destruct o as [|x [|k t]]; try contradiction.
  cbn [px_run map dec_op p_run].
  assert (E2 : (k =? 2) = false) by (destruct Ho; subst; reflexivity).
  assert (E3 : (k =? 3) = false) by (destruct Ho; subst; reflexivity).
  rewrite E2, E3. destruct (p_step c s x (z2b k)) as [s' ob]. cbn [map]. f_equal. apply IH. assumption.
Qed.

(* oracle for the extended operations: the accepted numbers are those whose callback the implementation ran after a Check it
   answered with ok; flags 1, 2, 4 judge every Check, flag 8 only callbacks invoked at once *)
Fixpoint px_oracle (c : cfg) (acc : list Z) (idx : Z) (kept : list (Z * (Z * bool))) (ops observed : list zs) : list Z :=
  match ops, observed with
  | o :: rest, ob :: obs' =>
      match o with
      | x :: k :: _ =>
          if k =? 3 then
            match lookup_kept x kept with
            | Some (sq, true) => 0 :: px_oracle c (sq :: acc) (idx + 1) kept rest obs'
            | _ => 0 :: px_oracle c acc (idx + 1) kept rest obs'
            end
          else
            let '(ok, res) := dec_obs ob in
            let inv := k =? 1 in
            let lat := match res with Some b => b | None => false end in
            let code :=
              flag 1 (ok && memz x acc) + flag 2 (ok && (x >? maxSeq c)) +
              flag 4 (negb (Bool.eqb ok (ps_ok c acc x))) +
              flag 8 ((inv && ok && negb (Bool.eqb lat (ps_latest acc x))) || (negb ok && lat)) in
            code :: px_oracle c (if ok && inv then x :: acc else acc) (idx + 1)
                      (if k =? 2 then (idx, (x, ok)) :: kept else kept) rest obs'
      | _ => 0 :: px_oracle c acc (idx + 1) kept rest obs'
      end
  | _, _ => []
  end.
