(* Interleaving model of one context-aware operation of netctx / connctx (ReadContext,
   WriteContext, ReadFromContext, WriteToContext: the six functions have the same shape):

     main:     #0 Lock  #1 select{closed | default}  #2 wg.Add  #3 go watcher
               wrapped operation (blocks until the wrapped connection can complete it or its
               deadline is in the past)            #6 close(done)  #7 wg.Wait   return
     watcher:  #4 select{ ctx.Done: set past deadline ; done: exit }
               #5 <-done ; restore the zero deadline ; exit
     environment: the context is cancelled; the wrapped connection becomes ready (data arrives /
               the peer reads), at any moment.

   The state space of one operation is finite, so the theorems about all interleavings are
   proved by computing the set of reachable states inside Coq and checking it (Ctx/Proofs.v). *)
From Tx Require Import Common.Base.

Inductive mpc := M0 | M1 | M2 | M3 | MOp | M6 | M7 | MRet.
Inductive wpc := WNone | W4 | WSetPast | W5 | WRestore | WEnd.

Record cx := {
  mp : mpc; wp : wpc;
  cancelled : bool;       (* ctx.Done() is closed *)
  done_closed : bool;
  dl_past : bool;         (* the wrapped connection's deadline is in the past *)
  ready : bool;           (* the wrapped operation can complete with data *)
  half : bool;            (* the wrapped write has transferred part of its data and waits for the peer to take the rest *)
  failing : bool;         (* the wrapped connection is about to fail an operation with an error of its own (not a timeout) *)
  op_err : bool;          (* the wrapped operation failed with that error *)
  refusing : bool;        (* the wrapped connection will refuse the next call that sets its deadline *)
  set_err : bool;         (* the watcher of this operation has recorded the error of a refused deadline call *)
  tainted : bool;         (* ghost: some deadline call has been refused so far (then nothing can be promised about deadlines) *)
  op_n : Z;               (* result of the wrapped operation: bytes (1 stands for "some") *)
  op_timeout : bool;      (* the wrapped operation failed with a timeout *)
  ret_ctx_err : bool;     (* the operation returned the context's error *)
  ret_n : Z
}.

Definition cx0 : cx :=
  {| mp := M0; wp := WNone; cancelled := false; done_closed := false; dl_past := false; ready := false; half := false;
     failing := false; op_err := false; refusing := false; set_err := false; tainted := false; op_n := 0; op_timeout := false; ret_ctx_err := false; ret_n := 0 |}.

Definition set_m (s : cx) (p : mpc) : cx :=
  {| mp := p; wp := wp s; cancelled := cancelled s; done_closed := done_closed s; dl_past := dl_past s; ready := ready s; half := half s; failing := failing s; op_err := op_err s; refusing := refusing s; set_err := set_err s; tainted := tainted s;
     op_n := op_n s; op_timeout := op_timeout s; ret_ctx_err := ret_ctx_err s; ret_n := ret_n s |}.
Definition set_w (s : cx) (p : wpc) : cx :=
  {| mp := mp s; wp := p; cancelled := cancelled s; done_closed := done_closed s; dl_past := dl_past s; ready := ready s; half := half s; failing := failing s; op_err := op_err s; refusing := refusing s; set_err := set_err s; tainted := tainted s;
     op_n := op_n s; op_timeout := op_timeout s; ret_ctx_err := ret_ctx_err s; ret_n := ret_n s |}.

(* events: 0-9 main steps, 10-19 watcher steps, 20-29 environment *)
Inductive cev :=
| EM_lock | EM_check | EM_add | EM_go
| EM_op_data | EM_op_timeout          (* the wrapped operation returns *)
| EM_close_done | EM_wait_return
| EW_ctx | EW_done | EW_set_past | EW_recv_done | EW_restore
| EN_cancel | EN_ready
| EM_next                              (* the caller starts the next operation with a fresh context *)
| EM_op_partial                        (* the wrapped write returns some of the bytes and a timeout error *)
| EN_half                              (* the peer takes part of a pending write *)
| EM_op_data0                          (* the wrapped operation completes an empty transfer (zero-length datagram or write) *)
| EM_op_err                            (* the wrapped operation fails with an error of the wrapped connection's own *)
| EN_fail                              (* the wrapped connection gets ready to fail an operation (transient error) *)
| EN_refuse                            (* the wrapped connection will refuse the next call that sets its deadline *)
| EW_set_past_fail                     (* the watcher's SetDeadline(long ago) is refused: it records the error and exits *)
| EW_restore_fail.                     (* the watcher's SetDeadline(zero) is refused: it records the error; the forced deadline stays *)

Definition cxstep (s : cx) (e : cev) : option cx :=
  match e with
  | EM_lock => match mp s with M0 => Some (set_m s M1) | _ => None end
  | EM_check => match mp s with M1 => Some (set_m s M2) | _ => None end
  | EM_add => match mp s with M2 => Some (set_m s M3) | _ => None end
  | EM_go => match mp s with M3 => Some (set_w (set_m s MOp) W4) | _ => None end
  | EM_op_data =>
      match mp s with
      | MOp => if ready s then
                 Some {| mp := M6; wp := wp s; cancelled := cancelled s; done_closed := done_closed s; dl_past := dl_past s;
                         ready := false; half := false; failing := failing s; op_err := false; refusing := refusing s; set_err := set_err s; tainted := tainted s; op_n := 1; op_timeout := false; ret_ctx_err := false; ret_n := 0 |}
               else None
      | _ => None
      end
  | EM_op_timeout =>
      match mp s with
      | MOp => if dl_past s && negb (half s) then
                 Some {| mp := M6; wp := wp s; cancelled := cancelled s; done_closed := done_closed s; dl_past := dl_past s;
                         ready := ready s; half := half s; failing := failing s; op_err := false; refusing := refusing s; set_err := set_err s; tainted := tainted s; op_n := 0; op_timeout := true; ret_ctx_err := false; ret_n := 0 |}
               else None
      | _ => None
      end
  | EM_close_done =>
      match mp s with
      | M6 => Some {| mp := M7; wp := wp s; cancelled := cancelled s; done_closed := true; dl_past := dl_past s;
                      ready := ready s; half := half s; failing := failing s; op_err := op_err s; refusing := refusing s; set_err := set_err s; tainted := tainted s; op_n := op_n s; op_timeout := op_timeout s; ret_ctx_err := false; ret_n := 0 |}
      | _ => None
      end
  | EM_wait_return =>
      (* wg.Wait returns once the watcher has exited; then: if e := ctx.Err(); e != nil && n == 0 { err = e } *)
      match mp s, wp s with
      | M7, WEnd => Some {| mp := MRet; wp := WEnd; cancelled := cancelled s; done_closed := done_closed s; dl_past := dl_past s;
                            ready := ready s; half := half s; failing := failing s; op_err := op_err s; refusing := refusing s; set_err := set_err s; tainted := tainted s; op_n := op_n s; op_timeout := op_timeout s;
                            ret_ctx_err := cancelled s && (op_n s =? 0); ret_n := op_n s |}
      | _, _ => None
      end
  | EW_ctx => match wp s with W4 => if cancelled s then Some (set_w s WSetPast) else None | _ => None end
  | EW_done => match wp s with W4 => if done_closed s then Some (set_w s WEnd) else None | _ => None end
  | EW_set_past =>
      match wp s with
      | WSetPast => if refusing s then None else Some {| mp := mp s; wp := W5; cancelled := cancelled s; done_closed := done_closed s; dl_past := true;
                            ready := ready s; half := half s; failing := failing s; op_err := op_err s; refusing := refusing s; set_err := set_err s; tainted := tainted s; op_n := op_n s; op_timeout := op_timeout s; ret_ctx_err := ret_ctx_err s; ret_n := ret_n s |}
      | _ => None
      end
  | EW_recv_done => match wp s with W5 => if done_closed s then Some (set_w s WRestore) else None | _ => None end
  | EW_restore =>
      match wp s with
      | WRestore => if refusing s then None else Some {| mp := mp s; wp := WEnd; cancelled := cancelled s; done_closed := done_closed s; dl_past := false;
                            ready := ready s; half := half s; failing := failing s; op_err := op_err s; refusing := refusing s; set_err := set_err s; tainted := tainted s; op_n := op_n s; op_timeout := op_timeout s; ret_ctx_err := ret_ctx_err s; ret_n := ret_n s |}
      | _ => None
      end
  | EN_cancel =>
      (* a context that ends after its operation has returned is of no consequence: [cancelled] means "ended before the return" *)
      match mp s with
      | MRet => Some s
      | _ =>
      Some {| mp := mp s; wp := wp s; cancelled := true; done_closed := done_closed s; dl_past := dl_past s; ready := ready s; half := half s; failing := failing s; op_err := op_err s; refusing := refusing s; set_err := set_err s; tainted := tainted s;
              op_n := op_n s; op_timeout := op_timeout s; ret_ctx_err := ret_ctx_err s; ret_n := ret_n s |}
      end
  | EN_ready =>
      Some {| mp := mp s; wp := wp s; cancelled := cancelled s; done_closed := done_closed s; dl_past := dl_past s; ready := true; half := half s; failing := failing s; op_err := op_err s; refusing := refusing s; set_err := set_err s; tainted := tainted s;
              op_n := op_n s; op_timeout := op_timeout s; ret_ctx_err := ret_ctx_err s; ret_n := ret_n s |}
  | EM_next =>
      match mp s with
      | MRet => Some {| mp := M0; wp := WNone; cancelled := false; done_closed := false; dl_past := dl_past s; ready := ready s; half := false; failing := failing s; op_err := false; refusing := refusing s; set_err := false; tainted := tainted s;
                        op_n := 0; op_timeout := false; ret_ctx_err := false; ret_n := 0 |}
      | _ => None
      end
  | EM_op_partial =>
      match mp s with
      | MOp => if dl_past s && half s then
                 Some {| mp := M6; wp := wp s; cancelled := cancelled s; done_closed := done_closed s; dl_past := dl_past s;
                         ready := ready s; half := false; failing := failing s; op_err := false; refusing := refusing s; set_err := set_err s; tainted := tainted s; op_n := 1; op_timeout := true; ret_ctx_err := false; ret_n := 0 |}
               else None
      | _ => None
      end
  | EM_op_data0 =>
      match mp s with
      | MOp => if ready s then
                 Some {| mp := M6; wp := wp s; cancelled := cancelled s; done_closed := done_closed s; dl_past := dl_past s;
                         ready := false; half := false; failing := failing s; op_err := false; refusing := refusing s; set_err := set_err s; tainted := tainted s; op_n := 0; op_timeout := false;
                         ret_ctx_err := false; ret_n := 0 |}
               else None
      | _ => None
      end
  | EM_op_err =>
      match mp s with
      | MOp => if failing s then
                 Some {| mp := M6; wp := wp s; cancelled := cancelled s; done_closed := done_closed s; dl_past := dl_past s;
                         ready := ready s; half := false; failing := false; op_err := true; refusing := refusing s; set_err := set_err s; tainted := tainted s; op_n := 0; op_timeout := false;
                         ret_ctx_err := false; ret_n := 0 |}
               else None
      | _ => None
      end
  | EN_fail =>
      Some {| mp := mp s; wp := wp s; cancelled := cancelled s; done_closed := done_closed s; dl_past := dl_past s; ready := ready s;
              half := half s; failing := true; op_err := op_err s; refusing := refusing s; set_err := set_err s; tainted := tainted s; op_n := op_n s; op_timeout := op_timeout s;
              ret_ctx_err := ret_ctx_err s; ret_n := ret_n s |}
  | EN_refuse =>
      Some {| mp := mp s; wp := wp s; cancelled := cancelled s; done_closed := done_closed s; dl_past := dl_past s; ready := ready s;
              half := half s; failing := failing s; op_err := op_err s; refusing := true; set_err := set_err s; tainted := tainted s;
              op_n := op_n s; op_timeout := op_timeout s; ret_ctx_err := ret_ctx_err s; ret_n := ret_n s |}
  | EW_set_past_fail =>
      match wp s with
      | WSetPast => if refusing s then
                      Some {| mp := mp s; wp := WEnd; cancelled := cancelled s; done_closed := done_closed s; dl_past := dl_past s;
                              ready := ready s; half := half s; failing := failing s; op_err := op_err s; refusing := false;
                              set_err := true; tainted := true; op_n := op_n s; op_timeout := op_timeout s;
                              ret_ctx_err := ret_ctx_err s; ret_n := ret_n s |}
                    else None
      | _ => None
      end
  | EW_restore_fail =>
      match wp s with
      | WRestore => if refusing s then
                      Some {| mp := mp s; wp := WEnd; cancelled := cancelled s; done_closed := done_closed s; dl_past := dl_past s;
                              ready := ready s; half := half s; failing := failing s; op_err := op_err s; refusing := false;
                              set_err := true; tainted := true; op_n := op_n s; op_timeout := op_timeout s;
                              ret_ctx_err := ret_ctx_err s; ret_n := ret_n s |}
                    else None
      | _ => None
      end
  | EN_half =>
      match mp s with
      | MOp => Some {| mp := mp s; wp := wp s; cancelled := cancelled s; done_closed := done_closed s; dl_past := dl_past s;
                       ready := ready s; half := true; failing := failing s; op_err := op_err s; refusing := refusing s; set_err := set_err s; tainted := tainted s; op_n := op_n s; op_timeout := op_timeout s; ret_ctx_err := ret_ctx_err s;
                       ret_n := ret_n s |}
      | _ => None
      end
  end.

Definition all_events : list cev :=
  [EM_lock; EM_check; EM_add; EM_go; EM_op_data; EM_op_timeout; EM_close_done; EM_wait_return;
   EW_ctx; EW_done; EW_set_past; EW_recv_done; EW_restore; EN_cancel; EN_ready; EM_next; EM_op_partial; EN_half;
   EM_op_data0; EM_op_err; EN_fail; EN_refuse; EW_set_past_fail; EW_restore_fail].

Fixpoint cxrun (s : cx) (h : list cev) : option cx :=
  match h with
  | [] => Some s
  | e :: h' => match cxstep s e with Some s' => cxrun s' h' | None => None end
  end.

(* ---- replay of scheduler logs: the harness translates its log into event codes --------------------- *)
Definition ev_of_code (c : Z) : option cev :=
  nth_error all_events (Z.to_nat c).

(* the error an operation returns is the context's (ret_ctx_err), else the wrapped operation's own *)
Definition ret_own_err (s : cx) : bool := op_err s && negb (ret_ctx_err s).
(* ... and when there is no error at all, the recorded error of a refused deadline call *)
Definition ret_set_err (s : cx) : bool := set_err s && negb (ret_ctx_err s) && negb (op_err s) && negb (op_timeout s).

(* a log entry is [code] or, for the return of an operation, [7; n; context error?; the wrapped connection's own error?]:
   the result the implementation reported, which must be the model's *)
Definition result_matches (s : cx) (extra : zs) : bool :=
  match extra with
  | [n; ce; oe; se] => (ret_n s =? n) && (b2z (ret_ctx_err s) =? ce) && (b2z (ret_own_err s) =? oe) && (b2z (ret_set_err s) =? se)
  | [n; ce; oe] => (ret_n s =? n) && (b2z (ret_ctx_err s) =? ce) && (b2z (ret_own_err s) =? oe)
  | [n; ce] => (ret_n s =? n) && (b2z (ret_ctx_err s) =? ce)
  | _ => true
  end.

Fixpoint cx_replay (s : cx) (log : list zs) (idx : Z) : cx * option Z :=
  match log with
  | [] => (s, None)
  | (c :: extra) :: rest =>
      match ev_of_code c with
      | Some e => match cxstep s e with
                  | Some s' => if result_matches s' extra then cx_replay s' rest (idx + 1) else (s', Some idx)
                  | None => (s, Some idx)
                  end
      | None => (s, Some idx)
      end
  | [] :: rest => cx_replay s rest (idx + 1)
  end.

Definition mpc_code (p : mpc) : Z := match p with M0 => 0 | M1 => 1 | M2 => 2 | M3 => 3 | MOp => 4 | M6 => 6 | M7 => 7 | MRet => 8 end.

(* answer: [1; returned?; n; ctx error?; leftover past deadline?; watcher alive?] or [0; index] *)
Definition c17_replay (log : list zs) : list zs :=
  let '(s, bad) := cx_replay cx0 log 0 in
  match bad with
  | Some i => [[0; i]]
  | None => [[1; b2z (match mp s with MRet => true | _ => false end); ret_n s; b2z (ret_ctx_err s); b2z (dl_past s);
              b2z (match wp s with WEnd | WNone => false | _ => true end)]]
  end.
