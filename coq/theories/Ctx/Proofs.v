(* All interleavings of the context-aware operations: the reachable states are computed inside Coq,
   shown closed under every event, and the properties are checked on each of them. *)
From Tx Require Import Common.Base Common.ListZ Ctx.Model.

Definition mpc_eqb (a b : mpc) : bool :=
  match a, b with
  | M0, M0 | M1, M1 | M2, M2 | M3, M3 | MOp, MOp | M6, M6 | M7, M7 | MRet, MRet => true
  | _, _ => false
  end.
Definition wpc_eqb (a b : wpc) : bool :=
  match a, b with
  | WNone, WNone | W4, W4 | WSetPast, WSetPast | W5, W5 | WRestore, WRestore | WEnd, WEnd => true
  | _, _ => false
  end.
Definition cx_eqb (a b : cx) : bool :=
  mpc_eqb (mp a) (mp b) && wpc_eqb (wp a) (wp b) && Bool.eqb (cancelled a) (cancelled b) &&
  Bool.eqb (done_closed a) (done_closed b) && Bool.eqb (dl_past a) (dl_past b) && Bool.eqb (ready a) (ready b) && Bool.eqb (half a) (half b) &&
  Bool.eqb (failing a) (failing b) && Bool.eqb (op_err a) (op_err b) &&
  Bool.eqb (refusing a) (refusing b) && Bool.eqb (set_err a) (set_err b) && Bool.eqb (tainted a) (tainted b) &&
  (op_n a =? op_n b) && Bool.eqb (op_timeout a) (op_timeout b) && Bool.eqb (ret_ctx_err a) (ret_ctx_err b) &&
  (ret_n a =? ret_n b).

Lemma mpc_eqb_eq a b : mpc_eqb a b = true -> a = b.
Proof. destruct a, b; simpl; intro H; try reflexivity; discriminate. Qed.
Lemma wpc_eqb_eq a b : wpc_eqb a b = true -> a = b.
Proof. destruct a, b; simpl; intro H; try reflexivity; discriminate. Qed.

Lemma cx_eqb_eq a b : cx_eqb a b = true -> a = b.
Proof.
  unfold cx_eqb. intro H.
  repeat (apply andb_prop in H; let H2 := fresh "H" in destruct H as [H H2]).
  destruct a, b; simpl in *.
  repeat match goal with
         | [ H : mpc_eqb _ _ = true |- _ ] => apply mpc_eqb_eq in H
         | [ H : wpc_eqb _ _ = true |- _ ] => apply wpc_eqb_eq in H
         | [ H : Bool.eqb _ _ = true |- _ ] => apply Bool.eqb_prop in H
         | [ H : (_ =? _) = true |- _ ] => apply Z.eqb_eq in H
         end.
  subst. reflexivity.
Qed.

Definition cx_mem (s : cx) (l : list cx) : bool := existsb (cx_eqb s) l.

Lemma cx_mem_In s l : cx_mem s l = true -> In s l.
Proof.
  unfold cx_mem. intro H. apply existsb_exists in H. destruct H as [x [Hin Heq]].
  apply cx_eqb_eq in Heq. subst. assumption.
Qed.

(* breadth-first closure with fuel *)
Definition succs (s : cx) : list cx :=
  flat_map (fun e => match cxstep s e with Some s' => [s'] | None => [] end) all_events.

Fixpoint add_new (seen todo : list cx) (cands : list cx) : list cx * list cx :=
  match cands with
  | [] => (seen, todo)
  | c :: cs => if cx_mem c seen then add_new seen todo cs else add_new (c :: seen) (c :: todo) cs
  end.

Fixpoint explore (fuel : nat) (seen todo : list cx) : list cx :=
  match fuel with
  | O => seen
  | S f => match todo with
           | [] => seen
           | s :: rest => let '(seen', todo') := add_new seen rest (succs s) in explore f seen' todo'
           end
  end.

Definition reach : list cx := Eval vm_compute in explore 5000 [cx0] [cx0].

Definition closed_b : bool :=
  forallb (fun s => forallb (fun e => match cxstep s e with Some s' => cx_mem s' reach | None => true end) all_events) reach.

Lemma closed_ok : closed_b = true.
Proof. vm_compute. reflexivity. Qed.

Lemma all_events_complete e : In e all_events.
Proof. destruct e; simpl; tauto. Qed.

Lemma reach_step s e s' : In s reach -> cxstep s e = Some s' -> In s' reach.
Proof.
  intros Hin Hs. pose proof closed_ok as C. unfold closed_b in C.
  rewrite forallb_forall in C. specialize (C s Hin). rewrite forallb_forall in C.
  specialize (C e (all_events_complete e)). rewrite Hs in C. apply cx_mem_In. exact C.
Qed.

Lemma reach_init : In cx0 reach.
Proof. apply cx_mem_In. vm_compute. reflexivity. Qed.

Theorem reach_run h : forall s s', In s reach -> cxrun s h = Some s' -> In s' reach.
Proof.
  induction h as [|e h IH]; intros s s' Hin Hr; simpl in Hr.
  - inversion Hr. subst. assumption.
  - destruct (cxstep s e) as [s1|] eqn:E; [|discriminate]. apply IH with s1; [|assumption]. apply reach_step with s e; assumption.
Qed.

Corollary reachable_in h s : cxrun cx0 h = Some s -> In s reach.
Proof. apply reach_run. apply reach_init. Qed.

Lemma check_all (P : cx -> bool) : forallb P reach = true -> forall h s, cxrun cx0 h = Some s -> P s = true.
Proof. intros H h s Hr. rewrite forallb_forall in H. apply H. apply reachable_in with h. assumption. Qed.

(* ---- properties of every reachable state ------------------------------------------------------------- *)

Definition is_ret (s : cx) : bool := match mp s with MRet => true | _ => false end.
Definition w_gone (s : cx) : bool := match wp s with WEnd | WNone => true | _ => false end.
Definition implb' (a b : bool) : bool := if a then b else true.

(* (a) when the operation has returned: the watcher is gone, the wrapped connection has no forced deadline,
       the byte count is the wrapped operation's, and the context's error is reported exactly when the
       context is over and nothing was transferred *)
Definition ret_ok (s : cx) : bool :=
  implb' (is_ret s)
    (match wp s with WEnd => true | _ => false end && (negb (dl_past s) || tainted s) && (ret_n s =? op_n s) &&
     Bool.eqb (ret_ctx_err s) (cancelled s && (op_n s =? 0))).

Lemma ret_ok_all : forallb ret_ok reach = true.
Proof. vm_compute. reflexivity. Qed.

(* (b) a forced deadline exists only while a watcher is still running, and only after the context ended *)
Definition dl_ok (s : cx) : bool :=
  implb' (dl_past s && negb (tainted s)) (cancelled s && match wp s with W5 | WRestore => true | _ => false end).

Lemma dl_ok_all : forallb dl_ok reach = true.
Proof. vm_compute. reflexivity. Qed.

(* (c) a wrapped operation that timed out did so because the context ended (the wrapper never times out
       an operation of its own accord) *)
Definition timeout_ok (s : cx) : bool := implb' (op_timeout s && negb (tainted s)) (cancelled s).

Lemma timeout_ok_all : forallb timeout_ok reach = true.
Proof. vm_compute. reflexivity. Qed.

(* (d) progress: events of the two goroutines (not of the environment) *)
Definition thread_events : list cev :=
  [EM_lock; EM_check; EM_add; EM_go; EM_op_data; EM_op_data0; EM_op_err; EM_op_timeout; EM_op_partial; EM_close_done; EM_wait_return;
   EW_ctx; EW_done; EW_set_past; EW_recv_done; EW_restore; EW_set_past_fail; EW_restore_fail].

Definition can_move (s : cx) : bool :=
  existsb (fun e => match cxstep s e with Some _ => true | None => false end) thread_events.

(* the only states in which neither goroutine can move: the operation has returned, or it sits in the
   wrapped operation with nothing to transfer and a live context - exactly where the wrapped connection
   itself would block *)
Definition stuck_ok (s : cx) : bool :=
  implb' (negb (can_move s) && negb (tainted s))
    (is_ret s || (match mp s with MOp => true | _ => false end && negb (ready s) && negb (cancelled s) && negb (failing s))).

Lemma stuck_ok_all : forallb stuck_ok reach = true.
Proof. vm_compute. reflexivity. Qed.

(* termination measure: every step of a goroutine decreases it, the environment never increases it *)
Definition rank (s : cx) : Z :=
  (match mp s with M0 => 8 | M1 => 7 | M2 => 6 | M3 => 5 | MOp => 4 | M6 => 3 | M7 => 2 | MRet => 0 end) * 10 +
  (match wp s with WNone => 6 | W4 => 5 | WSetPast => 4 | W5 => 3 | WRestore => 2 | WEnd => 1 end).

Definition rank_ok (s : cx) : bool :=
  forallb (fun e => match cxstep s e with Some s' => rank s' <? rank s | None => true end) thread_events &&
  forallb (fun e => match cxstep s e with Some s' => rank s' <=? rank s | None => true end) [EN_cancel; EN_ready; EN_half; EN_fail; EN_refuse].

Lemma rank_ok_all : forallb rank_ok reach = true.
Proof. vm_compute. reflexivity. Qed.

Lemma rank_nonneg s : 0 <= rank s.
Proof. unfold rank. destruct (mp s), (wp s); lia. Qed.

(* ---- conservation over any number of operations -------------------------------------------------------- *)
(* bytes taken from / given to the wrapped connection, and bytes reported to the caller, along a history *)
Fixpoint account (s : cx) (h : list cev) (xfer rep : Z) : option (cx * Z * Z) :=
  match h with
  | [] => Some (s, xfer, rep)
  | e :: h' =>
      match cxstep s e with
      | None => None
      | Some s' =>
          account s' h'
            (match e with EM_op_data | EM_op_partial => xfer + 1 | _ => xfer end)
            (match e with EM_wait_return => rep + ret_n s' | _ => rep end)
      end
  end.

Definition pending (s : cx) : Z := match mp s with M6 | M7 => op_n s | _ => 0 end.

Lemma account_inv h : forall s xfer rep s' xfer' rep',
  account s h xfer rep = Some (s', xfer', rep') -> rep + pending s = xfer -> rep' + pending s' = xfer'.
Proof.
  induction h as [|e h IH]; intros s xfer rep s' xfer' rep' Ha Hi; simpl in Ha.
  - inversion Ha; subst. reflexivity.
  - destruct (cxstep s e) as [s1|] eqn:E; [|discriminate].
    apply IH in Ha; [exact Ha|]. clear IH.
    unfold pending in *.
    destruct e; simpl in E;
      repeat match type of E with
             | context [match mp s with _ => _ end] => destruct (mp s) eqn:?
             | context [match wp s with _ => _ end] => destruct (wp s) eqn:?
             | context [if ?b then _ else _] => destruct b eqn:?
             end; try discriminate; inversion E; subst; simpl;
      repeat match goal with [ H : mp _ = _ |- _ ] => try rewrite H in *; clear H end; simpl in *; lia.
Qed.

Theorem conservation h s xfer rep :
  account cx0 h 0 0 = Some (s, xfer, rep) -> is_ret s = true \/ mp s = M0 -> rep = xfer.
Proof.
  intros Ha Hr. apply account_inv in Ha; [|reflexivity].
  unfold pending in Ha. unfold is_ret in Hr. destruct (mp s); try lia; destruct Hr; discriminate.
Qed.

(* ---- Prop-level statements ------------------------------------------------------------------------------ *)

Definition m0_ok (s : cx) : bool :=
  implb' (match mp s with M0 => true | _ => false end) ((negb (dl_past s) || tainted s) && match wp s with WNone => true | _ => false end).
Lemma m0_ok_all : forallb m0_ok reach = true.
Proof. vm_compute. reflexivity. Qed.

Theorem return_state h s :
  cxrun cx0 h = Some s -> mp s = MRet ->
  wp s = WEnd /\ (tainted s = false -> dl_past s = false) /\ ret_n s = op_n s /\
  (ret_ctx_err s = true <-> cancelled s = true /\ op_n s = 0).
Proof.
  intros Hr Hm. pose proof (check_all ret_ok ret_ok_all h s Hr) as H.
  unfold ret_ok, is_ret, implb' in H. rewrite Hm in H.
  apply andb_prop in H. destruct H as [H H4]. apply andb_prop in H. destruct H as [H H3].
  apply andb_prop in H. destruct H as [H1 H2].
  apply Z.eqb_eq in H3. apply Bool.eqb_prop in H4.
  split; [destruct (wp s); try discriminate; reflexivity|].
  split; [intros Ht; rewrite Ht in H2; destruct (dl_past s); [discriminate|reflexivity]|].
  split; [assumption|].
  rewrite H4. rewrite andb_true_iff, Z.eqb_eq. tauto.
Qed.

Theorem next_op_clean h s :
  cxrun cx0 h = Some s -> mp s = M0 -> tainted s = false -> dl_past s = false /\ wp s = WNone.
Proof.
  intros Hr Hm Ht. pose proof (check_all m0_ok m0_ok_all h s Hr) as H.
  unfold m0_ok, implb' in H. rewrite Hm, Ht in H. destruct (dl_past s), (wp s); simpl in H; try discriminate; split; reflexivity.
Qed.

Theorem forced_deadline_only_after_cancel h s :
  cxrun cx0 h = Some s -> tainted s = false -> dl_past s = true -> cancelled s = true /\ (wp s = W5 \/ wp s = WRestore).
Proof.
  intros Hr Ht Hd. pose proof (check_all dl_ok dl_ok_all h s Hr) as H.
  unfold dl_ok, implb' in H. rewrite Hd, Ht in H. simpl in H. apply andb_prop in H. destruct H as [H1 H2].
  split; [assumption|]. destruct (wp s); try discriminate; tauto.
Qed.

Theorem timeout_only_after_cancel h s :
  cxrun cx0 h = Some s -> tainted s = false -> op_timeout s = true -> cancelled s = true.
Proof.
  intros Hr Ht Hd. pose proof (check_all timeout_ok timeout_ok_all h s Hr) as H.
  unfold timeout_ok, implb' in H. rewrite Hd, Ht in H. exact H.
Qed.

Theorem blocked_only_like_wrapped h s :
  cxrun cx0 h = Some s -> tainted s = false -> can_move s = false ->
  mp s = MRet \/ (mp s = MOp /\ ready s = false /\ cancelled s = false).
Proof.
  intros Hr Ht Hc. pose proof (check_all stuck_ok stuck_ok_all h s Hr) as H.
  unfold stuck_ok, implb', is_ret in H. rewrite Hc, Ht in H. simpl in H.
  destruct (mp s); simpl in H; try discriminate; try (left; reflexivity).
  right. destruct (ready s), (cancelled s); simpl in H; try discriminate. tauto.
Qed.

Corollary cancelled_can_move h s :
  cxrun cx0 h = Some s -> tainted s = false -> cancelled s = true -> mp s <> MRet -> can_move s = true.
Proof.
  intros Hr Ht Hc Hm. destruct (can_move s) eqn:E; [reflexivity|].
  destruct (blocked_only_like_wrapped h s Hr Ht E) as [H|[_ [_ H]]]; congruence.
Qed.

Lemma thread_step_rank h s e s' :
  cxrun cx0 h = Some s -> In e thread_events -> cxstep s e = Some s' -> rank s' < rank s.
Proof.
  intros Hr He Hs. pose proof (check_all rank_ok rank_ok_all h s Hr) as H.
  unfold rank_ok in H. apply andb_prop in H. destruct H as [H _].
  rewrite forallb_forall in H. specialize (H e He). rewrite Hs in H. lia.
Qed.

Lemma cxrun_app s h1 h2 : cxrun s (h1 ++ h2) = match cxrun s h1 with Some s1 => cxrun s1 h2 | None => None end.
Proof.
  revert s. induction h1 as [|e h1 IH]; intro s; simpl; [reflexivity|].
  destruct (cxstep s e); [apply IH|reflexivity].
Qed.

(* the goroutines of one operation take at most rank <= 86 steps: no livelock *)
Theorem thread_steps_bounded h2 : forall h s s2,
  cxrun cx0 h = Some s -> Forall (fun e => In e thread_events) h2 -> cxrun s h2 = Some s2 ->
  zlen h2 <= rank s - rank s2.
Proof.
  induction h2 as [|e h2 IH]; intros h s s2 Hr Hall Hrun.
  - simpl in Hrun. inversion Hrun. subst. rewrite zlen_nil. lia.
  - inversion Hall as [|e' l' He Hall']; subst. simpl in Hrun.
    destruct (cxstep s e) as [s1|] eqn:E; [|discriminate].
    assert (Hr1 : cxrun cx0 (h ++ [e]) = Some s1).
    { rewrite cxrun_app, Hr. simpl. rewrite E. reflexivity. }
    specialize (IH (h ++ [e]) s1 s2 Hr1 Hall' Hrun).
    pose proof (thread_step_rank h s e s1 Hr He E). rewrite zlen_cons. lia.
Qed.
