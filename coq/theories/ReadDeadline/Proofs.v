(* Facts about the read-deadline model that spell out C10. *)
From Tx Require Import Common.Base ReadDeadline.Model.

Definition is_timeout (r : zs) : bool := match r with _ :: c :: _ => c =? 1 | _ => false end.
Definition res_time (r : zs) : Z := match r with t :: _ => t | [] => 0 end.

(* every result produced when the reader (re)starts at time t: stamped t; a timeout only if a
   non-zero deadline is in force and has passed; data only if not *)
Lemma start_reads_spec fuel : forall s t,
  exists new, results (start_reads fuel s t) = results s ++ new /\ dl (start_reads fuel s t) = dl s /\
    Forall (fun r => res_time r = t /\ (if is_timeout r then expired s t = true else expired s t = false)) new.
Proof.
  induction fuel as [|f IH]; intros s t; cbn [start_reads].
  - exists []. rewrite app_nil_r. auto.
  - destruct (reqs s) as [|r] eqn:Er; [exists []; rewrite app_nil_r; auto|].
    destruct (blocked s) eqn:Eb; [exists []; rewrite app_nil_r; auto|].
    destruct (expired s t) eqn:Ee.
    + set (s1 := {| dl := dl s; items := items s; reqs := r; blocked := false; closed := closed s; results := results s ++ [[t; 1; 0]] |}).
      destruct (IH s1 t) as [new [H1 [H2 H3]]]. exists ([t; 1; 0] :: new).
      change (results s1) with (results s ++ [[t; 1; 0]]) in H1. change (dl s1) with (dl s) in H2.
      change (expired s1 t) with (expired s t) in H3. rewrite Ee in H3.
      rewrite H1, <- app_assoc. repeat split; try assumption.
      constructor; [cbn; auto|exact H3].
    + destruct (items s) as [|x rest] eqn:Ei.
      * destruct (closed s) eqn:Ec; [|exists []; cbn [results dl]; rewrite app_nil_r; auto].
        set (s1 := {| dl := dl s; items := []; reqs := r; blocked := false; closed := true; results := results s ++ [[t; 2; 0]] |}).
        destruct (IH s1 t) as [new [H1 [H2 H3]]]. exists ([t; 2; 0] :: new).
        change (results s1) with (results s ++ [[t; 2; 0]]) in H1. change (dl s1) with (dl s) in H2.
        change (expired s1 t) with (expired s t) in H3. rewrite Ee in H3.
        rewrite H1, <- app_assoc. repeat split; try assumption.
        constructor; [cbn; auto|exact H3].
      * set (s1 := {| dl := dl s; items := rest; reqs := r; blocked := false; closed := closed s; results := results s ++ [[t; 0; x]] |}).
        destruct (IH s1 t) as [new [H1 [H2 H3]]]. exists ([t; 0; x] :: new).
        change (results s1) with (results s ++ [[t; 0; x]]) in H1. change (dl s1) with (dl s) in H2.
        change (expired s1 t) with (expired s t) in H3. rewrite Ee in H3.
        rewrite H1, <- app_assoc. repeat split; try assumption.
        constructor; [cbn; auto|exact H3].
Qed.

(* once the deadline has passed, every requested read fails at once and consumes nothing,
   however much data is queued *)
Lemma expired_persists fuel : forall s t, expired s t = true -> blocked s = false -> (reqs s <= fuel)%nat ->
  results (start_reads fuel s t) = results s ++ repeat [t; 1; 0] (reqs s) /\
  items (start_reads fuel s t) = items s /\ reqs (start_reads fuel s t) = O.
Proof.
  induction fuel as [|f IH]; intros s t He Hb Hr; simpl.
  - assert (reqs s = O) as -> by lia. simpl. rewrite app_nil_r. auto.
  - destruct (reqs s) as [|r] eqn:Er; [simpl; rewrite app_nil_r; auto|].
    rewrite Hb, He.
    set (s1 := {| dl := dl s; items := items s; reqs := r; blocked := false; closed := closed s; results := results s ++ [[t; 1; 0]] |}).
    destruct (IH s1 t) as [H1 [H2 H3]]; try reflexivity; [exact He|simpl; lia|].
    simpl in *. rewrite H1, <- app_assoc. auto.
Qed.

(* a blocked read is released with a timeout exactly at its deadline *)
Lemma blocked_released_at_deadline s t : blocked s = true -> dl s <> 0 -> dl s < t ->
  exists rest, results (expire_before s t) = results s ++ [dl s; 1; 0] :: rest.
Proof.
  intros Hb Hd Ht. unfold expire_before. rewrite Hb.
  destruct (dl s =? 0) eqn:E0; [lia|]. destruct (dl s <? t) eqn:E1; [|lia]. cbn [andb negb].
  set (s1 := {| dl := dl s; items := items s; reqs := reqs s; blocked := false; closed := closed s; results := results s ++ [[dl s; 1; 0]] |}).
  destruct (start_reads_spec (S (reqs s)) s1 (dl s)) as [new [H1 _]]. exists new. rewrite H1. unfold s1. cbn [results].
  rewrite <- app_assoc. reflexivity.
Qed.

(* ... and not before: a blocked read stays blocked while its deadline has not passed and no
   data arrives *)
Lemma blocked_stays s t : blocked s = true -> (dl s = 0 \/ t <= dl s) -> expire_before s t = s.
Proof.
  intros Hb Hd. unfold expire_before. rewrite Hb. destruct (dl s =? 0) eqn:E0; [reflexivity|].
  destruct (dl s <? t) eqn:E1; [lia|]. reflexivity.
Qed.

(* setting a later or zero deadline after expiry makes reads return data again: the deadline
   in force is the new one, it has not passed, ... *)
Lemma reset_not_expired s t d : blocked s = false -> (d = 0 \/ t < d) ->
  let s1 := r_event s t (RSetDeadline d) in
  dl s1 = d /\ expired s1 t = false /\ items s1 = items s /\ blocked s1 = false /\ results s1 = results s.
Proof.
  intros Hb Hd. unfold r_event, expire_before. rewrite Hb. cbn [andb blocked dl items results].
  rewrite Hb. cbn [andb dl items blocked results].
  unfold expired. cbn [dl]. destruct (d =? 0) eqn:E0; [auto|]. destruct (d <=? t) eqn:E1; [lia|]. auto.
Qed.

(* ... and a read that is not past its deadline returns the oldest queued item at once *)
Lemma not_expired_reads_data fuel s t x rest r : blocked s = false -> items s = x :: rest ->
  expired s t = false -> reqs s = S r ->
  exists more, results (start_reads (S fuel) s t) = results s ++ [t; 0; x] :: more.
Proof.
  intros Hb Hi He Hr. cbn [start_reads]. rewrite Hr, Hb, He, Hi.
  set (s2 := {| dl := dl s; items := rest; reqs := r; blocked := false; closed := closed s; results := results s ++ [[t; 0; x]] |}).
  destruct (start_reads_spec fuel s2 t) as [new [H1 _]]. exists new. rewrite H1. unfold s2. cbn [results].
  rewrite <- app_assoc. reflexivity.
Qed.
