(* Read deadlines (C10): one connection with a read deadline, a FIFO of received items, a
   script that sets deadlines / delivers data / asks for reads at given instants, and one
   reader that performs the requested reads one after the other. The model says when each read
   returns and whether with data or with a timeout - the closed form of the property:
     a read called at t returns at the least instant >= t at which data is available or a
     non-zero deadline is in force and has passed; it is a timeout iff it returned for the
     second reason; a passed deadline makes every read fail at once until it is set again.
   Script instants are strictly increasing and never coincide with a deadline instant (ties
   between data and expiry are not constrained by the property). *)
From Tx Require Import Common.Base.

Record rstate := {
  dl : Z;                       (* read deadline in force; 0 = none *)
  items : list Z;               (* received, unread items (ids), oldest first *)
  reqs : nat;                   (* reads requested and not yet started *)
  blocked : bool;               (* the reader is inside a blocked read *)
  closed : bool;                (* the connection has been closed: what was received stays readable, then reads report
                                   the end instead of waiting (packet buffer) *)
  results : list zs             (* [return time; class 0 data / 1 timeout; id or 0], oldest first *)
}.

Definition r0 : rstate := {| dl := 0; items := []; reqs := 0; blocked := false; closed := false; results := [] |}.

Definition expired (s : rstate) (t : Z) : bool := negb (dl s =? 0) && (dl s <=? t).

(* the idle reader starts its pending reads at time t until one blocks *)
Fixpoint start_reads (fuel : nat) (s : rstate) (t : Z) : rstate :=
  match fuel with
  | O => s
  | S f =>
      match reqs s with
      | O => s
      | S r =>
          if blocked s then s
          else if expired s t then
            start_reads f {| dl := dl s; items := items s; reqs := r; blocked := false;
                             closed := closed s; results := results s ++ [[t; 1; 0]] |} t
          else match items s with
               | x :: rest =>
                   start_reads f {| dl := dl s; items := rest; reqs := r; blocked := false;
                                    closed := closed s; results := results s ++ [[t; 0; x]] |} t
               | [] =>
                   if closed s then
                     start_reads f {| dl := dl s; items := []; reqs := r; blocked := false; closed := true;
                                      results := results s ++ [[t; 2; 0]] |} t
                   else {| dl := dl s; items := []; reqs := r; blocked := true; closed := closed s; results := results s |}
               end
      end
  end.

(* a blocked read whose deadline lies before the next script instant t returns at the deadline *)
Definition expire_before (s : rstate) (t : Z) : rstate :=
  if blocked s && negb (dl s =? 0) && (dl s <? t) then
    start_reads (S (reqs s))
      {| dl := dl s; items := items s; reqs := reqs s; blocked := false;
         closed := closed s; results := results s ++ [[dl s; 1; 0]] |} (dl s)
  else s.

Inductive rev := RSetDeadline (d : Z) | RArrive (id : Z) | RStartRead | RClose.

Definition r_event (s : rstate) (t : Z) (e : rev) : rstate :=
  let s := expire_before s t in
  match e with
  | RSetDeadline d =>
      let s1 := {| dl := d; items := items s; reqs := reqs s; blocked := blocked s; closed := closed s; results := results s |} in
      if blocked s1 && expired s1 t then
        start_reads (S (reqs s1))
          {| dl := d; items := items s1; reqs := reqs s1; blocked := false; closed := closed s1; results := results s1 ++ [[t; 1; 0]] |} t
      else s1
  | RArrive id =>
      if closed s then s   (* a closed buffer refuses further data *)
      else if blocked s then
        (* the blocked read takes it at once (nothing else can be queued while a read is blocked) *)
        start_reads (S (reqs s))
          {| dl := dl s; items := items s; reqs := reqs s; blocked := false; closed := closed s; results := results s ++ [[t; 0; id]] |} t
      else {| dl := dl s; items := items s ++ [id]; reqs := reqs s; blocked := false; closed := closed s; results := results s |}
  | RClose =>
      (* a blocked read (nothing is queued then) reports the end at once; the deadline stays what it is *)
      if blocked s then
        start_reads (S (reqs s))
          {| dl := dl s; items := items s; reqs := reqs s; blocked := false; closed := true; results := results s ++ [[t; 2; 0]] |} t
      else {| dl := dl s; items := items s; reqs := reqs s; blocked := false; closed := true; results := results s |}
  | RStartRead =>
      start_reads (S (S (reqs s)))
        {| dl := dl s; items := items s; reqs := S (reqs s); blocked := blocked s; closed := closed s; results := results s |} t
  end.

Fixpoint r_run (s : rstate) (h : list (Z * rev)) : rstate :=
  match h with [] => s | (t, e) :: h' => r_run (r_event s t e) h' end.

(* wire: op [t; 1; d] SetReadDeadline | [t; 2; d] SetDeadline | [t; 3; id] Arrive | [t; 4] StartRead | [t; 6] Close;
   the last op [t; 0] only marks the end of the script (deadlines before t still fire) *)
Definition dec_rev (o : zs) : option (Z * rev) :=
  match o with
  | t :: 1 :: d :: _ => Some (t, RSetDeadline d)
  | t :: 2 :: d :: _ => Some (t, RSetDeadline d)
  | t :: 3 :: id :: _ => Some (t, RArrive id)
  | t :: 4 :: _ => Some (t, RStartRead)
  | t :: 5 :: _ => Some (t, RStartRead)   (* a read into an empty slice, scripted only while the deadline has passed *)
  | t :: 6 :: _ => Some (t, RClose)
  | _ => None
  end.

Fixpoint dec_all (ops : list zs) : list (Z * rev) :=
  match ops with
  | [] => []
  | o :: rest => match dec_rev o with Some e => e :: dec_all rest | None => dec_all rest end
  end.

Definition rdl_run (ops : list zs) : list zs :=
  let tend := match last ops [] with t :: _ => t | [] => 0 end in
  results (expire_before (r_run r0 (dec_all ops)) tend).
