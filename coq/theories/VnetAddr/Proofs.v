(* Address management: freshness of automatic IPs, exhaustion, bind rule, ephemeral ports. *)
From Tx Require Import Common.Base VnetAddr.Model.

Lemma memz_In x l : memz x l = true <-> In x l.
Proof.
  unfold memz. rewrite existsb_exists. split.
  - intros [y [Hy E]]. apply Z.eqb_eq in E. subst. assumption.
  - intros H. exists x. split; [assumption|apply Z.eqb_refl].
Qed.

(* ---- router ------------------------------------------------------------------------------------- *)

Lemma assign_loop_some fuel : forall r id ip id',
  assign_loop fuel r id = (Some ip, id') ->
  memz ip (nics r) = false /\ ip = auto_ip r id' /\ id < id' /\ (id <= 254 -> id' <= 254).
Proof.
  induction fuel as [|f IH]; intros r id ip id' H; simpl in H.
  - destruct (id =? 254); discriminate.
  - destruct (id =? 254) eqn:E; [discriminate|].
    destruct (memz (auto_ip r (id + 1)) (nics r)) eqn:Em.
    + destruct (IH r (id + 1) ip id' H) as [H1 [H2 [H3 H4]]]. repeat split; try assumption; lia.
    + inversion H; subst. repeat split; try assumption; lia.
Qed.

Lemma assign_loop_none fuel : forall r id id',
  0 <= id <= 254 -> 254 - id <= Z.of_nat fuel ->
  assign_loop fuel r id = (None, id') ->
  id' = 254 /\ forall k, id < k <= 254 -> memz (auto_ip r k) (nics r) = true.
Proof.
  induction fuel as [|f IH]; intros r id id' Hid Hf H; simpl in H.
  - destruct (id =? 254) eqn:E; [|lia]. inversion H; subst. split; [lia|]. intros k Hk. lia.
  - destruct (id =? 254) eqn:E.
    + inversion H; subst. split; [lia|]. intros k Hk. lia.
    + destruct (memz (auto_ip r (id + 1)) (nics r)) eqn:Em; [|discriminate].
      destruct (IH r (id + 1) id' ltac:(lia) ltac:(lia) H) as [H1 H2]. split; [assumption|].
      intros k Hk. destruct (Z.eq_dec k (id + 1)) as [->|Hne]; [assumption|]. apply H2. lia.
Qed.

Lemma add_ips_contained ips : forall r r', add_ips r ips = (r', 0) ->
  Forall (fun ip => contains r ip = true) ips /\ nics r' = rev ips ++ nics r /\ lastID r' = lastID r /\
  netip r' = netip r /\ mask r' = mask r.
Proof.
  induction ips as [|ip rest IH]; intros r r' H; simpl in H.
  - inversion H; subst. repeat split; auto.
  - destruct (contains r ip) eqn:Ec; [|discriminate].
    destruct (IH _ _ H) as [H1 [H2 [H3 [H4 H5]]]]. simpl in *.
    repeat split; try assumption.
    + constructor; [assumption|]. unfold contains in *. simpl in *. exact H1.
    + rewrite H2. rewrite <- app_assoc. reflexivity.
Qed.

(* an automatic assignment: either a fresh in-subnet address, or an error and no NIC added *)
Lemma add_nic_auto r r' c given : 0 <= lastID r <= 254 -> add_nic r [] = (r', c, given) ->
  (c = 0 /\ exists ip, given = [ip] /\ memz ip (nics r) = false /\ contains r ip = true /\
            nics r' = ip :: nics r /\ ip = auto_ip r (lastID r') /\ lastID r < lastID r' <= 254) \/
  (c <> 0 /\ given = [] /\ nics r' = nics r /\
   (c = 1 -> lastID r' = 254 /\ forall k, lastID r < k <= 254 -> memz (auto_ip r k) (nics r) = true)).
Proof.
  intros Hid H. unfold add_nic in H.
  destruct (assign_loop 254 r (lastID r)) as [[ip|] id] eqn:Ea.
  - destruct (assign_loop_some _ _ _ _ _ Ea) as [Hf [Hip [Hlt Hle]]].
    simpl in H. unfold contains in H. simpl in H. fold (contains r ip) in H.
    destruct (contains r ip) eqn:Ec.
    + inversion H; subst. left. split; [reflexivity|]. exists (auto_ip r id).
      simpl. repeat split; try assumption; try reflexivity; lia.
    + inversion H; subst. right. simpl. repeat split; try discriminate; try reflexivity.
  - inversion H; subst. right. simpl. repeat split; try discriminate; try reflexivity.
    + destruct (assign_loop_none 254 r (lastID r) id Hid ltac:(lia) Ea). assumption.
    + destruct (assign_loop_none 254 r (lastID r) id Hid ltac:(lia) Ea). assumption.
Qed.

(* ---- host --------------------------------------------------------------------------------------- *)

(* no open socket is covered by another open socket *)
Definition socks_ok (l : list sock) : Prop :=
  NoDup (map s_id l) /\
  forall s1 s2, In s1 l -> In s2 l -> s_id s1 <> s_id s2 -> covers (s_ip s1) (s_port s1) s2 = false.

Record HInv (h : host) : Prop := {
  h_socks : socks_ok (socks h);
  h_ids : forall s, In s (socks h) -> s_id s < next_id h;
  h_noloop : ~ In 0 (ips h);
  h_bound : forall s, In s (socks h) -> s_ip s = 0 \/ In (s_ip s) (ips h)
}.

Lemma covers_sym ip port s : covers ip port s = true -> covers (s_ip s) (s_port s) {| s_ip := ip; s_port := port; s_id := -1 |} = true.
Proof.
  unfold covers. simpl. intros H. apply andb_true_iff in H. destruct H as [Hp Hi].
  apply Z.eqb_eq in Hp. rewrite Hp, Z.eqb_refl. simpl.
  apply orb_true_iff in Hi. destruct Hi as [Hi|Hi].
  - apply orb_true_iff in Hi. destruct Hi as [Hi|Hi].
    + rewrite Hi. rewrite orb_true_r. reflexivity.
    + rewrite Hi. reflexivity.
  - apply Z.eqb_eq in Hi. rewrite Hi, Z.eqb_refl. rewrite orb_true_r. reflexivity.
Qed.

(* explicit-port bind: success iff the address is the host's and nothing covers it *)
Lemma bind_explicit h ip port off : port <> 0 ->
  fst (fst (snd (bind h ip port off))) = 0 <-> has_ip h ip = true /\ existsb (covers ip port) (socks h) = false.
Proof.
  intros Hp. unfold bind. destruct (has_ip h ip); simpl.
  - destruct (port =? 0) eqn:E; [lia|]. destruct (existsb (covers ip port) (socks h)); simpl; split; intros; try tauto; try discriminate.
    destruct H. discriminate.
  - split; [discriminate|]. intros [H _]. discriminate.
Qed.

Lemma bind_preserves h ip port off : HInv h ->
  (port = 0 -> forall p, assign_port h ip off = Some p -> existsb (covers ip p) (socks h) = false) ->
  HInv (fst (bind h ip port off)).
Proof.
  intros [[ND Hc] Hid Hl Hb] Hfree. unfold bind.
  destruct (has_ip h ip) eqn:Ehas; simpl; [|split; [split|..]; assumption].
  set (chosen := if port =? 0 then match assign_port h ip off with Some p => (0, p) | None => (3, 0) end
                 else if existsb (covers ip port) (socks h) then (2, 0) else (0, port)).
  assert (Hch : forall p, chosen = (0, p) -> existsb (covers ip p) (socks h) = false).
  { intros p E. unfold chosen in E. destruct (port =? 0) eqn:E0.
    - destruct (assign_port h ip off) as [q|] eqn:Ea; inversion E; subst. apply Hfree; [lia|reflexivity].
    - destruct (existsb (covers ip port) (socks h)) eqn:Ex; inversion E; subst. assumption. }
  destruct chosen as [c p] eqn:Ech.
  destruct c; simpl; try (split; [split|..]; assumption).
  specialize (Hch p eq_refl).
  split; simpl.
  - split.
    + simpl. constructor; [|assumption]. intros Hin. apply in_map_iff in Hin. destruct Hin as [s [Es Hs]].
      specialize (Hid s Hs). lia.
    + intros s1 s2 [<-|H1] [<-|H2] Hne; simpl in *.
      * congruence.
      * destruct (covers ip p s2) eqn:E; [|reflexivity].
        assert (existsb (covers ip p) (socks h) = true) by (apply existsb_exists; exists s2; auto). congruence.
      * destruct (covers (s_ip s1) (s_port s1) {| s_ip := ip; s_port := p; s_id := next_id h |}) eqn:E; [|reflexivity].
        exfalso. assert (covers ip p s1 = true).
        { unfold covers in *. simpl in *. apply andb_true_iff in E. destruct E as [Ep Ei].
          apply Z.eqb_eq in Ep. rewrite Ep, Z.eqb_refl. simpl.
          apply orb_true_iff in Ei. destruct Ei as [Ei|Ei].
          - apply orb_true_iff in Ei. destruct Ei as [Ei|Ei].
            + rewrite Ei. rewrite orb_true_r. reflexivity.
            + rewrite Ei. reflexivity.
          - apply Z.eqb_eq in Ei. rewrite Ei, Z.eqb_refl. rewrite orb_true_r. reflexivity. }
        assert (existsb (covers ip p) (socks h) = true) by (apply existsb_exists; exists s1; auto). congruence.
      * apply Hc; assumption.
  - intros s [<-|Hs]; simpl; [lia|]. specialize (Hid s Hs). lia.
  - assumption.
  - intros s [<-|Hs]; simpl; [|apply Hb; assumption].
    unfold has_ip in Ehas. destruct (ip =? 0) eqn:E0; [left; lia|right; apply memz_In; assumption].
Qed.

(* ephemeral ports *)
Lemma scan_some fuel : forall h ip off i p, 0 <= off -> 0 <= i -> scan fuel h ip off i = Some p ->
  5000 <= p <= 5999 /\ port_free h ip p = true.
Proof.
  induction fuel as [|f IH]; intros h ip off i p Ho Hi H; simpl in H; [discriminate|].
  destruct (port_free h ip ((off + i) mod 1000 + 5000)) eqn:E.
  - inversion H; subst. split; [lia|assumption].
  - apply (IH h ip off (i + 1)); try assumption; lia.
Qed.

Lemma scan_none fuel : forall h ip off i, scan fuel h ip off i = None ->
  forall j, i <= j < i + Z.of_nat fuel -> port_free h ip ((off + j) mod 1000 + 5000) = false.
Proof.
  induction fuel as [|f IH]; intros h ip off i H j Hj; simpl in H; [lia|].
  destruct (port_free h ip ((off + i) mod 1000 + 5000)) eqn:E; [discriminate|].
  destruct (Z.eq_dec j i) as [->|Hne]; [assumption|].
  apply (IH h ip off (i + 1) H). lia.
Qed.

Lemma assign_port_spec h ip off : 0 <= off ->
  match assign_port h ip off with
  | Some p => 5000 <= p <= 5999 /\ port_free h ip p = true
  | None => forall p, 5000 <= p <= 5999 -> port_free h ip p = false
  end.
Proof.
  intros Ho. unfold assign_port. destruct (scan 1000 h ip off 0) as [p|] eqn:E.
  - apply (scan_some 1000 h ip off 0); try assumption; lia.
  - intros p Hp. pose proof (scan_none 1000 h ip off 0 E ((p - 5000 - off) mod 1000)) as H.
    replace ((off + (p - 5000 - off) mod 1000) mod 1000 + 5000) with p in H by lia.
    apply H. lia.
Qed.

Lemma port_free_no_cover h ip p : HInv h -> has_ip h ip = true -> port_free h ip p = true ->
  existsb (covers ip p) (socks h) = false.
Proof.
  intros [_ _ Hl Hb] Hh Hf. unfold port_free in Hf. destruct (ip =? 0) eqn:E0; [|apply negb_true_iff; assumption].
  apply Z.eqb_eq in E0. subst ip.
  destruct (existsb (covers 0 p) (socks h)) eqn:Ex; [|reflexivity]. exfalso.
  apply existsb_exists in Ex. destruct Ex as [s [Hs Hc]].
  unfold covers in Hc. apply andb_true_iff in Hc. destruct Hc as [Hp _].
  rewrite forallb_forall in Hf.
  destruct (Hb s Hs) as [Hz|Hin].
  - (* a wildcard socket covers every interface address *)
    unfold has_ip in Hh. simpl in Hh. destruct (ips h) as [|ip2 rest] eqn:Ei; [discriminate|].
    specialize (Hf ip2 (or_introl eq_refl)). apply negb_true_iff in Hf.
    assert (existsb (covers ip2 p) (socks h) = true); [|congruence].
    apply existsb_exists. exists s. split; [assumption|]. unfold covers. rewrite Hp, Hz. simpl.
    rewrite orb_true_r. reflexivity.
  - specialize (Hf (s_ip s) Hin). apply negb_true_iff in Hf.
    assert (existsb (covers (s_ip s) p) (socks h) = true); [|congruence].
    apply existsb_exists. exists s. split; [assumption|]. unfold covers. rewrite Hp, Z.eqb_refl. simpl.
    rewrite orb_true_r. reflexivity.
Qed.

(* every bind keeps the sockets pairwise non-covering *)
Lemma bind_inv h ip port off : HInv h -> 0 <= off -> HInv (fst (bind h ip port off)).
Proof.
  intros I Ho. destruct (has_ip h ip) eqn:Eh.
  - apply bind_preserves; [assumption|]. intros _ p Ha.
    pose proof (assign_port_spec h ip off Ho) as S. rewrite Ha in S. destruct S as [_ Hf].
    apply port_free_no_cover; assumption.
  - unfold bind. rewrite Eh. simpl. assumption.
Qed.

(* port 0: a free port of 5000..5999 for every scan offset, or failure iff none is free *)
Lemma bind_ephemeral h ip off : HInv h -> 0 <= off -> has_ip h ip = true ->
  match snd (bind h ip 0 off) with
  | (0, p, _) => 5000 <= p <= 5999 /\ existsb (covers ip p) (socks h) = false
  | (c, _, _) => c = 3 /\ forall p, 5000 <= p <= 5999 -> port_free h ip p = false
  end.
Proof.
  intros I Ho Hh. unfold bind. rewrite Hh. simpl.
  pose proof (assign_port_spec h ip off Ho) as S.
  destruct (assign_port h ip off) as [p|]; simpl.
  - destruct S as [Hr Hf]. split; [assumption|]. apply port_free_no_cover; assumption.
  - split; [reflexivity|assumption].
Qed.

(* closing a socket frees its address (nothing covers it any more) and keeps the invariant *)
Lemma close_frees h s : HInv h -> In s (socks h) ->
  existsb (covers (s_ip s) (s_port s)) (socks (close_sock h (s_id s))) = false /\ HInv (close_sock h (s_id s)).
Proof.
  intros [[ND Hc] Hid Hl Hb] Hs. unfold close_sock.
  assert (Hf : find (fun x => s_id x =? s_id s) (socks h) = Some s).
  { destruct (find (fun x => s_id x =? s_id s) (socks h)) as [s'|] eqn:Ef.
    - apply find_some in Ef. destruct Ef as [Hs' E]. apply Z.eqb_eq in E.
      f_equal. clear - ND Hs Hs' E. induction (socks h) as [|x l IH]; [contradiction|].
      simpl in ND. inversion ND; subst.
      destruct Hs as [->|Hs]; destruct Hs' as [->|Hs']; try reflexivity.
      + exfalso. apply H1. rewrite <- E. apply in_map. assumption.
      + exfalso. apply H1. rewrite E. apply in_map. assumption.
      + apply IH; assumption.
    - pose proof (find_none _ _ Ef s Hs) as Hn. simpl in Hn. rewrite Z.eqb_refl in Hn. discriminate. }
  rewrite Hf. simpl. split.
  - destruct (existsb (covers (s_ip s) (s_port s)) _) eqn:Ex; [|reflexivity]. exfalso.
    apply existsb_exists in Ex. destruct Ex as [x [Hx Hcx]]. apply filter_In in Hx. destruct Hx as [Hx Hk].
    destruct (Z.eq_dec (s_id x) (s_id s)) as [E|Hne].
    + assert (x = s).
      { clear - ND Hs Hx E. induction (socks h) as [|y l IH]; [contradiction|].
        simpl in ND. inversion ND; subst.
        destruct Hs as [->|Hs]; destruct Hx as [->|Hx]; try reflexivity.
        - exfalso. apply H1. rewrite <- E. apply in_map. assumption.
        - exfalso. apply H1. rewrite E. apply in_map. assumption.
        - apply IH; assumption. }
      subst x. rewrite Z.eqb_refl in Hk. simpl in Hk.
      destruct (s_ip s =? 0); simpl in Hk; [discriminate|]. rewrite Z.eqb_refl in Hk. discriminate.
    + specialize (Hc s x Hs Hx ltac:(congruence)). congruence.
  - split; simpl.
    + split.
      * clear - ND. induction (socks h) as [|y l IH]; simpl; [constructor|]. simpl in ND. inversion ND; subst.
        destruct (negb _); simpl; auto. constructor; auto. intros Hin. apply H1.
        apply in_map_iff in Hin. destruct Hin as [z [Ez Hz]]. apply filter_In in Hz. apply in_map_iff. exists z. tauto.
      * intros s1 s2 H1 H2 Hne. apply filter_In in H1, H2. apply Hc; tauto.
    + intros x Hx. apply filter_In in Hx. apply Hid. tauto.
    + assumption.
    + intros x Hx. apply filter_In in Hx. apply Hb. tauto.
Qed.

(* an inbound datagram is handed to the one open socket that covers its destination *)
Lemma find_sock_unique h ip port s : HInv h -> ip <> 0 -> find_sock h ip port = Some s ->
  In s (socks h) /\ covers ip port s = true /\ forall s', In s' (socks h) -> covers ip port s' = true -> s' = s.
Proof.
  intros [[ND Hc] _ _ _] Hip Hf. unfold find_sock in Hf. apply find_some in Hf. destruct Hf as [Hs Hcv].
  split; [assumption|]. split; [assumption|]. intros s' Hs' Hcv'.
  destruct (Z.eq_dec (s_id s') (s_id s)) as [E|Hne].
  - clear - ND Hs Hs' E. induction (socks h) as [|y l IH]; [contradiction|].
    simpl in ND. inversion ND; subst.
    destruct Hs as [->|Hs]; destruct Hs' as [->|Hs']; try reflexivity.
    + exfalso. apply H1. rewrite <- E. apply in_map. assumption.
    + exfalso. apply H1. rewrite E. apply in_map. assumption.
    + apply IH; assumption.
  - exfalso. specialize (Hc s' s Hs' Hs Hne). unfold covers in *. lia.
Qed.
