(* Executable model of address management in vnet:
   - Router.addNIC / assignIPAddress (vnet/router.go): static and automatic IPv4 assignment;
   - Net._dialUDP / assignPort / allocateLocalAddr / onClosed (vnet/net.go) with udpConnMap
     (vnet/conn_map.go): binding, ephemeral ports, closing, lookup of the covering socket.
   IPv4 addresses are integers; 0 is the wildcard 0.0.0.0. *)
From Tx Require Import Common.Base.

Definition memz (x : Z) (l : list Z) : bool := existsb (Z.eqb x) l.

(* ---- router side ------------------------------------------------------------------------------ *)

Record router := {
  netip : Z;          (* network address (already masked) *)
  mask : Z;           (* netmask *)
  lastID : Z;         (* uint8 *)
  nics : list Z       (* addresses held by NICs, newest first *)
}.

Definition contains (r : router) (ip : Z) : bool := Z.land ip (mask r) =? netip r.

(* first three octets of the network address, last octet = id *)
Definition auto_ip (r : router) (id : Z) : Z := (netip r / 256) * 256 + id.

(* assignIPAddress: for lastID != 0xfe { lastID++; if not in use: return } *)
Fixpoint assign_loop (fuel : nat) (r : router) (id : Z) : option Z * Z :=
  if id =? 254 then (None, id)
  else match fuel with
       | O => (None, id)
       | S f => let id' := id + 1 in
                if memz (auto_ip r id') (nics r) then assign_loop f r id' else (Some (auto_ip r id'), id')
       end.

Definition with_router (r : router) (id : Z) (ns : list Z) : router :=
  {| netip := netip r; mask := mask r; lastID := id; nics := ns |}.

(* addNIC over the list of static IPs (may stop half way, as the Go loop does).
   Result code: 0 ok, 1 address space exhausted, 2 beyond subnet *)
Fixpoint add_ips (r : router) (ips : list Z) : router * Z :=
  match ips with
  | [] => (r, 0)
  | ip :: rest =>
      if contains r ip then add_ips (with_router r (lastID r) (ip :: nics r)) rest
      else (r, 2)
  end.

(* returns (router, code, addresses given to the NIC) *)
Definition add_nic (r : router) (statics : list Z) : router * Z * list Z :=
  match statics with
  | [] =>
      match assign_loop 254 r (lastID r) with
      | (Some ip, id) => let '(r', c) := add_ips (with_router r id (nics r)) [ip] in
                         (r', c, if c =? 0 then [ip] else [])
      | (None, id) => (with_router r id (nics r), 1, [])
      end
  | _ => let '(r', c) := add_ips r statics in (r', c, if c =? 0 then statics else [])
  end.

(* ---- host side ---------------------------------------------------------------------------------- *)

Record sock := { s_ip : Z; s_port : Z; s_id : Z }.

Record host := {
  ips : list Z;            (* interface addresses: 127.0.0.1 and the eth0 addresses *)
  socks : list sock;       (* open sockets *)
  next_id : Z
}.

Definition has_ip (h : host) (ip : Z) : bool := if ip =? 0 then negb (match ips h with [] => true | _ => false end) else memz ip (ips h).

(* does open socket s cover address (ip, port)?  udpConnMap.find *)
Definition covers (ip port : Z) (s : sock) : bool :=
  (s_port s =? port) && ((ip =? 0) || (s_ip s =? 0) || (s_ip s =? ip)).

Definition find_sock (h : host) (ip port : Z) : option sock := find (covers ip port) (socks h).

(* allocateLocalAddr: is (ip, port) free?  For the wildcard: free on every interface address *)
Definition port_free (h : host) (ip port : Z) : bool :=
  if ip =? 0 then forallb (fun ip2 => negb (existsb (covers ip2 port) (socks h))) (ips h)
  else negb (existsb (covers ip port) (socks h)).

(* assignPort(ip, 5000, 5999) scanning from [offset] *)
Fixpoint scan (fuel : nat) (h : host) (ip offset i : Z) : option Z :=
  match fuel with
  | O => None
  | S f => let port := (offset + i) mod 1000 + 5000 in
           if port_free h ip port then Some port else scan f h ip offset (i + 1)
  end.

Definition assign_port (h : host) (ip offset : Z) : option Z := scan 1000 h ip offset 0.

(* _dialUDP: result code 0 ok (with port and socket id), 1 cannot assign requested address,
   2 address in use, 3 port space exhausted *)
Definition bind (h : host) (ip port offset : Z) : host * (Z * Z * Z) :=
  if negb (has_ip h ip) then (h, (1, 0, 0))
  else
    let chosen :=
      if port =? 0 then match assign_port h ip offset with Some p => (0, p) | None => (3, 0) end
      else if existsb (covers ip port) (socks h) then (2, 0) else (0, port) in
    match chosen with
    | (0, p) =>
        ({| ips := ips h; socks := {| s_ip := ip; s_port := p; s_id := next_id h |} :: socks h;
            next_id := next_id h + 1 |}, (0, p, next_id h))
    | (c, _) => (h, (c, 0, 0))
    end.

(* UDPConn.Close -> onClosed -> udpConnMap.delete(local address of the socket) *)
Definition close_sock (h : host) (id : Z) : host :=
  match find (fun s => s_id s =? id) (socks h) with
  | None => h
  | Some s =>
      {| ips := ips h;
         socks := filter (fun x => negb ((s_port x =? s_port s) && ((s_ip s =? 0) || (s_ip x =? s_ip s)))) (socks h);
         next_id := next_id h |}
  end.

(* ---- wire interface ----------------------------------------------------------------------------
   router history: conf [0; netip; mask]; op 1 :: static ips  ->  code :: addresses given
   host history:   conf 1 :: eth0 ips (127.0.0.1 is always present);
                   op [1; ip; port; hint] bind (hint = scan offset for port 0) -> [code; port; id]
                   op [2; id] close -> []        op [3; ip; port] lookup -> [id] or [-1] *)
Fixpoint router_run (r : router) (ops : list zs) : list zs :=
  match ops with
  | [] => []
  | (_ :: statics) :: rest =>
      let '(r', c, given) := add_nic r statics in (c :: given) :: router_run r' rest
  | [] :: rest => [] :: router_run r rest
  end.

Fixpoint host_run (h : host) (ops : list zs) : list zs :=
  match ops with
  | [] => []
  | (1 :: ip :: port :: hint :: _) :: rest =>
      let '(h', (c, p, id)) := bind h ip port hint in [c; p; id] :: host_run h' rest
  | (2 :: id :: _) :: rest => [] :: host_run (close_sock h id) rest
  | (3 :: ip :: port :: _) :: rest =>
      [match find_sock h ip port with Some s => s_id s | None => -1 end] :: host_run h rest
  | _ :: rest => [] :: host_run h rest
  end.

Definition loopback : Z := 2130706433.

Definition c13_run (conf : zs) (ops : list zs) : list zs :=
  match conf with
  | 0 :: nip :: msk :: _ => router_run {| netip := nip; mask := msk; lastID := 0; nics := [] |} ops
  | 1 :: eth => host_run {| ips := loopback :: eth; socks := []; next_id := 0 |} ops
  | _ => []
  end.
