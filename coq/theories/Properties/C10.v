(* C10 - read deadlines: no early or spurious timeout; expiry persists until reset. *)
From Tx Require Import Common.Base ReadDeadline.Model ReadDeadline.Proofs.

(* Whenever the reader (re)starts its pending reads at an instant t, every read that returns
   does so at t, with a timeout only if a non-zero deadline is in force and has passed, and
   with data only if it has not: no early and no spurious timeout. *)
Theorem C10_timeout_only_if_expired : forall fuel s t,
  exists new, results (start_reads fuel s t) = results s ++ new /\ dl (start_reads fuel s t) = dl s /\
    Forall (fun r => res_time r = t /\ (if is_timeout r then expired s t = true else expired s t = false)) new.
Proof. exact start_reads_spec. Qed.
Print Assumptions C10_timeout_only_if_expired.

(* After the deadline has passed every read fails with a timeout at once - however much data is
   queued, nothing is consumed - until the deadline is set again. *)
Theorem C10_expiry_persists : forall fuel s t, expired s t = true -> blocked s = false -> (reqs s <= fuel)%nat ->
  results (start_reads fuel s t) = results s ++ repeat [t; 1; 0] (reqs s) /\
  items (start_reads fuel s t) = items s /\ reqs (start_reads fuel s t) = O.
Proof. exact expired_persists. Qed.
Print Assumptions C10_expiry_persists.

(* A blocked read is released with a timeout exactly at its deadline ... *)
Theorem C10_blocked_released_at_deadline : forall s t, blocked s = true -> dl s <> 0 -> dl s < t ->
  exists rest, results (expire_before s t) = results s ++ [dl s; 1; 0] :: rest.
Proof. exact blocked_released_at_deadline. Qed.
Print Assumptions C10_blocked_released_at_deadline.

(* ... and stays blocked as long as there is no deadline or it has not passed. *)
Theorem C10_blocked_not_released_early : forall s t, blocked s = true -> (dl s = 0 \/ t <= dl s) ->
  expire_before s t = s.
Proof. exact blocked_stays. Qed.
Print Assumptions C10_blocked_not_released_early.

(* Setting a later or the zero deadline after expiry: the new deadline is in force, it has not
   passed, and the next read returns the oldest queued item at once. *)
Theorem C10_reset_then_data : forall fuel s t d x rest r,
  blocked s = false -> (d = 0 \/ t < d) -> items s = x :: rest ->
  let s1 := r_event s t (RSetDeadline d) in
  expired s1 t = false /\
  (reqs s1 = S r -> exists more, results (start_reads (S fuel) s1 t) = results s1 ++ [t; 0; x] :: more).
Proof.
  intros fuel s t d x rest r Hb Hd Hi s1.
  destruct (reset_not_expired s t d Hb Hd) as [H1 [H2 [H3 [H4 H5]]]]. fold s1 in H1, H2, H3, H4, H5.
  split; [exact H2|]. intros Hr. apply (not_expired_reads_data fuel s1 t x rest r); try assumption. congruence.
Qed.
Print Assumptions C10_reset_then_data.

(* Closing the connection (packet buffer: what was received stays readable) neither disarms nor re-arms the deadline: the
   statements above hold for closed connections as they stand ([closed] is not among their hypotheses), and Close itself leaves the
   deadline in force and the queued data as they are. *)
Theorem C10_close_keeps_deadline : forall s t, blocked s = false ->
  let s1 := r_event s t RClose in
  dl s1 = dl s /\ items s1 = items s /\ results s1 = results s /\ closed s1 = true.
Proof.
  intros s t Hb. unfold r_event, expire_before. rewrite Hb. cbn [andb]. rewrite Hb. cbn. auto.
Qed.
Print Assumptions C10_close_keeps_deadline.

Example C10_close_example :
  rdl_run [[10; 1; 50]; [20; 3; 7]; [60; 4]; [65; 6]; [70; 4]; [75; 1; 0]; [80; 4]; [90; 4]; [1000; 0]]
  = [[60; 1; 0]; [70; 1; 0]; [80; 0; 7]; [90; 2; 0]].
Proof. vm_compute. reflexivity. Qed.

(* non-vacuity: expire while nobody reads, two reads after expiry (both time out although data is
   queued), extend, read the data, block, get released at the new deadline *)
Example C10_example :
  rdl_run [[10; 1; 50]; [20; 3; 7]; [60; 4]; [61; 4]; [70; 1; 500]; [80; 4]; [90; 4]; [1000; 0]]
  = [[60; 1; 0]; [61; 1; 0]; [80; 0; 7]; [500; 1; 0]].
Proof. vm_compute. reflexivity. Qed.
