(* C12 - UDP listener socket lives exactly as long as the listener or an accepted conn. *)
From Tx Require Import Common.Base UdpListener.Model UdpListener.Proofs.
From Tx Require UdpListener.Conc.

(* For every history of datagram arrivals, Accept, Conn.Read, Conn.Close (of accepted
   connections) and listener Close, in any order: the shared socket is closed exactly when the
   listener has been closed and no accepted connection is still open - never earlier, and as soon
   as that is the case. ([open_acc] counts connections returned by Accept and not yet closed;
   connections nobody accepted are discarded by listener Close and do not keep the socket.) *)
Theorem C12_socket_closed_iff : forall bl fk h, hist_valid (l_init bl fk) h ->
  let s := l_final (l_init bl fk) h in
  sock_closed s = true <-> (l_closed s = true /\ open_acc (allc s) = 0).
Proof.
  intros bl fk h V s. apply socket_closed_iff. exact (final_inv h (l_init bl fk) (LInv_init bl fk) V).
Qed.
Print Assumptions C12_socket_closed_iff.

(* the reference count of the code (connWG) is, in every reachable state, one for an open
   listener plus the queued plus the accepted-and-open connections *)
Theorem C12_refcount : forall bl fk h, hist_valid (l_init bl fk) h ->
  let s := l_final (l_init bl fk) h in
  refs s = (if l_closed s then 0 else 1) + zlen (acceptq s) + open_acc (allc s).
Proof. intros bl fk h V s. exact (li_refs s (final_inv h (l_init bl fk) (LInv_init bl fk) V)). Qed.
Print Assumptions C12_refcount.

(* after listener Close: Accept fails, nothing is queued, nothing new is created *)
Theorem C12_accept_fails_after_close : forall bl fk h, hist_valid (l_init bl fk) h ->
  let s := l_final (l_init bl fk) h in
  l_closed s = true -> snd (accept s) = Some None /\ accepting s = false.
Proof.
  intros bl fk h V s Hc. destruct (li_closed s (final_inv h (l_init bl fk) (LInv_init bl fk) V) Hc) as [Hq Ha].
  unfold accept. rewrite Hq, Hc. auto.
Qed.
Print Assumptions C12_accept_fails_after_close.

(* Close is idempotent on the listener and on connections *)
Theorem C12_close_idempotent : forall s id,
  listener_close (listener_close s) = listener_close s /\
  conn_close (conn_close s id) id = conn_close s id.
Proof.
  intros s id. split.
  - unfold listener_close at 1. destruct (l_closed (listener_close s)) eqn:E; [reflexivity|].
    unfold listener_close in E. destruct (l_closed s) eqn:E2; simpl in E; congruence.
  - unfold conn_close at 1. destruct (nth_error (allc (conn_close s id)) id) as [c|] eqn:E; [|reflexivity].
    destruct (c_closed c) eqn:Ec; [reflexivity|]. exfalso.
    unfold conn_close in E. destruct (nth_error (allc s) id) as [c0|] eqn:E0; [|congruence].
    destruct (c_closed c0) eqn:Ec0; [congruence|]. simpl in E.
    rewrite (nth_upd_conn_same _ _ _ c0 E0) in E. inversion E; subst. simpl in Ec. discriminate.
Qed.
Print Assumptions C12_close_idempotent.

(* ---- all interleavings (UdpListener/Conc.v): the read loop inside getConn, listener Close, any number of Accept calls and
   connection Closes, and the closer goroutine, one synchronisation operation per step ------------------------------------ *)

(* the socket is closed only after the listener has dropped its reference and every connection handed out by Accept
   has been closed; and the WaitGroup counter is exactly: listener reference + queued + accepted-and-open + in flight *)
Theorem C12_conc_never_earlier : forall cap h s, Conc.crun (Conc.c_init cap) h = Some s ->
  (Conc.sock_closed s = true -> Conc.lref s = false /\ Conc.n_open s = 0) /\
  Conc.wg s = b2z (Conc.lref s) + Conc.qlen s + Conc.n_open s + Conc.inflight s.
Proof.
  intros cap h s H. pose proof (Conc.crun_inv h _ _ (Conc.cinv_init cap) H) as I. destruct I. split; assumption.
Qed.
Print Assumptions C12_conc_never_earlier.

(* once listener Close has finished nothing is queued any more, so no Accept can return a connection; and when nothing can
   move any more, the listener is closed and no accepted connection is open, the socket has been closed *)
Theorem C12_conc_closed_in_the_end : forall cap h s, Conc.crun (Conc.c_init cap) h = Some s -> Conc.lc s = Conc.L7 ->
  Conc.cstep s Conc.EAccept = None /\ (Conc.quiescent s -> Conc.n_open s = 0 -> Conc.sock_closed s = true).
Proof.
  intros cap h s H Hl. pose proof (Conc.crun_inv h _ _ (Conc.cinv_init cap) H) as I. split.
  - destruct I as [_ _ _ _ _ _ DR _]. simpl. rewrite DR by auto. reflexivity.
  - intros Q Hn. apply Conc.quiescent_closed; assumption.
Qed.
Print Assumptions C12_conc_closed_in_the_end.

(* non-vacuity: a connection is queued while the listener closes, Accept takes it before the drain, it is closed last *)
Example C12_conc_example :
  exists s, Conc.crun (Conc.c_init 2)
    [Conc.ERlEnter false; Conc.ERlAdd; Conc.ELcStore; Conc.ELcCloseDone; Conc.ERlSend; Conc.EAccept; Conc.ERlUnlock;
     Conc.ELcLock; Conc.ELcDrainEnd; Conc.ELcUnlock; Conc.ELcRelease; Conc.ECcDone; Conc.ECloser] = Some s
  /\ Conc.sock_closed s = true /\ Conc.wg s = 0.
Proof. eexists. vm_compute. auto. Qed.

Example C12_example :
  udp_run [2; 0] [[1; 7; 1; 2]; [1; 8; 3]; [2]; [5]; [1; 7; 9]; [1; 9; 5]; [3; 0; 10]; [3; 0; 10]; [2]; [4; 0]]
  = [[0]; [0]; [0; 0; 7; 0]; [0]; [0]; [0]; [0; 2; 1; 2; 0]; [0; 1; 9; 0]; [2; 0]; [1]].
Proof. vm_compute. reflexivity. Qed.
