(* C12 - UDP listener socket lives exactly as long as the listener or an accepted conn. *)
From Tx Require Import Common.Base UdpListener.Model UdpListener.Proofs.

(* For every history of datagram arrivals, Accept, Conn.Read, Conn.Close (of accepted
   connections) and listener Close, in any order: the shared socket is closed exactly when the
   listener has been closed and no accepted connection is still open - never earlier, and as soon
   as that is the case. ([open_acc] counts connections returned by Accept and not yet closed;
   connections nobody accepted are discarded by listener Close and do not keep the socket.) *)
Theorem C12_socket_closed_iff : forall bl fk h, hist_valid (l_init bl fk) h ->
  let s := l_final (l_init bl fk) h in
  sock_closed s = true <-> (l_closed s = true /\ open_acc (allc s) = 0).
Proof.
  intros bl fk h V s. apply socket_closed_iff. exact (final_inv h (l_init bl fk) (LInv_init bl fk) V).
Qed.
Print Assumptions C12_socket_closed_iff.

(* the reference count of the code (connWG) is, in every reachable state, one for an open
   listener plus the queued plus the accepted-and-open connections *)
Theorem C12_refcount : forall bl fk h, hist_valid (l_init bl fk) h ->
  let s := l_final (l_init bl fk) h in
  refs s = (if l_closed s then 0 else 1) + zlen (acceptq s) + open_acc (allc s).
Proof. intros bl fk h V s. exact (li_refs s (final_inv h (l_init bl fk) (LInv_init bl fk) V)). Qed.
Print Assumptions C12_refcount.

(* after listener Close: Accept fails, nothing is queued, nothing new is created *)
Theorem C12_accept_fails_after_close : forall bl fk h, hist_valid (l_init bl fk) h ->
  let s := l_final (l_init bl fk) h in
  l_closed s = true -> snd (accept s) = Some None /\ accepting s = false.
Proof.
  intros bl fk h V s Hc. destruct (li_closed s (final_inv h (l_init bl fk) (LInv_init bl fk) V) Hc) as [Hq Ha].
  unfold accept. rewrite Hq, Hc. auto.
Qed.
Print Assumptions C12_accept_fails_after_close.

(* Close is idempotent on the listener and on connections *)
Theorem C12_close_idempotent : forall s id,
  listener_close (listener_close s) = listener_close s /\
  conn_close (conn_close s id) id = conn_close s id.
Proof.
  intros s id. split.
  - unfold listener_close at 1. destruct (l_closed (listener_close s)) eqn:E; [reflexivity|].
    unfold listener_close in E. destruct (l_closed s) eqn:E2; simpl in E; congruence.
  - unfold conn_close at 1. destruct (nth_error (allc (conn_close s id)) id) as [c|] eqn:E; [|reflexivity].
    destruct (c_closed c) eqn:Ec; [reflexivity|]. exfalso.
    unfold conn_close in E. destruct (nth_error (allc s) id) as [c0|] eqn:E0; [|congruence].
    destruct (c_closed c0) eqn:Ec0; [congruence|]. simpl in E.
    rewrite (nth_upd_conn_same _ _ _ c0 E0) in E. inversion E; subst. simpl in Ec. discriminate.
Qed.
Print Assumptions C12_close_idempotent.

Example C12_example :
  udp_run [2; 0] [[1; 7; 1; 2]; [1; 8; 3]; [2]; [5]; [1; 7; 9]; [1; 9; 5]; [3; 0; 10]; [3; 0; 10]; [2]; [4; 0]]
  = [[0]; [0]; [0; 0; 7; 0]; [0]; [0]; [0]; [0; 2; 1; 2; 0]; [0; 1; 9; 0]; [2; 0]; [1]].
Proof. vm_compute. reflexivity. Qed.
