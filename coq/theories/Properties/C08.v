(* C08 - packet buffer reads block only while empty and are always woken. *)
From Tx Require Import Common.Base PacketIO.Conc PacketIO.ConcProofs.

(* For ANY number of reader, writer and closer threads and EVERY interleaving of their lock,
   unlock, channel and select operations (and the deadline passing at any moment): in every
   reachable state from which no thread can move, a reader parked in its wait implies that no
   packet is buffered, the buffer is not closed and the deadline has not passed. (Liveness in its
   safety form: under a fair scheduler no reader stays blocked while it could take a packet,
   after Close, or after its deadline.) *)
Theorem C08_no_stuck_reader : forall threads h s, fresh_threads threads ->
  crun (cinit threads) h = Some s -> quiescent s ->
  forall i, nth_error (thr s) i = Some RWait -> count s = 0 /\ closed s = false /\ dl_fired s = false.
Proof.
  intros threads h s F R Q. apply quiescent_no_stuck_reader; [|exact Q].
  exact (crun_inv h (cinit threads) s (CInv_init threads F) R).
Qed.
Print Assumptions C08_no_stuck_reader.

(* A reader that takes the lock while a packet is buffered returns a packet: it never waits. *)
Theorem C08_no_wait_when_buffered : forall s i k s', nth_error (thr s) i = Some RWantLock -> 0 < count s ->
  cstep s i k = Some s' ->
  count s' = count s - 1 /\ (nth_error (thr s') i = Some RPost \/ nth_error (thr s') i = Some RUnlockData).
Proof. exact buffered_read_does_not_wait. Qed.
Print Assumptions C08_no_wait_when_buffered.

(* After Close: remaining packets are still read (previous theorem, which does not look at
   [closed]); once empty every Read reports end-of-file. *)
Theorem C08_closed_empty_gives_eof : forall s i k s', nth_error (thr s) i = Some RWantLock ->
  closed s = true -> count s <= 0 -> cstep s i k = Some s' -> nth_error (thr s') i = Some RUnlockEOF.
Proof. exact closed_read. Qed.
Print Assumptions C08_closed_empty_gives_eof.

(* A passed read deadline makes Read fail at its first check (until the deadline is changed). *)
Theorem C08_deadline_fails_fast : forall s i, nth_error (thr s) i = Some RCheck -> dl_fired s = true ->
  cstep s i 1 = None /\ exists s', cstep s i 0 = Some s' /\ nth_error (thr s') i = Some (Ret 1).
Proof. exact deadline_fails_fast. Qed.
Print Assumptions C08_deadline_fails_fast.

(* Mutual exclusion and the wake-up invariant hold in every reachable state. *)
Theorem C08_invariants : forall threads h s, fresh_threads threads -> crun (cinit threads) h = Some s -> CInv s.
Proof. intros threads h s F R. exact (crun_inv h (cinit threads) s (CInv_init threads F) R). Qed.
Print Assumptions C08_invariants.

(* non-vacuity: the interleaving that lost a wake-up before the repair - two readers between
   Unlock and select, two writes - now ends with both readers served *)
Example C08_example :
  let thr0 := [RCheck; RCheck; WWantLock; WWantLock] in
  let h := [CStep 0 1; CStep 0 0; CStep 0 0; CStep 1 1; CStep 1 0; CStep 1 0;     (* both readers: empty, unlocked, about to wait *)
            CStep 2 0; CStep 2 0; CStep 2 0; CStep 3 0; CStep 3 1; CStep 3 0;     (* two writes: second finds the token set *)
            CStep 0 1; CStep 0 0; CStep 0 0; CStep 0 0;                           (* reader 0 wakes, takes one, re-posts *)
            CStep 1 1; CStep 1 0; CStep 1 0] in
  fresh_threads thr0 /\
  match crun (cinit thr0) h with
  | Some s => thr s = [Ret 0; Ret 0; Ret 3; Ret 3] /\ count s = 0
  | None => False
  end.
Proof. split; [repeat constructor|vm_compute; auto]. Qed.
