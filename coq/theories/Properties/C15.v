(* C15 - token bucket filter never exceeds burst plus rate and keeps FIFO order. *)
From Tx Require Import Common.Base Filters.Tbf Filters.TbfProofs.

(* Rate bound, for every window of a run: starting at ANY arrival (time t, bucket state s
   arbitrary but non-negative) and for every continuation h of arrivals and run-time changes
   of rate and burst with non-decreasing time stamps, the bytes forwarded from that arrival up
   to the last arrival of the window are at most the burst size in force at its start plus the
   largest rate in force at any later arrival multiplied by the elapsed time. Units: K = 8*10^9
   per byte, rate in bit/s, time in ns: K*bytes <= burst*K + rate*dt. *)
Theorem C15_rate_bound : forall s t id size h, mono (last s) (Arrive t id size :: h) ->
  0 <= tokens s -> 0 <= rate s -> queue_ok s -> 0 <= burst s -> (forall b, In (SetBurst b) h -> 0 <= b) ->
  K * bytes (forwarded s (Arrive t id size :: h)) <= burst s * K + rmax (rate s) h * (tend t h - t).
Proof. exact window_bound. Qed.
Print Assumptions C15_rate_bound.

(* Order: for every run, the chunks forwarded so far followed by the chunks still queued are
   exactly the chunks accepted so far, in arrival order: forwarded chunks are an in-order,
   duplicate-free (given distinct ids) subsequence of the arrivals. *)
Theorem C15_fifo_conservation : forall h s, queue s ++ accepted s h = forwarded s h ++ queue (final s h).
Proof. exact fifo_conservation. Qed.
Print Assumptions C15_fifo_conservation.

(* A chunk is discarded only when the byte queue is full (the code's test: bytes queued + size
   >= queue size, for a positive queue size). *)
Theorem C15_discard_only_when_full : forall s t id size s' full out amb,
  arrive s t id size = (s', full, out, amb) ->
  queue s ++ (if full then [] else [(id, size)]) = out ++ queue s' /\
  full = ((max_bytes s >? 0) && (cur_bytes s + size >=? max_bytes s)).
Proof. exact arrive_queue. Qed.
Print Assumptions C15_discard_only_when_full.

(* non-vacuity, and the repaired behaviour on the former counterexample: defaults
   (1 Mbit/s, burst 8000 B), 8000 B at 100 ms and again at 101 ms: the second one waits *)
Example C15_example :
  let h := [Arrive 100000000 1 8000; Arrive 101000000 2 8000; Arrive 165000000 3 4] in
  mono 0 h /\ tbf_run (tbf_init 0 1000000 8000 50000) h = [[1]; []; [2]].
Proof. split; [simpl; lia|vm_compute; reflexivity]. Qed.
