(* C02 - NAT address mapping follows the configured RFC 4787 mapping behaviour. *)
From Tx Require Import Common.Base Nat.Model Nat.Spec Nat.Proofs Nat.SpecFacts.

(* The model of nat.go (which removes expired mappings lazily, when it stumbles on them)
   answers every history with non-decreasing time stamps exactly like the Spec, in which a
   mapping is live iff now <= expires and nothing is ever removed. All configurations. *)
Theorem C02_model_refines_spec : forall m mb fb life mips lips h, monotone 0 h ->
  nat_run (new_nat m mb fb life mips lips) h = s_run (new_nat m mb fb life mips lips) h.
Proof. intros. apply model_refines_spec. assumption. Qed.
Print Assumptions C02_model_refines_spec.

(* In every reachable Spec state: external addresses are pairwise distinct (never held by two
   mappings at once), carry the router's first IP and a port of the dynamic range counted
   from 49152. *)
Theorem C02_unique_and_counted : forall m mb fb life mips lips h,
  SInv (s_final (new_nat m mb fb life mips lips) h).
Proof.
  intros. apply s_final_inv.
  destruct (init_inv (new_nat m mb fb life mips lips)) as [_ [_ SI]];
    try (unfold new_nat; destruct m; reflexivity). exact SI.
Qed.
Print Assumptions C02_unique_and_counted.

(* Every external address handed out is an IP of the router with a valid UDP port. *)
Theorem C02_external_valid : forall t s src dst a, one_to_one s = false -> SInv s ->
  snd (s_translate_out t s src dst) = ROk a -> fst a = ip0 s /\ 49152 <= snd a <= 65535.
Proof. exact s_out_valid. Qed.
Print Assumptions C02_external_valid.

(* Same external address exactly while a mapping for the same internal endpoint and the same
   mapping key (nothing / remote IP / remote IP and port) is live: the outbound datagram then
   gets that mapping's address ... *)
Theorem C02_reuse_while_live : forall t s src dst m, one_to_one s = false -> SInv s ->
  find (fun m0 => okey_match src (key_of (mapb s) dst) m0 && live t m0) (maps s) = Some m ->
  snd (s_translate_out t s src dst) = (if snd (m_mapped m) >? 65535 then RErr else ROk (m_mapped m)) /\
  In m (maps s) /\ okey m = (src, key_of (mapb s) dst) /\ t <= m_expires m /\
  counter (fst (s_translate_out t s src dst)) = counter s.
Proof. exact s_out_reuse. Qed.
Print Assumptions C02_reuse_while_live.

(* ... and otherwise (no mapping with that key, or only expired ones: a full lifetime without
   outbound traffic) it gets a fresh address that no mapping of the state holds. *)
Theorem C02_otherwise_fresh : forall t s src dst, one_to_one s = false -> SInv s ->
  find (fun m0 => okey_match src (key_of (mapb s) dst) m0 && live t m0) (maps s) = None ->
  let a := (ip0 s, 49152 + counter s) in
  snd (s_translate_out t s src dst) = (if 49152 + counter s >? 65535 then RErr else ROk a) /\
  (forall m, In m (maps s) -> m_mapped m <> a) /\
  (forall m, In m (maps s) -> okey m = (src, key_of (mapb s) dst) -> m_expires m < t) /\
  counter (fst (s_translate_out t s src dst)) = counter s + 1.
Proof. exact s_out_fresh. Qed.
Print Assumptions C02_otherwise_fresh.

(* Inbound traffic never prolongs (or changes) anything in the Spec. *)
Theorem C02_inbound_never_prolongs : forall s t src dst, fst (s_step s (NIn t src dst)) = s.
Proof. reflexivity. Qed.
Print Assumptions C02_inbound_never_prolongs.

(* 1:1 mode: local IP -> paired external IP with the port preserved, and back. *)
Theorem C02_one_to_one_roundtrip : forall s t t' src dst ip,
  one_to_one s = true -> NoDup (mappedIPs s) -> length (localIPs s) = length (mappedIPs s) ->
  s_translate_out t s src dst = (s, ROk (ip, snd src)) ->
  s_translate_in t' s dst (ip, snd src) = ROk src.
Proof.
  intros s t t' src dst ip H1 ND L Ho. unfold s_translate_out in Ho. rewrite H1 in Ho.
  destruct (paired (localIPs s) (mappedIPs s) (fst src)) as [y|] eqn:E; [|discriminate].
  inversion Ho; subst y. destruct (paired_inverse _ _ _ _ ND L E) as [Hp _].
  unfold s_translate_in. rewrite H1. simpl. rewrite Hp. destruct src; reflexivity.
Qed.
Print Assumptions C02_one_to_one_roundtrip.

(* non-vacuity: address-dependent mapping, 1 s lifetime *)
Example C02_example :
  let h := [NOut 0 (10, 1000) (50, 80); NOut 5 (10, 1000) (50, 81); NOut 6 (10, 1000) (51, 80);
            NOut 1000000005 (10, 1000) (50, 80); NOut 1000000006 (10, 1000) (50, 80); NOut 1000000007 (10, 1000) (51, 80)] in
  monotone 0 h /\
  nat_run (new_nat false 1 0 1000000000 [99] []) h =
    [[0; 99; 49152]; [0; 99; 49152]; [0; 99; 49153]; [0; 99; 49152]; [0; 99; 49152]; [0; 99; 49154]].
Proof. split; [simpl; lia|vm_compute; reflexivity]. Qed.
