(* C18 - dpipe and Bridge preserve datagrams and apply exactly the scripted impairments. *)
From Coq Require Import Permutation.
From Tx Require Import Common.Base Bridge.Model Bridge.Proofs.

(* Bridge, every history of writes (both directions), reads, DropNextNWrites,
   ReorderNextNWrites, Drop, Reorder, Filter, Close and Tick, from every state: for each
   direction, the messages held at the end (queue and reorder stack) together with the
   messages that left it (delivered to the reader, or discarded by a requested drop / filter)
   are a permutation of the messages held at the start together with the messages written
   into it. Hence nothing is duplicated and nothing is invented. *)
Theorem C18_bridge_conservation : forall h b dir, drops_ok h ->
  Permutation (content (br_final b h) dir ++ snd (flows b h dir))
              (content b dir ++ fst (flows b h dir)).
Proof. intros h b dir Hd. exact (history_conserves h Hd b dir). Qed.
Print Assumptions C18_bridge_conservation.

(* ReorderNextNWrites(n) followed by n writes queues exactly the reversal of those n messages
   (also when requested repeatedly: the stack is empty again afterwards). *)
Theorem C18_reorder_group_exact : forall d ms, dropN d = 0 -> stack d = [] -> ms <> [] ->
  reorderN d = zlen ms ->
  pushes d ms = {| queue := queue d ++ rev ms; dropN := 0; reorderN := 0; stack := []; filt := filt d |}.
Proof. intros d ms Hd Hs Hne Hr. rewrite (reorder_group ms d Hd Hne Hr). rewrite Hs. reflexivity. Qed.
Print Assumptions C18_reorder_group_exact.

(* DropNextNWrites(n): the next n writes are discarded, nothing else changes. *)
Theorem C18_drop_next_exact : forall d ms, zlen ms <= dropN d ->
  pushes d ms = {| queue := queue d; dropN := dropN d - zlen ms; reorderN := reorderN d; stack := stack d; filt := filt d |}.
Proof. exact (fun d ms => drop_group ms d). Qed.
Print Assumptions C18_drop_next_exact.

(* Without a pending drop or reorder request the queue grows by exactly the messages the
   filter admits, in write order. *)
Theorem C18_plain_writes_fifo : forall d ms, dropN d <= 0 -> reorderN d <= 0 ->
  pushes d ms = {| queue := queue d ++ filter (filter_pass (filt d)) ms; dropN := dropN d; reorderN := reorderN d;
                   stack := stack d; filt := filt d |}.
Proof. exact (fun d ms => plain_pushes ms d). Qed.
Print Assumptions C18_plain_writes_fifo.

(* dpipe: a batch written on one end is read on the other in order, one message per read, each
   cut only to the length of the reader's slice. *)
Theorem C18_dpipe_fifo : forall ms p k, dclosed0 p = false -> dclosed1 p = false -> wexp0 p = false -> ch1 p = [] ->
  zlen ms <= dp_cap ->
  dp_run p (map (DWrite 0) ms ++ map (fun _ => DRead 1 k) ms) =
  map (fun m => [zlen m; 0]) ms ++ map (fun m => 0 :: zlen (zfirstn k m) :: zfirstn k m) ms.
Proof. exact dp_fifo. Qed.
Print Assumptions C18_dpipe_fifo.

(* dpipe: a write whose end's write deadline has passed fails and discards what that end had queued (dpipe.cleanWriteBuffer); it
   never touches the messages travelling the other way *)
Theorem C18_dpipe_write_timeout_is_local : forall p side m,
  (if side =? 0 then dclosed0 p else dclosed1 p) = false -> (if side =? 0 then wexp0 p else wexp1 p) = true ->
  snd (dp_step p (DWrite side m)) = [0; 4] /\
  (if side =? 0 then ch0 else ch1) (fst (dp_step p (DWrite side m))) = (if side =? 0 then ch0 else ch1) p /\
  dclosed0 (fst (dp_step p (DWrite side m))) = dclosed0 p /\ dclosed1 (fst (dp_step p (DWrite side m))) = dclosed1 p.
Proof. exact dp_write_timeout_local. Qed.
Print Assumptions C18_dpipe_write_timeout_is_local.

(* dpipe: whether the other end is closed changes neither the answer nor the effect of any
   operation of this end. *)
Theorem C18_dpipe_close_independent : forall p o,
  let side := dirn (op_side o) in
  snd (dp_step (flip_other_closed p side) o) = snd (dp_step p o) /\
  fst (dp_step (flip_other_closed p side) o) = flip_other_closed (fst (dp_step p o)) side.
Proof. exact dp_close_independent. Qed.
Print Assumptions C18_dpipe_close_independent.

Example C18_bridge_example :
  br_run bridge0 [BWrite 0 [1]; BWrite 0 [2]; BReorderNext 0 2; BWrite 0 [3]; BWrite 0 [4];
                  BReorderNext 0 2; BWrite 0 [5]; BWrite 0 [6]; BLen 0;
                  BRead 1 9; BRead 1 9; BRead 1 9; BRead 1 9; BRead 1 9; BRead 1 9; BRead 1 9]
  = [[1]; [1]; []; [1]; [1]; []; [1]; [1]; [6];
     [1;1;1]; [1;1;2]; [1;1;4]; [1;1;3]; [1;1;6]; [1;1;5]; [0]].
Proof. vm_compute. reflexivity. Qed.
