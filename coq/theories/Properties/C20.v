(* C20 - XorBytes equals bytewise XOR over the common prefix for all lengths and overlaps. *)
From Tx Require Import Common.Base Xor.Model Xor.Proofs.

(* For every memory, every placement (offsets are arbitrary, hence every alignment) and length
   of dst, a and b inside it with dst at least n = min(len a, len b) long, and each source either
   exactly dst or not overlapping dst[0..n): the word-wise implementation (either dispatch
   branch) returns n, and afterwards byte d+i holds a[i] XOR b[i] (original contents) for
   every i < n while every other byte of the memory - the rest of dst, a, b and everything
   else - is unchanged ([Done] says exactly that). *)
Theorem C20_xor_spec : forall ua mem0 d ld a la b lb,
  let n := Z.min la lb in
  0 <= la -> 0 <= lb -> n <= ld ->
  0 <= d -> d + ld <= zlen mem0 -> 0 <= a -> a + la <= zlen mem0 -> 0 <= b -> b + lb <= zlen mem0 ->
  (a = d \/ a + n <= d \/ d + n <= a) -> (b = d \/ b + n <= d \/ d + n <= b) ->
  fst (xor_bytes ua mem0 d ld a la b lb) = n /\
  Done mem0 (snd (xor_bytes ua mem0 d ld a la b lb)) d a b n.
Proof. exact xor_bytes_spec. Qed.
Print Assumptions C20_xor_spec.

(* [Done], unfolded, for reference *)
Theorem C20_done_meaning : forall mem0 mem d a b m,
  Done mem0 mem d a b m <->
  (zlen mem = zlen mem0 /\
   forall i, 0 <= i < zlen mem0 ->
     znth i mem = if (d <=? i) && (i <? d + m)
                  then Z.lxor (znth (a + (i - d)) mem0) (znth (b + (i - d)) mem0)
                  else znth i mem0).
Proof. intros. unfold Done. tauto. Qed.
Print Assumptions C20_done_meaning.

(* non-vacuity: dst == a, unaligned offsets, 11 bytes (one word and a 3-byte tail) *)
Example C20_example :
  let mem0 := [9;9;9; 1;2;3;4;5;6;7;8;9;10;11; 9; 255;254;253;252;251;250;249;248;247;246;245;244; 9] in
  xor_bytes true mem0 3 11 3 11 15 12 =
  (11, [9;9;9; 254;252;254;248;254;252;254;240;254;252;254; 9; 255;254;253;252;251;250;249;248;247;246;245;244; 9]).
Proof. vm_compute. reflexivity. Qed.
