(* C17 - Context cancellation of I/O loses no data and leaves the connection usable.

   Model: Ctx/Model.v - the interleavings of the calling goroutine, the watcher goroutine and the
   environment (context cancelled / wrapped connection becomes ready, delivers an empty datagram, takes part of a write, or fails an
   operation with an error of its own, at any instant), for any number
   of consecutive operations on one direction of a netctx.Conn, netctx.PacketConn or connctx.ConnCtx
   (the six functions have the same shape; operations on one direction are serialised by the mutex).
   The tie to the code is checked on every run: the functions are instrumented at every lock, channel,
   select, WaitGroup and go statement, run under a controlled scheduler with cancellation injected at
   every point, and each recorded schedule is replayed through [cxstep]. *)
From Tx Require Import Common.Base Common.ListZ Ctx.Model Ctx.Proofs.

(* [tainted s = false] below says that the wrapped connection has so far accepted every call that sets its deadline. A connection
   that refuses such a call (modelled too: EN_refuse, EW_set_past_fail, EW_restore_fail, so that the recorded error and the byte
   counts are compared with the code) can be left with the forced deadline - no wrapper could take it back - and nothing is
   claimed about deadlines after that; the byte count and the context-error rule of C17_return hold regardless.

   When an operation returns - after any interleaving with cancellation and data arrival -
   its watcher has exited, the wrapped connection carries no forced deadline, the byte count reported
   is the wrapped operation's, and the context's error is reported exactly when the context is over and
   no byte was transferred (so a cancelled operation that reports zero bytes has transferred none, and
   bytes that were transferred are never hidden behind an error). *)
Theorem C17_return : forall h s,
  cxrun cx0 h = Some s -> mp s = MRet ->
  wp s = WEnd /\ (tainted s = false -> dl_past s = false) /\ ret_n s = op_n s /\
  (ret_ctx_err s = true <-> cancelled s = true /\ op_n s = 0).
Proof. exact return_state. Qed.
Print Assumptions C17_return.

(* The next operation (live context) starts on a wrapped connection without a leftover deadline and
   without a watcher of an earlier operation still running. *)
Theorem C17_no_leftover_deadline : forall h s,
  cxrun cx0 h = Some s -> mp s = M0 -> tainted s = false -> dl_past s = false /\ wp s = WNone.
Proof. exact next_op_clean. Qed.
Print Assumptions C17_no_leftover_deadline.

(* The wrapper forces a deadline only after the operation's own context has ended, and the wrapped
   operation times out only for that reason: with a live context it behaves like the wrapped connection. *)
Theorem C17_deadline_only_after_cancel : forall h s,
  cxrun cx0 h = Some s -> tainted s = false ->
  (dl_past s = true -> cancelled s = true /\ (wp s = W5 \/ wp s = WRestore)) /\
  (op_timeout s = true -> cancelled s = true).
Proof.
  intros h s Hr Ht. split.
  - exact (forced_deadline_only_after_cancel h s Hr Ht).
  - exact (timeout_only_after_cancel h s Hr Ht).
Qed.
Print Assumptions C17_deadline_only_after_cancel.

(* Promptness: in every reachable state in which neither goroutine can take a step, the operation has
   returned or sits in the wrapped operation with a live context and nothing to transfer (where the
   wrapped connection itself blocks). In particular once the context is over some goroutine can always
   move until the operation has returned ... *)
Theorem C17_blocked_only_like_wrapped : forall h s,
  cxrun cx0 h = Some s -> tainted s = false -> can_move s = false ->
  mp s = MRet \/ (mp s = MOp /\ ready s = false /\ cancelled s = false).
Proof. exact blocked_only_like_wrapped. Qed.
Print Assumptions C17_blocked_only_like_wrapped.

Theorem C17_cancelled_can_move : forall h s,
  cxrun cx0 h = Some s -> tainted s = false -> cancelled s = true -> mp s <> MRet -> can_move s = true.
Proof. exact cancelled_can_move. Qed.
Print Assumptions C17_cancelled_can_move.

(* ... and the goroutines of one operation take at most [rank s] (at most 86) further steps, whatever
   the environment does in between: after cancellation the operation returns within a bounded number of
   scheduler steps. *)
Theorem C17_bounded_steps : forall h2 h s s2,
  cxrun cx0 h = Some s -> Forall (fun e => In e thread_events) h2 -> cxrun s h2 = Some s2 ->
  zlen h2 <= rank s - rank s2.
Proof. exact thread_steps_bounded. Qed.
Print Assumptions C17_bounded_steps.

(* Conservation over any number of operations and cancellations: between operations the bytes reported
   to the caller equal the bytes taken from (given to) the wrapped connection. *)
Theorem C17_conservation : forall h s xfer rep,
  account cx0 h 0 0 = Some (s, xfer, rep) -> is_ret s = true \/ mp s = M0 -> rep = xfer.
Proof. exact conservation. Qed.
Print Assumptions C17_conservation.

(* non-vacuity: cancellation while parked; cancellation racing with arriving data; a second operation *)
Example C17_cancel_parked :
  exists s, cxrun cx0 [EM_lock; EM_check; EM_add; EM_go; EN_cancel; EW_ctx; EW_set_past; EM_op_timeout;
                       EM_close_done; EW_recv_done; EW_restore; EM_wait_return] = Some s
            /\ mp s = MRet /\ ret_ctx_err s = true /\ ret_n s = 0 /\ dl_past s = false.
Proof. eexists. vm_compute. repeat split. Qed.

Example C17_cancel_races_data :
  exists s, cxrun cx0 [EM_lock; EM_check; EM_add; EM_go; EN_ready; EN_cancel; EW_ctx; EM_op_data; EW_set_past;
                       EM_close_done; EW_recv_done; EW_restore; EM_wait_return; EM_next; EM_lock] = Some s
            /\ mp s = M1 /\ dl_past s = false.
Proof. eexists. vm_compute. repeat split. Qed.

(* the wrapped connection fails the operation with an error of its own while the context is being cancelled: the forced deadline is
   taken back all the same, and the caller gets the context's error (nothing was transferred) *)
Example C17_cancel_and_own_error :
  exists s, cxrun cx0 [EM_lock; EM_check; EM_add; EM_go; EN_cancel; EW_ctx; EW_set_past; EN_fail; EM_op_err;
                       EM_close_done; EW_recv_done; EW_restore; EM_wait_return] = Some s
            /\ mp s = MRet /\ ret_ctx_err s = true /\ dl_past s = false.
Proof. eexists. vm_compute. repeat split. Qed.

(* with a live context the wrapped connection's own error and an empty transfer come back unchanged *)
Example C17_own_error_live_context :
  exists s, cxrun cx0 [EM_lock; EM_check; EM_add; EM_go; EN_fail; EM_op_err; EM_close_done; EW_done; EM_wait_return] = Some s
            /\ mp s = MRet /\ ret_ctx_err s = false /\ ret_own_err s = true.
Proof. eexists. vm_compute. repeat split. Qed.

Example C17_empty_transfer :
  exists s, cxrun cx0 [EM_lock; EM_check; EM_add; EM_go; EN_ready; EM_op_data0; EM_close_done; EW_done; EM_wait_return] = Some s
            /\ mp s = MRet /\ ret_ctx_err s = false /\ ret_own_err s = false /\ ret_n s = 0.
Proof. eexists. vm_compute. repeat split. Qed.

(* a refused restore: the partial write's byte count still comes back, the recorded error does not hide it *)
Example C17_refused_restore_keeps_count :
  exists s, cxrun cx0 [EM_lock; EM_check; EM_add; EM_go; EN_half; EN_cancel; EW_ctx; EW_set_past; EM_op_partial; EM_close_done;
                       EW_recv_done; EN_refuse; EW_restore_fail; EM_wait_return] = Some s
            /\ mp s = MRet /\ ret_n s = 1 /\ ret_ctx_err s = false /\ ret_set_err s = false /\ tainted s = true.
Proof. eexists. vm_compute. repeat split. Qed.

Example C17_reach_size : length reach = 1776%nat.
Proof. vm_compute. reflexivity. Qed.
