(* C13 - vnet never hands out an IP or socket address that is already in use. *)
From Tx Require Import Common.Base VnetAddr.Model VnetAddr.Proofs.

(* Router: an automatic assignment either yields an address that no NIC holds (whatever static
   or automatic assignments came before), inside the subnet, or reports an error and attaches
   nothing; "address space exhausted" is reported only when every remaining candidate
   (last octet lastID+1 .. 254) is already held - never by reusing one. *)
Theorem C13_auto_assignment : forall r r' c given, 0 <= lastID r <= 254 -> add_nic r [] = (r', c, given) ->
  (c = 0 /\ exists ip, given = [ip] /\ memz ip (nics r) = false /\ contains r ip = true /\
            nics r' = ip :: nics r /\ ip = auto_ip r (lastID r') /\ lastID r < lastID r' <= 254) \/
  (c <> 0 /\ given = [] /\ nics r' = nics r /\
   (c = 1 -> lastID r' = 254 /\ forall k, lastID r < k <= 254 -> memz (auto_ip r k) (nics r) = true)).
Proof. exact add_nic_auto. Qed.
Print Assumptions C13_auto_assignment.

(* Router: statically configured addresses are accepted only inside the subnet. *)
Theorem C13_static_in_subnet : forall ips r r', add_ips r ips = (r', 0) ->
  Forall (fun ip => contains r ip = true) ips /\ nics r' = rev ips ++ nics r /\ lastID r' = lastID r /\
  netip r' = netip r /\ mask r' = mask r.
Proof. exact add_ips_contained. Qed.
Print Assumptions C13_static_in_subnet.

(* Host: a bind to an explicit port succeeds exactly when the IP belongs to the host and no
   open socket covers (IP, port) - a wildcard socket or request covers every IP on the port. *)
Theorem C13_bind_iff : forall h ip port off, port <> 0 ->
  fst (fst (snd (bind h ip port off))) = 0 <-> has_ip h ip = true /\ existsb (covers ip port) (socks h) = false.
Proof. exact bind_explicit. Qed.
Print Assumptions C13_bind_iff.

(* Host: port 0 picks, for EVERY starting offset of the scan, a port of 5000..5999 that no
   open socket covers, and fails exactly when no port of the range is free. *)
Theorem C13_ephemeral : forall h ip off, HInv h -> 0 <= off -> has_ip h ip = true ->
  match snd (bind h ip 0 off) with
  | (0, p, _) => 5000 <= p <= 5999 /\ existsb (covers ip p) (socks h) = false
  | (c, _, _) => c = 3 /\ forall p, 5000 <= p <= 5999 -> port_free h ip p = false
  end.
Proof. exact bind_ephemeral. Qed.
Print Assumptions C13_ephemeral.

(* Host: in every reachable state no open socket is covered by another one (so no address is
   held twice), whatever is bound and closed. *)
Theorem C13_bind_keeps_sockets_disjoint : forall h ip port off, HInv h -> 0 <= off ->
  HInv (fst (bind h ip port off)).
Proof. exact bind_inv. Qed.
Print Assumptions C13_bind_keeps_sockets_disjoint.

(* Host: closing a socket frees its address; the other sockets are untouched. *)
Theorem C13_close_frees : forall h s, HInv h -> In s (socks h) ->
  existsb (covers (s_ip s) (s_port s)) (socks (close_sock h (s_id s))) = false /\
  HInv (close_sock h (s_id s)).
Proof. exact close_frees. Qed.
Print Assumptions C13_close_frees.

(* Host: an inbound datagram goes to the unique open socket covering its destination. *)
Theorem C13_find_covers : forall h ip port s, HInv h -> ip <> 0 -> find_sock h ip port = Some s ->
  In s (socks h) /\ covers ip port s = true /\
  forall s', In s' (socks h) -> covers ip port s' = true -> s' = s.
Proof. exact find_sock_unique. Qed.
Print Assumptions C13_find_covers.

Example C13_host_inv_init : HInv {| ips := [loopback; 16909060]; socks := []; next_id := 0 |}.
Proof.
  split; simpl; try (intros ? []). split; [constructor|intros ? ? []].
  intros [H|[H|[]]]; discriminate.
Qed.

Example C13_example :
  c13_run [1; 16909060; 16909061]
    [[1; 16909060; 5000; 0]; [1; 0; 5000; 0]; [1; 16909061; 5000; 0]; [1; 16909060; 5000; 0]; [3; 16909061; 5000];
     [2; 0]; [1; 16909060; 5000; 0]; [1; 0; 0; 999]; [1; 33; 80; 0]]
  = [[0; 5000; 0]; [2; 0; 0]; [0; 5000; 1]; [2; 0; 0]; [1]; []; [0; 5000; 2]; [0; 5999; 3]; [1; 0; 0]].
Proof. vm_compute. reflexivity. Qed.
