(* C06 - packet buffer returns every written packet exactly once, intact, in write order.
   Theorem statements only; proofs are lemmas of PacketIO/Proofs.v. *)
From Tx Require Import Common.Base PacketIO.Model PacketIO.Spec PacketIO.Ring PacketIO.Proofs.

(* For EVERY history of Write/Read/SetLimitCount/SetLimitSize/Close/Count/Size (reads into
   slices of non-negative length) the ring model - data/head/tail indices, growth with
   relinearisation, header and payload wrapping at the ring end, reset when drained - gives
   exactly the answers of a FIFO of packets ([f_run]): Read returns the oldest unread packet,
   cut to the destination length (class 1 = short buffer) and removes exactly it. *)
Theorem C06_ring_refines_fifo : forall h, Forall op_ok h ->
  run empty_buf h = f_run empty_fifo h.
Proof. intros h Hok. exact (run_refines h Hok empty_buf empty_fifo Rep_init). Qed.
Print Assumptions C06_ring_refines_fifo.

(* ... from every reachable state, not only from the empty buffer *)
Theorem C06_refines_from_reachable : forall h0 h, Forall op_ok h0 -> Forall op_ok h ->
  run (final empty_buf h0) h = f_run (f_final empty_fifo h0) h.
Proof.
  intros h0 h H0 H. exact (run_refines h H _ _ (final_rep h0 H0 empty_buf empty_fifo Rep_init)).
Qed.
Print Assumptions C06_refines_from_reachable.

(* Spelled out for one family of histories: any batch of packets (each < 65536 bytes, total
   below the 4 MiB cap) written to a fresh buffer is accepted and read back in order, with the
   same boundaries and bytes. *)
Theorem C06_write_all_read_all : forall ps,
  Forall (fun p => zlen p < 65536) ps -> fsize ps < maxSize ->
  run empty_buf (map Write ps ++ map (fun _ => Read 65535) ps) =
  map (fun _ => [0]) ps ++ map (fun p => 0 :: zlen p :: 1 :: repr p) ps.
Proof.
  intros ps Hs Hsz.
  rewrite C06_ring_refines_fifo.
  - rewrite (f_run_writes ps empty_fifo _ ltac:(unfold no_limits; simpl; lia) Hs Hsz).
    f_equal. apply (f_run_reads ps _ []); [simpl; rewrite app_nil_r; reflexivity|exact Hs].
  - apply Forall_app. split; apply Forall_forall; intros o Ho; apply in_map_iff in Ho;
      destruct Ho as [x [<- _]]; simpl; auto. lia.
Qed.
Print Assumptions C06_write_all_read_all.

(* A read into a slice shorter than the next packet returns its leading bytes with the
   short-buffer class and consumes the whole packet. *)
Theorem C06_short_read_consumes : forall b f p rest k,
  Rep b f -> q f = p :: rest -> 0 <= k < zlen p ->
  exists b', read b k = (b', (1, zfirstn k p)) /\
             Rep b' {| q := rest; f_limitCount := f_limitCount f; f_limitSize := f_limitSize f;
                       f_closed := f_closed f |}.
Proof.
  intros b f p rest k R Hq Hk. pose proof (read_spec b f k R ltac:(lia)) as S.
  destruct (read b k) as [b' r]. unfold f_read in S. rewrite Hq in S.
  destruct S as [-> R']. exists b'. split; [|exact R'].
  destruct (k <? zlen p) eqn:E; [reflexivity|lia].
Qed.
Print Assumptions C06_short_read_consumes.

(* Packets of 65536 bytes or more, and writes after Close, are refused with the state unchanged. *)
Theorem C06_too_big_refused : forall b p, 65536 <= zlen p -> write b p = (b, 1).
Proof. intros b p H. unfold write. destruct (zlen p >=? 65536) eqn:E; [reflexivity|lia]. Qed.
Print Assumptions C06_too_big_refused.

Theorem C06_write_after_close_refused : forall b p, zlen p < 65536 -> closed b = true -> write b p = (b, 2).
Proof.
  intros b p H Hc. unfold write. destruct (zlen p >=? 65536) eqn:E; [lia|]. rewrite Hc. reflexivity.
Qed.
Print Assumptions C06_write_after_close_refused.

(* non-vacuity: a concrete history that wraps header and payload around a 13-byte ring *)
Example C06_example :
  run empty_buf [SetLimitSize 12; Write [1;2;3]; Write [4;5]; Read 100; Write [6;7;8;9]; Read 100; Read 2; Size; Count]
  = [[]; [0]; [0]; [0; 3; 1; 1; 2; 3]; [0]; [0; 2; 1; 4; 5]; [1; 2; 1; 6; 7]; [0]; [0]].
Proof. vm_compute. reflexivity. Qed.
