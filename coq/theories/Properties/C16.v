(* C16 - loss filter drops by the configured probability and alters nothing else. *)
From Tx Require Import Common.Base Filters.Loss.

(* chance <= 0: every datagram is forwarded, whatever the draws *)
Theorem C16_zero_forwards_all : forall chance stream, chance <= 0 -> draws_ok stream ->
  loss_run chance stream = map snd stream.
Proof. exact loss_zero. Qed.
Print Assumptions C16_zero_forwards_all.

(* chance >= 100: none is forwarded *)
Theorem C16_hundred_drops_all : forall chance stream, 100 <= chance -> draws_ok stream ->
  loss_run chance stream = [].
Proof. exact loss_hundred. Qed.
Print Assumptions C16_hundred_drops_all.

(* what is forwarded is an in-order subsequence of what arrived, each datagram at most once *)
Theorem C16_subsequence : forall chance stream, subseq (loss_run chance stream) (map snd stream).
Proof. exact loss_subseq. Qed.
Print Assumptions C16_subsequence.

(* exactly clamp(chance, 0, 100) of the 100 equally likely draw values drop a datagram: under
   uniform draws the drop probability is chance/100 *)
Theorem C16_drop_count : forall chance,
  Z.of_nat (length (filter (fun d => negb (loss_forward chance d)) (map Z.of_nat (seq 0 100))))
  = Z.max 0 (Z.min chance 100).
Proof.
  intros chance. change 100 with (Z.of_nat 100). rewrite <- (count_below 100 chance). f_equal. f_equal.
  apply filter_ext. intros d. unfold loss_forward. rewrite negb_involutive. reflexivity.
Qed.
Print Assumptions C16_drop_count.

Example C16_example : loss_run 30 [(29, 1); (30, 2); (0, 3); (99, 4)] = [2; 4].
Proof. reflexivity. Qed.
