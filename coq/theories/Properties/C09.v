(* C09 - Deadline fires exactly when the latest set time passes, never from a stale timer. *)
From Tx Require Import Common.Base Deadline.Model Deadline.Proofs.

(* Every sequence of Set(zero | past | future), clock advances, timer dispatches and callback
   runs in ANY order (a dispatched callback may run after any number of later Sets), with fewer
   than 254 callbacks outstanding at a time, from a fresh Deadline: *)

(* the Done channel is closed only if the most recent Set gave a non-zero time that has
   passed - never early, never by the timer of an earlier Set *)
Theorem C09_never_early_never_stale : forall t0 h, 0 < t0 -> bounded (dl0 t0) h ->
  let d := dl_final (dl0 t0) h in
  done_closed d = true -> deadline d <> 0 /\ deadline d <= now d.
Proof.
  intros t0 h H0 B d Hc. pose proof (final_inv h (dl0 t0) (DInv_init t0 H0) B) as I. fold d in I.
  apply (i_exceeded d I). rewrite (i_closed d I) in Hc. destruct (st d); simpl in Hc; try discriminate. reflexivity.
Qed.
Print Assumptions C09_never_early_never_stale.

(* [deadline] is the argument of the most recent Set: Set stores it, nothing else touches it *)
Theorem C09_deadline_reports_last_set : forall d t o,
  deadline (set d t) = t /\
  (match o with DSet _ => False | _ => True end -> deadline (dl_step d o) = deadline d).
Proof.
  intros d t o. split.
  - unfold set. destruct (if isExceeded (st d) then _ else _). destruct (t =? 0); [reflexivity|].
    destruct (t >? now d); reflexivity.
  - destruct o; simpl; try contradiction; intros _.
    + unfold fire. destruct (armed d); [destruct (_ <=? _)|]; reflexivity.
    + unfold run_callback. destruct (_ <=? _); [reflexivity|]. destruct (_ || _); reflexivity.
    + reflexivity.
Qed.
Print Assumptions C09_deadline_reports_last_set.

(* it does fire: once the most recent Set's non-zero time has passed and the timer has nothing
   left to deliver (no armed due timer, no dispatched callback waiting to run), Done is closed *)
Theorem C09_fires_when_timer_quiescent : forall t0 h, 0 < t0 -> bounded (dl0 t0) h ->
  let d := dl_final (dl0 t0) h in
  deadline d <> 0 -> deadline d <= now d -> outstanding d = 0 ->
  (forall t, armed d = Some t -> now d < t) ->
  done_closed d = true.
Proof.
  intros t0 h H0 B d Hd Hp Ho Ha. pose proof (final_inv h (dl0 t0) (DInv_init t0 H0) B) as I. fold d in I.
  rewrite (i_closed d I). destruct (st d) eqn:Es; simpl.
  - exfalso. apply Hd. apply (i_stopped d I Es).
  - exfalso. destruct (i_started d I Es) as [_ Hq].
    destruct (armed d) as [a|] eqn:Ea.
    + destruct (i_armed d I a Ea) as [_ E]. specialize (Ha a eq_refl). lia.
    + destruct (Hq eq_refl). lia.
  - reflexivity.
Qed.
Print Assumptions C09_fires_when_timer_quiescent.

(* Err reports deadline-exceeded exactly when Done is closed; no channel is ever closed twice *)
Theorem C09_err_iff_done_and_no_double_close : forall t0 h, 0 < t0 -> bounded (dl0 t0) h ->
  let d := dl_final (dl0 t0) h in
  done_closed d = isExceeded (st d) /\ double_close d = false.
Proof.
  intros t0 h H0 B d. pose proof (final_inv h (dl0 t0) (DInv_init t0 H0) B) as I. fold d in I.
  split; [apply (i_closed d I)|apply (i_nodouble d I)].
Qed.
Print Assumptions C09_err_iff_done_and_no_double_close.

(* a Set after expiry installs a fresh Done channel, unsignalled unless the new time has
   itself already passed *)
Theorem C09_fresh_channel_after_expiry : forall d t, DInv d -> st d = Exceeded ->
  done (set d t) = done d + 1 /\ (t = 0 \/ now d < t -> done_closed (set d t) = false).
Proof.
  intros d t I Es. unfold set. rewrite Es. simpl.
  destruct (t =? 0) eqn:E0; simpl; [split; [reflexivity|intros; reflexivity]|].
  destruct (t >? now d) eqn:E1; simpl; split; try reflexivity; intros [H|H]; lia.
Qed.
Print Assumptions C09_fresh_channel_after_expiry.

(* non-vacuity: Set(t1), expiry dispatched, Set(t2 > t1), the stale callback runs (nothing
   happens), later the real expiry fires *)
Example C09_example :
  let h := [DSet 100; DAdvance 60; DFire; DSet 200; DRun; DAdvance 100; DFire; DRun] in
  bounded (dl0 50) h /\
  dl_run (dl0 50) h =
  [[0;0;0;100;0]; [0;0;0;100;0]; [0;0;0;100;0]; [0;0;0;200;0]; [0;0;0;200;0]; [0;0;0;200;0]; [0;0;0;200;0]; [1;0;1;200;0]].
Proof. split; [simpl; lia|vm_compute; reflexivity]. Qed.
