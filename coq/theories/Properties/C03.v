(* C03 - NAT admits inbound datagrams only per its filtering rule, to the mapping owner. *)
From Tx Require Import Common.Base Nat.Model Nat.Spec Nat.Proofs Nat.SpecFacts.

(* An inbound datagram is forwarded iff a live mapping owns its destination address and the
   sender matches a permission of that mapping under the filtering key (nothing / IP / IP and
   port); it is then forwarded to the internal endpoint that created the mapping. *)
Theorem C03_admit_iff : forall t s src dst a, one_to_one s = false -> SInv s ->
  s_translate_in t s src dst = ROk a <->
  exists m, In m (maps s) /\ m_mapped m = dst /\ t <= m_expires m /\
            has_key (key_of (filtb s) src) (m_filters m) = true /\ a = m_local m.
Proof. exact s_in_admit_iff. Qed.
Print Assumptions C03_admit_iff.

(* A permission is recorded only by an outbound datagram through the mapping, for the key of
   its destination: after the owner sends to [dst] through a live mapping, that mapping (and
   only that mapping) permits key_of filtb dst. *)
Theorem C03_permission_from_outbound : forall t s src dst m, one_to_one s = false ->
  find (fun m0 => okey_match src (key_of (mapb s) dst) m0 && live t m0) (maps s) = Some m ->
  maps (fst (s_translate_out t s src dst)) =
  update_map (fun m0 => okey_match src (key_of (mapb s) dst) m0 && live t m0)
             (refresh (key_of (filtb s) dst) (t + lifetime s)) (maps s).
Proof.
  intros t s src dst m H1 Hf. unfold s_translate_out. rewrite H1. unfold find_map. rewrite Hf. reflexivity.
Qed.
Print Assumptions C03_permission_from_outbound.

(* Every inbound datagram - dropped or not - changes no later answer of the MODEL (the code's
   lazy removal of an expired mapping is unobservable), for all later histories. *)
Theorem C03_inbound_changes_no_later_answer : forall m mb fb life mips lips h0 t src dst h,
  monotone 0 (h0 ++ NIn t src dst :: h) ->
  exists r, nat_run (new_nat m mb fb life mips lips) (h0 ++ NIn t src dst :: h) =
            firstn (length h0) (nat_run (new_nat m mb fb life mips lips) (h0 ++ h)) ++
            r :: skipn (length h0) (nat_run (new_nat m mb fb life mips lips) (h0 ++ h)).
Proof.
  intros m mb fb life mips lips h0 t src dst h Hm.
  assert (Hsplit : forall h1 h2 t0, monotone t0 (h1 ++ NIn t src dst :: h2) -> monotone t0 (h1 ++ h2)).
  { induction h1 as [|o h1 IH]; intros h2 t0 H; simpl in *.
    - destruct H as [Ht H]. destruct h2 as [|o2 h2']; simpl in *; [exact I|]. destruct H; split; [lia|assumption].
    - destruct H; split; [assumption|]. apply IH. assumption. }
  rewrite (model_refines_spec m mb fb life mips lips _ Hm).
  rewrite (model_refines_spec m mb fb life mips lips _ (Hsplit h0 h 0 Hm)).
  generalize (new_nat m mb fb life mips lips). clear.
  induction h0 as [|o h0 IH]; intros s; simpl.
  - eexists. reflexivity.
  - destruct (s_step s o) as [s' r0]. destruct (IH s') as [r Hr]. exists r. simpl. rewrite Hr. reflexivity.
Qed.
Print Assumptions C03_inbound_changes_no_later_answer.

(* 1:1 mode: a datagram to a paired external IP goes to the paired local IP, port preserved;
   to an unpaired IP it is refused. *)
Theorem C03_one_to_one : forall s t src dst, one_to_one s = true ->
  s_translate_in t s src dst =
  match paired (mappedIPs s) (localIPs s) (fst dst) with Some ip => ROk (ip, snd dst) | None => RErr end.
Proof. intros s t src dst H. unfold s_translate_in. rewrite H. reflexivity. Qed.
Print Assumptions C03_one_to_one.

(* non-vacuity: port-restricted filtering, 1 s lifetime: same IP other port refused, after
   expiry refused, the refused datagrams did not keep the mapping alive *)
Example C03_example :
  let h := [NOut 0 (10, 1000) (50, 80); NIn 1 (50, 80) (99, 49152); NIn 2 (50, 81) (99, 49152);
            NIn 3 (51, 80) (99, 49152); NIn 1000000000 (50, 80) (99, 49152); NIn 1000000001 (50, 80) (99, 49152)] in
  monotone 0 h /\
  nat_run (new_nat false 0 2 1000000000 [99] []) h = [[0; 99; 49152]; [0; 10; 1000]; [2]; [2]; [0; 10; 1000]; [2]].
Proof. split; [simpl; lia|vm_compute; reflexivity]. Qed.
