(* C11 - UDP listener hands each datagram to the one connection of its remote address. *)
From Tx Require Import Common.Base UdpListener.Model UdpListener.Proofs.

(* a datagram from a remote that has a connection is appended to that connection's buffer -
   unless the connection is closed, or its buffer is full (then the datagram is dropped and the connection stays registered:
   [deliver_fn]) - and nothing else changes: every other connection, the
   accept queue and the map are untouched *)
Theorem C11_known_remote : forall s r p id, sock_closed s = false -> lookup (conns s) r = Some id ->
  let s' := arrive s r p in
  conns s' = conns s /\ acceptq s' = acceptq s /\ refs s' = refs s /\
  allc s' = upd_conn (allc s) id (deliver_fn p) /\
  (forall j, j <> id -> nth_error (allc s') j = nth_error (allc s) j).
Proof.
  intros s r p id Ho Hl s'. unfold s', arrive. rewrite Ho, Hl. simpl.
  repeat split. intros j Hj. apply nth_upd_conn_other. congruence.
Qed.
Print Assumptions C11_known_remote.

Theorem C11_full_buffer_keeps_connection : forall p c, c_closed c = false -> buf_full c = true -> deliver_fn p c = c.
Proof. intros p c Hc Hf. unfold deliver_fn. rewrite Hc, Hf. reflexivity. Qed.
Print Assumptions C11_full_buffer_keeps_connection.

(* the first datagram from an unknown remote creates exactly one new connection - queued last
   for Accept, holding that datagram - provided the listener accepts, the filter admits the
   datagram and the backlog has room; otherwise nothing at all changes *)
Theorem C11_unknown_remote : forall s r p, sock_closed s = false -> lookup (conns s) r = None ->
  let s' := arrive s r p in
  if accepting s && filter_admits (filter_kind s) p && negb (zlen (acceptq s) >=? backlog s) then
    conns s' = (r, length (allc s)) :: conns s /\
    acceptq s' = acceptq s ++ [length (allc s)] /\
    refs s' = refs s + 1 /\
    allc s' = allc s ++ [{| c_remote := r; c_buf := [p]; c_closed := false; c_accepted := false; c_limit := 0 |}]
  else s' = s.
Proof.
  intros s r p Ho Hl s'. unfold s', arrive. rewrite Ho, Hl.
  destruct (accepting s); simpl; [|reflexivity].
  destruct (filter_admits (filter_kind s) p); simpl; [|reflexivity].
  destruct (zlen (acceptq s) >=? backlog s); simpl; [reflexivity|].
  repeat split.
  assert (H : forall (l : list uconn) c f, upd_conn (l ++ [c]) (length l) f = l ++ [f c]).
  { induction l as [|x l IH]; intros c f; simpl; [reflexivity|]. rewrite IH. reflexivity. }
  rewrite H. reflexivity.
Qed.
Print Assumptions C11_unknown_remote.

(* a connection's reads return what arrived for it, in order, one datagram per read *)
Theorem C11_read_is_fifo : forall s id c p rest k, nth_error (allc s) id = Some c -> c_buf c = p :: rest ->
  snd (conn_read s id k) = ((if k <? zlen p then 1 else 0), zfirstn k p) /\
  nth_error (allc (fst (conn_read s id k))) id =
    Some {| c_remote := c_remote c; c_buf := rest; c_closed := c_closed c; c_accepted := c_accepted c; c_limit := c_limit c |}.
Proof.
  intros s id c p rest k Hn Hb. unfold conn_read. rewrite Hn, Hb. simpl. split; [reflexivity|].
  exact (nth_upd_conn_same (allc s) id (fun c0 => {| c_remote := c_remote c0; c_buf := rest; c_closed := c_closed c0; c_accepted := c_accepted c0; c_limit := c_limit c0 |}) c Hn).
Qed.
Print Assumptions C11_read_is_fifo.

(* while a connection is open no second connection for its remote can be created (the map entry
   exists until Conn.Close removes it); after Close a new datagram creates a fresh one *)
Theorem C11_close_unmaps : forall s id c, nth_error (allc s) id = Some c -> c_closed c = false ->
  lookup (conns (conn_close s id)) (c_remote c) = None.
Proof.
  intros s id c Hn Hc. unfold conn_close. rewrite Hn, Hc. simpl.
  induction (conns s) as [|[r j] m IH]; simpl; [reflexivity|].
  destruct (r =? c_remote c) eqn:E; simpl; [exact IH|]. rewrite E. exact IH.
Qed.
Print Assumptions C11_close_unmaps.

Example C11_example :
  udp_run [1; 1] [[1; 7; 1; 2]; [1; 8; 3]; [1; 7; 9]; [1; 9; 4]; [2]; [3; 0; 10]; [3; 0; 1]; [2]; [1; 8; 3]; [2]]
  = [[0]; [0]; [0]; [0]; [0; 0; 7; 0]; [0; 2; 1; 2; 0]; [0; 1; 9; 0]; [3; 0]; [0]; [0; 1; 8; 0]].
Proof. vm_compute. reflexivity. Qed.
