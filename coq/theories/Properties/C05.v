(* C05 - replay detectors implement exactly the sliding-window acceptance rule. *)
From Tx Require Import Common.Base ReplayDetector.Model ReplayDetector.Spec
  ReplayDetector.PlainProofs ReplayDetector.WrapProofs.

(* Plain detector: for every window size, maximum and history of uint64 sequence numbers the
   answers (Check result, callback result) are those of the Spec [ps_run], whose state is
   just the list of accepted numbers: Check succeeds iff seq <= max, seq was not accepted
   before and seq is newer than the newest accepted number (0 when none) or fewer than
   [window] positions behind it; the callback returns true iff seq is newer than everything
   accepted. *)
Theorem C05_plain_exact : forall c h,
  in_u64 (window c) -> ops_in_range h -> p_run c p_init h = ps_run c [] h.
Proof.
  intros c h Hw Hr.
  exact (p_run_refines c h Hw Hr p_init [] ltac:(unfold in_u64, two64; simpl; lia) (PInv_init c)).
Qed.
Print Assumptions C05_plain_exact.

(* Wrapping detector: 4 <= max < 2^62, 2*window <= max+1, every history none of whose checks
   is at one of the two unconstrained distances (half, half+1 ahead of the newest): the answers
   are those of the modular Spec [ws_run]. *)
Theorem C05_wrap_exact : forall c h,
  cfg_ok5 c -> ops_in_range h -> ws_constrained c ws_init h = true ->
  w_run c w_init_state h = ws_run c ws_init h.
Proof. intros c h Hc Hr Hk. exact (w_run_refines c h Hc Hr w_init_state ws_init (WInv_init c) Hk). Qed.
Print Assumptions C05_wrap_exact.

(* A Check whose callback is not invoked leaves the detector exactly as it was. *)
Theorem C05_check_pure_plain : forall c s seq, fst (p_step c s seq false) = s.
Proof. intros. unfold p_step. destruct (p_check c s seq); reflexivity. Qed.
Print Assumptions C05_check_pure_plain.

Theorem C05_check_pure_wrap : forall c s seq, fst (w_step c s seq false) = s.
Proof. intros. unfold w_step. destruct (w_check c s seq); reflexivity. Qed.
Print Assumptions C05_check_pure_wrap.

Example C05_wrap_example :
  let c := {| window := 64; maxSeq := 65535 |} in
  let h := [(65534, true); (2, true); (65534, true); (1000, false); (65533, true); (40000, true); (30, true)] in
  cfg_ok5 c /\ ws_constrained c ws_init h = true /\
  w_run c w_init_state h =
    [(true, Some true); (true, Some true); (false, Some false); (true, None); (true, Some false);
     (false, Some false); (true, Some true)].
Proof. split; [unfold cfg_ok5; simpl; lia|split; vm_compute; reflexivity]. Qed.

Example C05_plain_example :
  let c := {| window := 130; maxSeq := 1000 |} in
  p_run c p_init [(0, true); (129, true); (0, true); (1, true); (130, true); (1, true); (0, false); (1001, true)]
  = [(true, Some true); (true, Some true); (false, Some false); (true, Some false); (true, Some true);
     (false, Some false); (false, None); (false, Some false)].
Proof. vm_compute. reflexivity. Qed.
