(* C19 - Concurrent use of the thread-safe APIs is free of data races.

   The access table Race/Table.v is REGENERATED from the working tree on every run (tools/raceaudit): every
   access to a field of a struct that owns a mutex, and to a package-level variable, in packetio, deadline, dpipe,
   udp and vnet, with the mutexes of the same object held at that point. The lock discipline is evaluated on the
   table inside Coq, and the discipline is proved to exclude conflicting simultaneous accesses on an abstract
   machine of threads, mutexes and read-write mutexes. *)
From Coq Require Import String List Bool.
Import ListNotations.
From Tx Require Import Race.Lockset Race.Table.

(* every shared variable of the table is never written after publication, or has a mutex (or belongs to the
   single goroutine of its object) that every access holds - exclusively when the access writes *)
Theorem C19_discipline : check table = true.
Proof. vm_compute. reflexivity. Qed.
Print Assumptions C19_discipline.

Theorem C19_table_meaning : forall a, In a table -> a_init a = false ->
  (forall b, In b table -> same_var a b = true -> a_init b = false -> a_write b = false) \/
  (exists m, forall b, In b table -> same_var a b = true -> a_init b = false ->
     exists md, In (m, md) (a_held b) /\ (a_write b = true -> md = Locked)).
Proof. exact (check_sound table C19_discipline). Qed.
Print Assumptions C19_table_meaning.

(* the discipline excludes races: for any number of threads running any programs over any locks and variables,
   if every access is made with the variable's guarding lock held (exclusively for a write; variables without a
   guard are never written), then in no reachable state are two threads about to access the same variable with
   one of them writing *)
Theorem C19_discipline_excludes_conflicts :
  forall (lock var : Type) (lock_eqb : lock -> lock -> bool),
  (forall a b, lock_eqb a b = true <-> a = b) ->
  forall (guard : var -> option lock) (ts0 ts : list (thread lock var)) i j ti tj x wi wj pi pj,
  (forall k t, nth_error ts0 k = Some t -> held lock var t = [] /\ disciplined lock var lock_eqb guard [] (prog lock var t)) ->
  reach lock var lock_eqb ts0 ts -> i <> j ->
  nth_error ts i = Some ti -> nth_error ts j = Some tj ->
  prog lock var ti = Access lock var x wi :: pi -> prog lock var tj = Access lock var x wj :: pj ->
  wi = false /\ wj = false.
Proof. intros. eapply discipline_no_conflict; eauto. Qed.
Print Assumptions C19_discipline_excludes_conflicts.

(* non-vacuity: the table is not empty, and the check does reject an unlocked write next to a locked read *)
Example C19_table_size : Nat.leb 100 (length table) = true.
Proof. vm_compute. reflexivity. Qed.

Example C19_check_rejects :
  check [mk_access "p.S" "f" "S.Get" "s.go:10" false [("mu", RdLocked)] false;
         mk_access "p.S" "f" "S.Set" "s.go:20" true [] false] = false /\
  check [mk_access "p.S" "f" "S.Get" "s.go:10" false [("mu", RdLocked)] false;
         mk_access "p.S" "f" "S.Set" "s.go:20" true [("mu", RdLocked)] false] = false /\
  check [mk_access "p.S" "f" "S.Get" "s.go:10" false [("mu", RdLocked)] false;
         mk_access "p.S" "f" "S.Set" "s.go:20" true [("mu", Locked)] false] = true.
Proof. vm_compute. repeat split. Qed.
