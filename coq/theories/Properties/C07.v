(* C07 - packet buffer enforces its count and size limits and reports exact occupancy. *)
From Tx Require Import Common.Base PacketIO.Model PacketIO.Spec PacketIO.Ring PacketIO.Proofs.

(* In every reachable state of the ring model, Count is the number of unread packets and Size
   the sum of their lengths plus two bytes each (the state of the FIFO Spec after the same
   history). *)
Theorem C07_count_size_exact : forall h, Forall op_ok h ->
  let b := final empty_buf h in let f := f_final empty_fifo h in
  Rep b f /\ step b Count = (b, [zlen (q f)]) /\ step b Size = (b, [fsize (q f)]).
Proof.
  intros h Hok b f. pose proof (final_rep h Hok empty_buf empty_fifo Rep_init) as R.
  fold b f in R. split; [exact R|]. simpl. rewrite (r_count b f R), (rep_size b f R). auto.
Qed.
Print Assumptions C07_count_size_exact.

(* In every reachable open state a write of an admissible packet is refused as "full" exactly
   when the count limit is reached, or the size limit would be exceeded, or (no size limit)
   the 4 MiB cap would be reached - [f_full] is that rule, literally - and is accepted
   otherwise: in particular the ring always manages to grow far enough. *)
Theorem C07_refusal_iff : forall h p, Forall op_ok h ->
  let b := final empty_buf h in let f := f_final empty_fifo h in
  zlen p < 65536 -> closed b = false ->
  (snd (write b p) = 3 <-> f_full f (zlen p) = true) /\
  (snd (write b p) = 0 <-> f_full f (zlen p) = false).
Proof.
  intros h p Hok b f Hp Hc.
  exact (write_full_iff b f p (final_rep h Hok empty_buf empty_fifo Rep_init) Hp Hc).
Qed.
Print Assumptions C07_refusal_iff.

(* the rule itself, unfolded *)
Theorem C07_full_rule : forall f plen,
  f_full f plen = true <->
  (0 < f_limitCount f /\ f_limitCount f <= zlen (q f)) \/
  (0 < f_limitSize f /\ f_limitSize f < fsize (q f) + 2 + plen) \/
  (f_limitSize f <= 0 /\ maxSize <= fsize (q f) + 2 + plen).
Proof. intros f plen. unfold f_full. lia. Qed.
Print Assumptions C07_full_rule.

(* A refused write changes nothing at all (contents, Count, Size, ring). *)
Theorem C07_refused_write_unchanged : forall b p, snd (write b p) <> 0 -> fst (write b p) = b.
Proof. intros b p H. exact (write_refused_unchanged b p _ eq_refl H). Qed.
Print Assumptions C07_refused_write_unchanged.

(* All answers of every history - including every Count, Size and buffer-full decision
   after limit changes at arbitrary points - are those of the FIFO Spec. *)
Theorem C07_all_answers : forall h, Forall op_ok h -> run empty_buf h = f_run empty_fifo h.
Proof. intros h Hok. exact (run_refines h Hok empty_buf empty_fifo Rep_init). Qed.
Print Assumptions C07_all_answers.

Example C07_example :
  run empty_buf [SetLimitCount 2; Write [1]; Write [2;3]; Write [4]; Count; Size; SetLimitCount 0;
                 SetLimitSize 10; Write [5]; Write [6]; Size; Read 9; Write [6]; Size]
  = [[]; [0]; [0]; [3]; [2]; [7]; []; []; [0]; [3]; [10]; [0; 1; 1; 1]; [0]; [10]].
Proof. vm_compute. reflexivity. Qed.
