From Tx Require Import Common.Base.
