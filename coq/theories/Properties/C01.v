(* C01 - vnet delivers each datagram at most once, intact, in order, to its socket only.

   Model: Vnet/Network.v. A history is any sequence of events - WriteTo on any socket to any address,
   the forwarding of one chunk by any router, ReadFrom, bind, Close, time passing, Start/Stop - on any
   topology (any forest of routers of any depth and width, any NAT configuration, hosts with any
   addresses). Every interleaving of writers, readers and router goroutines is such a sequence. *)
From Tx Require Import Common.Base Common.ListZ Nat.Model Nat.Spec Nat.Proofs VnetAddr.Model
  Vnet.Network Vnet.NetProofs Vnet.Loss Vnet.Reply.

Definition reachable (t : topo) (nats : list nat_state) (s : nst) : Prop := exists h, s = nrun t (n_init t nats) h.

Lemma reachable_inv t nats s : reachable t nats s -> NetInv s.
Proof. intros [h ->]. apply netinv_run. apply netinv_init. Qed.

(* At most once, nothing invented: in every reachable state each datagram identity occurs at most once over
   all router queues, all socket receive queues and everything ReadFrom has handed out - so no datagram is
   delivered twice, to two sockets, or both delivered and still in flight - and only identities of datagrams
   that were written occur at all. *)
Theorem C01_at_most_once : forall t nats s, reachable t nats s ->
  forall id, cnt id (places s) <= 1 /\ (cnt id (places s) = 1 -> 0 <= id < n_next s).
Proof.
  intros t nats s R id. destruct (ni_amo s (reachable_inv t nats s R)) as [Hn H].
  specialize (H id). rewrite idcount_places in H. pose proof (cnt_nonneg id (places s)).
  destruct ((0 <=? id) && (id <? n_next s)) eqn:E; split; lia.
Qed.
Print Assumptions C01_at_most_once.

(* Intact: whatever sits in a queue or was handed to a reader carries the identity and the bytes of a datagram
   that some WriteTo accepted (the i-th accepted write has identity i). *)
Theorem C01_payload_intact : forall t nats s c, reachable t nats s -> In c (places s) ->
  exists w, nth_error (n_written s) (Z.to_nat (c_id c)) = Some w /\ c_id w = c_id c /\ c_data w = c_data c.
Proof.
  intros t nats s c R Hin. destruct (ni_intact s (reachable_inv t nats s R)) as [P [W N]].
  destruct (P c Hin) as [w [Hw [Hid Hd]]]. apply In_nth_error in Hw. destruct Hw as [i Hi].
  pose proof (W i w Hi) as Hwi. exists w. rewrite Hid, Hwi, Nat2Z.id. auto.
Qed.
Print Assumptions C01_payload_intact.

(* Only to its socket: a datagram in the receive queue of socket i (or read from it) is addressed - after the
   inbound translations on its path - to the port of that socket and to its address (or the socket is bound to
   the wildcard), and its trail ends in that socket's queue; a connected socket hands out only datagrams
   whose source is its remote address. (That at most one open socket covers an address is C13.) *)
Theorem C01_delivered_to_covering_socket : forall t nats s i k c, reachable t nats s ->
  nth_error (n_socks s) i = Some k -> In c (sock_chunks k) ->
  k_port k = snd (c_dst c) /\ (fst (c_dst c) = 0 \/ k_ip k = 0 \/ k_ip k = fst (c_dst c)) /\
  (exists T, c_trail c = T ++ [place_sock i]) /\
  (forall a, In c (k_log k) -> k_rem k = Some a -> c_src c = a).
Proof.
  intros t nats s i k c R Hk Hin. destruct (ni_place s (reachable_inv t nats s R)) as [A B C].
  destruct (A i k c Hk Hin) as [[P1 P2] P3]. repeat split; try assumption. intros a Hl Hr. eapply B; eauto.
Qed.
Print Assumptions C01_delivered_to_covering_socket.

(* In order: within one socket - in the order [sock_chunks] in which ReadFrom hands datagrams out - two
   datagrams that travelled through the same sequence of queues appear in the order in which they were written;
   and nowhere in the network has a later datagram got ahead of an earlier one on the same trail. For a
   fixed sender socket and destination address the sequence of queues is fixed by the topology (up to the router
   whose subnet holds the destination, then down by NIC lookups) as long as the NAT mappings involved persist. *)
Theorem C01_fifo_same_trail_partial : forall t nats s, reachable t nats s ->
  (forall i k, nth_error (n_socks s) i = Some k -> lsorted (sock_chunks k)) /\
  (forall a b, In a (places s) -> In b (places s) -> c_id a < c_id b -> ~ strict_prefix (c_trail a) (c_trail b)).
Proof.
  intros t nats s R. destruct (ni_fifo s (reachable_inv t nats s R)) as [Q S N]. split; assumption.
Qed.
Print Assumptions C01_fifo_same_trail_partial.

(* Not lost: a forwarding step keeps the datagram - it is in the next queue afterwards, same identity and bytes -
   whenever [hop_admits] holds, which spells out: routers started; a NIC holds the destination address, or there is
   a parent; the NAT translates it (C02/C03); the next router queue is below its capacity; the destination host has
   an open socket covering the address whose receive queue is not full. The same for the write itself. *)
Theorem C01_hop_not_lost : forall t s r c rest, getq s r = c :: rest -> hop_admits t s r = true ->
  exists c' p, In c' (places (route t s r)) /\ (c_id c' = c_id c /\ c_data c' = c_data c) /\ c_trail c' = c_trail c ++ [p].
Proof. exact hop_not_lost. Qed.
Print Assumptions C01_hop_not_lost.

Theorem C01_write_not_lost : forall t s k dst data, write_admits t s k dst = true ->
  snd (write t s k dst data) = 0 /\
  exists c' p, In c' (places (fst (write t s k dst data))) /\ c_id c' = n_next s /\ c_data c' = data /\ c_trail c' = [p].
Proof. exact write_not_lost. Qed.
Print Assumptions C01_write_not_lost.

(* The reply reaches the sender: through any chain of NATs (innermost first; NAPT of any mapping/filtering
   behaviour, or 1:1), after any further traffic through them, a reply sent from the address the original was sent to,
   to the source address the original showed, is translated back to the original source - as long as no mapping
   lifetime has passed. (On the NAT Spec, which the model's NAT refines: C02_model_refines_spec.) *)
Theorem C01_reply_through_nat_chain : forall ns t src dst ns1 ext ns2 t',
  Forall hop_ok ns -> up t ns src dst = Some (ns1, ext) -> later t ns1 ns2 ->
  (forall n, In n ns -> t' <= t + lifetime n) ->
  down t' ns2 dst ext = Some src.
Proof. exact reply_through_chain. Qed.
Print Assumptions C01_reply_through_nat_chain.

(* non-vacuity: a LAN behind a NAT (address and port dependent filtering) and a server on the root network:
   the datagram arrives with the translated source, the reply comes back, an unsolicited one does not. *)
Example C01_example :
  net_model_run
    [[1; -1; 16909056; 4294967040; 0; 0; 0; 0; 0; 0];
     [1; 0; 3232235776; 4294967040; 0; 0; 0; 2; 30000000000; 1; 16909166];
     [2; 0; 16909060]; [2; 1; 3232235777]]
    [[7]; [3; 0; 0; 7; 0; 0; 0]; [3; 1; 0; 5000; 0; 0; 0]; [3; 0; 0; 8; 0; 0; 0];
     [1; 1; 16909060; 7; 104; 105]; [2; 0];
     [1; 0; 16909166; 49152; 111; 107]; [1; 2; 16909166; 49152; 66]; [2; 1]; [2; 1]]
  = [[0]; [0; 0]; [0; 1]; [0; 2]; [0]; [1; 16909166; 49152; 2; 104; 105]; [0]; [0]; [1; 16909060; 7; 2; 111; 107]; [-1]].
Proof. vm_compute. reflexivity. Qed.
