(* C04 - a replay detector never accepts the same sequence number twice.
   Only theorem statements live here; each is closed by a lemma of ReplayDetector/*Proofs.v. *)
From Tx Require Import Common.Base ReplayDetector.Model ReplayDetector.Spec
  ReplayDetector.PlainProofs ReplayDetector.WrapProofs.
From Tx Require ReplayDetector.Words ReplayDetector.Deferred.

(* Plain detector, every window size and every maximum (uint64), every history:
   if operation i checked [seq] successfully and invoked the callback, every later check of
   [seq] fails. *)
Theorem C04_plain_no_replay : forall c h i j seq inv_j oi oj,
  in_u64 (window c) -> ops_in_range h -> (i < j)%nat ->
  nth_error h i = Some (seq, true) -> nth_error (p_run c p_init h) i = Some oi -> fst oi = true ->
  nth_error h j = Some (seq, inv_j) -> nth_error (p_run c p_init h) j = Some oj ->
  fst oj = false.
Proof.
  intros c h i j seq inv_j oi oj Hw Hr Hij Hi Hoi Hok Hj Hoj.
  rewrite (p_run_refines c h Hw Hr p_init [] ltac:(unfold in_u64, two64; simpl; lia) (PInv_init c)) in Hoi, Hoj.
  exact (ps_no_replay_idx c h [] i j seq inv_j oi oj Hij Hi Hoi Hok Hj Hoj).
Qed.
Print Assumptions C04_plain_no_replay.

(* Plain detector, every order of calls: the callback of a successful Check may be kept and invoked later - after other checks and
   accepts, in any order, more than once (events PCheck / PAccept of ReplayDetector/Deferred.v; an accept runs on the state of the
   moment it is invoked, as the closure in the code does). Once the callback of [seq] has run, every later Check of [seq] is
   refused. *)
Theorem C04_plain_no_replay_any_order : forall c h i j seq,
  in_u64 (window c) -> Deferred.pevs_in_range h -> (i < j)%nat ->
  nth_error h i = Some (Deferred.PAccept seq) -> nth_error h j = Some (Deferred.PCheck seq) ->
  nth_error (Deferred.pe_run c p_init h) j = Some (Some false).
Proof. exact Deferred.pe_no_replay. Qed.
Print Assumptions C04_plain_no_replay_any_order.

(* two checks pending at once, accepted in the other order, one of them twice *)
Example C04_any_order_example :
  Deferred.pe_run {| window := 64; maxSeq := 1000 |} p_init
    [Deferred.PCheck 5; Deferred.PCheck 7; Deferred.PAccept 7; Deferred.PAccept 5; Deferred.PAccept 7; Deferred.PCheck 5; Deferred.PCheck 7; Deferred.PCheck 6]
  = [Some true; Some true; None; None; None; Some false; Some false; Some true].
Proof. vm_compute. reflexivity. Qed.

(* Wrapping detector, every window size below 2^62 and every maximum in 2 .. 2^62-1, every
   history: [w_safe] walks the history keeping the list g of accepted numbers that the
   newest accepted number has never been more than half the space ahead of (from the moment
   each was accepted), and is true iff no successful Check ever hits a member of g. *)
Theorem C04_wrap_no_replay : forall c h,
  cfg_ok c -> ops_in_range h -> w_safe c w_init_state [] h = true.
Proof. intros c h Hc Hr. exact (w_safe_holds c h Hc Hr w_init_state [] (GInv_init c)). Qed.
Print Assumptions C04_wrap_no_replay.

(* the space 0..1 is the exception (known finding wrap-max-1) *)
Theorem C04_wrap_max1_refuted :
  w_safe {| window := 10; maxSeq := 1 |} w_init_state [] [(0, true); (0, true)] = false.
Proof. vm_compute. reflexivity. Qed.
Print Assumptions C04_wrap_max1_refuted.

(* C04_wrap_no_replay measures "newest accepted number" by the detector's own position. In sequence spaces of three or four
   numbers that position can differ from the newest number actually accepted: WithWrap(window >= 4, maximum 3) files a first
   accepted 3 as "three behind" a tentative position 2 (the fold at -maximum/2 truncates towards zero), and after 0 has been
   accepted, 3 passes Check again although 0 is only one ahead of it. The Spec oracle - which keeps the accepted numbers and
   the newest of them itself - flags the third operation (known finding wrap-max-3, found by the thorough tier). *)
Theorem C04_wrap_max3_refuted :
  rd_oracle [1; 4; 3] [[3; 1]; [0; 1]; [3; 1]] (rd_run [1; 4; 3] [[3; 1]; [0; 1]; [3; 1]]) = [0; 0; 1].
Proof. vm_compute. reflexivity. Qed.
Print Assumptions C04_wrap_max3_refuted.

(* No number above the maximum is ever accepted (both detectors, every history). *)
Theorem C04_never_above_max_plain : forall c h s i seq inv o,
  nth_error h i = Some (seq, inv) -> nth_error (p_run c s h) i = Some o -> maxSeq c < seq ->
  fst o = false.
Proof.
  intros c h s i seq inv o Hn Ho Hm. destruct (p_run_nth c h s i seq inv o Hn Ho) as [s0 ->].
  exact (p_step_above c s0 seq inv Hm).
Qed.
Print Assumptions C04_never_above_max_plain.

Theorem C04_never_above_max_wrap : forall c h s i seq inv o,
  nth_error h i = Some (seq, inv) -> nth_error (w_run c s h) i = Some o -> maxSeq c < seq ->
  fst o = false.
Proof.
  intros c h s i seq inv o Hn Ho Hm. destruct (w_run_nth c h s i seq inv o Hn Ho) as [s0 ->].
  exact (w_step_above c s0 seq inv Hm).
Qed.
Print Assumptions C04_never_above_max_wrap.

(* non-vacuity: concrete configurations and histories meet the hypotheses, and the detectors
   do refuse the replays in them *)
Example C04_plain_example :
  let c := {| window := 130; maxSeq := two64 - 1 |} in
  in_u64 (window c) /\
  map fst (p_run c p_init [(5, true); (200, true); (5, true); (71, true); (71, true); (two64 - 1, true); (two64 - 1, true)])
  = [true; true; false; true; false; true; false].
Proof. split; [unfold in_u64, two64; simpl; lia|vm_compute; reflexivity]. Qed.

Example C04_wrap_example :
  let c := {| window := 64; maxSeq := 65535 |} in
  cfg_ok c /\
  map fst (w_run c w_init_state [(65534, true); (2, true); (65534, true); (65533, true); (65533, true); (2, true)])
  = [true; true; false; true; false; false].
Proof. split; [unfold cfg_ok; simpl; lia|vm_compute; reflexivity]. Qed.


(* The window bitmap as the code stores it - 64-bit words with the word-by-word shift of fixedBigInt.Lsh, the top word
   masked to the window size - computes exactly the integer bitmap the detector theorems above are about: for every
   window size, every shift distance, every bit index. (ReplayDetector/Words.v; the word-level model is itself compared
   with fixedBigInt on every run.) *)
Theorem C04_words_refine_bitmap : forall f, Words.WF f ->
  (forall i, 0 <= i -> Words.fbi_bit f i = b2z (mbit (Words.f_n f) (Words.val (Words.f_bits f)) i)) /\
  (forall i, 0 <= i -> Words.WF (Words.fbi_set f i) /\
                       Words.val (Words.f_bits (Words.fbi_set f i)) = mset (Words.f_n f) (Words.val (Words.f_bits f)) i) /\
  (forall k, 0 <= k -> Words.WF (Words.fbi_lsh f k) /\
                       Words.val (Words.f_bits (Words.fbi_lsh f k)) = mlsh (Words.f_n f) (Words.val (Words.f_bits f)) k).
Proof.
  intros f Hf. split; [|split].
  - intros i Hi. apply Words.fbi_bit_spec; assumption.
  - intros i Hi. apply Words.fbi_set_spec; assumption.
  - intros k Hk. apply Words.fbi_lsh_spec; assumption.
Qed.
Print Assumptions C04_words_refine_bitmap.

Theorem C04_new_bitmap_wellformed : forall n, 0 <= n -> Words.WF (Words.fbi_new n) /\ Words.val (Words.f_bits (Words.fbi_new n)) = 0.
Proof. intros n Hn. split; [apply Words.wf_new; assumption|apply Words.val_repeat0]. Qed.
Print Assumptions C04_new_bitmap_wellformed.

Example C04_words_example :
  Words.fbi_model_run [2; 100; 0] [[2; 0]; [1; 70]; [3; 70]; [2; 99]; [1; 1]; [3; 71]; [3; 99]]
  = [[1; 0]; [0; 64]; [1]; [0; 34359738432]; [0; 128]; [1]; [0]].
Proof. vm_compute. reflexivity. Qed.
