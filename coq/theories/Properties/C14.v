(* C14 - configured delays are lower bounds and never reorder, drop, duplicate or crash. *)
From Tx Require Import Common.Base Filters.RouterDelay.

(* Router: at every wake-up (whenever it happens: jitter, late timers) only chunks that entered
   at least min_delay ago are forwarded ... *)
Theorem C14_router_lower_bound : forall q d now out q', process q d now = (out, q') ->
  forall id, In id out -> exists ts, In (id, ts) q /\ ts + d <= now.
Proof. exact process_lower_bound. Qed.
Print Assumptions C14_router_lower_bound.

(* ... in queue order, each exactly once: forwarded ++ still queued = queue before ... *)
Theorem C14_router_fifo_once : forall q d now out q', process q d now = (out, q') ->
  map fst q = out ++ map fst q'.
Proof. intros q d now out q' H. exact (proj1 (process_split q d now out q' H)). Qed.
Print Assumptions C14_router_fifo_once.

(* ... and afterwards either nothing is queued or the loop sleeps a positive time that ends
   exactly when the new head is due: no chunk is left behind without a timer. *)
Theorem C14_router_progress : forall q d now out q', process q d now = (out, q') ->
  q' = [] \/ (0 < next_sleep q' d now /\
              exists id ts rest, q' = (id, ts) :: rest /\ now + next_sleep q' d now = ts + d).
Proof. exact process_progress. Qed.
Print Assumptions C14_router_progress.

Example C14_example : process [(1, 100); (2, 105); (3, 130)] 20 126 = ([1; 2], [(3, 130)]).
Proof. reflexivity. Qed.

(* ---- DelayFilter: every interleaving of arrivals (any number of concurrent senders), clock
   advances, timer expiries and the two branches of the Run loop, for every delay >= 0 ------------ *)
From Tx Require Import Filters.Delay.

(* the loop never panics on an empty queue and never blocks draining an idle timer;
   a chunk is forwarded only strictly after its deadline = arrival instant + delay;
   forwarded chunks followed by queued chunks are exactly the arrivals in arrival order
   (each exactly once); and whenever a chunk is queued, something is pending that will make
   the loop look at it: an undelivered notification, a tick, or the timer armed for no later
   than max(head deadline, now) *)
Theorem C14_delay_filter_invariants : forall delay t0 h, 0 <= delay ->
  let s := d_run delay (d_init t0) h in
  bad s = false /\
  (forall id dl t, In (id, dl, t) (fwd s) -> dl < t /\ t <= now s) /\
  map (fun x => fst (fst x)) (fwd s) ++ map fst (queue s) = arrived s /\
  (forall dl, head_dl (queue s) = Some dl ->
     0 < senders s \/ (exists tk, timer s = TFired tk) \/ (exists due, timer s = TArmed due /\ due <= Z.max dl (now s))).
Proof.
  intros delay t0 h Hd s. pose proof (run_inv delay h Hd (d_init t0) (DInv_init delay t0)) as I. fold s in I.
  destruct I as [B T K D F O P S]. auto.
Qed.
Print Assumptions C14_delay_filter_invariants.

(* the deadline of a queued chunk is its arrival instant plus the delay *)
Theorem C14_delay_deadline_is_arrival_plus_delay : forall delay s id,
  queue (d_step delay s (EArrive id)) = queue s ++ [(id, now s + delay)].
Proof. reflexivity. Qed.
Print Assumptions C14_delay_deadline_is_arrival_plus_delay.

(* non-vacuity: the interleaving that used to panic - the timer forwards the chunk before its
   notification is received *)
Example C14_delay_example :
  let s := d_run 0 (d_init 10) [ERecvTick; EArrive 1; EAdvance 61000000000; EFire; EAdvance 1; ERecvTick; ERecvPush] in
  bad s = false /\ map (fun x => fst (fst x)) (fwd s) = [1] /\ queue s = [].
Proof. vm_compute. auto. Qed.
