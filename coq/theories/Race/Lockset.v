(* Lock discipline implies freedom from conflicting simultaneous accesses (C19).

   Part 1: the access table (regenerated from the Go sources by tools/raceaudit on every run, Race/Table.v)
   and the discipline check that is evaluated on it inside Coq.
   Part 2: the soundness argument of the discipline for an abstract machine of threads, mutexes / read-write
   mutexes and shared variables: if every access to a variable is made while its guarding lock is held
   (exclusively for a write), then in no reachable state are two threads about to make conflicting accesses
   to the same variable. *)
From Coq Require Import String List Bool Arith Lia.
Import ListNotations.
Open Scope string_scope.

(* ---- part 1 --------------------------------------------------------------------------------------------- *)
Inductive lmode := RdLocked | Locked.

Record access := mk_access {
  a_owner : string;              (* package.Struct, or package for a package-level variable *)
  a_field : string;
  a_fn : string;                 (* function (closures: f$n) *)
  a_pos : string;                (* file:line *)
  a_write : bool;
  a_held : list (string * lmode);  (* mutexes of the same object (or package-level mutexes) held at this point; for a struct
                                      without a mutex of its own (the entries of a table, e.g. vnet.mapping): the mutexes held at
                                      this point named after the type of the object they belong to ("Owner.mutex") - such a struct
                                      is guarded by the object that owns it *)
  a_init : bool                  (* on an object created in this function: before publication *)
}.

Definition same_var (a b : access) : bool := String.eqb (a_owner a) (a_owner b) && String.eqb (a_field a) (a_field b).

Definition holds_ok (m : string) (a : access) : bool :=
  existsb (fun h => String.eqb (fst h) m && (negb (a_write a) || match snd h with Locked => true | RdLocked => false end)) (a_held a).

(* the accesses to the variable of [a] after publication *)
Definition shared_accesses (tbl : list access) (a : access) : list access :=
  filter (fun b => same_var a b && negb (a_init b)) tbl.

Definition var_ok (tbl : list access) (a : access) : bool :=
  let accs := shared_accesses tbl a in
  forallb (fun b => negb (a_write b)) accs ||
  existsb (fun m => forallb (holds_ok m) accs) (map fst (a_held a)).

Definition check (tbl : list access) : bool := forallb (fun a => a_init a || var_ok tbl a) tbl.

Definition violations (tbl : list access) : list access := filter (fun a => negb (a_init a || var_ok tbl a)) tbl.

(* what [check] establishes, as a statement: every variable is either never written after publication, or has
   a mutex that every access holds - exclusively when the access writes *)
Theorem check_sound tbl : check tbl = true ->
  forall a, In a tbl -> a_init a = false ->
  (forall b, In b tbl -> same_var a b = true -> a_init b = false -> a_write b = false) \/
  (exists m, forall b, In b tbl -> same_var a b = true -> a_init b = false ->
     exists md, In (m, md) (a_held b) /\ (a_write b = true -> md = Locked)).
Proof.
  intros H a Ha Hi. unfold check in H. rewrite forallb_forall in H. specialize (H a Ha). rewrite Hi in H. simpl in H.
  unfold var_ok in H. apply orb_prop in H. destruct H as [H|H].
  - left. intros b Hb Hs Hib. rewrite forallb_forall in H. specialize (H b).
    assert (Hin : In b (shared_accesses tbl a)).
    { unfold shared_accesses. apply filter_In. split; [assumption|]. rewrite Hs, Hib. reflexivity. }
    specialize (H Hin). destruct (a_write b); [discriminate|reflexivity].
  - right. apply existsb_exists in H. destruct H as [m [_ H]]. exists m. intros b Hb Hs Hib.
    rewrite forallb_forall in H.
    assert (Hin : In b (shared_accesses tbl a)).
    { unfold shared_accesses. apply filter_In. split; [assumption|]. rewrite Hs, Hib. reflexivity. }
    specialize (H b Hin). unfold holds_ok in H. apply existsb_exists in H. destruct H as [[m' md] [Hh Hc]].
    simpl in Hc. apply andb_prop in Hc. destruct Hc as [Hm Hw]. apply String.eqb_eq in Hm. subst m'.
    exists md. split; [assumption|]. intro Hwr. rewrite Hwr in Hw. simpl in Hw. destruct md; [discriminate|reflexivity].
Qed.

(* ---- part 2 --------------------------------------------------------------------------------------------- *)
Section Machine.
  Variable lock var : Type.
  Variable lock_eqb : lock -> lock -> bool.
  Hypothesis lock_eqb_eq : forall a b, lock_eqb a b = true <-> a = b.
  Variable guard : var -> option lock.      (* None: the variable is never written after publication *)

  Inductive event := Acq (l : lock) (m : lmode) | Rel (l : lock) | Access (x : var) (w : bool).

  Record thread := { held : list (lock * lmode); prog : list event }.

  Definition holds (h : list (lock * lmode)) (l : lock) : bool := existsb (fun p => lock_eqb (fst p) l) h.
  Definition holds_excl (h : list (lock * lmode)) (l : lock) : bool :=
    existsb (fun p => lock_eqb (fst p) l && match snd p with Locked => true | RdLocked => false end) h.
  Definition release (h : list (lock * lmode)) (l : lock) : list (lock * lmode) := filter (fun p => negb (lock_eqb (fst p) l)) h.

  (* the discipline, checked along a thread's program: what raceaudit's table records per function *)
  Fixpoint disciplined (h : list (lock * lmode)) (p : list event) : Prop :=
    match p with
    | [] => True
    | Acq l m :: p' => holds h l = false /\ disciplined ((l, m) :: h) p'
    | Rel l :: p' => disciplined (release h l) p'
    | Access x w :: p' =>
        match guard x with
        | None => w = false
        | Some l => if w then holds_excl h l = true else holds h l = true
        end /\ disciplined h p'
    end.

  (* the machine: thread i takes its next event if the lock semantics allow it *)
  Definition others_hold (ts : list thread) (i : nat) (l : lock) (excl_only : bool) : Prop :=
    exists j t, j <> i /\ nth_error ts j = Some t /\ (if excl_only then holds_excl (held t) l = true else holds (held t) l = true).

  Fixpoint set_nth (i : nat) (t : thread) (ts : list thread) : list thread :=
    match ts, i with
    | [], _ => []
    | _ :: r, O => t :: r
    | x :: r, S j => x :: set_nth j t r
    end.

  Inductive step : list thread -> list thread -> Prop :=
  | step_acq_w ts i t l p : nth_error ts i = Some t -> prog t = Acq l Locked :: p ->
      ~ others_hold ts i l false -> step ts (set_nth i {| held := (l, Locked) :: held t; prog := p |} ts)
  | step_acq_r ts i t l p : nth_error ts i = Some t -> prog t = Acq l RdLocked :: p ->
      ~ others_hold ts i l true -> step ts (set_nth i {| held := (l, RdLocked) :: held t; prog := p |} ts)
  | step_rel ts i t l p : nth_error ts i = Some t -> prog t = Rel l :: p ->
      step ts (set_nth i {| held := release (held t) l; prog := p |} ts)
  | step_access ts i t x w p : nth_error ts i = Some t -> prog t = Access x w :: p ->
      step ts (set_nth i {| held := held t; prog := p |} ts).

  Inductive reach (ts0 : list thread) : list thread -> Prop :=
  | reach_refl : reach ts0 ts0
  | reach_step ts ts' : reach ts0 ts -> step ts ts' -> reach ts0 ts'.

  Definition Inv (ts : list thread) : Prop :=
    (forall i t, nth_error ts i = Some t -> disciplined (held t) (prog t)) /\
    (forall i j ti tj l, i <> j -> nth_error ts i = Some ti -> nth_error ts j = Some tj ->
       holds_excl (held ti) l = true -> holds (held tj) l = false).

  Lemma nth_set_nth ts : forall i j t, nth_error (set_nth i t ts) j =
    if Nat.eqb i j then match nth_error ts j with Some _ => Some t | None => None end else nth_error ts j.
  Proof.
    induction ts as [|x r IH]; intros i j t; destruct i, j; simpl; try reflexivity.
    - destruct (Nat.eqb i j); reflexivity.
    - apply IH.
  Qed.

  Lemma holds_excl_holds h l : holds_excl h l = true -> holds h l = true.
  Proof.
    unfold holds_excl, holds. intro H. apply existsb_exists in H. destruct H as [p [Hp H]].
    apply andb_prop in H. apply existsb_exists. exists p. tauto.
  Qed.

  Lemma holds_release_other h l l' : holds (release h l) l' = true -> holds h l' = true.
  Proof.
    unfold holds, release. intro H. apply existsb_exists in H. destruct H as [p [Hp H]].
    apply filter_In in Hp. apply existsb_exists. exists p. tauto.
  Qed.

  Lemma holds_excl_release_other h l l' : holds_excl (release h l) l' = true -> holds_excl h l' = true.
  Proof.
    unfold holds_excl, release. intro H. apply existsb_exists in H. destruct H as [p [Hp H]].
    apply filter_In in Hp. apply existsb_exists. exists p. tauto.
  Qed.

  Lemma holds_cons h l m l' : holds ((l, m) :: h) l' = lock_eqb l l' || holds h l'.
  Proof. reflexivity. Qed.

  Lemma not_true_false b : b <> true -> b = false. Proof. destruct b; congruence. Qed.

  Lemma step_inv ts ts' : Inv ts -> step ts ts' -> Inv ts'.
  Proof.
    intros [D X] S. inversion S as [ts0 i t l p Hn Hp Ho|ts0 i t l p Hn Hp Ho|ts0 i t l p Hn Hp|ts0 i t x w p Hn Hp]; subst; split.
    - (* exclusive acquire *)
      intros j u H. rewrite nth_set_nth in H. destruct (Nat.eqb i j) eqn:E; [|eapply D; eauto].
      apply Nat.eqb_eq in E. subst j. rewrite Hn in H. inversion H; subst u. simpl.
      specialize (D i t Hn). rewrite Hp in D. simpl in D. tauto.
    - intros a b ta tb l' Hab Ha Hb He. rewrite nth_set_nth in Ha, Hb.
      destruct (Nat.eqb i a) eqn:Ea, (Nat.eqb i b) eqn:Eb.
      + apply Nat.eqb_eq in Ea, Eb. congruence.
      + apply Nat.eqb_eq in Ea. subst a. rewrite Hn in Ha. inversion Ha; subst ta. simpl in He.
        unfold holds_excl in He. simpl in He. apply orb_prop in He. destruct He as [He|He].
        * apply andb_prop in He. destruct He as [He _]. apply lock_eqb_eq in He. subst l'.
          apply not_true_false. intro Hh. apply Ho. exists b, tb. auto.
        * eapply X; eauto.
      + apply Nat.eqb_eq in Eb. subst b. rewrite Hn in Hb. inversion Hb; subst tb. cbn [held].
        rewrite holds_cons. apply orb_false_iff. split; [|eapply X; eauto].
        apply not_true_false. intro Hl. apply lock_eqb_eq in Hl. subst l'. apply Ho. exists a, ta.
        split; [congruence|]. split; [assumption|]. apply holds_excl_holds. assumption.
      + eapply X; eauto.
    - (* shared acquire *)
      intros j u H. rewrite nth_set_nth in H. destruct (Nat.eqb i j) eqn:E; [|eapply D; eauto].
      apply Nat.eqb_eq in E. subst j. rewrite Hn in H. inversion H; subst u. simpl.
      specialize (D i t Hn). rewrite Hp in D. simpl in D. tauto.
    - intros a b ta tb l' Hab Ha Hb He. rewrite nth_set_nth in Ha, Hb.
      destruct (Nat.eqb i a) eqn:Ea, (Nat.eqb i b) eqn:Eb.
      + apply Nat.eqb_eq in Ea, Eb. congruence.
      + apply Nat.eqb_eq in Ea. subst a. rewrite Hn in Ha. inversion Ha; subst ta. simpl in He.
        unfold holds_excl in He. simpl in He. rewrite andb_false_r in He. simpl in He. eapply X; eauto.
      + apply Nat.eqb_eq in Eb. subst b. rewrite Hn in Hb. inversion Hb; subst tb. cbn [held].
        rewrite holds_cons. apply orb_false_iff. split; [|eapply X; eauto].
        apply not_true_false. intro Hl. apply lock_eqb_eq in Hl. subst l'. apply Ho. exists a, ta.
        split; [congruence|]. auto.
      + eapply X; eauto.
    - (* release *)
      intros j u H. rewrite nth_set_nth in H. destruct (Nat.eqb i j) eqn:E; [|eapply D; eauto].
      apply Nat.eqb_eq in E. subst j. rewrite Hn in H. inversion H; subst u. simpl.
      specialize (D i t Hn). rewrite Hp in D. simpl in D. assumption.
    - intros a b ta tb l' Hab Ha Hb He. rewrite nth_set_nth in Ha, Hb.
      destruct (Nat.eqb i a) eqn:Ea, (Nat.eqb i b) eqn:Eb.
      + apply Nat.eqb_eq in Ea, Eb. congruence.
      + apply Nat.eqb_eq in Ea. subst a. rewrite Hn in Ha. inversion Ha; subst ta. simpl in He.
        apply holds_excl_release_other in He. eapply X; eauto.
      + apply Nat.eqb_eq in Eb. subst b. rewrite Hn in Hb. inversion Hb; subst tb. simpl.
        apply not_true_false. intro Hh. apply holds_release_other in Hh.
        assert (holds (held t) l' = false) by (eapply (X a i); eauto). congruence.
      + eapply X; eauto.
    - (* access *)
      intros j u H. rewrite nth_set_nth in H. destruct (Nat.eqb i j) eqn:E; [|eapply D; eauto].
      apply Nat.eqb_eq in E. subst j. rewrite Hn in H. inversion H; subst u. simpl.
      specialize (D i t Hn). rewrite Hp in D. simpl in D. tauto.
    - intros a b ta tb l' Hab Ha Hb He. rewrite nth_set_nth in Ha, Hb.
      destruct (Nat.eqb i a) eqn:Ea, (Nat.eqb i b) eqn:Eb.
      + apply Nat.eqb_eq in Ea, Eb. congruence.
      + apply Nat.eqb_eq in Ea. subst a. rewrite Hn in Ha. inversion Ha; subst ta. simpl in He. eapply X; eauto.
      + apply Nat.eqb_eq in Eb. subst b. rewrite Hn in Hb. inversion Hb; subst tb. simpl. eapply (X a i); eauto.
      + eapply X; eauto.
  Qed.

  Theorem reach_inv ts0 ts : Inv ts0 -> reach ts0 ts -> Inv ts.
  Proof. intros I R. induction R as [|ts ts' R IH S]; [assumption|]. eapply step_inv; eauto. Qed.

  (* threads start holding nothing, each following the discipline *)
  Lemma initial_inv ts0 : (forall i t, nth_error ts0 i = Some t -> held t = [] /\ disciplined [] (prog t)) -> Inv ts0.
  Proof.
    intro H. split.
    - intros i t Hi. destruct (H i t Hi) as [Hh Hd]. rewrite Hh. assumption.
    - intros i j ti tj l _ Hi _ He. destruct (H i ti Hi) as [Hh _]. rewrite Hh in He. discriminate.
  Qed.

  (* no two threads are ever about to make conflicting accesses to the same variable *)
  Theorem discipline_no_conflict ts0 ts i j ti tj x wi wj pi pj :
    (forall k t, nth_error ts0 k = Some t -> held t = [] /\ disciplined [] (prog t)) ->
    reach ts0 ts -> i <> j ->
    nth_error ts i = Some ti -> nth_error ts j = Some tj ->
    prog ti = Access x wi :: pi -> prog tj = Access x wj :: pj ->
    wi = false /\ wj = false.
  Proof.
    intros H0 R Hij Hi Hj Pi Pj. destruct (reach_inv ts0 ts (initial_inv ts0 H0) R) as [D X].
    pose proof (D i ti Hi) as Di. pose proof (D j tj Hj) as Dj. rewrite Pi in Di. rewrite Pj in Dj. simpl in Di, Dj.
    destruct (guard x) as [l|].
    - destruct wi, wj; try (split; reflexivity); exfalso.
      + destruct Di as [Di _], Dj as [Dj _]. pose proof (X i j ti tj l Hij Hi Hj Di) as C.
        apply holds_excl_holds in Dj. congruence.
      + destruct Di as [Di _], Dj as [Dj _]. pose proof (X i j ti tj l Hij Hi Hj Di) as C. congruence.
      + destruct Di as [Di _], Dj as [Dj _]. assert (Hji : j <> i) by congruence.
        pose proof (X j i tj ti l Hji Hj Hi Dj) as C. congruence.
    - destruct Di as [Di _], Dj as [Dj _]. auto.
  Qed.
End Machine.
