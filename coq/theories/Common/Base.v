(* Common imports and arithmetic set-up shared by every model file. *)
From Coq Require Export List ZArith Bool Lia.
From Coq Require Export ZifyBool ZifyNat ZifyN.
Export ListNotations.
Open Scope Z_scope.

Ltac Zify.zify_post_hook ::= Z.div_mod_to_equations.

(* Go integer conversions that the models need. *)
Definition two64 : Z := 18446744073709551616.
Definition two63 : Z := 9223372036854775808.

(* value of a Go uint64 expression computed over Z *)
Definition u64 (z : Z) : Z := z mod two64.
(* value of a Go int64 expression computed over Z (two's complement wrap) *)
Definition i64 (z : Z) : Z := (z + two63) mod two64 - two63.

Lemma u64_range z : 0 <= u64 z < two64.
Proof. unfold u64, two64. apply Z.mod_pos_bound. lia. Qed.

Lemma u64_id z : 0 <= z < two64 -> u64 z = z.
Proof. intros. unfold u64. apply Z.mod_small. assumption. Qed.

Lemma i64_id z : - two63 <= z < two63 -> i64 z = z.
Proof. unfold i64, two63, two64. intros. rewrite Z.mod_small; lia. Qed.

Definition b2z (b : bool) : Z := if b then 1 else 0.
Definition z2b (z : Z) : bool := negb (z =? 0).

(* encoded histories: every operation and every observable is a list of integers *)
Definition zs := list Z.
