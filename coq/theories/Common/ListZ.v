(* Z-indexed list access: lengths, prefixes, suffixes and element access with binary
   integers, and the extensionality principle used by the ring-buffer proofs. *)
From Tx Require Import Common.Base.

Definition zlen {A} (l : list A) : Z := Z.of_nat (length l).

(* firstn/skipn with a binary counter (no unary number of the size of the list is built) *)
Fixpoint zfirstn {A} (n : Z) (l : list A) : list A :=
  match l with
  | [] => []
  | x :: t => if n <=? 0 then [] else x :: zfirstn (n - 1) t
  end.
Fixpoint zskipn {A} (n : Z) (l : list A) : list A :=
  match l with
  | [] => []
  | x :: t => if n <=? 0 then l else zskipn (n - 1) t
  end.

Definition znth (i : Z) (l : list Z) : Z := nth (Z.to_nat i) l 0.

Lemma zlen_nonneg {A} (l : list A) : 0 <= zlen l.
Proof. unfold zlen. lia. Qed.

Lemma zlen_nil {A} : zlen (@nil A) = 0.
Proof. reflexivity. Qed.

Lemma zlen_cons {A} (x : A) l : zlen (x :: l) = 1 + zlen l.
Proof. unfold zlen. simpl length. lia. Qed.

Lemma zlen_app {A} (a b : list A) : zlen (a ++ b) = zlen a + zlen b.
Proof. unfold zlen. rewrite app_length. lia. Qed.

Lemma zfirstn_firstn {A} (l : list A) : forall n, zfirstn n l = firstn (Z.to_nat n) l.
Proof.
  induction l as [|x t IH]; intros n; simpl.
  - destruct (Z.to_nat n); reflexivity.
  - destruct (n <=? 0) eqn:E.
    + replace (Z.to_nat n) with O by lia. reflexivity.
    + replace (Z.to_nat n) with (S (Z.to_nat (n - 1))) by lia. simpl. rewrite IH. reflexivity.
Qed.

Lemma zskipn_skipn {A} (l : list A) : forall n, zskipn n l = skipn (Z.to_nat n) l.
Proof.
  induction l as [|x t IH]; intros n; simpl.
  - destruct (Z.to_nat n); reflexivity.
  - destruct (n <=? 0) eqn:E.
    + replace (Z.to_nat n) with O by lia. reflexivity.
    + replace (Z.to_nat n) with (S (Z.to_nat (n - 1))) by lia. simpl. rewrite IH. reflexivity.
Qed.

Lemma zlen_zfirstn {A} (l : list A) n : 0 <= n -> zlen (zfirstn n l) = Z.min n (zlen l).
Proof. intros. rewrite zfirstn_firstn. unfold zlen. rewrite firstn_length. lia. Qed.

Lemma zlen_zskipn {A} (l : list A) n : 0 <= n -> zlen (zskipn n l) = Z.max 0 (zlen l - n).
Proof. intros. rewrite zskipn_skipn. unfold zlen. rewrite skipn_length. lia. Qed.

Lemma nth_firstn_lt (l : list Z) : forall i n, (i < n)%nat -> nth i (firstn n l) 0 = nth i l 0.
Proof.
  induction l as [|x t IH]; intros i n H.
  - destruct n; destruct i; reflexivity.
  - destruct n; [lia|]. destruct i; simpl; [reflexivity|]. apply IH. lia.
Qed.

Lemma nth_skipn_add (l : list Z) : forall i n, nth i (skipn n l) 0 = nth (n + i) l 0.
Proof.
  induction l as [|x t IH]; intros i n.
  - destruct n; destruct i; reflexivity.
  - destruct n; simpl; [reflexivity|]. apply IH.
Qed.

Lemma znth_zfirstn l i n : 0 <= i < n -> znth i (zfirstn n l) = znth i l.
Proof. intros. unfold znth. rewrite zfirstn_firstn. apply nth_firstn_lt. lia. Qed.

Lemma znth_zskipn l i n : 0 <= i -> 0 <= n -> znth i (zskipn n l) = znth (i + n) l.
Proof.
  intros. unfold znth. rewrite zskipn_skipn. rewrite nth_skipn_add. f_equal. lia.
Qed.

Lemma znth_app a b i : 0 <= i ->
  znth i (a ++ b) = if i <? zlen a then znth i a else znth (i - zlen a) b.
Proof.
  intros Hi. unfold znth, zlen. destruct (i <? Z.of_nat (length a)) eqn:E.
  - apply app_nth1. lia.
  - rewrite app_nth2 by lia. f_equal. lia.
Qed.

Lemma zlist_ext (a b : list Z) : zlen a = zlen b ->
  (forall i, 0 <= i < zlen a -> znth i a = znth i b) -> a = b.
Proof.
  intros Hl H. apply (nth_ext a b 0 0).
  - unfold zlen in Hl. lia.
  - intros n Hn. specialize (H (Z.of_nat n)). unfold znth in H.
    rewrite Nat2Z.id in H. apply H. unfold zlen. lia.
Qed.

Lemma zfirstn_all {A} (l : list A) n : zlen l <= n -> zfirstn n l = l.
Proof. intros. rewrite zfirstn_firstn. apply firstn_all2. unfold zlen in *. lia. Qed.

Lemma zfirstn_app_exact {A} (a b : list A) : zfirstn (zlen a) (a ++ b) = a.
Proof.
  rewrite zfirstn_firstn. unfold zlen. rewrite Nat2Z.id.
  rewrite firstn_app. rewrite Nat.sub_diag. simpl. rewrite app_nil_r. apply firstn_all.
Qed.

Lemma zskipn_app_exact {A} (a b : list A) : zskipn (zlen a) (a ++ b) = b.
Proof.
  rewrite zskipn_skipn. unfold zlen. rewrite Nat2Z.id.
  rewrite skipn_app. rewrite Nat.sub_diag. simpl. rewrite skipn_all. reflexivity.
Qed.

Lemma zfirstn_zskipn {A} (l : list A) n : zfirstn n l ++ zskipn n l = l.
Proof. rewrite zfirstn_firstn, zskipn_skipn. apply firstn_skipn. Qed.

Lemma zlen_0_nil {A} (l : list A) : zlen l = 0 -> l = [].
Proof. destruct l; [reflexivity|]. rewrite zlen_cons. pose proof (zlen_nonneg l). lia. Qed.

Lemma zfirstn_0 {A} (l : list A) n : n <= 0 -> zfirstn n l = [].
Proof. intros. destruct l; simpl; [reflexivity|]. destruct (n <=? 0) eqn:E; [reflexivity|lia]. Qed.

Lemma zskipn_zskipn {A} (l : list A) : forall a b, 0 <= a -> 0 <= b ->
  zskipn a (zskipn b l) = zskipn (a + b) l.
Proof.
  induction l as [|x t IH]; intros a b Ha Hb; [reflexivity|].
  simpl zskipn at 2. destruct (b <=? 0) eqn:E.
  - replace (a + b) with a by lia. reflexivity.
  - rewrite IH by lia. simpl. destruct (a + b <=? 0) eqn:E2; [lia|]. f_equal. lia.
Qed.
