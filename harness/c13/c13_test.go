// c13: correspondence harness for vnet address management (C13): router IP assignment and
// host socket binding, through the public API (plus the map lookup accessor).
package c13

import (
	"encoding/binary"
	"errors"
	"fmt"
	"math/rand/v2"
	"net"
	"strings"
	"testing"
	"testing/synctest"

	"github.com/pion/logging"
	"github.com/pion/transport/v3/vnet"
	"verif/harness/common"
)

func init() { common.RegisterFlags() }

func ipOf(v uint32) net.IP {
	if v == 0xFFFFFFFE {
		return net.ParseIP("::") // the IPv6 wildcard: not an address of these IPv4 hosts
	}
	b := make(net.IP, 4)
	binary.BigEndian.PutUint32(b, v)
	return b
}

func u32(ip net.IP) uint32 {
	if ip.To4() == nil {
		return 0
	}
	return binary.BigEndian.Uint32(ip.To4())
}

func maskBits(m uint32) int {
	n := 0
	for m&0x80000000 != 0 {
		n++
		m <<= 1
	}
	return n
}

func runRouter(h *common.History) {
	nip, mask := uint32(common.AtoU64(h.Conf[1])), uint32(common.AtoU64(h.Conf[2]))
	r, err := vnet.NewRouter(&vnet.RouterConfig{
		CIDR:          fmt.Sprintf("%s/%d", ipOf(nip).String(), maskBits(mask)),
		LoggerFactory: logging.NewDefaultLoggerFactory(),
	})
	if err != nil {
		panic(err)
	}
	h.Obs = nil
	for _, op := range h.Ops {
		var statics []string
		for _, s := range op[1:] {
			statics = append(statics, ipOf(uint32(common.AtoU64(s))).String())
		}
		n, err := vnet.NewNet(&vnet.NetConfig{StaticIPs: statics})
		if err != nil {
			panic(err)
		}
		err = r.AddNet(n)
		switch {
		case err == nil:
			obs := []string{"0"}
			ifc, e2 := n.InterfaceByName("eth0")
			if e2 != nil {
				panic(e2)
			}
			addrs, _ := ifc.Addrs()
			for _, a := range addrs {
				if ipn, ok := a.(*net.IPNet); ok {
					obs = append(obs, common.I(u32(ipn.IP)))
				}
			}
			h.Obs = append(h.Obs, obs)
			if len(statics) == 0 {
				h.Tags = append(h.Tags, "auto_assigned")
			}
		case strings.Contains(err.Error(), "address space exhausted"):
			h.Obs = append(h.Obs, []string{"1"})
			h.Tags = append(h.Tags, "exhausted")
		case strings.Contains(err.Error(), "beyond subnet"):
			h.Obs = append(h.Obs, []string{"2"})
			h.Tags = append(h.Tags, "beyond_subnet")
		default:
			h.Obs = append(h.Obs, []string{"99"})
		}
	}
}

type closer interface{ Close() error }

func runHost(h *common.History) {
	r, err := vnet.NewRouter(&vnet.RouterConfig{CIDR: "1.2.3.0/24", LoggerFactory: logging.NewDefaultLoggerFactory()})
	if err != nil {
		panic(err)
	}
	var statics []string
	for _, s := range h.Conf[1:] {
		statics = append(statics, ipOf(uint32(common.AtoU64(s))).String())
	}
	n, err := vnet.NewNet(&vnet.NetConfig{StaticIPs: statics})
	if err != nil {
		panic(err)
	}
	if err = r.AddNet(n); err != nil {
		panic(err)
	}
	// a second host on the same router sends the probe datagrams of the lookups
	pn, err := vnet.NewNet(&vnet.NetConfig{StaticIPs: []string{"1.2.3.250"}})
	if err != nil {
		panic(err)
	}
	if err = r.AddNet(pn); err != nil {
		panic(err)
	}
	if err = r.Start(); err != nil {
		panic(err)
	}
	defer func() { _ = r.Stop() }()
	prober, err := pn.ListenUDP("udp", &net.UDPAddr{IP: net.IPv4(1, 2, 3, 250), Port: 9})
	if err != nil {
		panic(err)
	}
	isEth := func(ip net.IP) bool {
		for _, s := range statics {
			if net.ParseIP(s).Equal(ip) {
				return true
			}
		}
		return false
	}
	socks := map[int]closer{}
	stale := map[int]closer{} // handles that were closed already
	ids := map[*vnet.UDPConn]int{}
	all := []*vnet.UDPConn{}
	pend := map[*vnet.UDPConn]int{}
	next := 0
	h.Obs = nil
	for i, op := range h.Ops {
		switch op[0] {
		case "1":
			ip, port := ipOf(uint32(common.AtoU64(op[1]))), common.AtoI(op[2])
			if i%3 == 1 {
				ip = ip.To16() // the 16-byte form of the same IPv4 address must behave identically
			}
			var c interface{}
			var err error
			la0 := &net.UDPAddr{IP: ip, Port: port}
			if op[1] == "0" && i%4 == 2 {
				la0.IP = nil // "any address" written as an address without IP
				h.Tags = append(h.Tags, "wildcard_as_nil_ip")
			}
			bind := func() {
				switch (i + port) % 3 {
				case 0:
					c, err = n.ListenUDP("udp", la0)
				case 1:
					c, err = n.ListenPacket("udp", net.JoinHostPort(ip.String(), fmt.Sprint(port)))
				default:
					c, err = n.DialUDP("udp", la0, &net.UDPAddr{IP: net.IPv4(1, 2, 3, 250), Port: 9})
				}
			}
			bind()
			if err != nil {
				// a refused bind changes nothing: the same call again (same address value, as in a retry loop) is refused again
				bind()
				if err == nil {
					uc, _ := c.(*vnet.UDPConn)
					la, _ := uc.LocalAddr().(*net.UDPAddr)
					h.Ops[i][3] = "0"
					h.Obs = append(h.Obs, []string{"97", common.I(la.Port), "0"})
					h.Tags = append(h.Tags, "RETRY_OF_REFUSED_BIND_SUCCEEDED")
					break
				}
			}
			if err != nil {
				code := "99"
				var oe *net.OpError
				msg := err.Error()
				_ = errors.As(err, &oe)
				switch {
				case strings.Contains(msg, "can't assign requested address"):
					code = "1"
				case strings.Contains(msg, "address already in use"):
					code = "2"
				case strings.Contains(msg, "port space exhausted"):
					code = "3"
				}
				h.Ops[i][3] = "0"
				h.Obs = append(h.Obs, []string{code, "0", "0"})
				h.Tags = append(h.Tags, "bind_err_"+code)
				break
			}
			uc, _ := c.(*vnet.UDPConn)
			la, _ := uc.LocalAddr().(*net.UDPAddr)
			if port == 0 {
				h.Ops[i][3] = common.I(la.Port - 5000) // the scan offset the model should assume
				h.Tags = append(h.Tags, "ephemeral")
			} else {
				h.Ops[i][3] = "0"
			}
			socks[next] = uc
			ids[uc] = next
			all = append(all, uc)
			h.Obs = append(h.Obs, []string{"0", common.I(la.Port), common.I(next)})
			next++
		case "2":
			if op[1] == "L" {
				h.Ops[i][1] = common.I(max(next-1, 0)) // the socket bound last
			}
			id := common.AtoI(op[1])
			if s, ok := socks[id]; ok {
				_ = s.Close()
				delete(socks, id)
				stale[id] = s
			} else if s, ok := stale[id]; ok {
				// closing a handle again must not touch whatever socket holds that address now
				_ = s.Close()
				h.Tags = append(h.Tags, "double_close")
			}
			h.Obs = append(h.Obs, nil)
		case "3":
			ip, port := ipOf(uint32(common.AtoU64(op[1]))), common.AtoI(op[2])
			if i%3 == 1 {
				ip = ip.To16() // the 16-byte form of the same IPv4 address must behave identically
			}
			c := vnet.VerifFindSock(n, ip, port)
			res := "-3"
			if c == nil {
				res = "-1"
			} else if id, ok := ids[c]; ok {
				if _, open := socks[id]; open {
					res = common.I(id)
				} else {
					res = "-2" // a closed socket is still registered
				}
			}
			if isEth(ip) {
				// a probe datagram from the other host, through the router, must arrive at that same socket and at no other
				if _, err := prober.WriteTo([]byte{byte(i)}, &net.UDPAddr{IP: ip, Port: port}); err != nil {
					panic(err)
				}
				synctest.Wait()
				got := "-1"
				for _, uc := range all {
					if k := vnet.VerifPending(uc); k != pend[uc] {
						pend[uc] = k
						if _, open := socks[ids[uc]]; open && got == "-1" {
							got = common.I(ids[uc])
						} else {
							got = "-5" // a closed socket, or two sockets, received it
						}
					}
				}
				if got != res {
					res = "-4 " + got // the probe went elsewhere
				}
				h.Tags = append(h.Tags, "probe_datagram")
			}
			h.Obs = append(h.Obs, []string{res})
		default:
			h.Obs = append(h.Obs, nil)
		}
	}
}

func run(h *common.History) {
	if h.Conf[0] == "0" {
		runRouter(h)
		h.Tags = append(h.Tags, "router")
	} else {
		runHost(h)
		h.Tags = append(h.Tags, "host")
	}
}

func genRouter(r *rand.Rand) *common.History {
	type sub struct{ ip, mask uint32 }
	subs := []sub{{0x0A000000, 0xFFFFFF00}, {0x0A000000, 0xFFFFFF00}, {0x0A000000, 0xFFFFFFF0}, {0x0A000010, 0xFFFFFFF0},
		{0x0A000000, 0xFFFFFF80}, {0x0A000000, 0xFFFF0000}, {0x0A000080, 0xFFFFFF80}}
	s := subs[r.IntN(len(subs))]
	h := &common.History{Conf: []string{"0", common.I(s.ip), common.I(s.mask)}}
	n := 5 + r.IntN(40)
	if r.IntN(6) == 0 {
		n = 270 // more than 254 NICs
	}
	used := map[uint32]bool{}
	for i := 0; i < n; i++ {
		if r.IntN(3) == 0 {
			k := 1 + r.IntN(2)
			op := []string{"1"}
			for j := 0; j < k; j++ {
				var ip uint32
				for tries := 0; tries < 20; tries++ {
					switch r.IntN(6) {
					case 0:
						ip = s.ip + uint32(1+r.IntN(12)) // inside the automatic range, low
					case 1:
						ip = (s.ip &^ 0xFF) + uint32(1+r.IntN(254))
					case 2:
						ip = s.ip + 0x100 + uint32(r.IntN(5)) // maybe beyond the subnet
					case 3:
						ip = (s.ip &^ 0xFF) + 254
					default:
						ip = s.ip + uint32(1+r.IntN(int(^s.mask&0xFFFF)))
					}
					if !used[ip] {
						break
					}
				}
				if used[ip] {
					continue // distinct static addresses only
				}
				used[ip] = true
				op = append(op, common.I(ip))
			}
			if len(op) == 1 {
				continue
			}
			h.Ops = append(h.Ops, op)
		} else {
			h.Ops = append(h.Ops, []string{"1"})
		}
	}
	return h
}

func genHost(r *rand.Rand) *common.History {
	k := 1 + r.IntN(3)
	h := &common.History{Conf: []string{"1"}}
	eth := []uint32{}
	for i := 0; i < k; i++ {
		eth = append(eth, 0x01020300+uint32(10+i))
		h.Conf = append(h.Conf, common.I(eth[i]))
	}
	ipChoices := append([]uint32{0, 0, 0x7F000001, 0x01020363 /* foreign */, 0xFFFFFFFE /* :: */}, eth...)
	ipChoices = append(ipChoices, eth...)
	ports := []int{0, 0, 80, 80, 81, 5000, 5001, 5999, 6000, 4999}
	n := 10 + r.IntN(50)
	fill := r.IntN(12) == 0
	nsock := 0
	if fill {
		// occupy the whole ephemeral range on one address to force exhaustion
		ip := ipChoices[r.IntN(len(ipChoices))]
		if ip == 0x01020363 {
			ip = 0
		}
		for p := 5000; p <= 5999; p++ {
			if r.IntN(400) == 0 {
				continue // leave a hole now and then
			}
			h.Ops = append(h.Ops, []string{"1", common.I(ip), common.I(p), "0"})
			nsock++
		}
		for j := 0; j < 4; j++ {
			h.Ops = append(h.Ops, []string{"1", common.I(ip), "0", "0"})
			nsock++
		}
		h.Tags = append(h.Tags, "ephemeral_range_filled")
	}
	for i := 0; i < n; i++ {
		switch c := r.IntN(100); {
		case c < 4:
			// an address that has received traffic is released and bound again; the next datagram belongs to the new socket
			ip, port := eth[r.IntN(len(eth))], ports[2+r.IntN(len(ports)-2)]
			sip := ip
			if r.IntN(3) == 0 {
				sip = 0
			}
			h.Ops = append(h.Ops, []string{"1", common.I(sip), common.I(port), "0"}, []string{"3", common.I(ip), common.I(port)},
				[]string{"2", "L"}, []string{"1", common.I(sip), common.I(port), "0"}, []string{"3", common.I(ip), common.I(port)})
			nsock += 2
			h.Tags = append(h.Tags, "rebind_after_traffic")
		case c < 55:
			h.Ops = append(h.Ops, []string{"1", common.I(ipChoices[r.IntN(len(ipChoices))]), common.I(ports[r.IntN(len(ports))]), "0"})
			nsock++
		case c < 75 && nsock > 0:
			h.Ops = append(h.Ops, []string{"2", common.I(r.IntN(nsock))})
		default:
			ip := ipChoices[2+r.IntN(len(ipChoices)-2)]
			if ip == 0xFFFFFFFE {
				ip = 0x7F000001 // "::" is only a bind address here, never a datagram's destination
			}
			port := ports[2+r.IntN(len(ports)-2)]
			if r.IntN(3) == 0 {
				port = 5000 + r.IntN(1000)
			}
			h.Ops = append(h.Ops, []string{"3", common.I(ip), common.I(port)})
		}
	}
	return h
}

func TestHarness(t *testing.T) {
	a := common.GetArgs()
	w := common.NewWriter(a.Out)
	var hs []*common.History
	if a.Replay != "" {
		var err error
		hs, err = common.ReadHistories(a.Replay)
		if err != nil {
			t.Fatal(err)
		}
	} else {
		r := common.Rng(a.Seed, 0x13)
		for i := 0; i < a.N; i++ {
			if i%3 == 0 {
				hs = append(hs, genRouter(r))
			} else {
				hs = append(hs, genHost(r))
			}
		}
	}
	for _, h := range hs {
		synctest.Test(t, func(*testing.T) { run(h) }) // the probe datagrams travel through a running router: quiescence = delivered
		w.Put(h)
	}
	w.Close(a.Out)
}
