// ctx: trace validation of the context-aware operations of netctx and connctx (C17) under the
// controlled scheduler. netctx/conn.go, netctx/packetconn.go and connctx/connctx.go are replaced
// (go build -overlay) by copies instrumented by tools/vrewrite from the working tree. A history is a
// sequence of operations of one kind on one wrapper over an in-memory connection; the schedule says
// which goroutine performs its next synchronisation operation and when the context of an operation
// is cancelled (or its timeout passes) and when the wrapped connection becomes ready. The event log
// is translated to the event codes of Ctx/Model.v and replayed by the Coq model; independently the
// harness checks the property on the implementation's own answers (flags).
package ctx

import (
	"context"
	"errors"
	"math/rand/v2"
	"net"
	"strings"
	"sync"
	"testing"
	"testing/synctest"
	"time"

	"github.com/pion/transport/v3/connctx"
	"github.com/pion/transport/v3/netctx"
	"verif/harness/common"
	"verif/harness/vsched"
)

func init() { common.RegisterFlags() }

// ---- in-memory wrapped connection -----------------------------------------------------------------

type timeoutErr struct{}

func (timeoutErr) Error() string   { return "i/o timeout (fake)" }
func (timeoutErr) Timeout() bool   { return true }
func (timeoutErr) Temporary() bool { return true }

// ownErr is an error of the wrapped connection itself that is not a timeout and does not end the connection
// (ICMP port unreachable on UDP, message too long, ...)
type ownErr struct{}

func (ownErr) Error() string   { return "connection refused (fake)" }
func (ownErr) Timeout() bool   { return false }
func (ownErr) Temporary() bool { return true }

// errRefused: the wrapped connection does not accept the deadline call (e.g. a connection type without deadline support)
var errRefused = errors.New("deadline not supported right now (fake)")

type fakeAddr struct{}

func (fakeAddr) Network() string { return "fake" }
func (fakeAddr) String() string  { return "fake:1" }

// fake is a net.Conn and net.PacketConn. Reads take one queued datagram; writes need one credit
// (the peer reading). Both block until they can complete or their deadline is non-zero and passed.
type fake struct {
	s       *vsched.Sched
	mu      sync.Mutex
	wake    chan struct{}
	rq      [][]byte // deliverable datagrams
	credit  int      // writes the peer will take
	half    bool     // the peer takes the first half of a pending write and then stalls
	fail    bool     // the next operation that would wait fails with ownErr instead
	refuse  bool     // the next call that sets a deadline is refused (errRefused) and changes nothing
	refusedEver bool // some deadline call was refused: the wrapper cannot be held to its promises about deadlines any more
	calls   []call   // every call of the wrapped operation: who, the bytes transferred, how it ended
	inWrite int      // Write calls currently parked in the wrapped connection
	wcalls  []wcall  // every Write call: who, how many bytes were taken, which
	rdl     time.Time
	wdl     time.Time
	handed  [][]byte // datagrams handed out by reads
	taken   [][]byte // payloads accepted by writes
	sdCalls int
}

type wcall struct {
	g int
	b []byte
}

type call struct {
	g      int
	b      []byte
	ok     bool // completed without error
	failed bool // ended with ownErr
}

func newFake(s *vsched.Sched) *fake { return &fake{s: s, wake: make(chan struct{})} }

func (f *fake) poke() {
	close(f.wake)
	f.wake = make(chan struct{})
}

func past(t time.Time) bool { return !t.IsZero() && !t.After(time.Now()) }

func (f *fake) read(b []byte) (int, error) {
	for {
		f.mu.Lock()
		if past(f.rdl) {
			f.s.Record(f.s.CurID(), "RD", "", 0)
			f.calls = append(f.calls, call{g: f.s.CurID()})
			f.mu.Unlock()
			return 0, timeoutErr{}
		}
		if f.fail {
			f.fail = false
			f.s.Record(f.s.CurID(), "RD", "", 3)
			f.calls = append(f.calls, call{g: f.s.CurID(), failed: true})
			f.mu.Unlock()
			return 0, ownErr{}
		}
		if len(f.rq) > 0 {
			d := f.rq[0]
			f.rq = f.rq[1:]
			n := copy(b, d)
			if n > 0 {
				f.handed = append(f.handed, d[:n])
			}
			k := 1
			if len(d) == 0 {
				k = 4 // an empty datagram
			}
			f.s.Record(f.s.CurID(), "RD", "", k)
			f.calls = append(f.calls, call{g: f.s.CurID(), b: d[:n], ok: true})
			f.mu.Unlock()
			return n, nil
		}
		ch := f.wake
		f.mu.Unlock()
		<-ch
	}
}

func (f *fake) write(b []byte) (int, error) {
	sent := 0 // bytes the peer has taken so far
	f.mu.Lock()
	f.inWrite++
	f.mu.Unlock()
	defer func() {
		f.mu.Lock()
		f.inWrite--
		f.mu.Unlock()
	}()
	for {
		f.mu.Lock()
		if past(f.wdl) {
			k := 0
			if sent > 0 {
				k = 2 // some bytes and a timeout
			}
			f.s.Record(f.s.CurID(), "RD", "", k)
			f.wcalls = append(f.wcalls, wcall{f.s.CurID(), append([]byte{}, b[:sent]...)})
			f.calls = append(f.calls, call{g: f.s.CurID(), b: append([]byte{}, b[:sent]...)})
			if sent > 0 {
				f.taken = append(f.taken, append([]byte{}, b[:sent]...))
			}
			f.half = false
			f.mu.Unlock()
			return sent, timeoutErr{}
		}
		if f.fail && sent == 0 {
			f.fail = false
			f.s.Record(f.s.CurID(), "RD", "", 3)
			f.calls = append(f.calls, call{g: f.s.CurID(), failed: true})
			f.mu.Unlock()
			return 0, ownErr{}
		}
		if f.credit > 0 {
			f.credit--
			f.half = false
			if len(b) > 0 {
				f.taken = append(f.taken, append([]byte{}, b...))
			}
			f.wcalls = append(f.wcalls, wcall{f.s.CurID(), append([]byte{}, b...)})
			f.calls = append(f.calls, call{g: f.s.CurID(), b: append([]byte{}, b...), ok: true})
			k := 1
			if len(b) == 0 {
				k = 4 // an empty payload
			}
			f.s.Record(f.s.CurID(), "RD", "", k)
			f.mu.Unlock()
			return len(b), nil
		}
		if f.half && sent == 0 && len(b) >= 2 {
			sent = len(b) / 2
		}
		ch := f.wake
		f.mu.Unlock()
		<-ch
	}
}

func (f *fake) Read(b []byte) (int, error)  { return f.read(b) }
func (f *fake) Write(b []byte) (int, error) { return f.write(b) }
func (f *fake) ReadFrom(b []byte) (int, net.Addr, error) {
	n, err := f.read(b)
	return n, fakeAddr{}, err
}
func (f *fake) WriteTo(b []byte, _ net.Addr) (int, error) { return f.write(b) }
func (f *fake) Close() error                              { return nil }
func (f *fake) LocalAddr() net.Addr                       { return fakeAddr{} }
func (f *fake) RemoteAddr() net.Addr                      { return fakeAddr{} }

func (f *fake) setDL(which int, t time.Time) error {
	f.mu.Lock()
	f.sdCalls++
	if f.refuse {
		f.refuse = false
		f.refusedEver = true
		k := 3 // refused, zero time
		if !t.IsZero() {
			k = 4 // refused, non-zero time
		}
		f.s.Record(f.s.CurID(), "SD", "", k+10*which)
		f.mu.Unlock()
		return errRefused
	}
	k := 0
	if past(t) {
		k = 1
	} else if !t.IsZero() {
		k = 2 // a future deadline: the wrappers never set one
	}
	f.s.Record(f.s.CurID(), "SD", "", k+10*which)
	if which == 0 || which == 2 {
		f.rdl = t
	}
	if which == 1 || which == 2 {
		f.wdl = t
	}
	f.poke()
	f.mu.Unlock()
	return nil
}
func (f *fake) SetReadDeadline(t time.Time) error  { return f.setDL(0, t) }
func (f *fake) SetWriteDeadline(t time.Time) error { return f.setDL(1, t) }
func (f *fake) SetDeadline(t time.Time) error      { return f.setDL(2, t) }

// ---- the six operations ------------------------------------------------------------------------------

// kinds: 0 netctx.Conn.ReadContext, 1 netctx.Conn.WriteContext, 2 netctx.PacketConn.ReadFromContext,
// 3 netctx.PacketConn.WriteToContext, 4 connctx.ReadContext, 5 connctx.WriteContext
type oper func(ctx context.Context, b []byte) (int, error)

func makeOper(kind int, f *fake) oper {
	switch kind {
	case 0:
		c := netctx.NewConn(f)
		return c.ReadContext
	case 1:
		c := netctx.NewConn(f)
		return c.WriteContext
	case 2:
		c := netctx.NewPacketConn(f)
		return func(ctx context.Context, b []byte) (int, error) {
			n, _, err := c.ReadFromContext(ctx, b)
			return n, err
		}
	case 3:
		c := netctx.NewPacketConn(f)
		return func(ctx context.Context, b []byte) (int, error) { return c.WriteToContext(ctx, b, fakeAddr{}) }
	case 4:
		c := connctx.New(f)
		return c.ReadContext
	default:
		c := connctx.New(f)
		return c.WriteContext
	}
}

func isWrite(kind int) bool { return kind == 1 || kind == 3 || kind == 5 }

func labelIdx(l string) int {
	parts := strings.Split(l, "#")
	if len(parts) != 2 {
		return -1
	}
	return common.AtoI(parts[1])
}

// flags (implementation-side oracle)
const (
	fSpurious   = 1  // an error although the context is live and the wrapped connection did not fail
	fDataLost   = 2  // reported byte count / bytes differ from what the wrapped connection transferred
	fLeftoverDL = 4  // wrapped connection keeps a non-zero deadline after the operation returned
	fNotPrompt  = 8  // context over, everything quiescent, operation has not returned
	fWrongErr   = 16 // context error with n > 0, or context over with n == 0 and another (or no) error
	fLeak       = 32 // watcher goroutine alive after the operation returned
	fStuck      = 64 // data ready, live context, quiescent, operation has not returned
)

type opState struct {
	g         *vsched.G
	ctx       context.Context
	cancel    context.CancelFunc
	timeout   bool // context.WithTimeout instead of WithCancel
	cancelled bool
	started   bool
	returned  bool
	n         int
	err       error
	buf       []byte
}

// schedule entries: >= 0 pick among runnable goroutines; -1 cancel the context of the operation in progress
// (or the oldest not yet returned); -2 wrapped connection becomes ready; -3 start the next operation's goroutine
// (so that it competes for the direction's mutex); -4 cancel the context of the newest started operation
func run(h *common.History, kind, nops int, schedule []int, direct bool) {
	s := vsched.New()
	set := func(on bool) {
		if on {
			netctx.VYieldHook, netctx.VBlockedHook, netctx.VLockedHook, netctx.VChoseHook = s.Yield, s.Busy, s.Locked, s.Chose
			connctx.VYieldHook, connctx.VBlockedHook, connctx.VLockedHook, connctx.VChoseHook = s.Yield, s.Busy, s.Locked, s.Chose
			gh := func(label string, f func()) { s.Yield(label); s.GoChild("watcher", f) }
			netctx.VGoHook, connctx.VGoHook = gh, gh
		} else {
			netctx.VYieldHook, netctx.VBlockedHook, netctx.VLockedHook, netctx.VChoseHook, netctx.VGoHook = nil, nil, nil, nil, nil
			connctx.VYieldHook, connctx.VBlockedHook, connctx.VLockedHook, connctx.VChoseHook, connctx.VGoHook = nil, nil, nil, nil, nil
		}
	}
	set(true)
	defer set(false)
	f := newFake(s)
	op := makeOper(kind, f)
	ops := make([]*opState, nops)
	gid2op := map[int]int{}
	flags := 0
	seq := byte(1)
	var delivered [][]byte
	var reported [][]byte // write: payloads reported written; read: bytes returned
	var stepped []int

	start := func(i int, timeout bool) {
		o := &opState{timeout: timeout, started: true}
		switch {
		case timeout && (i+kind)%3 == 1:
			o.ctx, o.cancel = context.WithTimeoutCause(context.Background(), time.Duration(1000+i)*time.Hour, errors.New("cause of the timeout"))
		case timeout:
			o.ctx, o.cancel = context.WithTimeout(context.Background(), time.Duration(1000+i)*time.Hour)
		case (i+kind)%3 == 1:
			// a context cancelled with a cause: the operation still reports the context's error (ctx.Err()), not the cause
			c, cancel := context.WithCancelCause(context.Background())
			o.ctx, o.cancel = c, func() { cancel(errors.New("cause of the cancellation")) }
		default:
			o.ctx, o.cancel = context.WithCancel(context.Background())
		}
		if isWrite(kind) {
			o.buf = []byte{byte(100 + i), byte(i), 7}
			if (i+nops+kind)%4 == 3 {
				o.buf = []byte{} // an empty payload is a write like any other (on a packet connection: an empty datagram)
			}
		} else {
			o.buf = make([]byte, 16)
		}
		ops[i] = o
		o.g = s.Go("op", func() {
			n, err := op(o.ctx, o.buf)
			o.n, o.err, o.returned = n, err, true
			ce, oe, se := 0, 0, 0
			if err != nil && (errors.Is(err, context.Canceled) || errors.Is(err, context.DeadlineExceeded)) {
				ce = 1
			} else if err != nil && errors.As(err, &ownErr{}) {
				oe = 1
			} else if err != nil && errors.Is(err, errRefused) {
				se = 1
			}
			s.Record(o.g.ID, "R", "", n*8+se*4+oe*2+ce)
		})
		gid2op[o.g.ID] = i
	}
	next := 0
	inProgress := func() *opState { // oldest started, not returned
		for _, o := range ops {
			if o != nil && !o.returned {
				return o
			}
		}
		return nil
	}
	target := func() *opState { // the operation sitting in the wrapped connection, else the oldest unfinished one
		for _, o := range ops {
			if o != nil && !o.returned && o.g.State == vsched.Blocked {
				return o
			}
		}
		return inProgress()
	}
	doCancel := func(o *opState) {
		if o == nil || o.cancelled || o.returned {
			return
		}
		o.cancelled = true
		s.Record(-1, "CA", "", o.g.ID)
		if o.timeout {
			// let the timeout pass: every goroutine is parked, so the bubble's clock jumps
			d := time.Until(func() time.Time { t, _ := o.ctx.Deadline(); return t }())
			time.Sleep(d + time.Second)
		} else {
			o.cancel()
		}
		s.Settle()
	}
	doReady := func() {
		f.mu.Lock()
		ok := false
		if isWrite(kind) {
			if f.credit == 0 {
				f.credit = 1
				ok = true
			}
		} else if len(f.rq) == 0 {
			d := make([]byte, 1+int(seq)%7)
			if int(seq/16)%4 == 2 {
				d = []byte{} // an empty datagram
			}
			for k := range d {
				d[k] = seq + byte(k)
			}
			seq += 16
			f.rq = append(f.rq, d)
			if len(d) > 0 {
				delivered = append(delivered, d)
			}
			ok = true
		}
		if ok {
			s.Record(-1, "DA", "", 0)
			f.poke()
		}
		f.mu.Unlock()
		s.Settle()
	}
	doFail := func() {
		// the wrapped connection will fail the operation that waits in it (or the next one) with an error of its own
		f.mu.Lock()
		ok := !f.fail && !f.half
		if ok {
			f.fail = true
			s.Record(-1, "FA", "", 0)
			f.poke()
		}
		f.mu.Unlock()
		s.Settle()
	}
	tainted := false
	doRefuse := func() {
		// the wrapped connection will refuse the next deadline call
		f.mu.Lock()
		ok := !f.refuse
		if ok {
			f.refuse = true
			s.Record(-1, "RF", "", 0)
		}
		f.mu.Unlock()
	}
	doHalf := func() {
		// the peer takes part of the pending write (writes only, and only while a write is parked in the wrapped connection)
		if !isWrite(kind) {
			return
		}
		o := target()
		if o == nil || o.g.State != vsched.Blocked || len(o.buf) < 2 {
			return
		}
		f.mu.Lock()
		ok := !f.half && !f.fail && f.credit == 0 && !past(f.wdl) && f.inWrite > 0
		if ok {
			f.half = true
			s.Record(-1, "HA", "", 0)
			f.poke()
		}
		f.mu.Unlock()
		s.Settle()
	}
	stepAny := func(pick int) bool {
		rs := s.Runnable()
		if len(rs) == 0 {
			return false
		}
		var g *vsched.G
		if direct || pick >= 1000 {
			id := pick
			if pick >= 1000 {
				id = pick - 1000
			}
			for _, c := range rs {
				if c.ID == id {
					g = c
				}
			}
			if g == nil {
				return false
			}
		} else {
			g = rs[pick%len(rs)]
		}
		stepped = append(stepped, g.ID)
		s.Step(g)
		return true
	}
	quiesce := func() {
		for guard := 0; guard < 100000; guard++ {
			rs := s.Runnable()
			if len(rs) == 0 {
				return
			}
			progressed := false
			for _, g := range rs {
				if g.State == vsched.AtYield {
					stepped = append(stepped, g.ID)
					s.Step(g)
					progressed = true
					break
				}
			}
			if !progressed {
				// only goroutines that found the mutex held remain: let each retry once
				for _, g := range rs {
					stepped = append(stepped, g.ID)
					s.Step(g)
					if g.State != vsched.NeedLock {
						progressed = true
						break
					}
				}
			}
			if !progressed {
				return
			}
		}
	}

	pos, alt := 0, 0
	for rounds := 0; next < nops || inProgress() != nil; rounds++ {
		if rounds > 20000 {
			flags |= fNotPrompt
			break
		}
		if inProgress() == nil {
			// start the next operation; the schedule entry (if any) decides its context flavour
			tb := false
			if pos < len(schedule) && (schedule[pos] == -5 || schedule[pos] == -6) {
				tb = schedule[pos] == -5
				pos++
			}
			stepped = append(stepped, map[bool]int{true: -5, false: -6}[tb])
			start(next, tb)
			next++
		}
		if pos < len(schedule) {
			e := schedule[pos]
			pos++
			switch {
			case e == -1:
				stepped = append(stepped, -1)
				doCancel(target())
			case e == -2:
				stepped = append(stepped, -2)
				doReady()
			case e == -7:
				stepped = append(stepped, -7)
				doHalf()
			case e == -8:
				stepped = append(stepped, -8)
				doFail()
			case e == -9:
				stepped = append(stepped, -9)
				doRefuse()
			case e == -3:
				if next < nops {
					stepped = append(stepped, -3)
					start(next, false)
					next++
				}
			case e == -4:
				if next > 0 {
					stepped = append(stepped, -4)
					doCancel(ops[next-1])
				}
			case e == -5 || e == -6:
			default:
				stepAny(e)
			}
			continue
		}
		// schedule exhausted: run to quiescence; unblock an operation that waits like the wrapped connection
		quiesce()
		if inProgress() == nil {
			continue
		}
		var holder *opState // the operation that sits in the wrapped connection (it holds the direction's mutex)
		for _, o := range ops {
			if o != nil && !o.returned && o.g.State == vsched.Blocked {
				holder = o
			}
		}
		if holder == nil {
			flags |= fNotPrompt // unfinished operations, nobody can move, nobody waits for the wrapped connection
			break
		}
		f.mu.Lock()
		refusedEver := f.refusedEver
		f.mu.Unlock()
		if holder.cancelled && !refusedEver { // nothing is at a yield point any more
			flags |= fNotPrompt
			break
		}
		f.mu.Lock()
		ready := (isWrite(kind) && f.credit > 0) || (!isWrite(kind) && len(f.rq) > 0) || f.fail
		f.mu.Unlock()
		if ready {
			flags |= fStuck
			break
		}
		alt++
		if (alt+len(schedule))%2 == 0 && !holder.cancelled {
			stepped = append(stepped, -1)
			doCancel(holder)
		} else {
			stepped = append(stepped, -2)
			doReady()
		}
	}
	quiesce()

	// ---- implementation-side oracle over the results ------------------------------------------------
	ti, hi := 0, 0
	var inRetOrder []*opState // operations complete in the order in which they got the mutex, not in start order
	for _, e := range s.Log {
		if e.Kind == "R" {
			inRetOrder = append(inRetOrder, ops[gid2op[e.G]])
		}
	}
	for _, o := range inRetOrder {
		if o == nil || !o.returned {
			continue
		}
		isCtxErr := o.err != nil && (errors.Is(o.err, context.Canceled) || errors.Is(o.err, context.DeadlineExceeded))
		// what the wrapped connection was asked to do for this operation
		var mine []call
		for _, c := range f.calls {
			if c.g == o.g.ID {
				mine = append(mine, c)
			}
		}
		failedItself := len(mine) == 1 && mine[0].failed
		if o.err != nil && !isCtxErr && o.ctx.Err() == nil && !(failedItself && errors.As(o.err, &ownErr{})) && !errors.Is(o.err, errRefused) {
			flags |= fSpurious
		}
		if failedItself && o.err == nil {
			flags |= fWrongErr // the wrapped connection's error was swallowed
		}
		if len(mine) > 1 {
			flags |= fDataLost // the wrapped operation was performed twice
		}
		if len(mine) == 0 && o.err == nil {
			flags |= fDataLost // success reported without asking the wrapped connection (matters for empty payloads)
		}
		if len(mine) == 1 && string(mine[0].b) != string(o.buf[:o.n]) {
			flags |= fDataLost
		}
		if isCtxErr && o.n > 0 {
			flags |= fWrongErr
		}
		if o.n == 0 && o.cancelled && !isCtxErr && o.ctx.Err() != nil {
			flags |= fWrongErr
		}
		if isCtxErr && !o.cancelled {
			flags |= fWrongErr
		}
		if o.n > 0 {
			if isWrite(kind) {
				if ti >= len(f.taken) || string(f.taken[ti]) != string(o.buf[:o.n]) {
					flags |= fDataLost
				}
				ti++
			} else {
				if hi >= len(f.handed) || string(f.handed[hi]) != string(o.buf[:o.n]) {
					flags |= fDataLost
				}
				hi++
			}
			reported = append(reported, o.buf[:o.n])
		}
	}
	if ti != len(f.taken) || hi != len(f.handed) {
		flags |= fDataLost // the wrapped connection transferred something no operation reported
	}
	// reads hand out the delivered datagrams in order
	for k, d := range f.handed {
		if k >= len(delivered) || string(d) != string(delivered[k]) {
			flags |= fDataLost
		}
	}
	allReturned := true
	for _, o := range ops {
		if o == nil || !o.returned {
			allReturned = false
		}
	}
	f.mu.Lock()
	leftover := !f.rdl.IsZero() || !f.wdl.IsZero()
	f.mu.Unlock()
	walive := false
	for _, g := range s.Gs {
		if g.Name == "watcher" && g.State != vsched.Done {
			walive = true
		}
	}
	f.mu.Lock()
	refusedEver := f.refusedEver
	f.mu.Unlock()
	if refusedEver {
		// the connection refused a deadline call: a forced deadline may have stayed, operations may have timed out because of it
		// or could not be cancelled; only the byte accounting and the error rules that do not involve deadlines are judged
		flags &^= fSpurious | fNotPrompt | fStuck
	}
	if allReturned {
		if leftover && !refusedEver {
			flags |= fLeftoverDL
		}
		if walive {
			flags |= fLeak
		}
	}

	// ---- translate the log into model events ---------------------------------------------------------
	h.Ops = nil
	emit := func(c ...int) {
		seg := make([]string, len(c))
		for i, v := range c {
			seg[i] = common.I(v)
		}
		h.Ops = append(h.Ops, seg)
	}
	locked := map[int]bool{}    // op index -> has acquired the mutex
	retd := map[int]bool{}      // op index -> result recorded
	preCancel := map[int]bool{} // cancelled before acquiring the mutex
	first := true
	lastLocked := -1
	for _, e := range s.Log {
		oi, isOp := gid2op[e.G]
		switch e.Kind {
		case "L":
			if isOp && labelIdx(e.Label) == 0 {
				if !first {
					emit(15)
				}
				first = false
				if preCancel[oi] {
					emit(13)
				}
				emit(0)
				locked[oi] = true
				lastLocked = oi
			} else {
				emit(90)
			}
		case "C":
			switch {
			case isOp && labelIdx(e.Label) == 1 && e.K == 1:
				emit(1)
			case !isOp && labelIdx(e.Label) == 4 && e.K == 0:
				emit(8)
			case !isOp && labelIdx(e.Label) == 4 && e.K == 1:
				emit(9)
			default:
				emit(91)
			}
		case "Y":
			if isOp {
				switch labelIdx(e.Label) {
				case 2:
					emit(2)
				case 3:
					emit(3)
				case 6:
					emit(6)
				}
			}
		case "RD":
			switch e.K {
			case 1:
				emit(4)
			case 2:
				emit(16)
			case 3:
				emit(19)
			case 4:
				emit(18)
			default:
				emit(5)
			}
		case "HA":
			emit(17)
		case "FA":
			emit(20)
		case "RF":
			emit(21)
		case "SD":
			which := e.K / 10
			dirOK := (isWrite(kind) && which == 1) || (!isWrite(kind) && which == 0)
			switch {
			case !dirOK:
				emit(93)
			case e.K%10 == 4:
				emit(22) // the forcing call was refused
				tainted = true
			case e.K%10 == 3:
				emit(11)
				emit(23) // the restoring call was refused
				tainted = true
			case e.K%10 == 1:
				emit(10)
			case e.K%10 == 0:
				emit(11)
				emit(12)
			default:
				emit(92)
			}
		case "R":
			emit(7, e.K/8, e.K%2, (e.K/2)%2, (e.K/4)%2)
			retd[oi] = true
		case "CA":
			oi2 := gid2op[e.K]
			switch {
			case retd[oi2]:
			case locked[oi2]:
				emit(13)
			default:
				preCancel[oi2] = true
			}
		case "DA":
			emit(14)
		}
	}
	lastRet, lastCE, ln := false, false, 0
	if lastLocked >= 0 {
		last := ops[lastLocked]
		lastRet = last.returned
		lastCE = last.returned && last.err != nil && (errors.Is(last.err, context.Canceled) || errors.Is(last.err, context.DeadlineExceeded))
		if last.returned && last.n > 0 {
			ln = 1
		}
	}
	// per-operation byte counts are compared inside the replay as 0 / 1 ("some"): normalise
	for _, seg := range h.Ops {
		if len(seg) == 5 && seg[0] == "7" && seg[1] != "0" {
			seg[1] = "1"
		}
	}
	h.Obs = [][]string{{"1", common.B(lastRet), common.I(ln), common.B(lastCE), common.B(leftover), common.B(walive)}, {common.I(flags)}}
	h.Conf = []string{common.I(kind), common.I(nops), "77"}
	for _, g := range stepped {
		h.Conf = append(h.Conf, common.I(g))
	}
	tag := func(c bool, t string) {
		if c {
			h.Tags = append(h.Tags, t)
		}
	}
	tag(flags != 0, "FLAGGED")
	for _, o := range ops {
		if o == nil || !o.returned {
			continue
		}
		ce := o.err != nil && (errors.Is(o.err, context.Canceled) || errors.Is(o.err, context.DeadlineExceeded))
		tag(ce, "ctx_error")
		tag(o.cancelled && o.n > 0, "cancelled_but_data")
		tag(!o.cancelled && o.n > 0, "plain_data")
		tag(o.timeout && o.cancelled, "timeout_ctx")
		tag(o.err != nil && errors.As(o.err, &ownErr{}), "own_error_returned")
		tag(o.err == nil && o.n == 0, "empty_transfer")
	}
	tag(len(preCancel) > 0, "cancel_before_lock")
	tag(tainted, "deadline_call_refused")
	tag(nops >= 3, "ops>=3")
	h.Tags = append(h.Tags, "kind"+common.I(kind))

	// let everything end so that the bubble can close (hooks stay on: goroutines waiting for the mutex are
	// parked inside them)
	for _, o := range ops {
		if o != nil {
			o.cancel()
		}
	}
	f.mu.Lock()
	f.credit += 100
	f.rdl, f.wdl = time.Unix(1, 0), time.Unix(1, 0)
	f.poke()
	f.mu.Unlock()
	s.Settle()
	for guard := 0; guard < 5000 && len(s.Runnable()) > 0; guard++ {
		rs := s.Runnable()
		s.Step(rs[guard%len(rs)])
	}
}

func gen(r *rand.Rand) (kind, nops int, sched []int) {
	kind = r.IntN(6)
	nops = 1 + r.IntN(4)
	mode := r.IntN(4)
	for i := 0; i < nops; i++ {
		if r.IntN(3) == 0 {
			sched = append(sched, -5)
		}
		// decisions for about one operation: ~12 goroutine steps with environment events sprinkled in
		k := 6 + r.IntN(14)
		cancelAt, readyAt, halfAt, failAt, refuseAt := -1, -1, -1, -1, -1
		if r.IntN(8) == 0 {
			refuseAt = r.IntN(k) // the wrapped connection refuses the next deadline call
		}
		if r.IntN(3) == 0 {
			halfAt = 5 + r.IntN(k) // the peer takes half of a parked write (writes only)
		}
		if r.IntN(4) == 0 {
			failAt = r.IntN(k) // the wrapped connection fails by itself, often close to a cancellation
			if r.IntN(2) == 0 {
				halfAt = -1
			}
		}
		switch mode {
		case 0: // cancel somewhere, maybe data too
			cancelAt = r.IntN(k)
			if r.IntN(2) == 0 {
				readyAt = r.IntN(k)
			}
		case 1: // data, maybe cancel
			readyAt = r.IntN(k)
			if r.IntN(2) == 0 {
				cancelAt = r.IntN(k)
			}
		case 2: // both close together
			cancelAt = r.IntN(k)
			readyAt = cancelAt + r.IntN(3) - 1
		default:
			if r.IntN(2) == 0 {
				cancelAt = r.IntN(k)
			}
			if r.IntN(2) == 0 {
				readyAt = r.IntN(k)
			}
		}
		for j := 0; j < k; j++ {
			if j == cancelAt {
				sched = append(sched, -1)
			}
			if j == readyAt {
				sched = append(sched, -2)
			}
			if j == halfAt {
				sched = append(sched, -7)
			}
			if j == failAt {
				sched = append(sched, -8)
			}
			if j == refuseAt {
				sched = append(sched, -9)
			}
			if r.IntN(25) == 0 {
				sched = append(sched, -3)
			}
			if r.IntN(40) == 0 {
				sched = append(sched, -4)
			}
			sched = append(sched, r.IntN(4))
		}
	}
	return
}

func TestHarness(t *testing.T) {
	a := common.GetArgs()
	w := common.NewWriter(a.Out)
	if a.Replay != "" {
		hs, err := common.ReadHistories(a.Replay)
		if err != nil {
			t.Fatal(err)
		}
		for _, h := range hs {
			kind, nops := common.AtoI(h.Conf[0]), common.AtoI(h.Conf[1])
			var sched []int
			for _, c := range h.Conf[3:] {
				sched = append(sched, common.AtoI(c))
			}
			synctest.Test(t, func(*testing.T) { run(h, kind, nops, sched, true) })
			w.Put(h)
		}
	} else {
		r := common.Rng(a.Seed, 0x17)
		for i := 0; i < a.N; i++ {
			h := &common.History{}
			kind, nops, sched := gen(r)
			synctest.Test(t, func(*testing.T) { run(h, kind, nops, sched, false) })
			w.Put(h)
		}
	}
	w.Close(a.Out)
}
