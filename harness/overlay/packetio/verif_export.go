//go:build verif

package packetio

// VerifState exposes the ring indices to the correspondence harness (generator steering
// and coverage measurement only; observables are taken from the public API).
func (b *Buffer) VerifState() (head, tail, length int) {
	b.mutex.Lock()
	defer b.mutex.Unlock()

	return b.head, b.tail, len(b.data)
}
