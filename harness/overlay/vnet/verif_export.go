//go:build verif

package vnet

import (
	"bytes"
	"net"
	"sync"
	"time"

	"github.com/pion/logging"
	"github.com/pion/transport/v3"
)

// VerifNAT gives the correspondence harness access to the unexported NAT translator.
type VerifNAT struct{ n *networkAddressTranslator }

// VerifNewNAT builds a translator exactly as Router does.
func VerifNewNAT(oneToOne bool, mapb, filtb int, life time.Duration, mapped, local []net.IP, opts ...bool) (*VerifNAT, error) {
	portPreservation, hairpinning := len(opts) > 0 && opts[0], len(opts) > 1 && opts[1]
	mode := NATModeNormal
	if oneToOne {
		mode = NATModeNAT1To1
	}
	n, err := newNAT(&natConfig{
		name: "verif",
		natType: NATType{
			Mode:              mode,
			MappingBehavior:   EndpointDependencyType(mapb),  //nolint:gosec
			FilteringBehavior: EndpointDependencyType(filtb), //nolint:gosec
			MappingLifeTime:   life,
			PortPreservation:  portPreservation,
			Hairpinning:       hairpinning,
		},
		mappedIPs:     mapped,
		localIPs:      local,
		loggerFactory: logging.NewDefaultLoggerFactory(),
	})
	if err != nil {
		return nil, err
	}

	return &VerifNAT{n}, nil
}

// Translate runs translateOutbound (dir 0) or translateInbound (dir 1) on a UDP chunk.
// kind: 0 translated, 1 dropped without error, 2 error, 9 translated but something that must
// not change did change (payload, the other address, or the input chunk itself).
func (v *VerifNAT) Translate(dir int, src, dst *net.UDPAddr, payload []byte) (kind int, addr *net.UDPAddr) {
	in := newChunkUDP(src, dst)
	in.userData = append([]byte{}, payload...)
	var out Chunk
	var err error
	if dir == 0 {
		out, err = v.n.translateOutbound(in)
	} else {
		out, err = v.n.translateInbound(in)
	}
	if err != nil {
		return 2, nil
	}
	if out == nil {
		return 1, nil
	}
	osrc, _ := out.SourceAddr().(*net.UDPAddr)
	odst, _ := out.DestinationAddr().(*net.UDPAddr)
	if osrc == nil || odst == nil {
		return 9, nil
	}
	same := func(a, b *net.UDPAddr) bool { return a.IP.Equal(b.IP) && a.Port == b.Port }
	intact := bytes.Equal(out.UserData(), payload) && bytes.Equal(in.userData, payload) &&
		same(in.SourceAddr().(*net.UDPAddr), src) && same(in.DestinationAddr().(*net.UDPAddr), dst) //nolint:forcetypeassert
	if dir == 0 {
		intact = intact && same(odst, dst)
		addr = osrc
	} else {
		intact = intact && same(osrc, src)
		addr = odst
	}
	if !intact {
		return 9, addr
	}

	return 0, addr
}

// ---- chunk filters (C14, C15, C16) -----------------------------------------------------------

// VerifGot is one chunk seen by the sink behind a filter.
type VerifGot struct {
	ID     int
	At     time.Time
	Intact bool // tag, addresses, flags and payload as when it was pushed
}

// VerifSink is the NIC placed behind a filter; it records what comes out.
type VerifSink struct {
	mu    sync.Mutex
	got   []VerifGot
	snaps map[int]string
	// Block makes onInboundChunk take that long (a downstream NIC that blocks, e.g. a child router
	// sleeping in its jitter while holding its mutex)
	Block time.Duration
}

func (s *VerifSink) getInterface(string) (*transport.Interface, error) { return nil, nil } //nolint:nilnil
func (s *VerifSink) getStaticIPs() []net.IP                            { return nil }
func (s *VerifSink) setRouter(*Router) error                           { return nil }
func (s *VerifSink) onInboundChunk(c Chunk) {
	s.mu.Lock()
	id := -1
	if d := c.UserData(); len(d) >= 4 {
		id = int(d[0])<<24 | int(d[1])<<16 | int(d[2])<<8 | int(d[3])
	}
	s.got = append(s.got, VerifGot{ID: id, At: time.Now(), Intact: s.snaps[id] == verifSnap(c)})
	block := s.Block
	s.mu.Unlock()
	if block > 0 {
		time.Sleep(block) // not under the mutex: a goroutine waiting for a mutex is not "durably blocked" for synctest
	}
}

// Len is the number of chunks received and not yet taken.
func (s *VerifSink) Len() int {
	s.mu.Lock()
	defer s.mu.Unlock()

	return len(s.got)
}

// Take returns and clears what the sink has received.
func (s *VerifSink) Take() []VerifGot {
	s.mu.Lock()
	defer s.mu.Unlock()
	g := s.got
	s.got = nil

	return g
}

func verifSnap(c Chunk) string {
	return c.Tag() + "|" + c.String() + "|" + c.Network() + "|" + string(c.UserData())
}

// VerifFilter wraps a filter NIC and its sink.
type VerifFilter struct {
	Sink *VerifSink
	nic  NIC
	Loss *LossFilter
	TBF  *TokenBucketFilter
	Del  *DelayFilter
}

// VerifNewLoss builds a LossFilter in front of a sink.
func VerifNewLoss(chance int) (*VerifFilter, error) {
	s := &VerifSink{snaps: map[int]string{}}
	f, err := NewLossFilter(s, chance)
	if err != nil {
		return nil, err
	}

	return &VerifFilter{Sink: s, nic: f, Loss: f}, nil
}

// Push hands a fresh chunk with the given id and payload size (>= 4) to the filter.
func (v *VerifFilter) Push(id, size int, tcp bool) {
	if size < 4 {
		size = 4
	}
	data := make([]byte, size)
	data[0], data[1], data[2], data[3] = byte(id>>24), byte(id>>16), byte(id>>8), byte(id)
	var c Chunk
	stamp := time.Time{}
	if id%3 == 0 {
		stamp = time.Now().Add(-time.Hour) // stamped long ago by an upstream router
	}
	if tcp {
		tc := newChunkTCP(&net.TCPAddr{IP: net.IPv4(1, 2, 3, 4), Port: 1000 + id%7}, &net.TCPAddr{IP: net.IPv4(5, 6, 7, 8), Port: 80}, tcpSYN|tcpACK)
		tc.userData = data
		tc.timestamp = stamp
		c = tc
	} else {
		uc := newChunkUDP(&net.UDPAddr{IP: net.IPv4(1, 2, 3, 4), Port: 1000 + id%7}, &net.UDPAddr{IP: net.IPv4(5, 6, 7, 8), Port: 80})
		uc.userData = data
		uc.timestamp = stamp
		c = uc
	}
	v.Sink.mu.Lock()
	v.Sink.snaps[id] = verifSnap(c)
	v.Sink.mu.Unlock()
	v.nic.onInboundChunk(c)
}

// VerifFindSock returns the open UDP socket of n that covers (ip, port), if any (udpConnMap.find).
func VerifFindSock(n *Net, ip net.IP, port int) *UDPConn {
	c, ok := n.udpConns.find(&net.UDPAddr{IP: ip, Port: port})
	if !ok {
		return nil
	}

	return c
}

// VerifPending is the number of datagrams waiting in the socket's read queue.
func VerifPending(c *UDPConn) int { return len(c.readCh) }

// VerifNewTBF builds a TokenBucketFilter in front of a sink.
func VerifNewTBF(rate, burst, queueBytes int) (*VerifFilter, error) {
	s := &VerifSink{snaps: map[int]string{}}
	f, err := NewTokenBucketFilter(s, TBFRate(rate), TBFMaxBurst(burst), TBFQueueSizeInBytes(queueBytes))
	if err != nil {
		return nil, err
	}

	return &VerifFilter{Sink: s, nic: f, TBF: f}, nil
}

// ---- delaying elements (C14) ----------------------------------------------------------------------

// VerifDelayRouter is a started Router whose only NIC is a sink.
type VerifDelayRouter struct {
	R    *Router
	Sink *VerifSink
}

type verifSinkNIC struct {
	*VerifSink
	ip  net.IP
	ifc *transport.Interface
}

func (s *verifSinkNIC) getInterface(string) (*transport.Interface, error) { return s.ifc, nil }
func (s *verifSinkNIC) getStaticIPs() []net.IP                            { return []net.IP{s.ip} }

// VerifNewDelayRouter builds and starts a router (1.2.3.0/24) with a sink NIC at 1.2.3.4.
func VerifNewDelayRouter(minDelay, maxJitter time.Duration, queueSize int) (*VerifDelayRouter, error) {
	r, err := NewRouter(&RouterConfig{
		CIDR: "1.2.3.0/24", MinDelay: minDelay, MaxJitter: maxJitter, QueueSize: queueSize,
		LoggerFactory: logging.NewDefaultLoggerFactory(),
	})
	if err != nil {
		return nil, err
	}
	s := &VerifSink{snaps: map[int]string{}}
	nic := &verifSinkNIC{VerifSink: s, ip: net.IPv4(1, 2, 3, 4).To4(), ifc: transport.NewInterface(net.Interface{Index: 1, MTU: 1500, Name: "eth0"})}
	if err = r.AddNet(nic); err != nil {
		return nil, err
	}
	if err = r.Start(); err != nil {
		return nil, err
	}

	return &VerifDelayRouter{R: r, Sink: s}, nil
}

// Push injects a UDP chunk for the sink into the router's queue (as a NIC's write would).
func (v *VerifDelayRouter) Push(id, size int) {
	if size < 4 {
		size = 4
	}
	data := make([]byte, size)
	data[0], data[1], data[2], data[3] = byte(id>>24), byte(id>>16), byte(id>>8), byte(id)
	c := newChunkUDP(&net.UDPAddr{IP: net.IPv4(1, 2, 3, 99), Port: 1000}, &net.UDPAddr{IP: net.IPv4(1, 2, 3, 4), Port: 80})
	c.userData = data
	if id%3 == 0 {
		// a chunk that already crossed another router carries that router's (old) time stamp
		c.timestamp = time.Now().Add(-time.Hour)
	}
	v.Sink.mu.Lock()
	v.Sink.snaps[id] = verifSnap(c)
	v.Sink.mu.Unlock()
	v.R.push(c)
}

// VerifNewDelay builds a DelayFilter in front of a sink (Run is started by the caller).
func VerifNewDelay(delay time.Duration) (*VerifFilter, error) {
	s := &VerifSink{snaps: map[int]string{}}
	f, err := NewDelayFilter(s, delay)
	if err != nil {
		return nil, err
	}

	return &VerifFilter{Sink: s, nic: f, Del: f}, nil
}

// ---- vnet UDP socket read side (C10) ------------------------------------------------------------------

type verifNoObserver struct{}

func (verifNoObserver) write(Chunk) error                            { return nil }
func (verifNoObserver) onClosed(net.Addr)                            {}
func (verifNoObserver) determineSourceIP(locIP, dstIP net.IP) net.IP { return locIP }

// VerifNewUDPConn returns a vnet UDP socket that is not attached to any Net.
func VerifNewUDPConn() (*UDPConn, error) {
	return newUDPConn(&net.UDPAddr{IP: net.IPv4(1, 2, 3, 4), Port: 5000}, nil, verifNoObserver{})
}

// VerifDeliver queues a datagram for the socket as Net.onInboundChunk would.
func (c *UDPConn) VerifDeliver(p []byte) {
	ch := newChunkUDP(&net.UDPAddr{IP: net.IPv4(5, 6, 7, 8), Port: 80}, c.locAddr)
	ch.userData = append([]byte{}, p...)
	c.onInboundChunk(ch)
}
