//go:build verif

package udp

import (
	"net"
	"time"
)

// VerifNewConn returns a listener connection without a socket: its read side (buffer and read
// deadline) is complete; Write and Close must not be used.
func VerifNewConn() *Conn {
	l := &listener{}

	return l.newConn(&net.UDPAddr{IP: net.IPv4(127, 0, 0, 1), Port: 9})
}

// VerifDeliver hands a datagram to the connection as the listener's read loop would.
func (c *Conn) VerifDeliver(p []byte) error {
	_, err := c.buffer.Write(p)

	return err
}

// ---- in-memory socket for the listener (C11, C12) ------------------------------------------------

// VerifPacketConn is what Listen needs from the socket it opens.
type VerifPacketConn interface {
	net.PacketConn
	SetReadBuffer(int) error
	SetWriteBuffer(int) error
}

// VListenUDPHook, when set, replaces net.ListenUDP inside ListenConfig.Listen (the instrumented
// copy of conn.go calls vListenUDP).
var VListenUDPHook func(network string, laddr *net.UDPAddr) (VerifPacketConn, error)

func vListenUDP(network string, laddr *net.UDPAddr) (VerifPacketConn, error) {
	if VListenUDPHook != nil {
		return VListenUDPHook(network, laddr)
	}
	c, err := net.ListenUDP(network, laddr)
	if err != nil {
		return nil, err
	}

	return c, nil
}

// VerifQueued is the number of connections waiting in the accept queue.
func VerifQueued(l net.Listener) int {
	ll, _ := l.(*listener)

	return len(ll.acceptCh)
}

// VerifBuffered is the number of datagrams waiting in the connection's buffer.
func VerifBuffered(c net.Conn) int {
	cc, _ := c.(*Conn)

	return cc.buffer.Count()
}

// VerifSetConnLimit sets the packet-count limit of the connection's buffer (a slow reader's full buffer, reached cheaply).
func VerifSetConnLimit(c net.Conn, n int) {
	cc, _ := c.(*Conn)
	cc.buffer.SetLimitCount(n)
}

// VBatchConnHook, when set, supplies the batch reader/writer of the BatchConn that Listen creates
// (the instrumented copy of conn.go calls vNewBatchConn): the real NewBatchConn runs, then its
// platform batch connection is replaced by the in-memory one.
var VBatchConnHook func() BatchPacketConn

func vNewBatchConn(conn net.PacketConn, batchWriteSize int, batchWriteInterval time.Duration) *BatchConn {
	bc := NewBatchConn(conn, batchWriteSize, batchWriteInterval)
	if VBatchConnHook != nil {
		bc.batchConn = VBatchConnHook()
	}

	return bc
}
