//go:build verif

package udp

import "net"

// VerifNewConn returns a listener connection without a socket: its read side (buffer and read
// deadline) is complete; Write and Close must not be used.
func VerifNewConn() *Conn {
	l := &listener{}

	return l.newConn(&net.UDPAddr{IP: net.IPv4(127, 0, 0, 1), Port: 9})
}

// VerifDeliver hands a datagram to the connection as the listener's read loop would.
func (c *Conn) VerifDeliver(p []byte) error {
	_, err := c.buffer.Write(p)

	return err
}
