//go:build verif

package deadline

import "time"

// VerifTimer is the harness-controlled stand-in for the runtime timer.
type VerifTimer struct {
	Armed bool
	Due   time.Time
}

// Stop implements timer: reports whether it prevented the firing.
func (t *VerifTimer) Stop() bool {
	was := t.Armed
	t.Armed = false

	return was
}

// Reset implements timer.
func (t *VerifTimer) Reset(d time.Duration) bool {
	was := t.Armed
	t.Armed = true
	t.Due = time.Now().Add(d)

	return was
}

// VerifNew returns a Deadline whose timer is the given fake (never nil, so Set always Resets it).
func VerifNew(t *VerifTimer) *Deadline {
	d := New()
	d.timer = t

	return d
}

// VerifTimeout runs the timer callback, as the runtime would for a dispatched expiry.
func (d *Deadline) VerifTimeout() { d.timeout() }
