//go:build verif

package replaydetector

// VerifFBI exposes the window bitmap (fixedBigInt) to the correspondence harness.
type VerifFBI struct{ f *fixedBigInt }

// VerifNewFBI creates a bitmap of n bits.
func VerifNewFBI(n uint) *VerifFBI { return &VerifFBI{newFixedBigInt(n)} }

// Lsh shifts left.
func (v *VerifFBI) Lsh(k uint) { v.f.Lsh(k) }

// SetBit sets bit i.
func (v *VerifFBI) SetBit(i uint) { v.f.SetBit(i) }

// Bit reads bit i.
func (v *VerifFBI) Bit(i uint) uint { return v.f.Bit(i) }

// Words returns a copy of the words, least significant first.
func (v *VerifFBI) Words() []uint64 { return append([]uint64{}, v.f.bits...) }
