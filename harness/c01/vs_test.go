package c01

// Controlled-scheduler tier of C01: vnet/router.go, net.go and conn.go are instrumented from the working tree
// (yield points before every lock, channel operation and select; go statements start controlled goroutines) and
// writers, the router goroutines and a Stop/Start of the root router are interleaved one synchronisation operation
// at a time by a seeded schedule. The property is checked on what the sockets received (same flags as the
// concurrent tier).

import (
	"encoding/binary"
	"math/rand/v2"
	"net"
	"testing/synctest"
	"time"

	"github.com/pion/logging"
	"github.com/pion/transport/v3/vnet"
	"verif/harness/common"
	"verif/harness/vsched"
)

func runVS(h *common.History, seed uint64) {
	rng := rand.New(rand.NewPCG(seed, 0x01c5))
	s := vsched.New()
	vnet.VYieldHook, vnet.VBlockedHook, vnet.VLockedHook, vnet.VChoseHook = s.Yield, s.Busy, s.Locked, s.Chose
	vnet.VGoHook = func(label string, f func()) { s.Yield(label); s.GoChild("pkg:"+label, f) }
	defer func() {
		vnet.VYieldHook, vnet.VBlockedHook, vnet.VLockedHook, vnet.VChoseHook, vnet.VGoHook = nil, nil, nil, nil, nil
	}()
	flags := 0
	lf := logging.NewDefaultLoggerFactory()
	wan, err := vnet.NewRouter(&vnet.RouterConfig{CIDR: "1.2.3.0/24", LoggerFactory: lf})
	if err != nil {
		panic(err)
	}
	mk := func(ip string) *vnet.Net {
		n, err := vnet.NewNet(&vnet.NetConfig{StaticIPs: []string{ip}})
		if err != nil {
			panic(err)
		}
		return n
	}
	na, nb := mk("1.2.3.4"), mk("1.2.3.5")
	_ = wan.AddNet(na)
	_ = wan.AddNet(nb)
	var nc *vnet.Net
	withLAN := rng.IntN(2) == 0
	if withLAN {
		lan, err := vnet.NewRouter(&vnet.RouterConfig{CIDR: "192.168.0.0/24", StaticIPs: []string{"1.2.3.1"}, LoggerFactory: lf,
			NATType: &vnet.NATType{MappingBehavior: vnet.EndpointIndependent, FilteringBehavior: vnet.EndpointIndependent, MappingLifeTime: time.Hour}})
		if err != nil {
			panic(err)
		}
		nc = mk("192.168.0.2")
		_ = lan.AddNet(nc)
		_ = wan.AddRouter(lan)
	}
	stepAll := func() {
		for guard := 0; guard < 50000; guard++ {
			rs := s.Runnable()
			if len(rs) == 0 {
				return
			}
			progressed := false
			for _, g := range rs {
				if g.State == vsched.AtYield {
					s.Step(g)
					progressed = true
					break
				}
			}
			if !progressed {
				for _, g := range rs {
					s.Step(g)
					if g.State != vsched.NeedLock {
						progressed = true
						break
					}
				}
			}
			if !progressed {
				return
			}
		}
	}
	_ = wan.Start()
	synctest.Wait()
	stepAll()
	sa, _ := na.ListenPacket("udp4", "0.0.0.0:1000")
	sb, _ := nb.ListenPacket("udp4", "0.0.0.0:2000")
	socks := []net.PacketConn{sa, sb}
	hosts := []*vnet.Net{na, nb}
	if nc != nil {
		sc, _ := nc.ListenPacket("udp4", "0.0.0.0:3000")
		socks = append(socks, sc)
		hosts = append(hosts, nc)
	}
	_ = hosts
	type vflow struct {
		id, from, to, count int
		dst                 *net.UDPAddr
	}
	addrs := []*net.UDPAddr{{IP: net.ParseIP("1.2.3.4"), Port: 1000}, {IP: net.ParseIP("1.2.3.5"), Port: 2000}}
	var flows []*vflow
	nf := 1 + rng.IntN(3)
	for i := 0; i < nf; i++ {
		from := rng.IntN(len(socks))
		to := rng.IntN(2)
		if to == from {
			to = 1 - to
		}
		flows = append(flows, &vflow{id: i + 1, from: from, to: to, count: 2 + rng.IntN(4), dst: addrs[to]})
	}
	restarted := false
	for _, fl := range flows {
		fl := fl
		s.Go("writer", func() {
			for k := 0; k < fl.count; k++ {
				b := pattern(fl.id, k, 12)
				_, _ = socks[fl.from].WriteTo(b, fl.dst)
				for j := range b {
					b[j] = 0xEE
				}
			}
		})
	}
	if rng.IntN(2) == 0 {
		restarted = true
		s.Go("restart", func() {
			_ = wan.Stop()
			_ = wan.Start()
		})
		h.Tags = append(h.Tags, "restart_under_traffic")
	}
	var closeVictim func()
	if rng.IntN(2) == 0 {
		// a socket that is closed while datagrams for it are on their way: they are dropped silently, nothing else is disturbed
		victim, err := nb.ListenPacket("udp4", "1.2.3.5:2500")
		if err == nil {
			vdst := &net.UDPAddr{IP: net.ParseIP("1.2.3.5"), Port: 2500}
			s.Go("writer-to-victim", func() {
				for k := 0; k < 4; k++ {
					_, _ = socks[0].WriteTo(pattern(99, k, 12), vdst)
				}
			})
			closeVictim = func() { s.Go("closer", func() { _ = victim.Close() }) }
			h.Tags = append(h.Tags, "close_under_traffic")
		}
	}
	steps := 10 + rng.IntN(150)
	closeAt := rng.IntN(steps) // the Close comes somewhere in the middle of the traffic
	for i := 0; i < steps; i++ {
		if i == closeAt && closeVictim != nil {
			closeVictim()
		}
		rs := s.Runnable()
		if len(rs) == 0 {
			break
		}
		s.Step(rs[rng.IntN(len(rs))])
	}
	stepAll()
	// a second wave after a possible restart: two datagrams per flow, scheduled at random again
	for _, fl := range flows {
		fl := fl
		base := fl.count
		fl.count += 2
		s.Go("writer2", func() {
			for k := base; k < base+2; k++ {
				_, _ = socks[fl.from].WriteTo(pattern(fl.id, k, 12), fl.dst)
			}
		})
	}
	for i := 0; i < 200; i++ {
		rs := s.Runnable()
		if len(rs) == 0 {
			break
		}
		s.Step(rs[rng.IntN(len(rs))])
	}
	stepAll()
	// drain
	last := map[int]int{}
	seen := map[[2]int]bool{}
	got := map[int]int{}
	buf := make([]byte, 2000)
	for k, c := range socks {
		for {
			_ = c.SetReadDeadline(time.Now().Add(time.Millisecond))
			n, _, err := c.ReadFrom(buf)
			if err != nil {
				break
			}
			if n != 12 {
				flags |= cfInvented
				continue
			}
			fid, seq := int(binary.BigEndian.Uint32(buf[0:])), int(binary.BigEndian.Uint32(buf[4:]))
			var fl *vflow
			for _, f := range flows {
				if f.id == fid {
					fl = f
				}
			}
			if fl == nil || seq >= fl.count {
				flags |= cfInvented
				continue
			}
			if string(buf[:n]) != string(pattern(fid, seq, 12)) {
				flags |= cfCorrupt
			}
			if seen[[2]int{fid, seq}] {
				flags |= cfDuplicate
			}
			seen[[2]int{fid, seq}] = true
			if k != fl.to {
				flags |= cfWrongSock
			}
			if l, ok := last[fid]; ok && seq <= l {
				flags |= cfReordered
			}
			last[fid] = seq
			got[fid]++
		}
	}
	if !restarted {
		for _, fl := range flows {
			if got[fl.id] != fl.count {
				flags |= cfLost
			}
		}
	}
	total := 0
	for _, fl := range flows {
		total += fl.count
	}
	h.Conf = []string{"9", common.I(seed), "2"}
	h.Ops = [][]string{{common.I(len(flows)), common.I(total), common.I(len(s.Log)), common.B(restarted)}}
	h.Obs = [][]string{{common.I(flags)}}
	h.Tags = append(h.Tags, "controlled_scheduler")
	if withLAN {
		h.Tags = append(h.Tags, "vs_with_nat")
	}
	for _, c := range socks {
		_ = c.Close()
	}
	s.Go("stop", func() { _ = wan.Stop() })
	stepAll()
	time.Sleep(time.Second)
	synctest.Wait()
	stepAll()
	for guard := 0; guard < 2000 && len(s.Runnable()) > 0; guard++ {
		rs := s.Runnable()
		s.Step(rs[guard%len(rs)])
	}
}
