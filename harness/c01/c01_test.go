// c01: correspondence harness for vnet's end-to-end datagram path (C01), public API only, inside
// testing/synctest bubbles: a generated topology (root router, LAN routers nested up to depth 3, all NAT
// mapping/filtering behaviours and 1:1 mode, hosts with static, automatic and multiple addresses), sockets
// (wildcard, specific, ephemeral, connected), and a traffic plan. After every operation synctest.Wait returns
// when the routers have forwarded everything; reads report the datagram (source, bytes) or "nothing there".
// The Coq model (Vnet/Network.v) runs the same operations on the same topology.
package c01

import (
	"encoding/binary"
	"errors"
	"fmt"
	"math/rand/v2"
	"net"
	"os"
	"testing"
	"testing/synctest"
	"time"

	"github.com/pion/logging"
	"github.com/pion/transport/v3"
	"github.com/pion/transport/v3/vnet"
	"verif/harness/common"
)

func init() { common.RegisterFlags() }

func ipOf(v uint32) net.IP {
	b := make(net.IP, 4)
	binary.BigEndian.PutUint32(b, v)
	return b
}

func u32(ip net.IP) uint32 {
	if ip.To4() == nil {
		return 0
	}
	return binary.BigEndian.Uint32(ip.To4())
}

func ip4(a, b, c, d int) uint32 { return uint32(a)<<24 | uint32(b)<<16 | uint32(c)<<8 | uint32(d) }

// ---- topology description (also the model's configuration) -------------------------------------------------

type rdesc struct {
	parent         int
	netip, mask    uint32
	qcap           int
	o2o            bool
	mb, fb         int
	life           time.Duration
	mapped, locals []uint32
}

type hdesc struct {
	router  int
	statics []uint32 // empty: automatic assignment
	ips     []uint32 // as assigned
}

type world struct {
	rd                     []rdesc
	hd                     []hdesc
	routers                []*vnet.Router
	nets                   []*vnet.Net
	socks                  []transport.UDPConn
	shost                  []int
	sopen                  []bool
	lastSrc                []*net.UDPAddr
	laddr                  []*net.UDPAddr
	nread, viaNAT, intoLAN int
}

func maskBits(m uint32) int {
	n := 0
	for m&0x80000000 != 0 {
		n++
		m <<= 1
	}
	return n
}

func build(rd []rdesc, hd []hdesc) (*world, error) {
	w := &world{rd: rd, hd: hd}
	lf := logging.NewDefaultLoggerFactory()
	for _, d := range rd {
		cfg := &vnet.RouterConfig{CIDR: fmt.Sprintf("%s/%d", ipOf(d.netip), maskBits(d.mask)), QueueSize: d.qcap, LoggerFactory: lf}
		for i, m := range d.mapped {
			s := ipOf(m).String()
			if d.o2o {
				s += "/" + ipOf(d.locals[i]).String()
			}
			cfg.StaticIPs = append(cfg.StaticIPs, s)
		}
		if d.parent >= 0 && d.qcap < 0 {
			// no NATType given: the router's default (endpoint-independent mapping, address-and-port-dependent filtering, 30 s)
			cfg.QueueSize = 0
		} else if d.parent >= 0 {
			nt := &vnet.NATType{MappingBehavior: vnet.EndpointDependencyType(d.mb), FilteringBehavior: vnet.EndpointDependencyType(d.fb), MappingLifeTime: d.life,
				Hairpinning: (d.mb+d.fb)%2 == 0} // documented as not implemented: must not change anything
			if d.o2o {
				nt.Mode = vnet.NATModeNAT1To1
			}
			cfg.NATType = nt
		}
		r, err := vnet.NewRouter(cfg)
		if err != nil {
			return nil, err
		}
		w.routers = append(w.routers, r)
	}
	// child routers first (so that automatic host addresses skip theirs), parents before children
	for i, d := range rd {
		if d.parent >= 0 {
			if err := w.routers[d.parent].AddRouter(w.routers[i]); err != nil {
				return nil, err
			}
		}
	}
	for i := range hd {
		var st []string
		for _, s := range hd[i].statics {
			st = append(st, ipOf(s).String())
		}
		n, err := vnet.NewNet(&vnet.NetConfig{StaticIPs: st})
		if err != nil {
			return nil, err
		}
		if hd[i].router >= 0 {
			if err := w.routers[hd[i].router].AddNet(n); err != nil {
				return nil, err
			}
		}
		hd[i].ips = nil
		if ifc, err := n.InterfaceByName("eth0"); err == nil {
			addrs, _ := ifc.Addrs()
			for _, a := range addrs {
				if ipn, ok := a.(*net.IPNet); ok {
					hd[i].ips = append(hd[i].ips, u32(ipn.IP))
				}
			}
		}
		w.nets = append(w.nets, n)
	}
	return w, nil
}

func (w *world) conf() []string {
	var c []string
	seg := func(v ...int64) {
		if len(c) > 0 {
			c = append(c, "|")
		}
		for _, x := range v {
			c = append(c, common.I(x))
		}
	}
	for _, d := range w.rd {
		v := []int64{1, int64(d.parent), int64(d.netip), int64(d.mask), int64(d.qcap), int64(b2i(d.o2o)), int64(d.mb), int64(d.fb), int64(d.life), int64(len(d.mapped))}
		for _, m := range d.mapped {
			v = append(v, int64(m))
		}
		for _, m := range d.locals {
			v = append(v, int64(m))
		}
		seg(v...)
	}
	for _, d := range w.hd {
		v := []int64{2, int64(d.router)}
		for _, m := range d.ips {
			v = append(v, int64(m))
		}
		seg(v...)
	}
	return c
}

func b2i(b bool) int {
	if b {
		return 1
	}
	return 0
}

// ---- operations ---------------------------------------------------------------------------------------------------

func (w *world) exec(op []string) []string {
	defer synctest.Wait()
	switch op[0] {
	case "1": // write
		k := common.AtoI(op[1])
		dst := &net.UDPAddr{IP: ipOf(uint32(common.AtoU64(op[2]))), Port: common.AtoI(op[3])}
		data := make([]byte, len(op)-4)
		for i, s := range op[4:] {
			data[i] = byte(common.AtoI(s))
		}
		var err error
		var n int
		if ra, ok := w.socks[k].RemoteAddr().(*net.UDPAddr); ok && ra != nil {
			n, err = w.socks[k].Write(data)
		} else {
			n, err = w.socks[k].WriteTo(data, dst)
		}
		// the caller may reuse its buffer - and the address value - as soon as the write has returned
		for i := range data {
			data[i] ^= 0xA5
		}
		dst.Port ^= 0x0F0F
		for i := range dst.IP {
			dst.IP[i] ^= 0x5A
		}
		if err != nil || n != len(data) {
			return []string{"1"}
		}
		return []string{"0"}
	case "2": // read
		k := common.AtoI(op[1])
		buf := make([]byte, 4000)
		_ = w.socks[k].SetReadDeadline(time.Now().Add(time.Millisecond))
		n, addr, err := w.socks[k].ReadFrom(buf)
		if err != nil {
			var ne net.Error
			if errors.As(err, &ne) && ne.Timeout() {
				return []string{"-1"}
			}
			return []string{"-2"}
		}
		ua, _ := addr.(*net.UDPAddr)
		w.lastSrc[k] = ua
		w.nread++
		for _, d := range w.rd {
			for _, m := range d.mapped {
				if m == u32(ua.IP) {
					w.viaNAT++
				}
			}
		}
		if w.hd[w.shost[k]].router > 0 {
			w.intoLAN++
		}
		out := []string{"1", common.I(u32(ua.IP)), common.I(ua.Port), common.I(n)}
		for _, b := range buf[:n] {
			out = append(out, common.I(b))
		}
		return out
	case "3": // bind
		h := common.AtoI(op[1])
		la := &net.UDPAddr{IP: ipOf(uint32(common.AtoU64(op[2]))), Port: common.AtoI(op[3])}
		var c transport.UDPConn
		var err error
		if op[4] != "0" {
			c, err = w.nets[h].DialUDP("udp4", la, &net.UDPAddr{IP: ipOf(uint32(common.AtoU64(op[5]))), Port: common.AtoI(op[6])})
		} else {
			c, err = w.nets[h].ListenUDP("udp4", la)
		}
		if err != nil {
			code := "9"
			switch {
			case errorsContain(err, "can't assign requested address"):
				code = "1"
			case errorsContain(err, "address already in use"):
				code = "2"
			}
			return []string{code, "-1"}
		}
		w.socks = append(w.socks, c)
		w.shost = append(w.shost, h)
		w.sopen = append(w.sopen, true)
		w.lastSrc = append(w.lastSrc, nil)
		ua, _ := c.LocalAddr().(*net.UDPAddr)
		w.laddr = append(w.laddr, ua)
		return []string{"0", common.I(len(w.socks) - 1)}
	case "4":
		k := common.AtoI(op[1])
		_ = w.socks[k].Close()
		w.sopen[k] = false
		return []string{"0"}
	case "5":
		time.Sleep(time.Duration(common.AtoI64(op[1])))
		return []string{"0"}
	case "6":
		_ = w.routers[0].Stop()
		return []string{"0"}
	default:
		_ = w.routers[0].Start()
		return []string{"0"}
	}
}

func errorsContain(err error, s string) bool {
	for e := err; e != nil; e = errors.Unwrap(e) {
		if len(e.Error()) >= len(s) && contains(e.Error(), s) {
			return true
		}
	}
	return false
}

func contains(a, b string) bool {
	for i := 0; i+len(b) <= len(a); i++ {
		if a[i:i+len(b)] == b {
			return true
		}
	}
	return false
}

func (w *world) finish() {
	for k, c := range w.socks {
		if w.sopen[k] {
			_ = c.Close()
		}
	}
	_ = w.routers[0].Stop()
	synctest.Wait()
}

// ---- generation -----------------------------------------------------------------------------------------------------

func genTopo(r *rand.Rand) ([]rdesc, []hdesc) {
	rd := []rdesc{{parent: -1, netip: ip4(1, 2, 3, 0), mask: 0xffffff00}}
	var hd []hdesc
	lifes := []time.Duration{30 * time.Second, 30 * time.Second, 5 * time.Second, 2 * time.Minute}
	// hosts on the root network
	for i, n := 0, 1+r.IntN(2); i < n; i++ {
		h := hdesc{router: 0}
		switch r.IntN(3) {
		case 0:
			h.statics = []uint32{ip4(1, 2, 3, 10+i)}
		case 1:
			h.statics = []uint32{ip4(1, 2, 3, 20+i), ip4(1, 2, 3, 30+i)}
		}
		hd = append(hd, h)
	}
	addLAN := func(parent int, depth int, idx int) int {
		pd := rd[parent]
		var d rdesc
		d.parent = parent
		d.netip = ip4(10+depth, idx+1, len(rd), 0)
		d.mask = 0xffffff00
		base := pd.netip
		d.mb, d.fb = r.IntN(3), r.IntN(3)
		d.life = lifes[r.IntN(len(lifes))]
		nm := 1 + r.IntN(2)
		d.o2o = r.IntN(4) == 0
		if !d.o2o && r.IntN(6) == 0 {
			d.qcap, d.mb, d.fb, d.life = -1, 0, 2, 30*time.Second // default NAT type (queue size -1: unlimited, marks "no NATType")
		}
		for j := 0; j < nm; j++ {
			d.mapped = append(d.mapped, base+uint32(100+10*len(rd)+j))
			if d.o2o {
				d.locals = append(d.locals, d.netip+uint32(50+j))
			}
		}
		rd = append(rd, d)
		me := len(rd) - 1
		// hosts in this LAN
		nh := 1 + r.IntN(2)
		for i := 0; i < nh; i++ {
			h := hdesc{router: me}
			if d.o2o && i < len(d.locals) {
				h.statics = []uint32{d.locals[i]}
			} else if r.IntN(2) == 0 {
				h.statics = []uint32{d.netip + uint32(10+i)}
			}
			hd = append(hd, h)
		}
		return me
	}
	for i, n := 0, r.IntN(3); i < n; i++ {
		l1 := addLAN(0, 1, i)
		if r.IntN(2) == 0 {
			l2 := addLAN(l1, 2, i)
			if r.IntN(2) == 0 {
				addLAN(l2, 3, i)
			}
		}
	}
	return rd, hd
}

func payload(r *rand.Rand) []string {
	n := r.IntN(24)
	switch r.IntN(12) {
	case 0:
		n = 0
	case 1:
		n = 1500
	case 2:
		n = 200 + r.IntN(1000)
	}
	out := make([]string, n)
	for i := range out {
		out[i] = common.I(r.IntN(256))
	}
	return out
}

func runHistory(h *common.History, rng *rand.Rand, rd []rdesc, hd []hdesc) {
	w, err := build(rd, hd)
	if err != nil {
		panic(err)
	}
	h.Conf = w.conf()
	defer w.finish()
	if rng == nil {
		h.Obs = nil
		for _, op := range h.Ops {
			h.Obs = append(h.Obs, w.exec(op))
		}
		return
	}
	do := func(op ...string) []string {
		h.Ops = append(h.Ops, op)
		o := w.exec(op)
		h.Obs = append(h.Obs, o)
		return o
	}
	do("7")
	// sockets
	for hi := range w.hd {
		for j, n := 0, 1+rng.IntN(2); j < n; j++ {
			ip := uint32(0)
			switch rng.IntN(4) {
			case 0:
				if len(w.hd[hi].ips) > 0 {
					ip = w.hd[hi].ips[rng.IntN(len(w.hd[hi].ips))]
				}
			case 1:
				if rng.IntN(3) == 0 {
					ip = ip4(127, 0, 0, 1)
				}
			}
			port := 4000 + rng.IntN(3)
			if rng.IntN(5) == 0 {
				port = 0
			}
			if port == 0 {
				// ephemeral: the implementation chooses; the operation records the port it chose
				la := &net.UDPAddr{IP: ipOf(ip), Port: 0}
				c, err := w.nets[hi].ListenUDP("udp4", la)
				if err != nil {
					continue
				}
				ua, _ := c.LocalAddr().(*net.UDPAddr)
				_ = c.Close()
				synctest.Wait()
				port = ua.Port
				h.Tags = append(h.Tags, "ephemeral_port")
			}
			do("3", common.I(hi), common.I(ip), common.I(port), "0", "0", "0")
		}
	}
	if len(w.socks) == 0 {
		return
	}
	// every address somebody might write to
	type target struct {
		ip   uint32
		port int
	}
	var targets []target
	for k := range w.socks {
		hi := w.shost[k]
		ips := w.hd[hi].ips
		if u32(w.laddr[k].IP) != 0 {
			ips = []uint32{u32(w.laddr[k].IP)}
		}
		for _, ip := range ips {
			targets = append(targets, target{ip, w.laddr[k].Port})
		}
	}
	for _, d := range w.rd {
		for _, m := range d.mapped {
			targets = append(targets, target{m, 49152 + rng.IntN(4)}, target{m, 4000 + rng.IntN(3)})
		}
	}
	// a connected socket
	if rng.IntN(2) == 0 {
		hi := rng.IntN(len(w.hd))
		t := targets[rng.IntN(len(targets))]
		do("3", common.I(hi), "0", common.I(4100+rng.IntN(2)), "1", common.I(t.ip), common.I(t.port))
		h.Tags = append(h.Tags, "connected_socket")
	}
	openSock := func() int {
		for tries := 0; tries < 20; tries++ {
			k := rng.IntN(len(w.socks))
			if w.sopen[k] {
				return k
			}
		}
		return -1
	}
	write := func(k int, ip uint32, port int) {
		op := append([]string{"1", common.I(k), common.I(ip), common.I(port)}, payload(rng)...)
		if ra, ok := w.socks[k].RemoteAddr().(*net.UDPAddr); ok && ra != nil {
			op[2], op[3] = common.I(u32(ra.IP)), common.I(ra.Port)
		}
		do(op...)
	}
	drain := func() {
		for k := range w.socks {
			if !w.sopen[k] {
				continue
			}
			for guard := 0; guard < 3000; guard++ {
				if o := do("2", common.I(k)); o[0] != "1" {
					break
				}
			}
		}
	}
	n := 30 + rng.IntN(70)
	for i := 0; i < n; i++ {
		k := openSock()
		if k < 0 {
			break
		}
		switch c := rng.IntN(100); {
		case c < 40: // to a known address
			t := targets[rng.IntN(len(targets))]
			write(k, t.ip, t.port)
		case c < 55: // reply to the last source seen on this socket (or on any socket)
			k2 := k
			if w.lastSrc[k2] == nil {
				for j := range w.socks {
					if w.sopen[j] && w.lastSrc[j] != nil {
						k2 = j
					}
				}
			}
			if a := w.lastSrc[k2]; a != nil {
				write(k2, u32(a.IP), a.Port)
				h.Tags = append(h.Tags, "reply")
			}
		case c < 60: // loopback
			write(k, ip4(127, 0, 0, 1), w.laddr[rng.IntN(len(w.socks))].Port)
			h.Tags = append(h.Tags, "loopback")
		case c < 64: // unroutable / unbound
			if rng.IntN(2) == 0 {
				write(k, ip4(8, 8, 8, 8), 53)
			} else {
				t := targets[rng.IntN(len(targets))]
				write(k, t.ip, 9999)
			}
		case c < 84:
			k2 := openSock()
			if k2 >= 0 {
				do("2", common.I(k2))
			}
		case c < 90:
			drain()
		case c < 95:
			do("5", common.I(int64([]time.Duration{time.Second, 4 * time.Second, 10 * time.Second, 31 * time.Second, 3 * time.Minute}[rng.IntN(5)])))
			h.Tags = append(h.Tags, "time_passes")
		case c < 97:
			do("4", common.I(k))
			h.Tags = append(h.Tags, "close")
		case c < 98:
			do("6")
			h.Tags = append(h.Tags, "stop_start")
			if rng.IntN(2) == 0 {
				t := targets[rng.IntN(len(targets))]
				if k3 := openSock(); k3 >= 0 {
					write(k3, t.ip, t.port)
				}
			}
			do("7")
		default:
			hi := rng.IntN(len(w.hd))
			do("3", common.I(hi), "0", common.I(4000+rng.IntN(4)), "0", "0", "0")
		}
	}
	drain()
	depth := 0
	for _, d := range w.rd {
		dd := 0
		for p := d.parent; p >= 0; p = w.rd[p].parent {
			dd++
		}
		if dd > depth {
			depth = dd
		}
		if d.o2o {
			h.Tags = append(h.Tags, "one_to_one")
		}
	}
	h.Tags = append(h.Tags, fmt.Sprintf("depth%d", depth))
	if w.viaNAT > 0 {
		h.Tags = append(h.Tags, "delivered_with_translated_source")
	}
	if w.intoLAN > 0 {
		h.Tags = append(h.Tags, "delivered_into_a_LAN")
	}
	if w.nread >= 10 {
		h.Tags = append(h.Tags, "deliveries>=10")
	}
}

func runExhaustion(h *common.History) {
	rd := []rdesc{{parent: -1, netip: ip4(1, 2, 3, 0), mask: 0xffffff00},
		{parent: 0, netip: ip4(192, 168, 0, 0), mask: 0xffffff00, mb: 2, fb: 2, life: time.Hour, mapped: []uint32{ip4(1, 2, 3, 1)}}}
	hd := []hdesc{{router: 0, statics: []uint32{ip4(1, 2, 3, 4)}}, {router: 1}}
	w, err := build(rd, hd)
	if err != nil {
		panic(err)
	}
	h.Conf = w.conf()
	defer w.finish()
	do := func(op ...string) {
		h.Ops = append(h.Ops, op)
		h.Obs = append(h.Obs, w.exec(op))
	}
	do("7")
	do("3", "0", "0", "7", "0", "0", "0")
	do("3", "1", "0", "5000", "0", "0", "0")
	do("1", "1", common.I(ip4(1, 2, 3, 4)), "7", "97")
	do("2", "0")
	for p := 10000; p < 10000+16390; p++ {
		do("1", "1", common.I(ip4(1, 2, 3, 4)), common.I(p), "120")
	}
	do("1", "1", common.I(ip4(1, 2, 3, 4)), "7", "98")
	do("2", "0")
	do("2", "0")
	h.Tags = append(h.Tags, "nat_ports_exhausted")
}

// quick tier: the model is not run on the 16 000-mapping history (a minute of list scans); what matters is checked
// directly: the two datagrams of the established flow arrived, before and after the exhaustion (flag 16: lost)
func exhaustionVerdict(h *common.History) {
	ok := len(h.Obs) > 5 && h.Obs[4][0] == "1" && h.Obs[len(h.Obs)-2][0] == "1" && h.Obs[len(h.Obs)-1][0] == "-1"
	h.Conf = []string{"9", "0", "0"}
	h.Ops = [][]string{{"1", "16392"}}
	h.Obs = [][]string{{map[bool]string{true: "0", false: "16"}[ok]}}
}

func parseConf(conf []string) ([]rdesc, []hdesc) {
	var rd []rdesc
	var hd []hdesc
	var seg []string
	flush := func() {
		if len(seg) == 0 {
			return
		}
		if seg[0] == "1" {
			d := rdesc{parent: common.AtoI(seg[1]), netip: uint32(common.AtoU64(seg[2])), mask: uint32(common.AtoU64(seg[3])), qcap: common.AtoI(seg[4]),
				o2o: seg[5] == "1", mb: common.AtoI(seg[6]), fb: common.AtoI(seg[7]), life: time.Duration(common.AtoI64(seg[8]))}
			n := common.AtoI(seg[9])
			for _, s := range seg[10 : 10+n] {
				d.mapped = append(d.mapped, uint32(common.AtoU64(s)))
			}
			for _, s := range seg[10+n:] {
				d.locals = append(d.locals, uint32(common.AtoU64(s)))
			}
			rd = append(rd, d)
		} else {
			d := hdesc{router: common.AtoI(seg[1])}
			for _, s := range seg[2:] {
				d.statics = append(d.statics, uint32(common.AtoU64(s)))
			}
			hd = append(hd, d)
		}
		seg = nil
	}
	for _, c := range conf {
		if c == "|" {
			flush()
		} else {
			seg = append(seg, c)
		}
	}
	flush()
	return rd, hd
}

func TestHarness(t *testing.T) {
	a := common.GetArgs()
	w := common.NewWriter(a.Out)
	if a.Replay != "" {
		hs, err := common.ReadHistories(a.Replay)
		if err != nil {
			t.Fatal(err)
		}
		for _, h := range hs {
			if len(h.Conf) >= 2 && h.Conf[0] == "9" {
				if len(h.Conf) >= 3 && h.Conf[2] == "2" { // controlled-scheduler tier
					seed := common.AtoU64(h.Conf[1])
					h2 := &common.History{}
					synctest.Test(t, func(*testing.T) { runVS(h2, seed) })
					w.Put(h2)
					continue
				}
				if h.Conf[1] == "0" { // the NAT port exhaustion history
					h2 := &common.History{}
					synctest.Test(t, func(*testing.T) { runExhaustion(h2) })
					exhaustionVerdict(h2)
					w.Put(h2)
					continue
				}
				// replay of a concurrent history: same topology and flows (from the seed), fresh schedules, 20 times
				conf := h.Conf
				for rep := 0; rep < 20; rep++ {
					r0 := common.Rng(common.AtoU64(conf[1]), 0x0d)
					rd, hd := genTopo(r0)
					r2 := common.Rng(common.AtoU64(conf[1]), 0x0c)
					h2 := &common.History{}
					synctest.Test(t, func(*testing.T) { runConc(h2, r2, rd, hd) })
					h2.Conf = conf
					w.Put(h2)
				}
				continue
			}
			rd, hd := parseConf(h.Conf)
			synctest.Test(t, func(*testing.T) { runHistory(h, nil, rd, hd) })
			w.Put(h)
		}
	} else {
		rng := common.Rng(a.Seed, 0x01)
		for i := 0; i < a.N; i++ {
			h := &common.History{}
			if a.Mode == "vs" {
				seed := rng.Uint64()
				synctest.Test(t, func(*testing.T) { runVS(h, seed) })
				w.Put(h)
				continue
			}
			if a.Mode == "conc" {
				// concurrent tier: conf = 9, seed, history index; the schedule is the Go runtime's
				seed := rng.Uint64()
				rd, hd := genTopo(common.Rng(seed, 0x0d))
				r2 := common.Rng(seed, 0x0c)
				synctest.Test(t, func(*testing.T) { runConc(h, r2, rd, hd) })
				h.Conf = []string{"9", common.I(seed), common.I(i)}
			} else if a.Seed%1000 == 0 && i == 0 {
				// one long history per run: the NAT's dynamic ports are used up; established mappings must go on working
				synctest.Test(t, func(*testing.T) { runExhaustion(h) })
				if os.Getenv("C01_EXH_MODEL") == "" {
					exhaustionVerdict(h)
				}
			} else {
				rd, hd := genTopo(rng)
				synctest.Test(t, func(*testing.T) { runHistory(h, rng, rd, hd) })
			}
			w.Put(h)
		}
	}
	w.Close(a.Out)
}
