package c01

// Concurrent tier of C01: the same generated topologies with every sender running in its own goroutine
// (real scheduling of writers and router goroutines inside a synctest bubble, which is used only to detect
// quiescence and to keep NAT lifetimes away). No model prediction is needed: the property itself is checked
// on what every socket received (flags). Payloads carry (flow, sequence number) and a length-dependent pattern.

import (
	"encoding/binary"
	"fmt"
	"math/rand/v2"
	"net"
	"runtime"
	"sync"
	"testing/synctest"
	"time"

	"verif/harness/common"
)

const (
	cfDuplicate = 1   // a (flow, sequence number) was received twice
	cfCorrupt   = 2   // payload differs from what was written
	cfWrongSock = 4   // received by a socket that does not cover the destination the flow was sent to
	cfReordered = 8   // sequence numbers of one flow not increasing at the receiver
	cfLost      = 16  // an admitted datagram (routable, sockets open, nothing full, mappings live) did not arrive
	cfSource    = 32  // source shown is not the sender's address / the outermost NAT's address, or changes within a flow
	cfReplyLost = 64  // a reply to the shown source from the address the flow was sent to did not reach the sender
	cfInvented  = 128 // something arrived that nobody wrote
)

type flow struct {
	id          int
	sender      int // socket index
	dstIP       uint32
	dstPort     int
	recv        int // socket index expected to receive (-1: nobody)
	count       int
	lens        []int
	expectSrcIP uint32 // 0: the sender's own address
}

func pattern(flowID, seq, n int) []byte {
	b := make([]byte, n)
	for i := range b {
		b[i] = byte(flowID*31 + seq*7 + i*13 + n)
	}
	if n >= 8 {
		binary.BigEndian.PutUint32(b[0:], uint32(flowID))
		binary.BigEndian.PutUint32(b[4:], uint32(seq))
	}
	return b
}

// outermost returns the top-level LAN router above router r (r itself when its parent is the root), or -1 for the root
func outermost(rd []rdesc, r int) int {
	if r <= 0 {
		return -1
	}
	for rd[r].parent > 0 {
		r = rd[r].parent
	}
	return r
}

func runConc(h *common.History, rng *rand.Rand, rd []rdesc, hd []hdesc) {
	w, err := build(rd, hd)
	if err != nil {
		panic(err)
	}
	defer w.finish()
	flags := 0
	_ = w.routers[0].Start()
	synctest.Wait()
	// one or two wildcard sockets per host
	for hi := range w.hd {
		for j, n := 0, 1+rng.IntN(2); j < n; j++ {
			w.exec([]string{"3", common.I(hi), "0", common.I(4000 + j), "0", "0", "0"})
		}
	}
	// flows: senders anywhere, receivers on the root network (publicly reachable) or in the sender's own LAN
	var flows []*flow
	perSock := map[int]int{}
	for k := range w.socks {
		for f := 0; f < 1+rng.IntN(2); f++ {
			var cands []int
			for k2 := range w.socks {
				if k2 == k {
					continue
				}
				hr, hs := w.hd[w.shost[k2]].router, w.hd[w.shost[k]].router
				if hr == 0 || hr == hs {
					cands = append(cands, k2)
				}
			}
			if len(cands) == 0 {
				continue
			}
			k2 := cands[rng.IntN(len(cands))]
			rh := w.hd[w.shost[k2]]
			fl := &flow{id: len(flows) + 1, sender: k, dstIP: rh.ips[rng.IntN(len(rh.ips))], dstPort: w.laddr[k2].Port, recv: k2, count: 20 + rng.IntN(60)}
			if perSock[k2]+fl.count > 900 {
				continue
			}
			perSock[k2] += fl.count
			hs := w.hd[w.shost[k]].router
			if rh.router == 0 && hs != 0 {
				o := outermost(rd, hs)
				if !rd[o].o2o {
					fl.expectSrcIP = rd[o].mapped[0]
				} else {
					fl.expectSrcIP = 1 // some mapped address of the outermost router (1:1 pairs)
				}
			}
			for i := 0; i < fl.count; i++ {
				n := 8 + rng.IntN(40)
				if rng.IntN(20) == 0 {
					n = 1500
				}
				fl.lens = append(fl.lens, n)
			}
			flows = append(flows, fl)
		}
	}
	// phase 1: all senders concurrently
	var wg sync.WaitGroup
	for _, fl := range flows {
		fl := fl
		seed := rng.Uint64()
		wg.Add(1)
		go func() {
			defer wg.Done()
			r := rand.New(rand.NewPCG(seed, 7))
			dst := &net.UDPAddr{IP: ipOf(fl.dstIP), Port: fl.dstPort}
			for i := 0; i < fl.count; i++ {
				buf := pattern(fl.id, i, fl.lens[i])
				dst.IP, dst.Port = ipOf(fl.dstIP), fl.dstPort
				if _, err := w.socks[fl.sender].WriteTo(buf, dst); err != nil {
					panic(err)
				}
				for j := range buf {
					buf[j] = 0xEE // the caller's buffer is its own again
				}
				dst.Port = 9 // ... and so is the address value
				dst.IP[3] ^= 0xFF
				if r.IntN(3) == 0 {
					runtime.Gosched()
				}
			}
		}()
	}
	wg.Wait()
	synctest.Wait()
	// drain and check
	type key struct{ flow, seq int }
	seen := map[key]int{}
	lastSeq := map[int]int{}
	srcOf := map[int]*net.UDPAddr{}
	got := map[int]int{}
	byID := map[int]*flow{}
	for _, fl := range flows {
		byID[fl.id] = fl
		lastSeq[fl.id] = -1
	}
	buf := make([]byte, 4000)
	for k, c := range w.socks {
		for {
			_ = c.SetReadDeadline(time.Now().Add(time.Millisecond))
			n, addr, err := c.ReadFrom(buf)
			if err != nil {
				break
			}
			if n < 8 {
				flags |= cfInvented
				continue
			}
			fid, seq := int(binary.BigEndian.Uint32(buf[0:])), int(binary.BigEndian.Uint32(buf[4:]))
			fl := byID[fid]
			if fl == nil || seq >= fl.count {
				flags |= cfInvented
				continue
			}
			if string(buf[:n]) != string(pattern(fid, seq, fl.lens[seq])) {
				flags |= cfCorrupt
			}
			seen[key{fid, seq}]++
			if seen[key{fid, seq}] > 1 {
				flags |= cfDuplicate
			}
			if k != fl.recv {
				flags |= cfWrongSock
			}
			if seq <= lastSeq[fid] {
				flags |= cfReordered
			}
			lastSeq[fid] = seq
			got[fid]++
			ua, _ := addr.(*net.UDPAddr)
			if prev := srcOf[fid]; prev != nil && (!prev.IP.Equal(ua.IP) || prev.Port != ua.Port) {
				flags |= cfSource
			}
			srcOf[fid] = ua
			switch {
			case fl.expectSrcIP == 0:
				sh := w.hd[w.shost[fl.sender]]
				ok := false
				for _, ip := range sh.ips {
					if ip == u32(ua.IP) {
						ok = true
					}
				}
				if !ok || ua.Port != w.laddr[fl.sender].Port {
					flags |= cfSource
				}
			case fl.expectSrcIP == 1:
				o := outermost(rd, w.hd[w.shost[fl.sender]].router)
				ok := false
				for _, m := range rd[o].mapped {
					if m == u32(ua.IP) {
						ok = true
					}
				}
				if !ok {
					flags |= cfSource
				}
			default:
				if u32(ua.IP) != fl.expectSrcIP || ua.Port < 49152 {
					flags |= cfSource
				}
			}
		}
	}
	lossy := map[int]bool{}
	for _, fl := range flows {
		// a 1:1 NAT on the way up drops datagrams of hosts without a pairing: such flows may lose everything
		unpaired := false
		for r := w.hd[w.shost[fl.sender]].router; r > 0; r = rd[r].parent {
			if rd[r].o2o && w.hd[w.shost[fl.recv]].router != w.hd[w.shost[fl.sender]].router {
				unpaired = true // pairing depends on the inner addresses: decided by what arrived
			}
		}
		if got[fl.id] != fl.count {
			if unpaired && got[fl.id] == 0 {
				lossy[fl.id] = true
				continue
			}
			flags |= cfLost
		}
	}
	// distinct flows show distinct sources
	srcSeen := map[string]int{}
	for fid, a := range srcOf {
		if other, ok := srcSeen[a.String()]; ok && byID[other].sender != byID[fid].sender {
			flags |= cfSource
		}
		srcSeen[a.String()] = fid
	}
	// phase 2: replies, concurrently, from the address each flow was sent to
	type rep struct{ fl *flow }
	var wg2 sync.WaitGroup
	expectReplies := map[int]int{} // sender socket -> replies expected
	for _, fl := range flows {
		fl := fl
		src := srcOf[fl.id]
		if src == nil || lossy[fl.id] {
			continue
		}
		// the receiving socket is a wildcard socket: its replies leave with the host's first address; only then is
		// the reply "from the address the original was sent to"
		if w.hd[w.shost[fl.recv]].ips[0] != fl.dstIP {
			continue
		}
		expectReplies[fl.sender]++
		wg2.Add(1)
		go func() {
			defer wg2.Done()
			b := pattern(1000+fl.id, 0, 16)
			_, _ = w.socks[fl.recv].WriteTo(b, src)
		}()
	}
	wg2.Wait()
	synctest.Wait()
	for k, c := range w.socks {
		n := 0
		for {
			_ = c.SetReadDeadline(time.Now().Add(time.Millisecond))
			m, _, err := c.ReadFrom(buf)
			if err != nil {
				break
			}
			if m == 16 && int(binary.BigEndian.Uint32(buf[0:])) > 1000 {
				n++
			} else {
				flags |= cfInvented
			}
		}
		if n != expectReplies[k] {
			flags |= cfReplyLost
		}
	}
	total := 0
	for _, fl := range flows {
		total += fl.count
	}
	h.Ops = [][]string{{common.I(len(flows)), common.I(total)}}
	h.Obs = [][]string{{common.I(flags)}}
	h.Tags = append(h.Tags, "concurrent", fmt.Sprintf("flows_%d+", len(flows)/4*4))
	if len(expectReplies) > 0 {
		h.Tags = append(h.Tags, "replies_checked")
	}
	for _, fl := range flows {
		if fl.expectSrcIP != 0 {
			h.Tags = append(h.Tags, "flow_through_nat")
		}
	}
}
