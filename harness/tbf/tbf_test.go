// tbf: correspondence harness for vnet.TokenBucketFilter (C15) inside a testing/synctest
// bubble: arrival instants are exact, so forward decisions are compared per arrival.
package tbf

import (
	"math/rand/v2"
	"testing"
	"testing/synctest"
	"time"

	"github.com/pion/transport/v3/vnet"
	"verif/harness/common"
)

func init() { common.RegisterFlags() }

// conf [rate; burst; queue bytes]; op [1; t ns; id; size] | [2; rate] | [3; burst]
func run(h *common.History) {
	f, err := vnet.VerifNewTBF(common.AtoI(h.Conf[0]), common.AtoI(h.Conf[1]), common.AtoI(h.Conf[2]))
	if err != nil {
		panic(err)
	}
	t0 := time.Now()
	synctest.Wait() // the filter's goroutine has done its initial refill and waits for chunks
	h.Obs = nil
	total := 0
	for _, op := range h.Ops {
		switch op[0] {
		case "1":
			at := t0.Add(time.Duration(common.AtoI64(op[1])))
			if d := time.Until(at); d > 0 {
				time.Sleep(d)
			}
			f.Push(common.AtoI(op[2]), common.AtoI(op[3]), false)
			synctest.Wait()
			var obs []string
			for _, g := range f.Sink.Take() {
				if !g.Intact {
					obs = append(obs, "-9")
				}
				obs = append(obs, common.I(g.ID))
				total++
			}
			h.Obs = append(h.Obs, obs)
		case "2":
			f.TBF.Set(vnet.TBFRate(common.AtoI(op[1])))
			h.Obs = append(h.Obs, nil)
		default:
			f.TBF.Set(vnet.TBFMaxBurst(common.AtoI(op[1])))
			h.Obs = append(h.Obs, nil)
		}
	}
	_ = f.TBF.Close()
	f.Sink.Take()
	if total >= 3 {
		h.Tags = append(h.Tags, "nontrivial")
	}
}

func gen(r *rand.Rand) *common.History {
	rates := []int{1000000, 1000000, 8000000, 64000, 500000, 10000000, 8000}
	rate := rates[r.IntN(len(rates))]
	bursts := []int{8000, 8000, 1500, 4, 100, 64000, 1}
	burst := bursts[r.IntN(len(bursts))]
	qs := []int{50000, 50000, 3000, 20000, 0, 1500}
	q := qs[r.IntN(len(qs))]
	h := &common.History{Conf: []string{common.I(rate), common.I(burst), common.I(q)}}
	now := int64(0)
	n := 10 + r.IntN(80)
	id := 0
	for i := 0; i < n; i++ {
		switch c := r.IntN(100); {
		case c < 6:
			h.Ops = append(h.Ops, []string{"2", common.I(rates[r.IntN(len(rates))])})
			h.Tags = append(h.Tags, "rate_change")
			continue
		case c < 12:
			h.Ops = append(h.Ops, []string{"3", common.I(bursts[r.IntN(len(bursts))])})
			h.Tags = append(h.Tags, "burst_change")
			continue
		}
		// gap before the arrival
		switch r.IntN(12) {
		case 0:
			now += 0
		case 1:
			now += 1
		case 2:
			now += 99000000
		case 3:
			now += 100000000
		case 4:
			now += 101000000
		case 5:
			now += 1000000000 + r.Int64N(1000000000) // long idle: the bucket is full again
		case 6:
			now += 1000000 // 1 ms
		case 7:
			now += int64(burst) * 8000000000 / int64(rate) // exactly one burst worth of time
		default:
			now += r.Int64N(30000000)
		}
		var size int
		switch r.IntN(10) {
		case 0:
			size = 4
		case 1:
			size = burst
		case 2:
			size = burst + 1
		case 3:
			size = burst - 1
		case 4:
			size = 1500
		case 5:
			size = 2 * burst
		default:
			size = 4 + r.IntN(1497)
		}
		if size < 4 {
			size = 4
		}
		if size > 70000 {
			size = 70000
		}
		id++
		h.Ops = append(h.Ops, []string{"1", common.I(now), common.I(id), common.I(size)})
	}
	// flush: a few small arrivals far apart show what was still queued
	for j := 0; j < 4; j++ {
		now += 20000000000
		id++
		h.Ops = append(h.Ops, []string{"1", common.I(now), common.I(id), "4"})
	}
	return h
}

func TestHarness(t *testing.T) {
	a := common.GetArgs()
	w := common.NewWriter(a.Out)
	var hs []*common.History
	if a.Replay != "" {
		var err error
		hs, err = common.ReadHistories(a.Replay)
		if err != nil {
			t.Fatal(err)
		}
	} else {
		r := common.Rng(a.Seed, 0x15)
		for i := 0; i < a.N; i++ {
			hs = append(hs, gen(r))
		}
	}
	for _, h := range hs {
		synctest.Test(t, func(*testing.T) { run(h) })
		w.Put(h)
	}
	w.Close(a.Out)
}
