// c08: trace validation of packetio.Buffer's blocking Read (C08) under the controlled scheduler.
// packetio/buffer.go is replaced (go build -overlay) by the copy instrumented by tools/vrewrite
// from the working tree; every goroutine performs one operation (Read, Write or Close); the
// schedule - which goroutine performs its next synchronisation operation - is drawn from the
// seeded PRNG; the log of synchronisation events is replayed by the Coq model.
package c08

import (
	"errors"
	"io"
	"math/rand/v2"
	"net"
	"strings"
	"testing"
	"testing/synctest"
	"time"

	"github.com/pion/transport/v3/packetio"
	"verif/harness/common"
	"verif/harness/vsched"
)

func init() { common.RegisterFlags() }

var fcode = map[string]int{"Read": 1, "Write": 2, "Close": 3}

func labelCode(l string) int {
	parts := strings.Split(l, "#")
	if len(parts) != 2 {
		return 9999
	}
	f, ok := fcode[parts[0]]
	if !ok {
		return 9900 + common.AtoI(parts[1])
	}
	return f*100 + common.AtoI(parts[1])
}

var kindCode = map[string]int{"Y": 1, "L": 2, "B": 3, "C": 4, "X": 5, "R": 6, "E": 7}

// conf: one entry per goroutine (0 reader, 1 writer, 2 closer);
// ops (input): the schedule: goroutine index to step, or -1 = the read deadline passes;
// ops (output): the event log [g; kind; label; k];  observation: [1] | result codes | [count; closed; stuck]
func run(h *common.History, kinds []string, schedule []int, direct bool) {
	s := vsched.New()
	packetio.VYieldHook, packetio.VBlockedHook, packetio.VLockedHook, packetio.VChoseHook = s.Yield, s.Busy, s.Locked, s.Chose
	defer func() {
		packetio.VYieldHook, packetio.VBlockedHook, packetio.VLockedHook, packetio.VChoseHook = nil, nil, nil, nil
	}()
	b := packetio.NewBuffer()
	n := len(kinds)
	var stepped []int
	results := make([]int, n)
	for i := range results {
		results[i] = -1
	}
	closedByUs := false
	for i, kd := range kinds {
		i := i
		switch kd {
		case "0":
			s.Go("reader", func() {
				// every other reader brings a slice shorter than the packets: it gets the leading bytes with
				// io.ErrShortBuffer, which consumes the packet like a successful read
				buf := make([]byte, []int{16, 2}[i%2])
				_, err := b.Read(buf)
				var ne net.Error
				switch {
				case err == nil || errors.Is(err, io.ErrShortBuffer):
					results[i] = 0
				case errors.Is(err, io.EOF):
					results[i] = 2
				case errors.As(err, &ne) && ne.Timeout():
					results[i] = 1
				default:
					results[i] = 7
				}
				s.Record(i, "R", "", results[i])
			})
		case "1":
			s.Go("writer", func() {
				_, err := b.Write([]byte{byte(i), 1, 2})
				switch {
				case err == nil:
					results[i] = 3
				case errors.Is(err, io.ErrClosedPipe):
					results[i] = 4
				default:
					results[i] = 7
				}
				s.Record(i, "R", "", results[i])
			})
		default:
			s.Go("closer", func() {
				_ = b.Close()
				closedByUs = true
				results[i] = 5
				s.Record(i, "R", "", 5)
			})
		}
	}
	dlFired := false
	for _, pick := range schedule {
		if pick < 0 {
			if !dlFired {
				s.Record(0, "E", "", 0) // logged first: woken readers log their own events concurrently
				_ = b.SetReadDeadline(time.Now().Add(-time.Hour))
				dlFired = true
				s.Settle()
				stepped = append(stepped, -1)
			}
			continue
		}
		rs := s.Runnable()
		if len(rs) == 0 {
			break
		}
		var g *vsched.G
		if pick >= 1000 { // generated schedules may name a goroutine directly
			for _, c := range rs {
				if c.ID == pick-1000 {
					g = c
				}
			}
			if g == nil {
				continue
			}
		} else if direct {
			for _, c := range rs {
				if c.ID == pick {
					g = c
				}
			}
			if g == nil {
				continue
			}
		} else {
			g = rs[pick%len(rs)]
		}
		stepped = append(stepped, g.ID)
		s.Step(g)
	}
	// run to quiescence: step whatever can move, round robin
	for guard := 0; guard < 100000; guard++ {
		rs := s.Runnable()
		if len(rs) == 0 {
			break
		}
		// a goroutine that only finds the lock busy does not make progress: prefer the others
		progressed := false
		for _, g := range rs {
			if g.State == vsched.AtYield {
				stepped = append(stepped, g.ID)
				s.Step(g)
				progressed = true
				break
			}
		}
		if !progressed {
			g := rs[guard%len(rs)]
			stepped = append(stepped, g.ID)
			s.Step(g)
		}
	}
	// implementation-side oracle at quiescence
	stuck := 0
	for _, g := range s.BlockedGs() {
		if kinds[g.ID] == "0" && (b.Count() > 0 || closedByUs || dlFired) {
			stuck = 1
		}
	}
	h.Ops = nil
	for _, e := range s.Log {
		h.Ops = append(h.Ops, []string{common.I(e.G), common.I(kindCode[e.Kind]), common.I(labelCode(e.Label)), common.I(e.K)})
	}
	codes := make([]string, n)
	for i, g := range s.Gs {
		switch {
		case results[i] >= 0:
			codes[i] = common.I(results[i])
		case g.State == vsched.Blocked:
			codes[i] = "9"
		default:
			codes[i] = "8"
		}
	}
	h.Obs = [][]string{{"1"}, codes, {common.I(b.Count()), common.B(closedByUs), common.I(stuck)}}
	h.Conf = append(append([]string{}, kinds...), "77")
	for _, g := range stepped {
		h.Conf = append(h.Conf, common.I(g))
	}
	if stuck == 1 {
		h.Tags = append(h.Tags, "STUCK_READER")
	}
	// release readers that are (legitimately) still parked, so that the bubble can end
	packetio.VYieldHook, packetio.VBlockedHook, packetio.VLockedHook, packetio.VChoseHook = nil, nil, nil, nil
	_ = b.SetReadDeadline(time.Now().Add(-time.Hour))
	_ = b.Close()
	s.Settle()
	for guard := 0; guard < 1000 && len(s.Runnable()) > 0; guard++ {
		s.Step(s.Runnable()[0])
	}
}

func gen(r *rand.Rand) (*common.History, []int) {
	h := &common.History{}
	nr, nw := r.IntN(5), r.IntN(4)
	if nr+nw == 0 {
		nr = 1
	}
	for i := 0; i < nr; i++ {
		h.Conf = append(h.Conf, "0")
	}
	for i := 0; i < nw; i++ {
		h.Conf = append(h.Conf, "1")
	}
	if r.IntN(3) == 0 {
		h.Conf = append(h.Conf, "2")
	}
	r.Shuffle(len(h.Conf), func(i, j int) { h.Conf[i], h.Conf[j] = h.Conf[j], h.Conf[i] })
	var sched []int
	n := 10 + r.IntN(80)
	mode := r.IntN(4)
	if mode == 3 {
		// park the readers around their wait (3-5 operations each), then let the writers (and the closer) run
		// to completion one after the other, then continue at random. Picks index the runnable list, so "0
		// repeated" keeps stepping the first runnable goroutine.
		for i := 0; i < len(h.Conf); i++ {
			if h.Conf[i] == "0" {
				for j := 0; j < 3+r.IntN(3); j++ {
					sched = append(sched, 1000+i)
				}
			}
		}
		for i := 0; i < len(h.Conf); i++ {
			if h.Conf[i] != "0" {
				for j := 0; j < 5; j++ {
					sched = append(sched, 1000+i)
				}
			}
		}
	}
	cur := r.IntN(8)
	for i := 0; i < n; i++ {
		switch mode {
		case 0: // uniform
			sched = append(sched, r.IntN(8))
		default: // runs of the same goroutine with a few change points
			if r.IntN(5) == 0 {
				cur = r.IntN(8)
			}
			sched = append(sched, cur)
		}
		if r.IntN(40) == 0 {
			sched = append(sched, -1)
		}
	}
	return h, sched
}

func TestHarness(t *testing.T) {
	a := common.GetArgs()
	w := common.NewWriter(a.Out)
	if a.Replay != "" {
		hs, err := common.ReadHistories(a.Replay)
		if err != nil {
			t.Fatal(err)
		}
		for _, h := range hs {
			// conf = goroutine kinds, 77, then the goroutine stepped at every scheduling decision (-1: deadline)
			var kinds []string
			var sched []int
			sep := false
			for _, c := range h.Conf {
				switch {
				case c == "77":
					sep = true
				case sep:
					sched = append(sched, common.AtoI(c))
				default:
					kinds = append(kinds, c)
				}
			}
			synctest.Test(t, func(*testing.T) { run(h, kinds, sched, true) })
			w.Put(h)
		}
	} else {
		r := common.Rng(a.Seed, 0x08)
		for i := 0; i < a.N; i++ {
			h, sched := gen(r)
			kinds := h.Conf
			synctest.Test(t, func(*testing.T) { run(h, kinds, sched, false) })
			w.Put(h)
		}
	}
	w.Close(a.Out)
}
