// udpl: correspondence harness for the UDP listener (C11 dispatch, C12 socket lifetime), sequential
// histories inside testing/synctest bubbles. The real ListenConfig.Listen runs (instrumented copy of
// conn.go generated from the working tree, hooks off) on an in-memory socket: after a datagram
// is injected, synctest.Wait returns when the read loop has dispatched it.
package udpl

import (
	"errors"
	"io"
	"math/rand/v2"
	"net"
	"runtime"
	"sync"
	"sync/atomic"
	"testing"
	"testing/synctest"
	"time"

	"github.com/pion/transport/v3/udp"
	"golang.org/x/net/ipv4"
	"verif/harness/common"
	"verif/harness/vsched"
)

func init() { common.RegisterFlags() }

type dgram struct {
	p    []byte
	addr net.Addr
}

type fakeConn struct {
	mu     sync.Mutex
	in     chan dgram
	closed bool
	sent   int
	// batch mode: datagrams waiting for the next ReadBatch calls
	bq      []dgram
	bwake   chan struct{}
	calls   []int // number of datagrams returned by each ReadBatch call
	onClose func()
	s       *vsched.Sched
}

// Read, Write and RemoteAddr exist only because ipv4.NewPacketConn asserts net.Conn.
func (f *fakeConn) Read([]byte) (int, error)    { return 0, net.ErrClosed }
func (f *fakeConn) Write(p []byte) (int, error) { return f.WriteTo(p, nil) }
func (f *fakeConn) RemoteAddr() net.Addr        { return nil }

// ReadBatch is the in-memory stand-in of recvmmsg: it returns as many waiting datagrams as fit.
func (f *fakeConn) ReadBatch(ms []ipv4.Message, _ int) (int, error) {
	for {
		f.mu.Lock()
		if f.closed {
			f.mu.Unlock()
			return 0, net.ErrClosed
		}
		if len(f.bq) > 0 {
			n := 0
			for n < len(ms) && n < len(f.bq) {
				ms[n].N = copy(ms[n].Buffers[0], f.bq[n].p)
				ms[n].Addr = f.bq[n].addr
				n++
			}
			f.bq = f.bq[n:]
			f.calls = append(f.calls, n)
			f.mu.Unlock()
			return n, nil
		}
		ch := f.bwake
		f.mu.Unlock()
		<-ch
	}
}

func (f *fakeConn) WriteBatch(ms []ipv4.Message, _ int) (int, error) {
	f.mu.Lock()
	defer f.mu.Unlock()
	if f.closed {
		return 0, net.ErrClosed
	}
	f.sent += len(ms)
	return len(ms), nil
}

func (f *fakeConn) ReadFrom(p []byte) (int, net.Addr, error) {
	d, ok := <-f.in
	if !ok {
		return 0, nil, net.ErrClosed
	}
	return copy(p, d.p), d.addr, nil
}
func (f *fakeConn) WriteTo(p []byte, _ net.Addr) (int, error) {
	f.mu.Lock()
	defer f.mu.Unlock()
	if f.closed {
		return 0, net.ErrClosed
	}
	f.sent++
	return len(p), nil
}
func (f *fakeConn) Close() error {
	f.mu.Lock()
	defer f.mu.Unlock()
	if f.closed {
		return net.ErrClosed
	}
	if f.onClose != nil {
		f.onClose()
	}
	if f.s != nil {
		f.s.Record(f.s.CurID(), "E", "socket closed", 0)
	}
	f.closed = true
	close(f.in)
	close(f.bwake)
	f.bwake = make(chan struct{})
	return nil
}
func (f *fakeConn) isClosed() bool {
	f.mu.Lock()
	defer f.mu.Unlock()
	return f.closed
}
func (f *fakeConn) LocalAddr() net.Addr              { return &net.UDPAddr{IP: net.IPv4(127, 0, 0, 1), Port: 7} }
func (f *fakeConn) SetDeadline(time.Time) error      { return nil }
func (f *fakeConn) SetReadDeadline(time.Time) error  { return nil }
func (f *fakeConn) SetWriteDeadline(time.Time) error { return nil }
func (f *fakeConn) SetReadBuffer(int) error          { return nil }
func (f *fakeConn) SetWriteBuffer(int) error         { return nil }

// remotes share IPs and differ in ports, and the other way round; addrMode 0: IPv4, 1: IPv6 (loopback and
// link-local addresses that differ only in the zone), 2: mixed
func remoteAddr(mode, r int) *net.UDPAddr {
	port := 1000 + r/3
	switch mode {
	case 1:
		switch r % 3 {
		case 0:
			return &net.UDPAddr{IP: net.ParseIP("::1"), Port: port}
		case 1:
			return &net.UDPAddr{IP: net.ParseIP("fe80::1"), Port: port, Zone: "eth0"}
		default:
			return &net.UDPAddr{IP: net.ParseIP("fe80::1"), Port: port, Zone: "eth1"}
		}
	case 2:
		switch r % 3 {
		case 0:
			return &net.UDPAddr{IP: net.IPv4(10, 0, 0, 1), Port: port}
		case 1:
			return &net.UDPAddr{IP: net.ParseIP("2001:db8::1"), Port: port}
		default:
			return &net.UDPAddr{IP: net.ParseIP("fe80::2"), Port: port, Zone: "eth0"}
		}
	}
	return &net.UDPAddr{IP: net.IPv4(10, 0, 0, byte(1+r%3)), Port: port}
}

func remoteIndex(mode int, a net.Addr) int {
	for r := 0; r < 12; r++ {
		if remoteAddr(mode, r).String() == a.String() {
			return r
		}
	}
	return 99
}

func filterFor(kind int) func([]byte) bool {
	switch kind {
	case 1:
		return func(b []byte) bool { return len(b) > 0 && b[0]%2 == 1 }
	case 2:
		return func([]byte) bool { return false }
	case 3:
		return func(b []byte) bool { return len(b) == 0 || b[0]%2 == 1 }
	}
	return nil
}

type runner struct {
	mode   int
	batch  int
	fake   *fakeConn
	l      net.Listener
	conns  []net.Conn // accepted, by id
	rem    []int      // remote of each accepted connection, as RemoteAddr said when it was accepted
	closed []bool
	lcl    bool
	// loopback tier (mode 3): a real socket on 127.0.0.1 and one real socket per remote
	uc     *net.UDPConn
	rs     []*net.UDPConn
	syncUp bool
	picked atomic.Int64 // datagrams the read loop has begun to dispatch (counted at the lock of getConn)
	broken bool         // a wait of the loopback tier timed out: the rest of the history is not run
}

var brokenHistories int // loopback tier: histories in which a wait timed out (generation stops after three)

const (
	loopMode   = 3
	syncRemote = 6 // loopback tier: the remote whose connection (id 0) carries the markers
)

func (r *runner) remoteOf(a net.Addr) int {
	if r.mode != loopMode {
		return remoteIndex(r.mode, a)
	}
	for i, c := range r.rs {
		if a != nil && c.LocalAddr().String() == a.String() {
			return i
		}
	}
	return 99
}

// until polls (real time) for a condition of the loopback tier
func until(cond func() bool) bool {
	for i := 0; i < 5000; i++ {
		if cond() {
			return true
		}
		time.Sleep(time.Millisecond)
	}
	return false
}

// guard runs a call of the implementation that may never return when the implementation is broken; outside a bubble nothing else
// would notice. A call that has not returned after five seconds is abandoned (reported as code 7 by the caller).
func (r *runner) guard(f func()) bool {
	if r.mode != loopMode {
		f()
		return true
	}
	done := make(chan struct{})
	go func() {
		defer close(done)
		f()
	}()
	select {
	case <-done:
		return true
	case <-time.After(5 * time.Second):
		return false
	}
}

func newLoopRunner(backlog, fk, batch int) *runner {
	r := &runner{mode: loopMode, batch: batch}
	udp.VListenUDPHook = func(network string, laddr *net.UDPAddr) (udp.VerifPacketConn, error) {
		c, err := net.ListenUDP(network, laddr)
		if err != nil {
			return nil, err
		}
		r.uc = c
		return c, nil
	}
	// the instrumented copy of conn.go reports its lock operations: used here only to count dispatches
	udp.VYieldHook = func(label string) {
		if label == "getConn#0" {
			r.picked.Add(1)
		}
	}
	udp.VBlockedHook = func(string) { runtime.Gosched() }
	udp.VLockedHook = func(string) {}
	lc := udp.ListenConfig{Backlog: backlog, AcceptFilter: filterFor(fk)}
	if batch > 0 {
		lc.Batch = udp.BatchIOConfig{Enable: true, ReadBatchSize: batch, WriteBatchSize: 2, WriteBatchInterval: time.Millisecond}
	}
	l, err := lc.Listen("udp4", &net.UDPAddr{IP: net.IPv4(127, 0, 0, 1), Port: 0})
	if err != nil {
		panic(err)
	}
	r.l = l
	for i := 0; i <= syncRemote; i++ {
		c, err := net.ListenUDP("udp4", &net.UDPAddr{IP: net.IPv4(127, 0, 0, 1), Port: 0})
		if err != nil {
			panic(err)
		}
		r.rs = append(r.rs, c)
	}
	return r
}

func newRunner(backlog, fk, mode, batch int) *runner {
	f := &fakeConn{in: make(chan dgram), bwake: make(chan struct{})}
	udp.VListenUDPHook = func(string, *net.UDPAddr) (udp.VerifPacketConn, error) { return f, nil }
	lc := udp.ListenConfig{Backlog: backlog, AcceptFilter: filterFor(fk)}
	if batch > 0 {
		udp.VBatchConnHook = func() udp.BatchPacketConn { return f }
		lc.Batch = udp.BatchIOConfig{Enable: true, ReadBatchSize: batch, WriteBatchSize: 2, WriteBatchInterval: time.Millisecond}
	}
	l, err := lc.Listen("udp", &net.UDPAddr{IP: net.IPv4(127, 0, 0, 1), Port: 0})
	if err != nil {
		panic(err)
	}
	synctest.Wait()
	return &runner{fake: f, l: l, mode: mode, batch: batch}
}

// flush hands the datagrams queued in batch mode to the read loop (several per ReadBatch call)
func (r *runner) flush() {
	if r.batch == 0 {
		return
	}
	r.fake.mu.Lock()
	if len(r.fake.bq) > 0 && !r.fake.closed {
		close(r.fake.bwake)
		r.fake.bwake = make(chan struct{})
	}
	r.fake.mu.Unlock()
	synctest.Wait()
}

func (r *runner) sockClosed() bool {
	if r.mode == loopMode {
		return r.uc.SetWriteBuffer(1<<16) != nil // fails exactly when the socket has been closed
	}
	return r.fake.isClosed()
}

func (r *runner) sock() string { return common.B(r.sockClosed()) }

// allClosed: the harness has closed the listener and every connection it accepted
func (r *runner) allClosed() bool {
	for _, c := range r.closed {
		if !c {
			return false
		}
	}
	return r.lcl
}

func (r *runner) exec(op []string) []string {
	if r.broken {
		return []string{"7"}
	}
	out := r.exec1(op)
	if r.mode == loopMode && (out[0] == "7" || (out[0] == "9" && op[0] == "3" && op[1] == "0")) {
		r.broken = true
		brokenHistories++
	}
	return out
}

func (r *runner) exec1(op []string) []string {
	if op[0] != "1" && r.mode != loopMode {
		r.flush()
	}
	switch op[0] {
	case "1":
		if r.sockClosed() {
			return []string{"1"}
		}
		p := make([]byte, len(op)-2)
		for i, s := range op[2:] {
			p[i] = byte(common.AtoI(s))
		}
		if r.mode == loopMode {
			// a real datagram over the loopback interface: wait until the read loop has picked it up. The history itself
			// contains, after every arrival, a marker from the sync remote and a blocking read of it on connection 0: the read
			// loop handles datagrams one after the other, so once the marker has been read the earlier datagram has been
			// dispatched completely
			rem := common.AtoI(op[1])
			before := r.picked.Load()
			if _, err := r.rs[rem].WriteToUDP(p, r.l.Addr().(*net.UDPAddr)); err != nil {
				panic(err)
			}
			if !until(func() bool { return r.picked.Load() > before }) {
				return []string{"7"} // the datagram never reached the read loop
			}
			if rem == syncRemote && !r.syncUp {
				r.syncUp = true
				if !until(func() bool { return udp.VerifQueued(r.l) >= 1 }) {
					return []string{"7"}
				}
			}
			return []string{r.sock()}
		}
		if r.batch > 0 {
			// batch mode: arrivals pile up on the socket until the next other operation, then the read loop
			// picks them up in batches; nothing else can observe the difference
			r.fake.mu.Lock()
			r.fake.bq = append(r.fake.bq, dgram{p, remoteAddr(r.mode, common.AtoI(op[1]))})
			r.fake.mu.Unlock()
			return []string{r.sock()}
		}
		r.fake.in <- dgram{p, remoteAddr(r.mode, common.AtoI(op[1]))}
		synctest.Wait()
		return []string{r.sock()}
	case "2":
		if udp.VerifQueued(r.l) == 0 && !r.lcl && !r.sockClosed() {
			return []string{"3", r.sock()} // would block: not issued
		}
		var c net.Conn
		var err error
		if !r.guard(func() { c, err = r.l.Accept() }) {
			return []string{"7"}
		}
		r.wait()
		if err != nil {
			return []string{"2", r.sock()}
		}
		id := len(r.conns)
		r.conns = append(r.conns, c)
		r.closed = append(r.closed, false)
		rem := r.remoteOf(c.RemoteAddr())
		r.rem = append(r.rem, rem)
		return []string{"0", common.I(id), common.I(rem), r.sock()}
	case "3":
		id, k := common.AtoI(op[1]), common.AtoI(op[2])
		if id >= len(r.conns) {
			return []string{"3", "0", r.sock()}
		}
		c := r.conns[id]
		if r.remoteOf(c.RemoteAddr()) != r.rem[id] {
			return []string{"8", r.sock()} // the connection's remote address changed under it
		}
		if r.mode == loopMode && id == 0 && !r.closed[id] {
			_ = c.SetReadDeadline(time.Now().Add(5 * time.Second)) // the marker is on its way: wait for it
		} else if udp.VerifBuffered(c) == 0 && !r.closed[id] {
			return []string{"3", "0", r.sock()}
		}
		buf := make([]byte, k)
		var n int
		var err error
		if !r.guard(func() { n, err = c.Read(buf) }) {
			return []string{"7"}
		}
		cls := "0"
		switch {
		case err == nil:
		case errors.Is(err, io.ErrShortBuffer):
			cls = "1"
		case errors.Is(err, io.EOF):
			cls = "2"
		default:
			cls = "9"
		}
		out := []string{cls, common.I(n)}
		for _, x := range buf[:n] {
			out = append(out, common.I(x))
		}
		return append(out, r.sock())
	case "4":
		id := common.AtoI(op[1])
		if id < len(r.conns) {
			if r.remoteOf(r.conns[id].RemoteAddr()) != r.rem[id] {
				return []string{"8", r.sock()}
			}
			if !r.guard(func() { _ = r.conns[id].Close() }) {
				return []string{"7"}
			}
			r.closed[id] = true
			r.wait()
		}
		return []string{r.sock()}
	case "7":
		// a write that the socket will refuse (larger than any UDP datagram); with batch writing it sits in the write queue until
		// the next flush. The listener's bookkeeping must not depend on what becomes of it.
		id := common.AtoI(op[1])
		if id < len(r.conns) && !r.closed[id] {
			r.guard(func() { _, _ = r.conns[id].Write(make([]byte, 70000)) })
		}
		return []string{r.sock()}
	case "6":
		id := common.AtoI(op[1])
		if id < len(r.conns) {
			udp.VerifSetConnLimit(r.conns[id], common.AtoI(op[2]))
		}
		return []string{r.sock()}
	default:
		if !r.guard(func() { _ = r.l.Close() }) {
			return []string{"7"}
		}
		r.lcl = true
		r.wait()
		return []string{r.sock()}
	}
}

// wait lets the listener's goroutines settle after an operation: in a bubble synctest.Wait; on the loopback tier the socket is
// closed by a goroutine once the last reference is gone, so when the harness has closed everything it waits for that
func (r *runner) wait() {
	if r.mode != loopMode {
		synctest.Wait()
		return
	}
	if r.allClosed() && !until(r.sockClosed) && !r.broken {
		// the socket outlives everything: reported through the observation; do not wait five seconds again and again
		r.broken = true
		brokenHistories++
	}
}

func (r *runner) finish() {
	if r.mode == loopMode {
		r.guard(func() {
			_ = r.l.Close()
			for _, c := range r.conns {
				_ = c.Close()
			}
		})
		until(r.sockClosed)
		for _, c := range r.rs {
			_ = c.Close()
		}
		udp.VListenUDPHook = nil
		udp.VYieldHook, udp.VBlockedHook, udp.VLockedHook = nil, nil, nil
		return
	}
	r.flush()
	_ = r.l.Close()
	for _, c := range r.conns {
		_ = c.Close()
	}
	synctest.Wait()
	time.Sleep(time.Second) // lets the batch writer's ticker goroutine see the closed flag and exit
	synctest.Wait()
	udp.VListenUDPHook = nil
	udp.VBatchConnHook = nil
}

func runHistory(h *common.History, rng *rand.Rand) {
	backlog, fk := common.AtoI(h.Conf[0]), common.AtoI(h.Conf[1])
	mode, batch := 0, 0
	if len(h.Conf) >= 4 {
		mode, batch = common.AtoI(h.Conf[2]), common.AtoI(h.Conf[3])
	}
	var r *runner
	if mode == loopMode {
		r = newLoopRunner(backlog, fk, batch)
		r.fake = &fakeConn{}
	} else {
		r = newRunner(backlog, fk, mode, batch)
	}
	defer func() {
		multi := false
		for _, n := range r.fake.calls {
			if n > 1 {
				multi = true
			}
		}
		if multi {
			h.Tags = append(h.Tags, "batch_of_several")
		}
		if batch > 0 {
			h.Tags = append(h.Tags, "batch_mode")
		}
		h.Tags = append(h.Tags, "addrmode"+common.I(mode))
	}()
	if rng == nil { // replay
		h.Obs = nil
		for _, op := range h.Ops {
			h.Obs = append(h.Obs, r.exec(op))
		}
		r.finish()
		return
	}
	n := 15 + rng.IntN(60)
	ctr := 0
	big := rng.IntN(8) == 0 // a history with large datagrams
	if big {
		n = 10 + rng.IntN(20)
	}
	do := func(op ...string) {
		h.Ops = append(h.Ops, op)
		h.Obs = append(h.Obs, r.exec(op))
	}
	nrem, first := 7, 0
	marker := func() {}
	if mode == loopMode {
		// connection 0 belongs to the sync remote and stays open until the end
		nrem, first = syncRemote, 1
		do("1", common.I(syncRemote), "1")
		do("2")
		do("3", "0", "64")
		marker = func() {
			do("1", common.I(syncRemote), "1")
			do("3", "0", "64")
		}
		h.Tags = append(h.Tags, "loopback_sockets")
	}
	for i := 0; i < n; i++ {
		if big && rng.IntN(8) == 0 {
			// a remote sends several large datagrams before anybody accepts its connection: all of them wait in the connection
			rem := rng.IntN(nrem)
			for k, m := 0, 3+rng.IntN(3); k < m; k++ {
				ctr++
				op := []string{"1", common.I(rem), common.I(ctr % 256)}
				for j, sz := 0, []int{3999, 8190, 5999}[rng.IntN(3)]; j < sz; j++ {
					op = append(op, common.I((ctr+j*7)%256))
				}
				do(op...)
				marker()
			}
			do("2")
			h.Tags = append(h.Tags, "large_datagrams_before_accept")
			continue
		}
		switch c := rng.IntN(100); {
		case c < 45:
			ctr++
			op := []string{"1", common.I(rng.IntN(nrem)), common.I(ctr % 256)}
			m := rng.IntN(5)
			if rng.IntN(8) == 0 {
				op, m = op[:2], 0 // an empty datagram
				h.Tags = append(h.Tags, "empty_datagram")
			}
			if big && rng.IntN(6) == 0 {
				// datagrams at and just below the listener's receive MTU (8192 bytes), and an empty one now and then
				m = []int{8191, 8190, 8191, 4000}[rng.IntN(4)]
				h.Tags = append(h.Tags, "datagram_at_receive_mtu")
			}
			for j := 0; j < m; j++ {
				op = append(op, common.I((ctr+j*7)%256))
			}
			do(op...)
			marker()
		case c < 63:
			do("2")
		case c < 83:
			if len(r.conns) > first {
				sizes := []int{64, 64, 64, 2, 0}
				if big {
					sizes = []int{9000, 9000, 64, 8192, 2}
				}
				do("3", common.I(first+rng.IntN(len(r.conns)-first)), common.I(sizes[rng.IntN(5)]))
			}
		case c < 93:
			if len(r.conns) > first {
				do("4", common.I(first+rng.IntN(len(r.conns)-first)))
				h.Tags = append(h.Tags, "conn_close")
			}
		case c < 95:
			if len(r.conns) > first {
				// the buffer of a connection with a slow reader fills up: datagrams for it are dropped, the connection stays
				do("6", common.I(first+rng.IntN(len(r.conns)-first)), common.I([]int{1, 1, 2, 3, 0}[rng.IntN(5)]))
				h.Tags = append(h.Tags, "conn_buffer_limit")
			}
		case c < 97:
			do("5")
			h.Tags = append(h.Tags, "listener_close")
		case c < 98:
			if len(r.conns) > first {
				do("7", common.I(first+rng.IntN(len(r.conns)-first)))
				h.Tags = append(h.Tags, "oversize_write")
			}
		default:
			do("2")
		}
	}
	// close everything in a random order; the last observation must show the socket closed
	order := rng.Perm(len(r.conns) + 1)
	for _, k := range order {
		if k == len(r.conns) {
			do("5")
		} else {
			do("4", common.I(k))
		}
	}
	if r.sockClosed() {
		h.Tags = append(h.Tags, "socket_closed_at_end")
	}
	r.finish()
}

func TestHarness(t *testing.T) {
	a := common.GetArgs()
	w := common.NewWriter(a.Out)
	if a.Replay != "" {
		hs, err := common.ReadHistories(a.Replay)
		if err != nil {
			t.Fatal(err)
		}
		for _, h := range hs {
			if len(h.Conf) >= 2 && h.Conf[0] == "9" {
				seed := common.AtoU64(h.Conf[1])
				synctest.Test(t, func(*testing.T) { runListenerConc(h, seed) })
				w.Put(h)
				continue
			}
			if len(h.Conf) >= 4 && h.Conf[2] == "3" {
				runHistory(h, nil) // loopback tier: real sockets, real time
			} else {
				synctest.Test(t, func(*testing.T) { runHistory(h, nil) })
			}
			w.Put(h)
		}
	} else {
		rng := common.Rng(a.Seed, 0x11)
		for i := 0; i < a.N; i++ {
			if a.Mode == "conc" {
				h := &common.History{}
				seed := rng.Uint64()
				synctest.Test(t, func(*testing.T) { runListenerConc(h, seed) })
				w.Put(h)
				continue
			}
			if a.Mode == "loop" {
				if brokenHistories >= 3 {
					break
				}
				h := &common.History{Conf: []string{common.I([]int{1, 2, 3, 128}[rng.IntN(4)]), common.I([]int{0, 0, 1, 3}[rng.IntN(4)]),
					"3", common.I([]int{0, 0, 0, 2, 8}[rng.IntN(5)])}}
				runHistory(h, rng)
				w.Put(h)
				continue
			}
			h := &common.History{Conf: []string{common.I([]int{1, 2, 3, 128}[rng.IntN(4)]), common.I([]int{0, 0, 1, 2, 3}[rng.IntN(5)]),
				common.I(rng.IntN(3)), common.I([]int{0, 0, 2, 3, 8}[rng.IntN(5)])}}
			synctest.Test(t, func(*testing.T) { runHistory(h, rng) })
			w.Put(h)
		}
	}
	w.Close(a.Out)
}
