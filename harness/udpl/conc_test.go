package udpl

// Concurrent tier for C12 (and C11): the real listener code - conn.go instrumented from the working tree, hooks ON -
// runs under the controlled scheduler: listener Close, Accept calls, connection Close calls (also twice), reads and
// datagram arrivals are interleaved one synchronisation operation at a time, following a seeded schedule. The
// property is checked on the implementation itself (flags); no model prediction is involved.

import (
	"errors"
	"fmt"
	"io"
	"math/rand/v2"
	"net"
	"os"
	"testing/synctest"
	"time"

	"github.com/pion/transport/v3/udp"
	"verif/harness/common"
	"verif/harness/vsched"
)

const (
	lfEarlyClose  = 1   // the socket was closed while the listener or an accepted connection was still open
	lfSocketLeak  = 2   // everything closed, quiescent, socket still open
	lfGoroutine   = 4   // a goroutine of the package (or a caller) is still running / blocked at the end
	lfAcceptAfter = 8   // Accept succeeded although the listener was closed before Accept started and nothing was queued
	lfDupConn     = 16  // one connection handed out twice, or two open connections for one remote
	lfWriteFailed = 32  // an accepted, still open connection cannot send (socket gone)
	lfReadStuck   = 64  // a pending Read was not released by Close of its connection
	lfCloseErr    = 128 // Close panicked or a second Close returned an error / blocked
	lfWrongData   = 256 // a connection received a datagram of another remote, or bytes differ
)

type cconn struct {
	c           net.Conn
	rem         int
	closeCalled bool
}

func runListenerConc(h *common.History, seed uint64) {
	rng := rand.New(rand.NewPCG(seed, 0x12c))
	s := vsched.New()
	udp.VYieldHook, udp.VBlockedHook, udp.VLockedHook, udp.VChoseHook = s.Yield, s.Busy, s.Locked, s.Chose
	udp.VGoHook = func(label string, f func()) { s.Yield(label); s.GoChild("pkg:"+label, f) }
	defer func() {
		udp.VYieldHook, udp.VBlockedHook, udp.VLockedHook, udp.VChoseHook, udp.VGoHook = nil, nil, nil, nil, nil
		udp.VListenUDPHook = nil
	}()
	flags := 0
	f := &fakeConn{in: make(chan dgram), bwake: make(chan struct{}), s: s}
	var accepted []*cconn
	listenerCloseCalled := false
	f.onClose = func() {
		// called by whoever closes the socket: nobody may still need it
		if !listenerCloseCalled {
			flags |= lfEarlyClose
		}
		for _, a := range accepted {
			if !a.closeCalled {
				flags |= lfEarlyClose
			}
		}
	}
	udp.VListenUDPHook = func(string, *net.UDPAddr) (udp.VerifPacketConn, error) { return f, nil }
	backlog := []int{1, 2, 4, 128}[rng.IntN(4)]
	lc := udp.ListenConfig{Backlog: backlog}
	var l net.Listener
	// Listen starts the package's goroutines through the go hook: run it in a controlled goroutine
	g0 := s.Go("listen", func() {
		var err error
		l, err = lc.Listen("udp", &net.UDPAddr{IP: net.IPv4(127, 0, 0, 1), Port: 0})
		if err != nil {
			panic(err)
		}
	})
	_ = g0
	stepAll := func() { // run everything that can move until nothing can (round robin)
		for guard := 0; guard < 20000; guard++ {
			rs := s.Runnable()
			if len(rs) == 0 {
				return
			}
			progressed := false
			for _, g := range rs {
				if g.State == vsched.AtYield {
					s.Step(g)
					progressed = true
					break
				}
			}
			if !progressed {
				for _, g := range rs {
					s.Step(g)
					if g.State != vsched.NeedLock {
						progressed = true
						break
					}
				}
			}
			if !progressed {
				return
			}
		}
	}
	stepAll()
	deliver := func(rem int, tag byte) {
		if f.isClosed() {
			return
		}
		select {
		case f.in <- dgram{[]byte{byte(rem), tag}, remoteAddr(0, rem)}:
		default:
			// the read loop is not waiting for a datagram right now (it is parked at a yield point): try later
			return
		}
		s.Settle()
	}
	// phase 0: some connections queued, some accepted, sequentially
	nrem := 2 + rng.IntN(4)
	for r := 0; r < nrem; r++ {
		deliver(r, 1)
		stepAll()
	}
	nacc := rng.IntN(nrem + 1)
	for i := 0; i < nacc && i < backlog; i++ {
		g := s.Go("accept0", func() {
			c, err := l.Accept()
			if err == nil {
				ua, _ := c.RemoteAddr().(*net.UDPAddr)
				accepted = append(accepted, &cconn{c: c, rem: remoteIndex(0, ua)})
			}
		})
		_ = g
		stepAll()
	}
	// phase 1: concurrent operations
	type pend struct {
		g    *vsched.G
		kind string
		done *bool
	}
	var pending []pend
	launch := func(kind string, fn func()) {
		done := false
		g := s.Go(kind, func() {
			defer func() {
				if r := recover(); r != nil {
					flags |= lfCloseErr
				}
				done = true
			}()
			fn()
		})
		pending = append(pending, pend{g, kind, &done})
	}
	acceptsBeforeClose := 0
	if rng.IntN(6) != 0 {
		launch("lclose", func() {
			listenerCloseCalled = true
			_ = l.Close()
			if rng.IntN(2) == 0 {
				if err := l.Close(); err != nil {
					flags |= lfCloseErr
				}
			}
		})
	}
	for i, n := 0, rng.IntN(6); i < n; i++ {
		acceptsBeforeClose++
		closeAtOnce := rng.IntN(2) == 0 // the caller is done with the connection as soon as it has it
		launch("accept", func() {
			c, err := l.Accept()
			if err != nil {
				return
			}
			ua, _ := c.RemoteAddr().(*net.UDPAddr)
			cc := &cconn{c: c, rem: remoteIndex(0, ua)}
			for _, o := range accepted {
				if o.c == c || (o.rem == cc.rem && !o.closeCalled) {
					flags |= lfDupConn
				}
			}
			accepted = append(accepted, cc)
			// an accepted connection must be able to send until it is closed
			if _, err := c.Write([]byte{7}); err != nil && !cc.closeCalled {
				flags |= lfWriteFailed
			}
			if closeAtOnce {
				cc.closeCalled = true
				_ = c.Close()
			}
		})
	}
	for _, a := range accepted {
		a := a
		switch rng.IntN(3) {
		case 0:
			launch("cclose", func() {
				a.closeCalled = true
				_ = a.c.Close()
				if err := a.c.Close(); err != nil {
					flags |= lfCloseErr
				}
			})
		case 1:
			// a reader parked in Read, released by a concurrent Close of the same connection
			launch("read", func() {
				buf := make([]byte, 16)
				for {
					n, err := a.c.Read(buf)
					if err != nil {
						if !errors.Is(err, io.EOF) {
							var ne net.Error
							if !errors.As(err, &ne) {
								flags |= lfReadStuck
							}
						}
						return
					}
					if n < 1 || int(buf[0]) != a.rem {
						flags |= lfWrongData
					}
				}
			})
			launch("cclose", func() {
				a.closeCalled = true
				_ = a.c.Close()
			})
		}
	}
	// seeded schedule with arrivals in between
	steps := 20 + rng.IntN(120)
	hot := -1 // a remote whose connection is being closed: arrivals racing with that Close
	for _, a := range accepted {
		if rng.IntN(2) == 0 {
			hot = a.rem
		}
	}
	for i := 0; i < steps; i++ {
		if rng.IntN(10) == 0 {
			rem := rng.IntN(nrem + 2)
			if hot >= 0 && rng.IntN(2) == 0 {
				rem = hot
			}
			deliver(rem, byte(2+i%200))
			continue
		}
		rs := s.Runnable()
		if len(rs) == 0 {
			break
		}
		s.Step(rs[rng.IntN(len(rs))])
	}
	stepAll()
	// phase 2: close what is still open, sequentially; then everything must be gone
	if !listenerCloseCalled {
		launch("lclose", func() { listenerCloseCalled = true; _ = l.Close() })
		stepAll()
	}
	// Accepts that are still pending now must have been released by the listener Close
	for _, a := range accepted {
		if !a.closeCalled {
			a := a
			launch("cclose", func() { a.closeCalled = true; _ = a.c.Close() })
			stepAll()
		}
	}
	stepAll()
	time.Sleep(time.Second)
	synctest.Wait()
	stepAll()
	for _, p := range pending {
		if !*p.done {
			switch p.kind {
			case "read":
				flags |= lfReadStuck
			default:
				flags |= lfGoroutine
			}
		}
	}
	for _, g := range s.Gs {
		if g.State != vsched.Done {
			flags |= lfGoroutine
		}
	}
	if !f.isClosed() {
		flags |= lfSocketLeak
	}
	if os.Getenv("UDPL_DEBUG") != "" {
		for _, e := range s.Log {
			fmt.Fprintf(os.Stderr, "g%d(%s) %s %s %d\n", e.G, s.Gs[max(e.G, 0)].Name, e.Kind, e.Label, e.K)
		}
	}
	// ---- translate the scheduler log into the events of UdpListener/Conc.v ------------------------------------------
	name := func(g int) string {
		if g < 0 || g >= len(s.Gs) {
			return ""
		}
		return s.Gs[g].Name
	}
	var evs [][]string
	emit := func(code, arg int) { evs = append(evs, []string{common.I(code), common.I(arg)}) }
	inRegion := false // the read loop is inside getConn with connLock held (its deferred Unlock is not logged)
	queued, addPending, sendSeen := 0, false, false
	leave := func() {
		if inRegion {
			emit(3, 0)
			inRegion = false
		}
	}
	nextRL := func(from int) *vsched.Event { // the read loop's next logged event
		for j := from + 1; j < len(s.Log); j++ {
			if name(s.Log[j].G) == "pkg:Listen#2" && s.Log[j].Kind != "B" {
				return &s.Log[j]
			}
		}
		return nil
	}
	for i, e := range s.Log {
		gname := name(e.G)
		switch {
		case e.Kind == "E" && e.Label == "socket closed":
			emit(14, 0)
		case gname == "pkg:Listen#2": // read loop
			switch {
			case e.Kind == "L" && e.Label == "getConn#0":
				leave()
				known := 1
				if n := nextRL(i); n != nil && n.Kind == "Y" && n.Label == "getConn#1" {
					known = 0
				}
				emit(0, known)
				inRegion = true
			case e.Kind == "Y" && e.Label == "getConn#0":
				leave() // the previous dispatch has returned
			case e.Kind == "Y" && e.Label == "getConn#1":
				emit(1, 0)
				addPending = true
			case e.Kind == "C" && e.Label == "getConn#2":
				// the select decides here (queued, or backlog full); in the second case the code's connWG.Done follows a
				// moment later (getConn#3) while the model gives the reference back in the same step
				if sendSeen {
					sendSeen = false // already emitted ahead of the Accept that received the value directly
				} else {
					emit(2, 0)
					if e.K == 0 {
						queued++
					}
				}
				addPending = false
			case e.Kind == "X":
				leave()
			}
		case gname == "lclose":
			switch {
			case e.Kind == "Y" && e.Label == "Close#0":
				// doneOnce.Do: only the first call runs the body; the store follows at once
				if n := func() bool {
					for j := i + 1; j < len(s.Log); j++ {
						if s.Log[j].G == e.G && s.Log[j].Kind != "B" {
							return s.Log[j].Kind == "Y" && s.Log[j].Label == "Close#1"
						}
					}
					return false
				}(); n {
					emit(4, 0)
				}
			case e.Kind == "Y" && e.Label == "Close#1":
				emit(5, 0)
			case e.Kind == "L" && e.Label == "Close#2":
				leave()
				emit(6, 0)
			case e.Kind == "C" && e.Label == "Close#3" && e.K == 0:
				emit(7, 0)
				queued--
			case e.Kind == "Y" && e.Label == "Close#5":
				emit(8, 0)
			case e.Kind == "C" && e.Label == "Close#3" && e.K == 1:
				emit(9, 0)
			case e.Kind == "Y" && e.Label == "Close#6":
				emit(10, 0)
			case e.Kind == "Y" && e.Label == "Close#7":
				emit(11, 0)
			}
		default: // callers: Accept, Conn.Close (and Conn.Write)
			switch {
			case e.Kind == "C" && e.Label == "Accept#0" && e.K == 0:
				if queued == 0 && addPending && !sendSeen {
					// a send to a parked receiver hands the value over directly; the receiver may log its event before the
					// sender logs the select case: the send comes first
					emit(2, 0)
					queued++
					sendSeen = true
				}
				emit(12, 0)
				queued--
			case e.Kind == "Y" && e.Label == "Close#1" && gname != "lclose":
				emit(13, 0)
			case e.Kind == "L" && e.Label == "Close#3":
				leave()
				emit(15, 0)
			}
		}
	}
	leave()
	nOpen := 0
	for _, a := range accepted {
		if !a.closeCalled {
			nOpen++
		}
	}
	h.Conf = []string{"9", common.I(seed), common.I(backlog)}
	h.Ops = evs
	h.Obs = [][]string{{"1", common.B(f.isClosed()), common.I(nOpen), common.B(!listenerCloseCalled)}, {common.I(flags)}}
	h.Tags = append(h.Tags, "concurrent_listener")
	if len(accepted) > nacc {
		h.Tags = append(h.Tags, "accept_during_concurrent_phase")
	}
	if len(s.Log) > 80 {
		h.Tags = append(h.Tags, "events>80")
	}
	// release whatever is left so that the bubble can end
	if !f.isClosed() {
		_ = f.Close()
	}
	s.Settle()
	for guard := 0; guard < 2000 && len(s.Runnable()) > 0; guard++ {
		rs := s.Runnable()
		s.Step(rs[guard%len(rs)])
	}
}
