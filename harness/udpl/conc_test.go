package udpl

// Concurrent tier for C12 (and C11): the real listener code - conn.go instrumented from the working tree, hooks ON -
// runs under the controlled scheduler: listener Close, Accept calls, connection Close calls (also twice), reads and
// datagram arrivals are interleaved one synchronisation operation at a time, following a seeded schedule. The
// property is checked on the implementation itself (flags); no model prediction is involved.

import (
	"errors"
	"fmt"
	"io"
	"math/rand/v2"
	"net"
	"os"
	"testing/synctest"
	"time"

	"github.com/pion/transport/v3/udp"
	"verif/harness/common"
	"verif/harness/vsched"
)

const (
	lfEarlyClose  = 1   // the socket was closed while the listener or an accepted connection was still open
	lfSocketLeak  = 2   // everything closed, quiescent, socket still open
	lfGoroutine   = 4   // a goroutine of the package (or a caller) is still running / blocked at the end
	lfAcceptAfter = 8   // Accept succeeded although the listener was closed before Accept started and nothing was queued
	lfDupConn     = 16  // one connection handed out twice, or two open connections for one remote
	lfWriteFailed = 32  // an accepted, still open connection cannot send (socket gone)
	lfReadStuck   = 64  // a pending Read was not released by Close of its connection
	lfCloseErr    = 128 // Close panicked or a second Close returned an error / blocked
	lfWrongData   = 256 // a connection received a datagram of another remote, or bytes differ
)

type cconn struct {
	c           net.Conn
	rem         int
	closeCalled bool
}

func runListenerConc(h *common.History, seed uint64) {
	rng := rand.New(rand.NewPCG(seed, 0x12c))
	s := vsched.New()
	udp.VYieldHook, udp.VBlockedHook, udp.VLockedHook, udp.VChoseHook = s.Yield, s.Busy, s.Locked, s.Chose
	udp.VGoHook = func(label string, f func()) { s.Yield(label); s.GoChild("pkg:"+label, f) }
	defer func() {
		udp.VYieldHook, udp.VBlockedHook, udp.VLockedHook, udp.VChoseHook, udp.VGoHook = nil, nil, nil, nil, nil
		udp.VListenUDPHook = nil
	}()
	flags := 0
	f := &fakeConn{in: make(chan dgram), bwake: make(chan struct{}), s: s}
	var accepted []*cconn
	listenerCloseCalled := false
	f.onClose = func() {
		// called by whoever closes the socket: nobody may still need it
		if !listenerCloseCalled {
			flags |= lfEarlyClose
		}
		for _, a := range accepted {
			if !a.closeCalled {
				flags |= lfEarlyClose
			}
		}
	}
	udp.VListenUDPHook = func(string, *net.UDPAddr) (udp.VerifPacketConn, error) { return f, nil }
	backlog := []int{1, 2, 4, 128}[rng.IntN(4)]
	lc := udp.ListenConfig{Backlog: backlog}
	var l net.Listener
	// Listen starts the package's goroutines through the go hook: run it in a controlled goroutine
	g0 := s.Go("listen", func() {
		var err error
		l, err = lc.Listen("udp", &net.UDPAddr{IP: net.IPv4(127, 0, 0, 1), Port: 0})
		if err != nil {
			panic(err)
		}
	})
	_ = g0
	stepAll := func() { // run everything that can move until nothing can (round robin)
		for guard := 0; guard < 20000; guard++ {
			rs := s.Runnable()
			if len(rs) == 0 {
				return
			}
			progressed := false
			for _, g := range rs {
				if g.State == vsched.AtYield {
					s.Step(g)
					progressed = true
					break
				}
			}
			if !progressed {
				for _, g := range rs {
					s.Step(g)
					if g.State != vsched.NeedLock {
						progressed = true
						break
					}
				}
			}
			if !progressed {
				return
			}
		}
	}
	stepAll()
	deliver := func(rem int, tag byte) {
		if f.isClosed() {
			return
		}
		select {
		case f.in <- dgram{[]byte{byte(rem), tag}, remoteAddr(0, rem)}:
		default:
			// the read loop is not waiting for a datagram right now (it is parked at a yield point): try later
			return
		}
		s.Settle()
	}
	// phase 0: some connections queued, some accepted, sequentially
	nrem := 2 + rng.IntN(4)
	for r := 0; r < nrem; r++ {
		deliver(r, 1)
		stepAll()
	}
	nacc := rng.IntN(nrem + 1)
	for i := 0; i < nacc && i < backlog; i++ {
		g := s.Go("accept0", func() {
			c, err := l.Accept()
			if err == nil {
				ua, _ := c.RemoteAddr().(*net.UDPAddr)
				accepted = append(accepted, &cconn{c: c, rem: remoteIndex(0, ua)})
			}
		})
		_ = g
		stepAll()
	}
	// phase 1: concurrent operations
	type pend struct {
		g    *vsched.G
		kind string
		done *bool
	}
	var pending []pend
	launch := func(kind string, fn func()) {
		done := false
		g := s.Go(kind, func() {
			defer func() {
				if r := recover(); r != nil {
					flags |= lfCloseErr
				}
				done = true
			}()
			fn()
		})
		pending = append(pending, pend{g, kind, &done})
	}
	acceptsBeforeClose := 0
	if rng.IntN(6) != 0 {
		launch("lclose", func() {
			listenerCloseCalled = true
			_ = l.Close()
			if rng.IntN(2) == 0 {
				if err := l.Close(); err != nil {
					flags |= lfCloseErr
				}
			}
		})
	}
	for i, n := 0, rng.IntN(6); i < n; i++ {
		acceptsBeforeClose++
		closeAtOnce := rng.IntN(2) == 0 // the caller is done with the connection as soon as it has it
		launch("accept", func() {
			c, err := l.Accept()
			if err != nil {
				return
			}
			ua, _ := c.RemoteAddr().(*net.UDPAddr)
			cc := &cconn{c: c, rem: remoteIndex(0, ua)}
			for _, o := range accepted {
				if o.c == c || (o.rem == cc.rem && !o.closeCalled) {
					flags |= lfDupConn
				}
			}
			accepted = append(accepted, cc)
			// an accepted connection must be able to send until it is closed
			if _, err := c.Write([]byte{7}); err != nil && !cc.closeCalled {
				flags |= lfWriteFailed
			}
			if closeAtOnce {
				cc.closeCalled = true
				_ = c.Close()
			}
		})
	}
	for _, a := range accepted {
		a := a
		switch rng.IntN(3) {
		case 0:
			launch("cclose", func() {
				a.closeCalled = true
				_ = a.c.Close()
				if err := a.c.Close(); err != nil {
					flags |= lfCloseErr
				}
			})
		case 1:
			// a reader parked in Read, released by a concurrent Close of the same connection
			launch("read", func() {
				buf := make([]byte, 16)
				for {
					n, err := a.c.Read(buf)
					if err != nil {
						if !errors.Is(err, io.EOF) {
							var ne net.Error
							if !errors.As(err, &ne) {
								flags |= lfReadStuck
							}
						}
						return
					}
					if n < 1 || int(buf[0]) != a.rem {
						flags |= lfWrongData
					}
				}
			})
			launch("cclose", func() {
				a.closeCalled = true
				_ = a.c.Close()
			})
		}
	}
	// seeded schedule with arrivals in between
	steps := 20 + rng.IntN(120)
	hot := -1 // a remote whose connection is being closed: arrivals racing with that Close
	for _, a := range accepted {
		if rng.IntN(2) == 0 {
			hot = a.rem
		}
	}
	for i := 0; i < steps; i++ {
		if rng.IntN(10) == 0 {
			rem := rng.IntN(nrem + 2)
			if hot >= 0 && rng.IntN(2) == 0 {
				rem = hot
			}
			deliver(rem, byte(2+i%200))
			continue
		}
		rs := s.Runnable()
		if len(rs) == 0 {
			break
		}
		s.Step(rs[rng.IntN(len(rs))])
	}
	stepAll()
	// phase 2: close what is still open, sequentially; then everything must be gone
	if !listenerCloseCalled {
		launch("lclose", func() { listenerCloseCalled = true; _ = l.Close() })
		stepAll()
	}
	// Accepts that are still pending now must have been released by the listener Close
	for _, a := range accepted {
		if !a.closeCalled {
			a := a
			launch("cclose", func() { a.closeCalled = true; _ = a.c.Close() })
			stepAll()
		}
	}
	stepAll()
	time.Sleep(time.Second)
	synctest.Wait()
	stepAll()
	for _, p := range pending {
		if !*p.done {
			switch p.kind {
			case "read":
				flags |= lfReadStuck
			default:
				flags |= lfGoroutine
			}
		}
	}
	for _, g := range s.Gs {
		if g.State != vsched.Done {
			flags |= lfGoroutine
		}
	}
	if !f.isClosed() {
		flags |= lfSocketLeak
	}
	if flags != 0 && os.Getenv("UDPL_DEBUG") != "" {
		for _, e := range s.Log {
			fmt.Fprintf(os.Stderr, "g%d(%s) %s %s %d\n", e.G, s.Gs[max(e.G, 0)].Name, e.Kind, e.Label, e.K)
		}
	}
	h.Conf = []string{"9", common.I(seed)}
	h.Ops = [][]string{{common.I(len(s.Log)), common.I(len(accepted)), common.I(len(pending))}}
	h.Obs = [][]string{{common.I(flags)}}
	h.Tags = append(h.Tags, "concurrent_listener")
	if len(accepted) > nacc {
		h.Tags = append(h.Tags, "accept_during_concurrent_phase")
	}
	if len(s.Log) > 80 {
		h.Tags = append(h.Tags, "events>80")
	}
	// release whatever is left so that the bubble can end
	if !f.isClosed() {
		_ = f.Close()
	}
	s.Settle()
	for guard := 0; guard < 2000 && len(s.Runnable()) > 0; guard++ {
		rs := s.Runnable()
		s.Step(rs[guard%len(rs)])
	}
}
