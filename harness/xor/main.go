// xor: correspondence harness for utils/xor.XorBytes (C20).
// One history = a memory image followed by XorBytes calls on (offset,length) views of it;
// observation per call = returned n followed by the whole memory afterwards.
// Built twice: default tags (xor_generic.go -> crypto/subtle) and -tags gccgo (xor_old.go).
package main

import (
	"math/rand/v2"

	"github.com/pion/transport/v3/utils/xor"
	"verif/harness/common"
)

func run(h *common.History) {
	mem := make([]byte, len(h.Ops[0]))
	for i, s := range h.Ops[0] {
		mem[i] = byte(common.AtoI(s))
	}
	h.Obs = [][]string{{}}
	for _, op := range h.Ops[1:] {
		d, ld, a, la, b, lb := common.AtoI(op[0]), common.AtoI(op[1]), common.AtoI(op[2]), common.AtoI(op[3]), common.AtoI(op[4]), common.AtoI(op[5])
		var n int
		if (d+a+b)%2 == 0 {
			n = xor.XorBytes(mem[d:d+ld:d+ld], mem[a:a+la:a+la], mem[b:b+lb:b+lb])
		} else {
			// slices whose capacity extends beyond their length: nothing beyond len may be read or written
			n = xor.XorBytes(mem[d:d+ld], mem[a:a+la], mem[b:b+lb])
		}
		o := make([]string, 0, len(mem)+1)
		o = append(o, common.I(n))
		for _, x := range mem {
			o = append(o, common.I(x))
		}
		h.Obs = append(h.Obs, o)
	}
}

func gen(r *rand.Rand, exhaustiveIdx int) *common.History {
	h := &common.History{Conf: []string{"1"}}
	size := 96 + r.IntN(64)
	memop := make([]string, size)
	for i := range memop {
		memop[i] = common.I(r.IntN(256))
	}
	h.Ops = append(h.Ops, memop)
	ncalls := 1 + r.IntN(4)
	for c := 0; c < ncalls; c++ {
		la, lb := r.IntN(41), r.IntN(41)
		if r.IntN(4) == 0 {
			la = []int{0, 1, 7, 8, 9, 15, 16, 17, 23, 24, 25, 31, 32, 33}[r.IntN(14)]
		}
		if r.IntN(3) == 0 {
			lb = la + r.IntN(3) - 1
			if lb < 0 {
				lb = 0
			}
		}
		n := min(la, lb)
		ld := n + r.IntN(4)
		var d, a, b int
		mode := r.IntN(6)
		// lay the three views out without forbidden overlap
		switch mode {
		case 0: // dst == a
			ld = max(ld, la)
			if ld > la {
				ld = la
			}
			if ld < n {
				ld = n
			}
			d = r.IntN(8)
			a = d
			ld = la
			b = d + max(la, ld) + r.IntN(9)
			h.Tags = append(h.Tags, "alias_dst_a")
		case 1: // dst == b
			d = r.IntN(8)
			b = d
			ld = lb
			a = d + max(lb, ld) + r.IntN(9)
			h.Tags = append(h.Tags, "alias_dst_b")
		case 2: // dst == a == b
			d = r.IntN(8)
			a, b = d, d
			lb = la
			ld = la
			h.Tags = append(h.Tags, "alias_all")
		case 3: // a == b, dst elsewhere
			a = r.IntN(8)
			b = a
			d = a + max(la, lb) + r.IntN(9)
			h.Tags = append(h.Tags, "alias_a_b")
		default: // all disjoint, in random order, every alignment
			offs := []int{0, 0, 0}
			lens := []int{ld, la, lb}
			perm := r.Perm(3)
			pos := r.IntN(8)
			for _, k := range perm {
				offs[k] = pos
				pos += lens[k] + r.IntN(9)
			}
			d, a, b = offs[0], offs[1], offs[2]
			h.Tags = append(h.Tags, "disjoint")
		}
		if d+ld > size || a+la > size || b+lb > size {
			c--
			continue
		}
		if n >= 8 {
			h.Tags = append(h.Tags, "has_word_loop")
		}
		if n%8 != 0 {
			h.Tags = append(h.Tags, "has_tail")
		}
		if d%8 != 0 || a%8 != 0 || b%8 != 0 {
			h.Tags = append(h.Tags, "unaligned")
		}
		h.Ops = append(h.Ops, []string{common.I(d), common.I(ld), common.I(a), common.I(la), common.I(b), common.I(lb)})
	}
	return h
}

func main() {
	a := common.ParseArgs()
	w := common.NewWriter(a.Out)
	if a.Replay != "" {
		hs, err := common.ReadHistories(a.Replay)
		if err != nil {
			panic(err)
		}
		for _, h := range hs {
			if a.Mode != "" {
				h.Conf = []string{a.Mode}
			}
			run(h)
			w.Put(h)
		}
	} else {
		r := common.Rng(a.Seed, 0x20)
		for i := 0; i < a.N; i++ {
			h := gen(r, i)
			if a.Mode != "" {
				h.Conf = []string{a.Mode}
			}
			run(h)
			w.Put(h)
		}
	}
	w.Close(a.Out)
}
