// loss: correspondence harness for vnet.LossFilter (C16). The filter draws from the global
// math/rand source; with GODEBUG=randseednop=0 the harness seeds it after construction and
// predicts every draw with a private source of the same seed.
package loss

import (
	"math/rand"
	randv2 "math/rand/v2"
	"testing"

	"github.com/pion/transport/v3/vnet"
	"verif/harness/common"
)

func init() { common.RegisterFlags() }

// conf = [chance; seed]; op = [id; draw (predicted); tcp]
func run(h *common.History) {
	chance := common.AtoI(h.Conf[0])
	seed := common.AtoI64(h.Conf[1])
	f, err := vnet.VerifNewLoss(chance)
	if err != nil {
		panic(err)
	}
	rand.Seed(seed) //nolint:staticcheck // the filter uses the global source
	pred := rand.New(rand.NewSource(seed))
	h.Obs = nil
	fw, dr := 0, 0
	for i, op := range h.Ops {
		id := common.AtoI(op[0])
		h.Ops[i][1] = common.I(pred.Intn(100))
		f.Push(id, 4+id%9, op[2] == "1")
		got := f.Sink.Take()
		switch {
		case len(got) == 0:
			h.Obs = append(h.Obs, []string{"0", "1"})
			dr++
		case len(got) == 1 && got[0].ID == id:
			h.Obs = append(h.Obs, []string{"1", common.B(got[0].Intact)})
			fw++
		default:
			h.Obs = append(h.Obs, []string{"9", common.I(len(got))}) // duplicate or foreign chunk
		}
	}
	if fw > 0 && dr > 0 {
		h.Tags = append(h.Tags, "mixed")
	}
}

func gen(r *randv2.Rand) *common.History {
	chances := []int{0, 0, 1, 2, 5, 30, 50, 70, 98, 99, 100, 100, 101, 150, 255, 256, 300, 65536, -1, -5, -256}
	h := &common.History{Conf: []string{common.I(chances[r.IntN(len(chances))]), common.I(r.Int64N(1 << 40))}}
	n := 10 + r.IntN(300)
	if r.IntN(20) == 0 {
		n = 2000
	}
	for i := 0; i < n; i++ {
		h.Ops = append(h.Ops, []string{common.I(i + 1), "0", common.B(r.IntN(6) == 0)})
	}
	return h
}

func TestHarness(t *testing.T) {
	a := common.GetArgs()
	w := common.NewWriter(a.Out)
	var hs []*common.History
	if a.Replay != "" {
		var err error
		hs, err = common.ReadHistories(a.Replay)
		if err != nil {
			t.Fatal(err)
		}
	} else {
		r := common.Rng(a.Seed, 0x16)
		for i := 0; i < a.N; i++ {
			hs = append(hs, gen(r))
		}
	}
	for _, h := range hs {
		run(h)
		w.Put(h)
	}
	w.Close(a.Out)
}
