// nat: correspondence harness for vnet's NAT translator (C02, C03), run inside a
// testing/synctest bubble so that mapping lifetimes are exact.
package nat

import (
	"encoding/binary"
	"math/rand/v2"
	"net"
	"testing"
	"testing/synctest"
	"time"

	"github.com/pion/transport/v3/vnet"
	"verif/harness/common"
)

func init() { common.RegisterFlags() }

func ipOf(v uint32) net.IP {
	b := make(net.IP, 4)
	binary.BigEndian.PutUint32(b, v)
	return b
}

func u32(ip net.IP) uint32 { return binary.BigEndian.Uint32(ip.To4()) }

func run(h *common.History) {
	c := h.Conf
	k := common.AtoI(c[4])
	var mapped, local []net.IP
	for i := 0; i < k; i++ {
		mapped = append(mapped, ipOf(uint32(common.AtoU64(c[5+i]))))
	}
	for i := 0; i < k && 5+k+i < len(c); i++ {
		local = append(local, ipOf(uint32(common.AtoU64(c[5+k+i]))))
	}
	flags := common.AtoI(c[0]) // bit 0: 1:1 mode; bits 1, 2: the options PortPreservation and Hairpinning ("not implemented yet")
	n, err := vnet.VerifNewNAT(flags&1 != 0, common.AtoI(c[1]), common.AtoI(c[2]), time.Duration(common.AtoI(c[3])), mapped, local,
		flags&2 != 0, flags&4 != 0)
	if err != nil {
		panic(err)
	}
	t0 := time.Now()
	h.Obs = nil
	nOk, nErr, nExpired := 0, 0, 0
	for i, op := range h.Ops {
		at := t0.Add(time.Duration(common.AtoI(op[1])))
		if d := time.Until(at); d > 0 {
			time.Sleep(d)
		}
		src := &net.UDPAddr{IP: ipOf(uint32(common.AtoU64(op[2]))), Port: common.AtoI(op[3])}
		dst := &net.UDPAddr{IP: ipOf(uint32(common.AtoU64(op[4]))), Port: common.AtoI(op[5])}
		// the same address in its 4-byte and its 16-byte form is the same address (a function of the position in the history,
		// so that a replay uses the same forms)
		switch (i + src.Port + dst.Port) % 4 {
		case 1:
			dst.IP = dst.IP.To16()
		case 2:
			src.IP = src.IP.To16()
		case 3:
			src.IP, dst.IP = src.IP.To16(), dst.IP.To16()
		}
		payload := []byte{byte(len(h.Obs)), 7, 9}
		kind, addr := n.Translate(common.AtoI(op[0]), src, dst, payload)
		if kind == 0 {
			nOk++
			h.Obs = append(h.Obs, []string{"0", common.I(u32(addr.IP)), common.I(addr.Port)})
		} else {
			if kind == 2 {
				nErr++
			}
			h.Obs = append(h.Obs, []string{common.I(kind)})
		}
	}
	_ = nExpired
	if nOk >= 3 && nErr >= 1 {
		h.Tags = append(h.Tags, "nontrivial")
	}
}

const (
	lanBase = 0xC0A80000 // 192.168.0.0
	wanBase = 0x01020300 // 1.2.3.0
)

func gen(r *rand.Rand, long bool) *common.History {
	h := &common.History{}
	oneToOne := r.IntN(6) == 0 && !long
	mb, fb := r.IntN(3), r.IntN(3)
	life := []int64{0, 30e9, 5e9, 1e9, 100e6}[r.IntN(5)]
	k := 1 + r.IntN(3)
	flags := 0
	if oneToOne {
		flags = 1
	}
	if r.IntN(3) == 0 {
		flags |= 2 * (1 + r.IntN(3)) // PortPreservation and / or Hairpinning requested
	}
	h.Conf = []string{common.I(flags), common.I(mb), common.I(fb), common.I(life), common.I(k)}
	natIPs := make([]uint32, k)
	locIPs := make([]uint32, k)
	for i := 0; i < k; i++ {
		natIPs[i] = wanBase + 0x0A + uint32(i)
		h.Conf = append(h.Conf, common.I(natIPs[i]))
	}
	chained := oneToOne && k >= 2 && r.IntN(3) == 0
	for i := 0; i < k; i++ {
		locIPs[i] = lanBase + 0x65 + uint32(i)
		if chained && i == 1 {
			locIPs[i] = natIPs[0] // an IP that is external in one pair and local in the next
		}
		if oneToOne {
			h.Conf = append(h.Conf, common.I(locIPs[i]))
		}
	}
	if oneToOne {
		h.Tags = append(h.Tags, "one_to_one")
		if chained {
			h.Tags = append(h.Tags, "one_to_one_chained_pairs")
		}
	} else {
		h.Tags = append(h.Tags, "mapping_"+common.I(mb)+"_filtering_"+common.I(fb))
	}
	effLife := life
	if effLife == 0 {
		effLife = 30e9
	}
	// internal endpoints and remotes that share IPs and ports crosswise
	type ep struct {
		ip   uint32
		port int
	}
	internals := []ep{{lanBase + 0x65, 1000}, {lanBase + 0x65, 1001}, {lanBase + 0x66, 1000}, {lanBase + 0x67, 51}, {lanBase + 0x99, 5}}
	remotes := []ep{{wanBase + 0x50, 80}, {wanBase + 0x50, 81}, {wanBase + 0x51, 80}, {wanBase + 0x51, 5}, {0x0102032D, 1}, {0x01020304, 51}}
	if r.IntN(3) == 0 {
		// addresses whose textual forms are prefixes of one another (5.6.7.8 / 5.6.7.80, :5678 / :56780)
		remotes = []ep{{0x05060708, 5678}, {0x05060750, 5678}, {0x05060708, 56780}, {0x05060708, 567}, {0x05060755, 5678}, {wanBase + 0x50, 80}}
		h.Tags = append(h.Tags, "textual_prefix_remotes")
	}
	if r.IntN(4) == 0 {
		// keys that coincide once separators are dropped: local port ...1234 + remote 5.6.7.8 / local port ...123 + remote 45.6.7.8,
		// and local x.x.x.2:11 + ... / x.x.x.21:1
		internals = []ep{{lanBase + 0x02, 1234}, {lanBase + 0x02, 123}, {lanBase + 0x02, 11}, {lanBase + 0x15, 1}, {lanBase + 0x65, 1000}}
		remotes = []ep{{0x05060708, 80}, {0x2D060708, 80}, {0x05060708, 8}, {0x05060708, 808}, {0x2D060708, 8}, {wanBase + 0x50, 80}}
		h.Tags = append(h.Tags, "separator_collision_endpoints")
	}
	if flags&2 != 0 {
		// local ports inside the range the NAT allocates from
		internals = append(internals, ep{lanBase + 0x65, 0xC000}, ep{lanBase + 0x66, 0xC000}, ep{lanBase + 0x66, 0xC001})
		h.Tags = append(h.Tags, "local_ports_in_dynamic_range")
	}
	var external []ep // addresses handed out so far
	now := int64(0)
	nops := 30 + r.IntN(60)
	if long {
		nops = 16500 // past the 16384 ports of the dynamic range
		h.Tags = append(h.Tags, "port_range_exhausted")
	}
	for i := 0; i < nops; i++ {
		// time step
		switch r.IntN(12) {
		case 0:
			now += effLife
		case 1:
			now += effLife + 1
		case 2:
			now += effLife - 1
		case 3:
			now += 2 * effLife
		case 4:
			now++
		case 5, 6:
			now += effLife / 3
		}
		if long {
			src := ep{lanBase + 0x70 + uint32(i/60000), 2000 + i%60000}
			dst := remotes[r.IntN(len(remotes))]
			h.Ops = append(h.Ops, []string{"0", common.I(now), common.I(src.ip), common.I(src.port), common.I(dst.ip), common.I(dst.port)})
			continue
		}
		if r.IntN(100) < 55 {
			src := internals[r.IntN(len(internals))]
			dst := remotes[r.IntN(len(remotes))]
			if oneToOne && r.IntN(4) == 0 {
				// outbound from an external IP of a pair, or from the last configured local IP
				src.ip = append(natIPs, locIPs[k-1])[r.IntN(k+1)]
			}
			h.Ops = append(h.Ops, []string{"0", common.I(now), common.I(src.ip), common.I(src.port), common.I(dst.ip), common.I(dst.port)})
			// remember plausible external addresses (the harness learns the real ones when it runs; here we guess the next ports)
			external = append(external, ep{natIPs[0], 0xC000 + len(external)})
		} else {
			src := remotes[r.IntN(len(remotes))]
			var dst ep
			switch c := r.IntN(10); {
			case c < 6 && len(external) > 0:
				dst = external[r.IntN(len(external))]
				if len(external) > 6 && r.IntN(2) == 0 {
					dst = ep{natIPs[0], 0xC000 + r.IntN(8)}
				}
			case c < 7:
				dst = ep{natIPs[0], 0xC000 + 4000} // never allocated
			case c < 8:
				dst = ep{natIPs[k-1], 0xC000 + r.IntN(3)} // other router IP
			case c < 9:
				dst = ep{wanBase + 0x63, 0xC000} // not a router IP
			default:
				dst = ep{natIPs[0], 0xC000 + r.IntN(6)}
			}
			if oneToOne {
				dst = ep{natIPs[r.IntN(k)], 1000 + r.IntN(3)}
				switch r.IntN(6) {
				case 0:
					dst.ip = wanBase + 0x63
				case 1:
					dst.ip = locIPs[r.IntN(k)] // a configured local IP is not an external one
				}
			}
			h.Ops = append(h.Ops, []string{"1", common.I(now), common.I(src.ip), common.I(src.port), common.I(dst.ip), common.I(dst.port)})
		}
	}
	return h
}

func TestHarness(t *testing.T) {
	a := common.GetArgs()
	w := common.NewWriter(a.Out)
	var hs []*common.History
	if a.Replay != "" {
		var err error
		hs, err = common.ReadHistories(a.Replay)
		if err != nil {
			t.Fatal(err)
		}
	} else {
		r := common.Rng(a.Seed, 0x02)
		for i := 0; i < a.N; i++ {
			hs = append(hs, gen(r, (a.Mode == "long" || a.Seed%1000 == 0) && i == 0))
		}
	}
	synctest.Test(t, func(t *testing.T) {
		for _, h := range hs {
			run(h)
			w.Put(h)
		}
	})
	w.Close(a.Out)
}
