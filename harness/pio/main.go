// pio: correspondence harness for packetio.Buffer (C06, C07), sequential histories.
package main

import (
	"errors"
	"io"
	"math/rand/v2"

	"github.com/pion/transport/v3/packetio"
	"verif/harness/common"
)

const maxSize = 4 * 1024 * 1024

func genBytes(n int, x, d int) []byte {
	p := make([]byte, n)
	v := ((x % 256) + 256) % 256
	for i := range p {
		p[i] = byte(v)
		v = (((v + d) % 256) + 256) % 256
	}
	return p
}

func bsums(bs []byte) (int64, int64) {
	var s1, s2 int64
	for i, x := range bs {
		s1 += int64(x)
		s2 += int64(i+1) * int64(x)
	}
	return s1, s2
}

type runner struct {
	b      *packetio.Buffer
	closed bool
	tags   map[string]bool
	maxLen int
}

// conf is "1" when the ring grew beyond what the list-based ring model replays quickly;
// such histories are compared with the FIFO Spec (proved equivalent to the ring model).
func (r *runner) conf() []string {
	if r.maxLen > 400000 {
		return []string{"1"}
	}
	return []string{"0"}
}

func newRunner() *runner { return &runner{b: packetio.NewBuffer(), tags: map[string]bool{}} }

func writeErrClass(err error) string {
	switch {
	case err == nil:
		return "0"
	case errors.Is(err, io.ErrClosedPipe):
		return "2"
	case errors.Is(err, packetio.ErrFull):
		return "3"
	case err.Error() == "packet too big":
		return "1"
	}
	return "99"
}

// exec runs one wire operation and returns its observation.
func (r *runner) exec(op []string) []string {
	switch op[0] {
	case "1", "8":
		var p []byte
		if op[0] == "1" {
			p = make([]byte, len(op)-1)
			for i, s := range op[1:] {
				p[i] = byte(common.AtoI(s))
			}
		} else {
			p = genBytes(common.AtoI(op[1]), common.AtoI(op[2]), common.AtoI(op[3]))
		}
		h0, t0, l0 := r.b.VerifState()
		n, err := r.b.Write(p)
		h1, _, l1 := r.b.VerifState()
		if l1 > r.maxLen {
			r.maxLen = l1
		}
		plen := len(p)
		for i := range p { // the caller may reuse its slice at once
			p[i] = 0xFF
		}
		cls := writeErrClass(err)
		if err == nil && n != plen {
			cls = "98"
		}
		if err == nil {
			if l1 != l0 {
				r.tags["grow"] = true
				if t0 < h0 {
					r.tags["grow_discontiguous"] = true
				}
				if l0 >= 128*1024 {
					r.tags["grow_5_4"] = true
				}
				if l1 == maxSize {
					r.tags["grow_to_cap"] = true
				}
			} else if l0 > 0 {
				if t0 == l0-1 {
					r.tags["write_header_split"] = true
				}
				if t0+2 == l0 {
					r.tags["write_header_ends_at_ring_end"] = true
				}
				if t0+2 < l0 && t0+2+plen > l0 {
					r.tags["write_payload_split"] = true
				}
				if t0+2+plen == l0 {
					r.tags["write_ends_at_ring_end"] = true
				}
			}
			_ = h1
			if plen == 0 {
				r.tags["write_empty"] = true
			}
			if plen == 65535 {
				r.tags["write_65535"] = true
			}
		} else {
			r.tags["write_err_"+cls] = true
		}
		return []string{cls}
	case "2":
		k := common.AtoI(op[1])
		if !r.closed && r.b.Count() == 0 {
			// would block: the sequential harness never issues such a read
			return []string{"3", "0", "1"}
		}
		h0, _, l0 := r.b.VerifState()
		dst := make([]byte, k+8)
		for i := range dst {
			dst[i] = 0xA5
		}
		n, err := r.b.Read(dst[:k])
		cls := "0"
		switch {
		case err == nil:
		case errors.Is(err, io.ErrShortBuffer):
			cls = "1"
			r.tags["read_short"] = true
		case errors.Is(err, io.EOF):
			cls = "2"
			r.tags["read_eof"] = true
		default:
			cls = "99"
		}
		guard := "1"
		for i := n; i < len(dst); i++ {
			if dst[i] != 0xA5 {
				guard = "0"
			}
		}
		if n < 0 || n > k {
			return []string{cls, common.I(n), "0"}
		}
		if cls != "2" && l0 > 0 {
			if h0 == l0-1 {
				r.tags["read_header_split"] = true
			}
			if h0+2 < l0 && h0+2+n > l0 {
				r.tags["read_payload_split"] = true
			}
			h1, t1, _ := r.b.VerifState()
			if h1 == 0 && t1 == 0 && h0 != 0 {
				r.tags["read_reset_to_zero"] = true
			}
		}
		out := []string{cls, common.I(n), guard}
		if n <= 32 {
			for _, x := range dst[:n] {
				out = append(out, common.I(x))
			}
		} else {
			s1, s2 := bsums(dst[:n])
			out = append(out, common.I(s1), common.I(s2))
		}
		return out
	case "3":
		r.b.SetLimitCount(common.AtoI(op[1]))
		return nil
	case "4":
		r.b.SetLimitSize(common.AtoI(op[1]))
		return nil
	case "5":
		_ = r.b.Close()
		r.closed = true
		return nil
	case "6":
		return []string{common.I(r.b.Count())}
	default:
		return []string{common.I(r.b.Size())}
	}
}

func pick[T any](r *rand.Rand, xs []T) T { return xs[r.IntN(len(xs))] }

var growthSizes = func() []int {
	var g []int
	n := 2048
	for n < maxSize {
		g = append(g, n)
		if n < 128*1024 {
			n *= 2
		} else {
			n = 5 * n / 4
		}
	}
	return append(g, maxSize)
}()

var limitSizes = []int{0, 0, 1, 2, 3, 7, 30, 100, 301, 2047, 2048, 2049, 4095, 4096, 4097, 65535, 65536, 65537, 65538,
	131071, 131072, 131073, 163840, 1 << 20, maxSize - 2, maxSize - 1, maxSize, maxSize + 1, maxSize + 2, 6 << 20, -1}

// genHistory produces and runs one history (the generator steers by the buffer's state).
func genHistory(rng *rand.Rand) *common.History {
	h := &common.History{Conf: []string{"0"}}
	r := newRunner()
	do := func(op ...string) {
		h.Ops = append(h.Ops, op)
		h.Obs = append(h.Obs, r.exec(op))
	}
	wr := func(n int) {
		if n < 0 {
			n = 0
		}
		do("8", common.I(n), common.I(rng.IntN(256)), common.I(rng.IntN(7)))
	}
	mode := rng.IntN(10)
	if (mode == 5 || mode == 7) && rng.IntN(5) != 0 {
		mode = rng.IntN(5) // big-packet histories are expensive for the list-based model: keep them rare
	}
	nops := 40 + rng.IntN(160)
	maxLen := 40
	switch mode {
	case 0, 1, 2: // small ring churn under a small size limit: head/tail visit every position
		do("4", common.I(pick(rng, []int{9, 17, 30, 31, 64, 100, 257, 301, 1000, 2047, 2049})))
		maxLen = 12
	case 3, 4: // growth with data present
		maxLen = 3000
	case 5: // big packets, growth up to the cap
		maxLen = 65535
		nops = 60 + rng.IntN(90)
	case 6: // limits changed at run time
		maxLen = 2500
	case 7:
		maxLen = 70000
		nops = 30 + rng.IntN(40)
	default:
		maxLen = 300
	}
	for i := 0; i < nops; i++ {
		hd, tl, ln := r.b.VerifState()
		size := r.b.Size()
		cnt := r.b.Count()
		_ = hd
		c := rng.IntN(100)
		switch {
		case c < 38: // write
			n := rng.IntN(maxLen + 1)
			switch rng.IntN(12) {
			case 0:
				n = pick(rng, []int{0, 0, 1, 2, 3})
			case 1: // land relative to the ring end
				n = ln - tl - 2 - pick(rng, []int{-2, -1, 0, 1, 2, 3})
			case 2: // fill the ring exactly / one more than fits
				n = ln - 1 - size - 2 - pick(rng, []int{-1, 0, 0, 1})
			case 3: // approach the next growth size
				for _, g := range growthSizes {
					if g-1 > size+2 && g-1-size-2 <= 65535 {
						n = g - 1 - size - 2 - pick(rng, []int{-1, 0, 1})
						break
					}
				}
			case 4:
				if mode == 5 || mode == 7 {
					n = pick(rng, []int{65535, 65535, 65534, 65536, 65537, 60000})
				}
			}
			if n > 70000 {
				n = 70000
			}
			wr(n)
		case c < 70: // read
			if cnt == 0 && !r.closed {
				wr(rng.IntN(maxLen + 1))
				continue
			}
			k := pick(rng, []int{1500, 65535, 70000, 100, 3000})
			if rng.IntN(5) == 0 {
				k = rng.IntN(maxLen + 2)
			}
			if rng.IntN(12) == 0 {
				k = 0
			}
			do("2", common.I(k))
		case c < 76:
			do("6")
		case c < 84:
			do("7")
		case c < 88 && (mode == 6 || rng.IntN(6) == 0):
			do("3", common.I(pick(rng, []int{0, 1, 2, 3, 5, cnt, cnt + 1, cnt - 1, 50, -1})))
		case c < 93 && (mode == 6 || mode == 5 || rng.IntN(8) == 0):
			l := pick(rng, limitSizes)
			if rng.IntN(3) == 0 {
				l = size + pick(rng, []int{-3, -2, -1, -1, 0, 1, 2, 3, 10, 100})
			}
			do("4", common.I(l))
		case c < 94 && rng.IntN(4) == 0:
			do("5")
		default: // drain
			if rng.IntN(3) == 0 {
				for j := 0; j < cnt && j < 400; j++ {
					do("2", "70000")
				}
			} else if cnt > 0 {
				do("2", "70000")
			}
		}
	}
	// always end with Count/Size and a drain so that everything written is compared
	do("6")
	do("7")
	for j, cnt := 0, r.b.Count(); j < cnt && j < 3000; j++ {
		do("2", "70000")
	}
	do("6")
	do("7")
	for t := range r.tags {
		h.Tags = append(h.Tags, t)
	}
	h.Conf = r.conf()
	return h
}

// capWalk: one long history towards the 4 MiB cap (and the F18 scenario)
func capWalk(rng *rand.Rand, variant int) *common.History {
	h := &common.History{Conf: []string{"0"}}
	r := newRunner()
	do := func(op ...string) {
		h.Ops = append(h.Ops, op)
		h.Obs = append(h.Obs, r.exec(op))
	}
	if variant%2 == 1 {
		do("4", common.I(6<<20))
	}
	target := maxSize
	if variant%2 == 1 {
		target = 5 << 20
	}
	for r.b.Size() < target-70000 {
		do("8", common.I(65000+rng.IntN(536)), common.I(rng.IntN(256)), "1")
		if rng.IntN(9) == 0 {
			do("2", "70000")
		}
	}
	if variant%2 == 1 {
		do("4", "0")
	}
	for i := 0; i < 6; i++ {
		rem := maxSize - 1 - r.b.Size() - 2
		n := rem - pick(rng, []int{-1, 0, 1, 2, 700})
		if n > 65535 {
			n = 65535 - rng.IntN(3)
		}
		if n < 0 {
			n = rng.IntN(3)
		}
		do("8", common.I(n), "1", "1")
		do("7")
		do("6")
	}
	for j, cnt := 0, r.b.Count(); j < cnt; j++ {
		do("2", "70000")
	}
	do("7")
	for t := range r.tags {
		h.Tags = append(h.Tags, t)
	}
	h.Tags = append(h.Tags, "cap_walk")
	h.Conf = r.conf()
	return h
}

func main() {
	a := common.ParseArgs()
	w := common.NewWriter(a.Out)
	if a.Replay != "" {
		hs, err := common.ReadHistories(a.Replay)
		if err != nil {
			panic(err)
		}
		for _, h := range hs {
			r := newRunner()
			for _, op := range h.Ops {
				h.Obs = append(h.Obs, r.exec(op))
			}
			for t := range r.tags {
				h.Tags = append(h.Tags, t)
			}
			h.Conf = r.conf()
			w.Put(h)
		}
	} else {
		rng := common.Rng(a.Seed, 0x10)
		for i := 0; i < a.N; i++ {
			if a.Mode == "cap" {
				w.Put(capWalk(rng, i))
			} else {
				w.Put(genHistory(rng))
			}
		}
	}
	w.Close(a.Out)
}
