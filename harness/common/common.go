// Package common holds what every correspondence harness shares: the seeded PRNG,
// the line format read by modelrun, and command-line handling.
package common

import (
	"bufio"
	"flag"
	"fmt"
	"math/rand/v2"
	"os"
	"strconv"
	"strings"
)

// Args are the flags every harness accepts.
type Args struct {
	Seed   uint64
	N      int
	Out    string
	Replay string
	Mode   string
}

var regArgs Args

// RegisterFlags declares the common flags without parsing (for harnesses built as test
// binaries, where package testing parses the command line).
func RegisterFlags() {
	flag.Uint64Var(&regArgs.Seed, "seed", 1, "PRNG seed")
	flag.IntVar(&regArgs.N, "n", 100, "number of histories to generate")
	flag.StringVar(&regArgs.Out, "out", "", "output file (default stdout)")
	flag.StringVar(&regArgs.Replay, "replay", "", "file of histories (conf # ops [# ...]) to run instead of generating")
	flag.StringVar(&regArgs.Mode, "mode", "", "harness specific mode")
}

// GetArgs returns the flags registered by RegisterFlags after parsing.
func GetArgs() Args { return regArgs }

// ParseArgs reads the common flags.
func ParseArgs() Args {
	RegisterFlags()
	flag.Parse()
	return regArgs
}

// Rng is the single PRNG stream of a run.
func Rng(seed uint64, stream uint64) *rand.Rand {
	return rand.New(rand.NewPCG(seed, stream))
}

// History is one generated case: a configuration, operations, and (after running the
// implementation) one observation per operation.
type History struct {
	Conf []string
	Ops  [][]string
	Obs  [][]string
	Tags []string // coverage tags measured while generating/running
}

// I formats integers for the wire.
func I[T ~int | ~int64 | ~uint64 | ~uint | ~int32 | ~uint32 | ~uint16 | ~uint8](v T) string {
	return fmt.Sprint(v)
}

// B formats a bool as 0/1.
func B(b bool) string {
	if b {
		return "1"
	}
	return "0"
}

func joinSegs(segs [][]string) string {
	parts := make([]string, len(segs))
	for i, s := range segs {
		parts[i] = strings.Join(s, " ")
	}
	return strings.Join(parts, "|")
}

// Line renders "conf # ops # obs".
func (h *History) Line() string {
	return strings.Join(h.Conf, " ") + " # " + joinSegs(h.Ops) + " # " + joinSegs(h.Obs)
}

func splitSegs(s string) [][]string {
	s = strings.TrimSpace(s)
	if s == "" {
		return nil
	}
	var out [][]string
	for _, seg := range strings.Split(s, "|") {
		out = append(out, strings.Fields(seg))
	}
	return out
}

// ParseLine reads "conf # ops [# obs]".
func ParseLine(line string) *History {
	secs := strings.Split(line, "#")
	h := &History{}
	if len(secs) > 0 {
		h.Conf = strings.Fields(secs[0])
	}
	if len(secs) > 1 {
		h.Ops = splitSegs(secs[1])
	}
	return h
}

// ReadHistories loads a replay/corpus file; lines starting with "//" are comments.
func ReadHistories(path string) ([]*History, error) {
	f, err := os.Open(path)
	if err != nil {
		return nil, err
	}
	defer f.Close()
	var hs []*History
	sc := bufio.NewScanner(f)
	sc.Buffer(make([]byte, 1<<20), 1<<28)
	for sc.Scan() {
		line := strings.TrimSpace(sc.Text())
		if line == "" || strings.HasPrefix(line, "//") {
			continue
		}
		hs = append(hs, ParseLine(line))
	}
	return hs, sc.Err()
}

// Writer writes history lines and a trailing tag summary.
type Writer struct {
	w    *bufio.Writer
	f    *os.File
	tags map[string]int
}

// NewWriter opens the output.
func NewWriter(path string) *Writer {
	f := os.Stdout
	if path != "" {
		var err error
		f, err = os.Create(path)
		if err != nil {
			panic(err)
		}
	}
	return &Writer{w: bufio.NewWriterSize(f, 1<<20), f: f, tags: map[string]int{}}
}

// Put writes one history and accumulates its tags.
func (w *Writer) Put(h *History) {
	fmt.Fprintln(w.w, h.Line())
	seen := map[string]bool{}
	for _, t := range h.Tags {
		if !seen[t] {
			seen[t] = true
			w.tags[t]++
		}
	}
}

// Close flushes and writes the tag counts to <out>.tags.
func (w *Writer) Close(path string) {
	w.w.Flush()
	if path != "" {
		w.f.Close()
		tf, err := os.Create(path + ".tags")
		if err == nil {
			for k, v := range w.tags {
				fmt.Fprintf(tf, "%s %d\n", k, v)
			}
			tf.Close()
		}
	}
}

// Atoi64 parses a decimal uint64 wire value.
func AtoU64(s string) uint64 {
	v, err := strconv.ParseUint(s, 10, 64)
	if err != nil {
		panic(err)
	}
	return v
}

// AtoI64 parses a decimal int64.
func AtoI64(s string) int64 {
	v, err := strconv.ParseInt(s, 10, 64)
	if err != nil {
		panic(err)
	}
	return v
}

// AtoI parses a decimal int.
func AtoI(s string) int {
	v, err := strconv.ParseInt(s, 10, 64)
	if err != nil {
		panic(err)
	}
	return int(v)
}
