// Package vsched is the controlled scheduler used for trace validation of concurrent code
// (DESIGN.md section 3.5). It runs inside a testing/synctest bubble.
//
// Controlled goroutines are started with Go. Each runs until it reaches a yield point of the
// instrumented code (or blocks in a channel operation, or finishes); then it is parked. The
// test picks which parked goroutine to resume next with Step. Exactly one controlled goroutine
// is resumed at a time; synctest.Wait tells when it is parked or blocked again. Every
// synchronisation event is appended to the log in the order it happened.
package vsched

import (
	"bytes"
	"runtime"
	"strconv"
	"sync"
	"testing/synctest"
)

// State of a controlled goroutine as seen after the last Step.
const (
	AtYield  = iota // parked before the operation at Label
	NeedLock        // parked because the lock at Label was held; resuming retries
	Blocked         // inside a blocking channel operation / select / Wait
	Done
)

// G is one controlled goroutine.
type G struct {
	ID     int
	Name   string
	Label  string
	State  int
	Parent int // ID of the controlled goroutine that started it with GoChild, else -1 (0 for Go: unused)
	gate   chan struct{}
	goid   uint64
}

// Event is one log entry: kind Y (resumed at yield), L (lock acquired), B (lock busy), C (select
// case chosen), X (goroutine finished), R (result reported by the harness), E (environment action).
type Event struct {
	G     int
	Kind  string
	Label string
	K     int
}

// Sched is the scheduler.
type Sched struct {
	mu   sync.Mutex
	Gs   []*G
	Log  []Event
	byID map[uint64]*G
}

// New creates a scheduler.
func New() *Sched { return &Sched{byID: map[uint64]*G{}} }

func goid() uint64 {
	var buf [64]byte
	n := runtime.Stack(buf[:], false)
	f := bytes.Fields(buf[:n])
	id, _ := strconv.ParseUint(string(f[1]), 10, 64)
	return id
}

func (s *Sched) cur() *G {
	s.mu.Lock()
	defer s.mu.Unlock()
	return s.byID[goid()]
}

func (s *Sched) log(e Event) {
	s.mu.Lock()
	s.Log = append(s.Log, e)
	s.mu.Unlock()
}

// Record lets the harness add its own events (results, environment actions).
func (s *Sched) Record(g int, kind, label string, k int) { s.log(Event{g, kind, label, k}) }

// Go starts a controlled goroutine; it is parked until first stepped.
func (s *Sched) Go(name string, f func()) *G {
	g := &G{ID: len(s.Gs), Name: name, gate: make(chan struct{}), State: AtYield, Label: "start"}
	s.mu.Lock()
	s.Gs = append(s.Gs, g)
	s.mu.Unlock()
	go func() {
		s.mu.Lock()
		g.goid = goid()
		s.byID[g.goid] = g
		s.mu.Unlock()
		<-g.gate
		f()
		s.mu.Lock()
		g.State = Done
		s.mu.Unlock()
		s.log(Event{g.ID, "X", "", 0})
	}()
	synctest.Wait()
	return g
}

// GoChild starts a controlled goroutine from inside a controlled goroutine (the VGoHook of a
// "go" statement in instrumented code). It does not wait: the step of the parent ends - and the
// child is parked at its gate - when the scheduler's own synctest.Wait returns.
func (s *Sched) GoChild(name string, f func()) *G {
	parent := s.cur()
	s.mu.Lock()
	g := &G{ID: len(s.Gs), Name: name, gate: make(chan struct{}), State: AtYield, Label: "start", Parent: -1}
	if parent != nil {
		g.Parent = parent.ID
	}
	s.Gs = append(s.Gs, g)
	s.mu.Unlock()
	go func() {
		s.mu.Lock()
		g.goid = goid()
		s.byID[g.goid] = g
		s.mu.Unlock()
		<-g.gate
		f()
		s.mu.Lock()
		g.State = Done
		s.mu.Unlock()
		s.log(Event{g.ID, "X", "", 0})
	}()
	return g
}

// CurID returns the ID of the calling controlled goroutine, or -1.
func (s *Sched) CurID() int {
	if g := s.cur(); g != nil {
		return g.ID
	}
	return -1
}

// Yield is the VYieldHook: park before the operation at label.
func (s *Sched) Yield(label string) {
	g := s.cur()
	if g == nil {
		return // not a controlled goroutine
	}
	s.mu.Lock()
	g.State, g.Label = AtYield, label
	s.mu.Unlock()
	<-g.gate
	s.log(Event{g.ID, "Y", label, 0})
}

// Busy is the VBlockedHook: the lock is held; park and retry when resumed.
func (s *Sched) Busy(label string) {
	g := s.cur()
	if g == nil {
		runtime.Gosched()
		return
	}
	s.log(Event{g.ID, "B", label, 0})
	s.mu.Lock()
	g.State, g.Label = NeedLock, label
	s.mu.Unlock()
	<-g.gate
}

// Locked is the VLockedHook.
func (s *Sched) Locked(label string) {
	if g := s.cur(); g != nil {
		s.log(Event{g.ID, "L", label, 0})
	}
}

// Chose is the VChoseHook.
func (s *Sched) Chose(label string, k int) {
	if g := s.cur(); g != nil {
		s.log(Event{g.ID, "C", label, k})
	}
}

// Step resumes g (which must be AtYield or NeedLock) and waits until every controlled goroutine
// is parked, blocked or finished again.
func (s *Sched) Step(g *G) {
	s.mu.Lock()
	g.State = Blocked // until it reports otherwise
	s.mu.Unlock()
	g.gate <- struct{}{}
	synctest.Wait()
}

// Runnable returns the goroutines that can be stepped.
func (s *Sched) Runnable() []*G {
	s.mu.Lock()
	defer s.mu.Unlock()
	var out []*G
	for _, g := range s.Gs {
		if g.State == AtYield || g.State == NeedLock {
			out = append(out, g)
		}
	}
	return out
}

// Settle waits until woken goroutines are parked again (use after an environment action).
func (s *Sched) Settle() { synctest.Wait() }

// BlockedGs returns the goroutines that sit in a blocking operation.
func (s *Sched) BlockedGs() []*G {
	s.mu.Lock()
	defer s.mu.Unlock()
	var out []*G
	for _, g := range s.Gs {
		if g.State == Blocked {
			out = append(out, g)
		}
	}
	return out
}
