// dl: correspondence harness for deadline.Deadline (C09) with a harness-controlled timer,
// inside a testing/synctest bubble (so that time.Until sees the virtual clock).
package dl

import (
	"math/rand/v2"
	"testing"
	"testing/synctest"
	"time"

	"github.com/pion/transport/v3/deadline"
	"verif/harness/common"
)

func init() { common.RegisterFlags() }

func run(h *common.History) {
	t0 := common.AtoI(h.Conf[0])
	base := time.Now().Add(-time.Duration(t0)) // instant "0" of the history
	tm := &deadline.VerifTimer{}
	d := deadline.VerifNew(tm)
	outstanding := 0
	id := 0
	cur := d.Done()
	h.Obs = nil
	for _, op := range h.Ops {
		panicked := false
		func() {
			defer func() {
				if r := recover(); r != nil {
					panicked = true
				}
			}()
			switch op[0] {
			case "1":
				t := common.AtoI(op[1])
				if t == 0 {
					d.Set(time.Time{})
				} else {
					d.Set(base.Add(time.Duration(t)))
				}
			case "2": // the runtime dispatches a due, armed timer
				if tm.Armed && !tm.Due.After(time.Now()) {
					tm.Armed = false
					outstanding++
				}
			case "3": // a dispatched callback runs
				if outstanding > 0 {
					outstanding--
					d.VerifTimeout()
				}
			default:
				if dt := common.AtoI(op[1]); dt > 0 {
					time.Sleep(time.Duration(dt))
				}
			}
		}()
		ch := d.Done()
		if ch != cur {
			cur = ch
			id++
		}
		closed := false
		select {
		case <-ch:
			closed = true
		default:
		}
		dlT, ok := d.Deadline()
		dlv := int64(0)
		if ok {
			dlv = int64(dlT.Sub(base))
		}
		if tm.Armed && ok {
			// an armed timer is armed for the deadline in force (it was computed a few hundred nanoseconds of real time ago)
			if diff := tm.Due.Sub(dlT); diff > time.Millisecond || diff < -time.Millisecond {
				panicked = true
				h.Tags = append(h.Tags, "TIMER_ARMED_FOR_ANOTHER_INSTANT")
			}
		}
		h.Obs = append(h.Obs, []string{common.B(closed), common.I(id), common.B(d.Err() != nil), common.I(dlv), common.B(panicked)})
		if closed {
			h.Tags = append(h.Tags, "closed")
		}
		if outstanding >= 2 {
			h.Tags = append(h.Tags, "two_callbacks_outstanding")
		}
	}
}

func gen(r *rand.Rand) *common.History {
	h := &common.History{Conf: []string{"1000"}}
	now := int64(1000)
	n := 8 + r.IntN(40)
	armed := false
	outstanding := 0
	for i := 0; i < n; i++ {
		switch c := r.IntN(100); {
		case c < 35:
			var t int64
			switch r.IntN(8) {
			case 7:
				t = now + 2_000_000_000 + r.Int64N(1_000_000_000_000) // seconds to a quarter of an hour ahead: never reached
			case 0:
				t = 0
			case 1:
				t = now - 1 - r.Int64N(500)
				if t <= 0 {
					t = 1
				}
			case 2:
				t = now
			case 3:
				t = now + 1
			default:
				t = now + 1 + r.Int64N(300)
			}
			h.Ops = append(h.Ops, []string{"1", common.I(t)})
			armed = t > now
			if outstanding > 0 && armed {
				h.Tags = append(h.Tags, "set_with_callback_outstanding")
			}
		case c < 60:
			h.Ops = append(h.Ops, []string{"4", common.I([]int64{0, 1, 50, 150, 400}[r.IntN(5)])})
			now += common.AtoI64(h.Ops[len(h.Ops)-1][1])
		case c < 80:
			h.Ops = append(h.Ops, []string{"2"})
			if armed {
				outstanding++ // approximate bookkeeping, only used for tags
				armed = false
			}
		default:
			h.Ops = append(h.Ops, []string{"3"})
			if outstanding > 0 {
				outstanding--
			}
		}
	}
	// let everything settle: advance, dispatch, run
	h.Ops = append(h.Ops, []string{"4", "1000"}, []string{"2"}, []string{"3"}, []string{"3"}, []string{"3"}, []string{"3"})
	return h
}

func TestHarness(t *testing.T) {
	a := common.GetArgs()
	w := common.NewWriter(a.Out)
	var hs []*common.History
	if a.Replay != "" {
		var err error
		hs, err = common.ReadHistories(a.Replay)
		if err != nil {
			t.Fatal(err)
		}
	} else {
		r := common.Rng(a.Seed, 0x09)
		for i := 0; i < a.N; i++ {
			hs = append(hs, gen(r))
		}
	}
	synctest.Test(t, func(t *testing.T) {
		for _, h := range hs {
			run(h)
			w.Put(h)
		}
	})
	w.Close(a.Out)
}
