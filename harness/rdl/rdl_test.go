// rdl: correspondence harness for read deadlines (C10) on the five connection types of the
// module, inside testing/synctest bubbles: a script goroutine executes timed events, a reader
// goroutine performs the requested reads; return instants are virtual and exact.
package rdl

import (
	"errors"
	"io"
	"math/rand/v2"
	"net"
	"os"
	"testing"
	"testing/synctest"
	"time"

	"github.com/pion/transport/v3/dpipe"
	"github.com/pion/transport/v3/packetio"
	ttest "github.com/pion/transport/v3/test"
	"github.com/pion/transport/v3/udp"
	"github.com/pion/transport/v3/vnet"
	"verif/harness/common"
)

func init() { common.RegisterFlags() }

// adapter over one connection type
type adapter struct {
	read            func(p []byte) (int, error)
	setReadDeadline func(t time.Time)
	setDeadline     func(t time.Time) // nil: the type has no SetDeadline
	deliver         func(p []byte)    // data becomes available to the reader
	closeConn       func()            // nil: Close is not scripted for this type
	afterEvent      func()            // e.g. Bridge.Tick
	latency         time.Duration     // time deliver() takes before the data is available
	cleanup         func()
}

func newAdapter(kind int) *adapter {
	switch kind {
	case 0:
		b := packetio.NewBuffer()
		return &adapter{read: b.Read, setReadDeadline: func(t time.Time) { _ = b.SetReadDeadline(t) },
			deliver: func(p []byte) { _, _ = b.Write(p) }, cleanup: func() { _ = b.Close() },
			// a closed Buffer hands out what it holds and then io.EOF; its deadline goes on working
			closeConn: func() { _ = b.Close() }}
	case 1:
		c0, c1 := dpipe.Pipe()
		return &adapter{read: c0.Read, setReadDeadline: func(t time.Time) { _ = c0.SetReadDeadline(t) },
			setDeadline: func(t time.Time) { _ = c0.SetDeadline(t) },
			deliver:     func(p []byte) { _, _ = c1.Write(p) }, cleanup: func() { _ = c0.Close(); _ = c1.Close() }}
	case 2:
		c := udp.VerifNewConn()
		return &adapter{read: c.Read, setReadDeadline: func(t time.Time) { _ = c.SetReadDeadline(t) },
			setDeadline: func(t time.Time) { _ = c.SetDeadline(t) },
			deliver:     func(p []byte) { _ = c.VerifDeliver(p) }, cleanup: func() {}}
	case 3:
		c, err := vnet.VerifNewUDPConn()
		if err != nil {
			panic(err)
		}
		return &adapter{read: c.Read, setReadDeadline: func(t time.Time) { _ = c.SetReadDeadline(t) },
			setDeadline: func(t time.Time) { _ = c.SetDeadline(t) },
			deliver:     c.VerifDeliver, cleanup: func() { _ = c.Close() }}
	default:
		br := ttest.NewBridge()
		c0, c1 := br.GetConn0(), br.GetConn1()
		return &adapter{read: c0.Read, setReadDeadline: func(t time.Time) { _ = c0.SetReadDeadline(t) },
			setDeadline: func(t time.Time) { _ = c0.SetDeadline(t) },
			deliver:     func(p []byte) { _, _ = c1.Write(p) }, latency: 10 * time.Microsecond,
			afterEvent: func() { br.Tick() },
			cleanup: func() {
				_ = c0.Close()
				_ = c1.Close()
				br.Tick()
			}}
	}
}

func isTimeout(err error) bool {
	var ne net.Error
	if errors.As(err, &ne) && ne.Timeout() {
		return true
	}
	return errors.Is(err, os.ErrDeadlineExceeded) || (err != nil && err.Error() == "context deadline exceeded")
}

// conf [kind]; ops [t; 1; d] SetReadDeadline | [t; 2; d] SetDeadline | [t; 3; id] Arrive | [t; 4] StartRead | [t; 0] end
func run(h *common.History) {
	kind := common.AtoI(h.Conf[0])
	a := newAdapter(kind)
	t0 := time.Now()
	at := func(ns int64) time.Time {
		if ns == 0 {
			return time.Time{}
		}
		if ns == 1 || ns == 2 {
			return time.Unix(0, ns-1) // the customary "already expired" sentinels: the Unix epoch and one nanosecond after it
		}
		return t0.Add(time.Duration(ns))
	}
	reqCh := make(chan int, 1024) // size of the destination slice of the requested read
	type res struct {
		t   int64
		cls int
		id  int
	}
	var results []res
	done := make(chan struct{})
	go func() {
		defer close(done)
		for size := range reqCh {
			buf := make([]byte, size)
			n, err := a.read(buf)
			r := res{t: int64(time.Since(t0))}
			switch {
			case err == nil && n >= 1:
				r.id = int(buf[0])
			case isTimeout(err):
				r.cls = 1
			case errors.Is(err, io.EOF):
				r.cls = 2
			default:
				r.cls = 9
			}
			results = append(results, r)
		}
	}()
	for _, op := range h.Ops {
		t := common.AtoI64(op[0])
		lat := time.Duration(0)
		if op[1] == "3" {
			lat = a.latency
		}
		if d := time.Until(t0.Add(time.Duration(t) - lat)); d > 0 {
			time.Sleep(d)
		}
		switch op[1] {
		case "1":
			a.setReadDeadline(at(common.AtoI64(op[2])))
		case "2":
			if a.setDeadline != nil {
				a.setDeadline(at(common.AtoI64(op[2])))
			} else {
				a.setReadDeadline(at(common.AtoI64(op[2])))
			}
		case "3":
			a.deliver([]byte{byte(common.AtoI(op[2])), 1, 2})
		case "4":
			reqCh <- 16
		case "5":
			reqCh <- 0 // a zero-length read, only scripted while the deadline in force has passed: must time out too
		case "6":
			if a.closeConn != nil {
				a.closeConn()
				h.Tags = append(h.Tags, "closed_with_deadline_history")
			}
		}
		synctest.Wait()
		if a.afterEvent != nil {
			a.afterEvent()
			synctest.Wait()
		}
	}
	// release a reader that is still blocked (no deadline in force): not part of the compared results
	nres := len(results)
	a.setReadDeadline(time.Now().Add(-time.Hour))
	synctest.Wait()
	close(reqCh)
	<-done
	a.cleanup()
	h.Obs = nil
	nt, nd := 0, 0
	for _, r := range results[:nres] {
		h.Obs = append(h.Obs, []string{common.I(r.t), common.I(r.cls), common.I(r.id)})
		if r.cls == 1 {
			nt++
		} else {
			nd++
		}
	}
	if nt > 0 && nd > 0 {
		h.Tags = append(h.Tags, "nontrivial")
	}
	h.Tags = append(h.Tags, []string{"buffer", "dpipe", "udp_conn", "vnet_udpconn", "bridge"}[kind])
}

const ms = int64(1000000)

func gen(r *rand.Rand, kind int) *common.History {
	h := &common.History{Conf: []string{common.I(kind)}}
	now := int64(0)
	used := map[int64]bool{} // instants already used by script events or deadlines: no ties
	fresh := func(t int64) int64 {
		for used[t] || t <= 0 {
			t += 7
		}
		used[t] = true
		return t
	}
	n := 8 + r.IntN(30)
	id := 0
	curDL := int64(0) // the deadline in force
	closeAt := -1
	if kind == 0 && r.IntN(3) == 0 {
		closeAt = n/3 + r.IntN(n-n/3) // Close somewhere in the later part, the deadline history goes on
	}
	for i := 0; i < n; i++ {
		now = fresh(now + []int64{1 * ms, 3 * ms, 10 * ms, 10 * ms, 2000 * ms, 50 * ms}[r.IntN(6)] + r.Int64N(1000))
		if i == closeAt {
			h.Ops = append(h.Ops, []string{common.I(now), "6"})
			continue
		}
		switch c := r.IntN(100); {
		case c < 30:
			var d int64
			switch r.IntN(6) {
			case 0:
				d = 0
			case 1:
				d = fresh(now - 1000*ms - r.Int64N(1000)) // already past
				if d >= now {
					d = 0
				}
				if r.IntN(3) == 0 {
					d = 1 + r.Int64N(2) // long past: time.Unix(0, 0) or time.Unix(0, 1)
				}
			case 2:
				d = fresh(now + 10*ms)
			case 3:
				d = fresh(now + 2000*ms)
			case 4:
				d = fresh(now + 3600000*ms)
				if r.IntN(2) == 0 {
					d = fresh(now + 280*365*24*3600000*ms) // beyond the year 2262 (the bubble's clock starts in 2000)
				}
			default:
				d = fresh(now + 25*ms)
			}
			which := "1"
			if r.IntN(3) == 0 {
				which = "2"
			}
			h.Ops = append(h.Ops, []string{common.I(now), which, common.I(d)})
			curDL = d
		case c < 55:
			id = id%250 + 1
			h.Ops = append(h.Ops, []string{common.I(now), "3", common.I(id)})
		default:
			if curDL != 0 && curDL < now && r.IntN(3) == 0 {
				h.Ops = append(h.Ops, []string{common.I(now), "5"})
			} else {
				h.Ops = append(h.Ops, []string{common.I(now), "4"})
			}
		}
	}
	now = fresh(now + 4000000*ms)
	h.Ops = append(h.Ops, []string{common.I(now), "0"})
	return h
}

func TestHarness(t *testing.T) {
	a := common.GetArgs()
	w := common.NewWriter(a.Out)
	var hs []*common.History
	if a.Replay != "" {
		var err error
		hs, err = common.ReadHistories(a.Replay)
		if err != nil {
			t.Fatal(err)
		}
	} else {
		r := common.Rng(a.Seed, 0x10)
		for i := 0; i < a.N; i++ {
			hs = append(hs, gen(r, i%5))
		}
	}
	for _, h := range hs {
		synctest.Test(t, func(*testing.T) { run(h) })
		w.Put(h)
	}
	w.Close(a.Out)
}
