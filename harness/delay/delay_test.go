// delay: correspondence / oracle harness for C14.
//
//	mode 0: Router with MinDelay, no jitter, inside testing/synctest: forward instants are exact
//	        and compared with the model;
//	mode 1: Router with MinDelay and MaxJitter inside synctest: Spec oracle on the observed log;
//	mode 2: DelayFilter in real time with one or several concurrently arriving senders: Spec
//	        oracle on the observed log (lower bound, order, exactly once, no panic, all forwarded).
package delay

import (
	"context"
	"math/rand/v2"
	"sync"
	"testing"
	"testing/synctest"
	"time"

	"github.com/pion/transport/v3/vnet"
	"verif/harness/common"
)

func init() { common.RegisterFlags() }

// conf [mode; delay ns; jitter ns]; op [t ns; id]; observation [t forward ns; id]
func runRouter(h *common.History) {
	d := time.Duration(common.AtoI64(h.Conf[1]))
	j := time.Duration(common.AtoI64(h.Conf[2]))
	jitter := j
	if h.Conf[0] == "3" {
		jitter = 0
	}
	qsize := 0
	if len(h.Conf) > 3 {
		qsize = common.AtoI(h.Conf[3])
	}
	v, err := vnet.VerifNewDelayRouter(d, jitter, qsize)
	if err != nil {
		panic(err)
	}
	if h.Conf[0] == "3" {
		v.Sink.Block = j // mode 3: the third parameter is how long the downstream NIC blocks per chunk
	}
	t0 := time.Now()
	for i, op := range h.Ops {
		at := t0.Add(time.Duration(common.AtoI64(op[0])))
		if dl := time.Until(at); dl > 0 {
			time.Sleep(dl)
		}
		h.Ops[i][0] = common.I(int64(time.Since(t0))) // with jitter the push may be delayed by the router's mutex
		v.Push(common.AtoI(op[1]), 8)
	}
	if h.Conf[0] == "0" || h.Conf[0] == "3" {
		time.Sleep(d + time.Duration(len(h.Ops)+1)*j + time.Second)
		synctest.Wait()
	} else {
		// real time (a jittering router sleeps while holding its mutex, which a synctest bubble cannot wait for)
		deadline := time.Now().Add(d + j + 2*time.Second)
		for time.Now().Before(deadline) && v.Sink.Len() < len(h.Ops) {
			time.Sleep(200 * time.Microsecond)
		}
	}
	h.Obs = nil
	for _, g := range v.Sink.Take() {
		h.Obs = append(h.Obs, []string{common.I(int64(g.At.Sub(t0))), common.I(g.ID)})
	}
	_ = v.R.Stop()
}

func runFilter(h *common.History) {
	d := time.Duration(common.AtoI64(h.Conf[1]))
	senders := int(common.AtoI64(h.Conf[2]))
	if senders < 1 {
		senders = 1
	}
	f, err := vnet.VerifNewDelay(d)
	if err != nil {
		panic(err)
	}
	ctx, cancel := context.WithCancel(context.Background())
	var panicked bool
	var wg sync.WaitGroup
	wg.Add(1)
	go func() {
		defer wg.Done()
		defer func() {
			if r := recover(); r != nil {
				panicked = true
			}
		}()
		f.Del.Run(ctx)
	}()
	t0 := time.Now()
	var mu sync.Mutex // serialises "take the arrival stamp + enqueue" so that the arrival order is known
	arr := make([][]string, 0, len(h.Ops))
	var sw sync.WaitGroup
	per := (len(h.Ops) + senders - 1) / senders
	for s := 0; s < senders; s++ {
		lo, hi := s*per, min((s+1)*per, len(h.Ops))
		if lo >= hi {
			continue
		}
		sw.Add(1)
		go func(s int, ops [][]string) {
			defer sw.Done()
			for _, op := range ops {
				op[1] = common.I(s*1000 + common.AtoI(op[1])%1000) // the id carries the sender
				if gap := time.Duration(common.AtoI64(op[0])); gap > 0 {
					time.Sleep(gap)
				}
				done := make(chan struct{})
				mu.Lock()
				stamp := time.Since(t0)
				arr = append(arr, []string{common.I(int64(stamp)), op[1]})
				id := common.AtoI(op[1])
				go func() { f.Push(id, 8, false); close(done) }()
				// the chunk is in the filter's queue once Push has taken the queue lock; give it a moment
				// before the next sender may stamp (keeps stamp order = queue order)
				time.Sleep(20 * time.Microsecond)
				mu.Unlock()
				select {
				case <-done:
				case <-time.After(3 * time.Second):
					return // the loop is dead (panic) or stuck
				}
			}
		}(s, h.Ops[lo:hi])
	}
	sw.Wait()
	deadline := time.Now().Add(d + 2*time.Second)
	var got []vnet.VerifGot
	for time.Now().Before(deadline) && len(got) < len(arr) {
		got = append(got, f.Sink.Take()...)
		time.Sleep(200 * time.Microsecond)
	}
	cancel()
	stopped := make(chan struct{})
	go func() { wg.Wait(); close(stopped) }()
	select {
	case <-stopped:
	case <-time.After(3 * time.Second):
		panicked = true // the loop neither forwards nor stops: reported like a crashed loop
	}
	h.Ops = arr
	h.Obs = nil
	for _, g := range got {
		h.Obs = append(h.Obs, []string{common.I(int64(g.At.Sub(t0))), common.I(g.ID)})
	}
	if panicked {
		h.Obs = append(h.Obs, []string{"-1", "0"})
	}
}

func gen(r *rand.Rand, mode int) *common.History {
	delays := []int64{0, 0, 500000, 1000000, 30000000, 5000000}
	d := delays[r.IntN(len(delays))]
	h := &common.History{}
	n := 5 + r.IntN(40)
	switch mode {
	case 3:
		// router in virtual time whose downstream NIC blocks for a while per chunk: arrivals around the
		// delay and around the blocking time, bursts and gaps
		d = []int64{10000000, 20000000, 5000000}[r.IntN(3)]
		blk := []int64{d / 4, d / 2, d, 2 * d, d/2 + 1}[r.IntN(5)]
		n = 3 + r.IntN(12)
		h.Conf = []string{"3", common.I(d), common.I(blk)}
		now := int64(0)
		for i := 0; i < n; i++ {
			switch r.IntN(7) {
			case 0:
				now += 0
			case 1:
				now += blk / 2
			case 2:
				now += d / 2
			case 3:
				now += d + blk/2
			case 4:
				now += blk
			default:
				now += r.Int64N(2*d + 1)
			}
			h.Ops = append(h.Ops, []string{common.I(now), common.I(i + 1)})
		}
	case 0, 1:
		if mode == 0 && r.IntN(3) == 0 {
			// bounded router queue that is never full and never empty: QueueSize 4, at most 3 chunks in flight (a gap of more than
			// delay/3 between arrivals), the next arrival always before the head is due
			d = []int64{6000000, 30000000}[r.IntN(2)]
			h.Conf = []string{"0", common.I(d), "0", "4"}
			now := int64(0)
			for i := 0; i < 12+r.IntN(30); i++ {
				now += d/3 + 1 + r.Int64N(d/2-d/3)
				h.Ops = append(h.Ops, []string{common.I(now), common.I(i + 1)})
			}
			h.Tags = append(h.Tags, "bounded_queue_below_capacity")
			return h
		}
		jit := int64(0)
		if mode == 1 {
			jit = []int64{1000000, 300000, 200000}[r.IntN(3)]
			if d > 5000000 {
				d = 3000000
			}
			n = 5 + r.IntN(15)
		}
		h.Conf = []string{common.I(mode), common.I(d), common.I(jit)}
		now := int64(0)
		for i := 0; i < n; i++ {
			switch r.IntN(8) {
			case 0:
				now += 0
			case 1:
				now += 1
			case 2:
				now += d
			case 3:
				now += d + 1
			case 4:
				if d > 0 {
					now += d - 1
				}
			case 5:
				now += 3 * d
			default:
				now += r.Int64N(d + 2000000)
			}
			h.Ops = append(h.Ops, []string{common.I(now), common.I(i + 1)})
		}
	default:
		if d > 5000000 {
			d = 2000000
		}
		senders := 1 + r.IntN(3)
		h.Conf = []string{"2", common.I(d), common.I(senders)}
		for i := 0; i < n; i++ {
			gap := int64(0)
			switch r.IntN(6) {
			case 0:
				gap = d
			case 1:
				gap = d + 50000
			case 2:
				gap = r.Int64N(d + 300000)
			}
			h.Ops = append(h.Ops, []string{common.I(gap), common.I(i + 1)})
		}
	}
	return h
}

func TestHarness(t *testing.T) {
	a := common.GetArgs()
	w := common.NewWriter(a.Out)
	var hs []*common.History
	if a.Replay != "" {
		var err error
		hs, err = common.ReadHistories(a.Replay)
		if err != nil {
			t.Fatal(err)
		}
	} else {
		r := common.Rng(a.Seed, 0x14)
		for i := 0; i < a.N; i++ {
			hs = append(hs, gen(r, []int{0, 0, 1, 2, 2, 3}[i%6]))
		}
	}
	for _, h := range hs {
		switch h.Conf[0] {
		case "2":
			runFilter(h)
			h.Tags = append(h.Tags, "delay_filter_realtime")
		case "1":
			runRouter(h)
			h.Tags = append(h.Tags, "router_jitter_realtime")
		case "3":
			synctest.Test(t, func(*testing.T) { runRouter(h) })
			h.Tags = append(h.Tags, "router_blocking_downstream_virtual_time")
		default:
			synctest.Test(t, func(*testing.T) { runRouter(h) })
			h.Tags = append(h.Tags, "router_exact_virtual_time")
		}
		w.Put(h)
	}
	w.Close(a.Out)
}
