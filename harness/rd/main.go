// rd: correspondence harness for replaydetector (C04, C05).
// Generates histories of Check/accept calls, runs them on the real detectors and
// prints "conf # ops # observations" lines for the model and the oracle.
package main

import (
	"math/rand/v2"

	"github.com/pion/transport/v3/replaydetector"
	"verif/harness/common"
)

var windows = []uint64{0, 1, 2, 3, 5, 31, 32, 33, 48, 50, 63, 64, 65, 100, 127, 128, 129, 191, 192, 193, 255, 256, 257, 320}

func pick[T any](r *rand.Rand, xs []T) T { return xs[r.IntN(len(xs))] }

func genConf(r *rand.Rand) (kind int, window, max uint64) {
	kind = r.IntN(2)
	if r.IntN(4) == 0 {
		window = r.Uint64N(401)
	} else {
		window = pick(r, windows)
	}
	var cands []uint64
	if kind == 0 {
		cands = []uint64{window, 2 * window, 2*window + 1, 1<<16 - 1, 1<<48 - 1, 1<<62 - 1, 1<<64 - 1, 1<<64 - 1, 1<<63 - 1, 1 << 63, 5, 7, 10, 100, 1000}
		if window > 0 {
			cands = append(cands, window-1)
		}
		if r.IntN(12) == 0 {
			cands = []uint64{0, 1, 2, 3}
		}
	} else {
		// mostly 2*window <= max+1 (the range C05 quantifies over), sometimes smaller
		cands = []uint64{2*window + 3, 2*window + 4, 2*window + 7, 4*window + 9, 1<<16 - 1, 1<<16 - 1, 1<<48 - 1, 1<<62 - 1, 1<<32 - 1, 1000, 1001}
		if window > 2 {
			cands = append(cands, 2*window-1, 2*window)
		}
		if r.IntN(8) == 0 {
			// C04 must hold for every configuration: small and odd ones too
			cands = []uint64{0, 1, 2, 3, 4, 5, 6, 7, 9, 11, window, window + 1, 2*window - 2}
		}
	}
	max = pick(r, cands)
	if kind == 1 && max >= 1<<63 {
		max = 1<<62 - 1
	}
	return
}

// genFBI: a history on the window bitmap itself (kind 2): op [1 k] Lsh, [2 i] SetBit, [3 i] Bit
func genFBI(r *rand.Rand) *common.History {
	var n uint64
	if r.IntN(3) == 0 {
		n = r.Uint64N(401)
	} else {
		n = pick(r, windows)
	}
	h := &common.History{Conf: []string{"2", common.I(n), "0"}}
	for i, m := 0, 10+r.IntN(60); i < m; i++ {
		switch c := r.IntN(10); {
		case c < 4:
			k := pick(r, []uint64{0, 1, 2, 3, 31, 32, 33, 63, 64, 65, 127, 128, 129, 191, 192, 193, n, n + 1, 7, 100, 1 << 40})
			if r.IntN(3) == 0 {
				k = r.Uint64N(n + 70)
			}
			if n > 0 && r.IntN(6) == 0 {
				k = n - 1
			}
			h.Ops = append(h.Ops, []string{"1", common.I(k)})
		case c < 7:
			h.Ops = append(h.Ops, []string{"2", common.I(r.Uint64N(n + 3))})
		default:
			i := r.Uint64N(n + 3)
			if r.IntN(3) == 0 {
				i = pick(r, []uint64{0, 63, 64, 127, 128, n - 1, n, n + 1})
			}
			h.Ops = append(h.Ops, []string{"3", common.I(i)})
		}
	}
	return h
}

func runFBI(h *common.History) {
	f := replaydetector.VerifNewFBI(uint(common.AtoU64(h.Conf[1])))
	h.Obs = nil
	words := func() []string {
		var out []string
		for _, w := range f.Words() {
			out = append(out, common.I(w))
		}
		return out
	}
	for _, op := range h.Ops {
		x := uint(common.AtoU64(op[1]))
		switch op[0] {
		case "1":
			f.Lsh(x)
			h.Obs = append(h.Obs, words())
		case "2":
			f.SetBit(x)
			h.Obs = append(h.Obs, words())
		default:
			h.Obs = append(h.Obs, []string{common.I(f.Bit(x))})
		}
	}
	h.Tags = append(h.Tags, "bitmap_words")
}

func genHistory(r *rand.Rand) *common.History {
	if r.IntN(6) == 0 {
		return genFBI(r)
	}
	kind, window, max := genConf(r)
	h := &common.History{Conf: []string{common.I(kind), common.I(window), common.I(max)}}
	nops := 20 + r.IntN(120)
	if r.IntN(10) == 0 {
		nops = 300
	}
	var newest uint64
	if kind == 0 && r.IntN(3) == 0 && max > 1000 {
		// start high: near the maximum
		newest = max - r.Uint64N(600)
	} else if r.IntN(2) == 0 {
		newest = r.Uint64N(max/2 + 1)
	}
	var accepted []uint64
	deferred := kind == 0 && r.IntN(3) == 0 // plain detector: callbacks kept and invoked later, in any order, also twice
	var kept []int
	space := max + 1 // wraps to 0 for 2^64-1; only used for kind 1
	first := true
	for i := 0; i < nops; i++ {
		var seq uint64
		w := window
		if w == 0 {
			w = 1
		}
		switch c := r.IntN(20); {
		case first:
			seq = newest
			first = false
		case c < 5: // advance a little
			seq = newest + 1 + r.Uint64N(3)
		case c < 7: // advance around the window size / word size
			seq = newest + pick(r, []uint64{w - 1, w, w + 1, 63, 64, 65, 127, 128, 129, 2 * w})
		case c < 10 && len(accepted) > 0: // replay of something accepted
			seq = accepted[len(accepted)-1-r.IntN(min(len(accepted), 12))]
		case c < 13: // inside or at the edge of the window
			seq = newest - r.Uint64N(w+2)
		case c < 14:
			seq = newest - pick(r, []uint64{w - 1, w, w + 1, 63, 64, 65})
		case c < 15:
			seq = pick(r, []uint64{0, 1, max, max - 1, max + 1, max + 2})
		case c < 17 && kind == 1: // around the half-space boundary
			seq = newest + max/2 + r.Uint64N(7) - 3
		case c < 18:
			seq = newest + r.Uint64N(4*w+70)
		default:
			seq = newest - r.Uint64N(3*w+70)
		}
		if kind == 1 {
			// wrap into the space most of the time, sometimes leave it above the maximum
			if space != 0 && (seq > max) && r.IntN(10) != 0 {
				if seq > 1<<63 { // went below zero
					seq += space
					if seq > max {
						seq %= space
					}
				} else {
					seq %= space
				}
			}
		}
		invoke := r.IntN(5) != 0
		if deferred && r.IntN(3) == 0 {
			// keep the callback of this check; it is invoked by a later operation [index; 3] - possibly after other checks and
			// accepts, possibly more than once
			h.Ops = append(h.Ops, []string{common.I(seq), "2"})
			kept = append(kept, len(h.Ops)-1)
			continue
		}
		if deferred && len(kept) > 0 && r.IntN(3) == 0 {
			j := kept[len(kept)-1-r.IntN(min(len(kept), 4))]
			h.Ops = append(h.Ops, []string{common.I(j), "3"})
			if s2 := common.AtoU64(h.Ops[j][0]); s2 <= max {
				accepted = append(accepted, s2)
				if s2 > newest {
					newest = s2
				}
			}
			continue
		}
		h.Ops = append(h.Ops, []string{common.I(seq), common.B(invoke)})
		// keep the generator's idea of the newest number in step with a plausible detector
		if invoke && seq <= max {
			accepted = append(accepted, seq)
			if kind == 0 {
				if seq > newest {
					newest = seq
				}
			} else if space != 0 {
				a := (seq + space - newest%space) % space
				if a != 0 && a < space/2 {
					newest = seq
				}
			}
		}
	}
	return h
}

func run(h *common.History) {
	if h.Conf[0] == "2" {
		runFBI(h)
		return
	}
	kind := common.AtoI(h.Conf[0])
	window := common.AtoU64(h.Conf[1])
	max := common.AtoU64(h.Conf[2])
	var d replaydetector.ReplayDetector
	if kind == 0 {
		d = replaydetector.New(uint(window), max)
	} else {
		d = replaydetector.WithWrap(uint(window), max)
	}
	h.Obs = nil
	nAcc, nRefused, nLatest, nNotInvoked := 0, 0, 0, 0
	keptCb := map[int]func() bool{}
	for i, op := range h.Ops {
		if op[1] == "3" {
			// invoke the callback kept by operation j (a failed check's callback does nothing and says false)
			res := "0"
			if cb, ok := keptCb[common.AtoI(op[0])]; ok {
				res = common.B(cb())
			}
			h.Obs = append(h.Obs, []string{"2", res})
			h.Tags = append(h.Tags, "deferred_accept")
			continue
		}
		seq := common.AtoU64(op[0])
		invoke := op[1] == "1"
		accept, ok := d.Check(seq)
		if op[1] == "2" {
			keptCb[i] = accept
		}
		res := "-1"
		if invoke {
			l := accept()
			res = common.B(l)
			if ok {
				nAcc++
				if l {
					nLatest++
				}
			}
		} else if ok {
			nNotInvoked++
		}
		if !ok {
			nRefused++
		}
		h.Obs = append(h.Obs, []string{common.B(ok), res})
	}
	h.Tags = append(h.Tags, []string{"plain", "wrap"}[kind])
	if nAcc > 1 && nRefused > 0 {
		h.Tags = append(h.Tags, "nontrivial")
	}
	if nAcc > nLatest {
		h.Tags = append(h.Tags, "late_accept")
	}
	if nNotInvoked > 0 {
		h.Tags = append(h.Tags, "ok_not_invoked")
	}
	if window%64 != 0 && window > 64 {
		h.Tags = append(h.Tags, "multiword_partial_window")
	}
	if kind == 1 && max+1 < 2*window {
		h.Tags = append(h.Tags, "wrap_window_above_half_space")
	}
}

func main() {
	a := common.ParseArgs()
	w := common.NewWriter(a.Out)
	if a.Replay != "" {
		hs, err := common.ReadHistories(a.Replay)
		if err != nil {
			panic(err)
		}
		for _, h := range hs {
			run(h)
			w.Put(h)
		}
	} else {
		r := common.Rng(a.Seed, 0x5d)
		for i := 0; i < a.N; i++ {
			h := genHistory(r)
			run(h)
			w.Put(h)
		}
	}
	w.Close(a.Out)
}
