// race: concurrent workloads over the APIs that C19 names, run under the Go race detector. They are the
// failing-input search of check C19 (the decision is the lock-discipline theorem over the regenerated access
// table): a report of the detector - two stacks - is a concrete witness of a violation.
package race

import (
	"net"
	"sync"
	"testing"
	"time"

	"github.com/pion/transport/v3/deadline"
	"github.com/pion/transport/v3/dpipe"
	"github.com/pion/transport/v3/packetio"
	"github.com/pion/transport/v3/udp"
	"github.com/pion/transport/v3/vnet"
)

func par(n int, f func(i int)) {
	var wg sync.WaitGroup
	for i := 0; i < n; i++ {
		wg.Add(1)
		go func() { defer wg.Done(); f(i) }()
	}
	wg.Wait()
}

func TestBuffer(t *testing.T) {
	for round := 0; round < 30; round++ {
		b := packetio.NewBuffer()
		par(8, func(i int) {
			buf := make([]byte, 64)
			for k := 0; k < 50; k++ {
				switch i % 4 {
				case 0:
					_, _ = b.Write([]byte{1, 2, 3})
				case 1:
					_ = b.SetReadDeadline(time.Now().Add(time.Millisecond))
					_, _ = b.Read(buf)
				case 2:
					_ = b.Count()
					_ = b.Size()
					b.SetLimitCount(100)
					b.SetLimitSize(10000)
				default:
					if k == 40 {
						_ = b.Close()
					}
				}
			}
		})
		_ = b.Close()
	}
}

func TestDeadline(t *testing.T) {
	for round := 0; round < 40; round++ {
		d := deadline.New()
		par(6, func(i int) {
			for k := 0; k < 120; k++ {
				switch i % 3 {
				case 0:
					// short deadlines: the timer callbacks run while the others read and set
					d.Set(time.Now().Add(time.Duration(1+k%5) * 10 * time.Microsecond))
					time.Sleep(20 * time.Microsecond)
				case 1:
					select {
					case <-d.Done():
					default:
					}
					_ = d.Err()
					_, _ = d.Deadline()
				default:
					if k%10 == 0 {
						d.Set(time.Time{})
					}
					_ = d.Err()
				}
			}
		})
	}
}

func TestDpipe(t *testing.T) {
	for round := 0; round < 20; round++ {
		a, b := dpipe.Pipe()
		par(7, func(i int) {
			buf := make([]byte, 16)
			for k := 0; k < 30; k++ {
				switch i {
				case 0, 4, 5: // several writers on one end
					_, _ = a.Write([]byte{byte(k), byte(i), 3, 4, 5, 6, 7, 8}[:1+k%8])
				case 1, 6:
					_ = b.SetReadDeadline(time.Now().Add(time.Millisecond))
					_, _ = b.Read(buf)
				case 2:
					_, _ = b.Write([]byte{byte(k)})
				default:
					_ = a.SetReadDeadline(time.Now().Add(time.Millisecond))
					_, _ = a.Read(buf)
				}
			}
		})
		_ = a.Close()
		_ = b.Close()
	}
}

type sink struct {
	mu sync.Mutex
	n  int
}

func (s *sink) onInbound() { s.mu.Lock(); s.n++; s.mu.Unlock() }

func TestVnet(t *testing.T) {
	// networks built in parallel, traffic from several sockets, a token bucket filter reconfigured under traffic
	par(4, func(i int) {
		wan, err := vnet.NewRouter(&vnet.RouterConfig{CIDR: "1.2.3.0/24", LoggerFactory: lf{}})
		if err != nil {
			t.Error(err)
			return
		}
		n1, _ := vnet.NewNet(&vnet.NetConfig{StaticIPs: []string{"1.2.3.4"}})
		n2, _ := vnet.NewNet(&vnet.NetConfig{StaticIPs: []string{"1.2.3.5"}})
		tbf, _ := vnet.NewTokenBucketFilter(n2, vnet.TBFRate(50*vnet.MBit), vnet.TBFMaxBurst(64*vnet.KBit))
		_ = wan.AddNet(n1)
		_ = wan.AddNet(tbf)
		_ = wan.Start()
		c1, _ := n1.ListenPacket("udp4", "1.2.3.4:1000")
		c2, _ := n2.ListenPacket("udp4", "1.2.3.5:2000")
		// ephemeral ports, resolver and interface queries while other networks are being built
		for k := 0; k < 5; k++ {
			if c, err := n1.ListenPacket("udp4", "1.2.3.4:0"); err == nil {
				_ = c.Close()
			}
			if c, err := n2.ListenUDP("udp4", &net.UDPAddr{IP: net.IPv4zero, Port: 0}); err == nil {
				_ = c.Close()
			}
			_, _ = n1.Interfaces()
			_, _ = n1.ResolveUDPAddr("udp4", "1.2.3.5:2000")
		}
		par(5, func(j int) {
			buf := make([]byte, 1500)
			for k := 0; k < 60; k++ {
				switch j {
				case 0:
					_, _ = c1.WriteTo(make([]byte, 200), &net.UDPAddr{IP: net.ParseIP("1.2.3.5"), Port: 2000})
				case 1:
					_ = c2.SetReadDeadline(time.Now().Add(time.Millisecond))
					_, _, _ = c2.ReadFrom(buf)
				case 2:
					tbf.Set(vnet.TBFRate((10 + k) * vnet.MBit))
					tbf.Set(vnet.TBFMaxBurst((32 + k) * vnet.KBit))
				case 3:
					_, _ = c2.WriteTo(make([]byte, 100), &net.UDPAddr{IP: net.ParseIP("1.2.3.4"), Port: 1000})
				default:
					_ = c1.SetReadDeadline(time.Now().Add(time.Millisecond))
					_, _, _ = c1.ReadFrom(buf)
				}
			}
		})
		_ = c1.Close()
		_ = c2.Close()
		_ = tbf.Close()
		_ = wan.Stop()
	})
}

func TestVnetNAT(t *testing.T) {
	// a NAT with a short mapping lifetime between two routers: bindings are created, refreshed by more traffic, expire while
	// idle and are created again, with inbound replies in between
	wan, err := vnet.NewRouter(&vnet.RouterConfig{CIDR: "1.2.3.0/24", LoggerFactory: lf{}})
	if err != nil {
		t.Fatal(err)
	}
	lan, err := vnet.NewRouter(&vnet.RouterConfig{CIDR: "192.168.0.0/24", StaticIPs: []string{"1.2.3.9"}, LoggerFactory: lf{},
		NATType: &vnet.NATType{MappingBehavior: vnet.EndpointAddrPortDependent, FilteringBehavior: vnet.EndpointAddrPortDependent,
			MappingLifeTime: 5 * time.Millisecond}})
	if err != nil {
		t.Fatal(err)
	}
	srv, _ := vnet.NewNet(&vnet.NetConfig{StaticIPs: []string{"1.2.3.4"}})
	h1, _ := vnet.NewNet(&vnet.NetConfig{})
	h2, _ := vnet.NewNet(&vnet.NetConfig{})
	_ = wan.AddNet(srv)
	_ = lan.AddNet(h1)
	_ = lan.AddNet(h2)
	_ = wan.AddRouter(lan)
	_ = wan.Start()
	sc, err := srv.ListenPacket("udp4", "1.2.3.4:7000")
	if err != nil {
		t.Fatal(err)
	}
	stop := make(chan struct{})
	go func() { // echo
		buf := make([]byte, 1500)
		for {
			_ = sc.SetReadDeadline(time.Now().Add(5 * time.Millisecond))
			n, from, err := sc.ReadFrom(buf)
			if err == nil {
				_, _ = sc.WriteTo(buf[:n], from)
			}
			select {
			case <-stop:
				return
			default:
			}
		}
	}()
	par(4, func(i int) {
		h := h1
		if i%2 == 1 {
			h = h2
		}
		c, err := h.ListenPacket("udp4", "0.0.0.0:0")
		if err != nil {
			return
		}
		buf := make([]byte, 1500)
		for k := 0; k < 12; k++ {
			_, _ = c.WriteTo([]byte{byte(i), byte(k)}, &net.UDPAddr{IP: net.ParseIP("1.2.3.4"), Port: 7000})
			_ = c.SetReadDeadline(time.Now().Add(2 * time.Millisecond))
			_, _, _ = c.ReadFrom(buf)
			if k%4 == 3 {
				time.Sleep(12 * time.Millisecond) // idle: the binding expires
			}
		}
		_ = c.Close()
	})
	time.Sleep(20 * time.Millisecond)
	close(stop)
	time.Sleep(10 * time.Millisecond)
	_ = sc.Close()
	_ = wan.Stop()
}

func TestUDPListener(t *testing.T) {
	for round := 0; round < 6; round++ {
		lc := udp.ListenConfig{}
		if round%2 == 1 {
			lc.Batch = udp.BatchIOConfig{Enable: true, ReadBatchSize: 4, WriteBatchSize: 2, WriteBatchInterval: 2 * time.Millisecond}
		}
		l, err := lc.Listen("udp", &net.UDPAddr{IP: net.IPv4(127, 0, 0, 1), Port: 0})
		if err != nil {
			t.Skip("no loopback socket:", err)
		}
		addr := l.Addr()
		var conns []net.Conn
		var mu sync.Mutex
		par(6, func(i int) {
			switch {
			case i < 3:
				c, err := net.Dial("udp", addr.String())
				if err != nil {
					return
				}
				for k := 0; k < 20; k++ {
					_, _ = c.Write([]byte{byte(i), byte(k)})
				}
				_ = c.Close()
			case i == 3:
				for k := 0; k < 3; k++ {
					c, err := l.Accept()
					if err != nil {
						return
					}
					mu.Lock()
					conns = append(conns, c)
					mu.Unlock()
					go func() {
						buf := make([]byte, 64)
						_ = c.SetReadDeadline(time.Now().Add(20 * time.Millisecond))
						_, _ = c.Read(buf)
						// a writer, and deadlines set from other goroutines (net.Conn allows that)
						par(3, func(j int) {
							switch j {
							case 0:
								_, _ = c.Write([]byte{9})
								_, _ = c.Write([]byte{10})
							case 1:
								_ = c.SetWriteDeadline(time.Now().Add(time.Second))
							default:
								_ = c.SetDeadline(time.Now().Add(time.Second))
							}
						})
						_ = c.Close()
					}()
				}
			default:
				time.Sleep(30 * time.Millisecond)
				if i == 5 {
					_ = l.Close()
				}
			}
		})
		_ = l.Close()
		mu.Lock()
		for _, c := range conns {
			_ = c.Close()
		}
		mu.Unlock()
	}
}
