package race

import "github.com/pion/logging"

// lf is a logger factory without output
type lf struct{}

func (lf) NewLogger(string) logging.LeveledLogger { return nolog{} }

type nolog struct{}

func (nolog) Trace(string)          {}
func (nolog) Tracef(string, ...any) {}
func (nolog) Debug(string)          {}
func (nolog) Debugf(string, ...any) {}
func (nolog) Info(string)           {}
func (nolog) Infof(string, ...any)  {}
func (nolog) Warn(string)           {}
func (nolog) Warnf(string, ...any)  {}
func (nolog) Error(string)          {}
func (nolog) Errorf(string, ...any) {}
