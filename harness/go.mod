module verif/harness

go 1.26.8

require github.com/pion/transport/v3 v3.0.0

require (
	github.com/pion/logging v0.2.3
	golang.org/x/net v0.34.0
)

require golang.org/x/sys v0.29.0 // indirect

replace github.com/pion/transport/v3 => /repo
