// c18: correspondence harness for test.Bridge and dpipe (C18), run inside testing/synctest
// bubbles: synctest.Wait tells exactly when the Bridge reader is parked and when it has
// returned, so there is no polling and no dependence on scheduling or load.
package c18

import (
	"context"
	"errors"
	"io"
	"math/rand/v2"
	"net"
	"strconv"
	"testing"
	"testing/synctest"
	"time"

	"github.com/pion/transport/v3/dpipe"
	"github.com/pion/transport/v3/test"
	"verif/harness/common"
)

func filterFor(kind int) func([]byte) bool {
	switch kind {
	case 1:
		return func(b []byte) bool { return len(b) > 0 && b[0]%2 == 1 }
	case 2:
		return func([]byte) bool { return false }
	case 3:
		return func(b []byte) bool { return len(b) <= 3 }
	}
	return nil
}

func toBytes(ss []string) []byte {
	b := make([]byte, len(ss))
	for i, s := range ss {
		b[i] = byte(common.AtoI(s))
	}
	return b
}

var errHung = errors.New("read did not return")

type readRes struct {
	n   int
	err error
	buf []byte
}

func runBridge(h *common.History) {
	br := test.NewBridge()
	conns := []net.Conn{br.GetConn0(), br.GetConn1()}
	h.Obs = nil
	for _, op := range h.Ops {
		var obs []string
		switch op[0] {
		case "1": // write
			from := common.AtoI(op[1])
			p := toBytes(op[2:])
			n, err := conns[from].Write(p)
			for i := range p {
				p[i] = 0xEE
			}
			if err == nil && n == len(op)-2 {
				obs = []string{"1"}
			} else {
				obs = []string{"0"}
			}
		case "2": // read on endpoint side with a slice of k bytes, one Tick while the reader is parked
			side, k := common.AtoI(op[1]), common.AtoI(op[2])
			ch := make(chan readRes, 1)
			go func() {
				buf := make([]byte, k)
				n, err := conns[side].Read(buf)
				ch <- readRes{n, err, buf}
			}()
			synctest.Wait() // the reader is parked in Read (or has already returned: closed endpoint)
			br.Tick()
			synctest.Wait() // if something was handed over, the reader has returned
			var res *readRes
			select {
			case r := <-ch:
				res = &r
			default:
				// nothing delivered: release the parked reader through its deadline, restore "no deadline"
				_ = conns[side].SetReadDeadline(time.Now().Add(-time.Second))
				synctest.Wait()
				select {
				case r := <-ch:
					res = &r
				default:
					res = &readRes{0, errHung, nil} // the read ignores its deadline
				}
				_ = conns[side].SetReadDeadline(time.Time{})
			}
			var ne net.Error
			switch {
			case errors.As(res.err, &ne) && ne.Timeout():
				obs = []string{"0"}
			case errors.Is(res.err, io.EOF):
				obs = []string{"2"}
			case errors.Is(res.err, errHung):
				obs = []string{"97"}
			case res.err != nil:
				obs = []string{"98"}
			default:
				obs = []string{"1", strconv.Itoa(res.n)}
				for _, x := range res.buf[:res.n] {
					obs = append(obs, common.I(x))
				}
			}
		case "3":
			br.DropNextNWrites(common.AtoI(op[1]), common.AtoI(op[2]))
		case "4":
			br.ReorderNextNWrites(common.AtoI(op[1]), common.AtoI(op[2]))
		case "5":
			if common.AtoI(op[2]) <= br.Len(common.AtoI(op[1])) { // an offset beyond the queue panics: outside the contract
				br.Drop(common.AtoI(op[1]), common.AtoI(op[2]), common.AtoI(op[3]))
			}
		case "6":
			if err := br.Reorder(common.AtoI(op[1])); err != nil {
				obs = []string{"1"}
			} else {
				obs = []string{"0"}
			}
		case "7":
			br.Filter(common.AtoI(op[1]), filterFor(common.AtoI(op[2])))
		case "8":
			obs = []string{common.I(br.Len(common.AtoI(op[1])))}
		case "9":
			if err := conns[common.AtoI(op[1])].Close(); err == nil {
				obs = []string{"1"}
			} else {
				obs = []string{"0"}
			}
		default:
			br.Tick()
		}
		h.Obs = append(h.Obs, obs)
	}
}

func runDpipe(h *common.History) {
	c0, c1 := dpipe.Pipe()
	conns := []net.Conn{c0, c1}
	closed := []bool{false, false}
	inflight := []int{0, 0} // messages waiting to be read by end i
	pendingW := []bool{false, false}
	defer func() {
		_ = c0.Close()
		_ = c1.Close()
		synctest.Wait()
	}()
	h.Obs = nil
	for _, op := range h.Ops {
		var obs []string
		switch op[0] {
		case "1":
			side := common.AtoI(op[1])
			p := toBytes(op[2:])
			if !closed[side] && inflight[1-side] >= 1000 {
				if pendingW[side] {
					obs = []string{"0", "3"} // a writer is already parked on this side: not issued
					break
				}
				// the peer's queue is full: the write must block. It is issued in its own goroutine; if it is still parked
				// once everything has settled, that is the model's "would block"; it is released by closing its end later.
				res := make(chan [2]int, 1)
				c := conns[side]
				go func() {
					n, err := c.Write(p)
					switch {
					case err == nil:
						res <- [2]int{n, 0}
					case errors.Is(err, io.ErrClosedPipe):
						res <- [2]int{n, 2}
					default:
						res <- [2]int{n, 99}
					}
				}()
				synctest.Wait()
				select {
				case r := <-res:
					obs = []string{strconv.Itoa(r[0]), strconv.Itoa(r[1])} // returned although the queue was full
				default:
					obs = []string{"0", "3"}
					pendingW[side] = true
				}
				h.Tags = append(h.Tags, "write_on_full_queue")
				break
			}
			n, err := conns[side].Write(p)
			for i := range p {
				p[i] = 0xEE
			}
			switch {
			case err == nil:
				inflight[1-side]++
				obs = []string{strconv.Itoa(n), "0"}
			case errors.Is(err, io.ErrClosedPipe):
				obs = []string{strconv.Itoa(n), "2"}
			case errors.Is(err, context.DeadlineExceeded):
				// the write deadline of this end has passed: dpipe also discards what this end had queued for the peer
				inflight[1-side] = 0
				obs = []string{strconv.Itoa(n), "4"}
			default:
				obs = []string{strconv.Itoa(n), "99"}
			}
		case "4":
			side := common.AtoI(op[1])
			if closed[side] {
				break // closed and past its write deadline: Write picks one of the two errors at random; kept out of the histories
			}
			if op[2] != "0" {
				_ = conns[side].SetWriteDeadline(time.Now().Add(-time.Second))
			} else {
				_ = conns[side].SetWriteDeadline(time.Time{})
			}
			synctest.Wait()
			h.Tags = append(h.Tags, "write_deadline")
		case "2":
			side, k := common.AtoI(op[1]), common.AtoI(op[2])
			if !closed[side] && inflight[side] == 0 {
				obs = []string{"3"} // would block: not issued
				break
			}
			buf := make([]byte, k+4)
			for i := range buf {
				buf[i] = 0xA5
			}
			_ = conns[side].SetReadDeadline(time.Now().Add(3 * time.Second)) // only a safety net: the read must not block
			n, err := conns[side].Read(buf[:k])
			_ = conns[side].SetReadDeadline(time.Time{})
			switch {
			case errors.Is(err, context.DeadlineExceeded):
				obs = []string{"97"} // blocked although a message should be waiting
				inflight[side] = 0
			case errors.Is(err, io.EOF):
				obs = []string{"2"}
			case err != nil:
				obs = []string{"99"}
			default:
				inflight[side]--
				obs = []string{"0", strconv.Itoa(n)}
				for _, x := range buf[:n] {
					obs = append(obs, common.I(x))
				}
				for _, x := range buf[n:] {
					if x != 0xA5 {
						obs = []string{"96"}
					}
				}
			}
		default:
			side := common.AtoI(op[1])
			_ = conns[side].SetWriteDeadline(time.Time{}) // see case "4"
			synctest.Wait()
			_ = conns[side].Close()
			closed[side] = true
		}
		h.Obs = append(h.Obs, obs)
	}
}

func genMsg(r *rand.Rand, ctr *int) []string {
	n := []int{0, 1, 2, 3, 4, 5, 8, 20}[r.IntN(8)]
	m := make([]string, n)
	for i := range m {
		if i == 0 {
			*ctr++
			m[i] = common.I(*ctr % 256)
		} else {
			m[i] = common.I(r.IntN(256))
		}
	}
	return m
}

func genBridge(r *rand.Rand) *common.History {
	h := &common.History{Conf: []string{"0"}}
	ctr := 0
	qlen := []int{0, 0}
	n := 15 + r.IntN(60)
	closing := false
	for i := 0; i < n; i++ {
		c := r.IntN(100)
		dir := r.IntN(2)
		switch {
		case c < 40:
			h.Ops = append(h.Ops, append([]string{"1", common.I(dir)}, genMsg(r, &ctr)...))
			qlen[dir]++
		case c < 62:
			h.Ops = append(h.Ops, []string{"2", common.I(dir), common.I([]int{64, 64, 64, 2, 0, 5}[r.IntN(6)])})
		case c < 68:
			h.Ops = append(h.Ops, []string{"3", common.I(dir), common.I(r.IntN(4))})
			h.Tags = append(h.Tags, "drop_next")
		case c < 78:
			h.Ops = append(h.Ops, []string{"4", common.I(dir), common.I([]int{1, 2, 2, 3, 4, 0}[r.IntN(6)])})
			h.Tags = append(h.Tags, "reorder_next")
		case c < 83:
			off := r.IntN(qlen[dir] + 1)
			if off > 3 {
				off = r.IntN(3)
			}
			h.Ops = append(h.Ops, []string{"5", common.I(dir), common.I(off), common.I(r.IntN(3))})
			h.Tags = append(h.Tags, "drop_range")
		case c < 88:
			h.Ops = append(h.Ops, []string{"6", common.I(dir)})
			h.Tags = append(h.Tags, "reorder_queue")
		case c < 92:
			h.Ops = append(h.Ops, []string{"7", common.I(dir), common.I(r.IntN(4))})
			h.Tags = append(h.Tags, "filter")
		case c < 97:
			h.Ops = append(h.Ops, []string{"8", common.I(dir)})
		case c < 98 && i > n/2 && !closing:
			h.Ops = append(h.Ops, []string{"9", common.I(dir)})
			h.Tags = append(h.Tags, "close")
			closing = true
		default:
			h.Ops = append(h.Ops, []string{"10"})
		}
	}
	// drain both directions so that everything queued is compared
	for d := 0; d < 2; d++ {
		h.Ops = append(h.Ops, []string{"8", common.I(d)})
		for j := 0; j < 12; j++ {
			h.Ops = append(h.Ops, []string{"2", common.I(1 - d), "64"})
		}
	}
	return h
}

func genDpipe(r *rand.Rand) *common.History {
	h := &common.History{Conf: []string{"1"}}
	ctr := 0
	n := 15 + r.IntN(60)
	for i := 0; i < n; i++ {
		c := r.IntN(100)
		side := r.IntN(2)
		switch {
		case c < 50:
			h.Ops = append(h.Ops, append([]string{"1", common.I(side)}, genMsg(r, &ctr)...))
		case c < 90:
			h.Ops = append(h.Ops, []string{"2", common.I(side), common.I([]int{64, 64, 2, 0, 5}[r.IntN(5)])})
		case c < 95:
			// the write deadline of one end passes (or is cleared again) while messages are queued in both directions
			h.Ops = append(h.Ops, []string{"4", common.I(side), common.I(r.IntN(3) % 2 * 0 + map[bool]int{true: 1, false: 0}[r.IntN(3) != 0])})
		default:
			if i > n/3 {
				h.Ops = append(h.Ops, []string{"3", common.I(side)})
				h.Tags = append(h.Tags, "close")
			}
		}
	}
	for d := 0; d < 2; d++ {
		for j := 0; j < 8; j++ {
			h.Ops = append(h.Ops, []string{"2", common.I(d), "64"})
		}
	}
	return h
}

// genDpipeFull: one end writes until the peer's queue (1000 messages) is full and beyond, the peer then reads everything
func genDpipeFull(r *rand.Rand) *common.History {
	h := &common.History{Conf: []string{"1"}}
	ctr := 0
	for i := 0; i < 1003; i++ {
		h.Ops = append(h.Ops, []string{"1", "0", common.I(ctr % 251), common.I(i % 256)})
		ctr++
	}
	for i := 0; i < 1002; i++ {
		h.Ops = append(h.Ops, []string{"2", "1", "8"})
	}
	h.Ops = append(h.Ops, []string{"3", "0"})
	return h
}

func run(h *common.History) {
	if len(h.Conf) > 0 && h.Conf[0] == "1" {
		runDpipe(h)
		h.Tags = append(h.Tags, "dpipe")
	} else {
		runBridge(h)
		h.Tags = append(h.Tags, "bridge")
	}
}

func init() { common.RegisterFlags() }

func TestHarness(t *testing.T) {
	a := common.GetArgs()
	w := common.NewWriter(a.Out)
	var hs []*common.History
	if a.Replay != "" {
		var err error
		hs, err = common.ReadHistories(a.Replay)
		if err != nil {
			t.Fatal(err)
		}
	} else {
		r := common.Rng(a.Seed, 0x18)
		for i := 0; i < a.N; i++ {
			if a.Seed%1000 == 0 && i == 0 {
				hs = append(hs, genDpipeFull(r)) // one long history per run
				continue
			}
			if i%4 == 3 {
				hs = append(hs, genDpipe(r))
			} else {
				hs = append(hs, genBridge(r))
			}
		}
	}
	for _, h := range hs {
		synctest.Test(t, func(*testing.T) { run(h) })
		w.Put(h)
	}
	w.Close(a.Out)
}
