module verif/vrewrite

go 1.26.8
