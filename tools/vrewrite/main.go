// vrewrite: source-to-source pass that makes the synchronisation operations of one Go file
// visible to a controlled scheduler (DESIGN.md section 3.5).
//
//	vrewrite -in <file.go> -out <instrumented.go> [-labels <labels.txt>]
//
// Purely syntactic (go/parser, go/ast, go/printer). In every function, in source order:
//   - X.Lock() / X.RLock() as a statement       -> vLock(&X, "F#k") / vRLock(&X, "F#k")
//   - X.Unlock() / X.RUnlock() as a statement   -> vYield("F#k") before it
//   - X.Wait() / X.Done() / X.Add(n) / X.Do(f) as a statement -> vYield("F#k") before it
//   - a send statement, a statement whose own expressions contain a receive, close(ch)
//     -> vYield("F#k") before it
//   - select { ... }  -> vYield("F#k") before it and vChose("F#k", i) as first statement of case i
//   - go f(x)         -> vGo("F#k", func() { f(x) })
//
// Deferred calls are left alone (a deferred Unlock is part of the function's last step).
// The helper functions live in a file zz_vhooks.go of the same package (see harness/vsched).
package main

import (
	"bytes"
	"flag"
	"fmt"
	"go/ast"
	"go/parser"
	"go/printer"
	"go/token"
	"os"
	"strconv"
	"strings"
)

type rewriter struct {
	fset   *token.FileSet
	fn     string
	k      int
	labels []string
}

func (r *rewriter) label(what string, pos token.Pos) string {
	l := fmt.Sprintf("%s#%d", r.fn, r.k)
	r.k++
	r.labels = append(r.labels, fmt.Sprintf("%s\t%s\t%s", l, r.fset.Position(pos), what))
	return l
}

func call(name string, args ...ast.Expr) *ast.ExprStmt {
	return &ast.ExprStmt{X: &ast.CallExpr{Fun: ast.NewIdent(name), Args: args}}
}

func str(s string) ast.Expr { return &ast.BasicLit{Kind: token.STRING, Value: strconv.Quote(s)} }

// methodCall reports X and the method name if s is the statement "X.m(...)".
func methodCall(s ast.Stmt) (recv ast.Expr, name string, c *ast.CallExpr) {
	es, ok := s.(*ast.ExprStmt)
	if !ok {
		return nil, "", nil
	}
	c, ok = es.X.(*ast.CallExpr)
	if !ok {
		return nil, "", nil
	}
	sel, ok := c.Fun.(*ast.SelectorExpr)
	if !ok {
		return nil, "", nil
	}
	return sel.X, sel.Sel.Name, c
}

// hasRecv: does the expression (not descending into function literals) contain "<-x"?
func hasRecv(n ast.Node) bool {
	found := false
	ast.Inspect(n, func(m ast.Node) bool {
		switch e := m.(type) {
		case *ast.FuncLit:
			return false
		case *ast.UnaryExpr:
			if e.Op == token.ARROW {
				found = true
			}
		}
		return !found
	})
	return found
}

// ownExprs returns the expressions evaluated by the statement itself (not by nested blocks).
func ownExprs(s ast.Stmt) []ast.Node {
	switch t := s.(type) {
	case *ast.ExprStmt:
		return []ast.Node{t.X}
	case *ast.AssignStmt:
		var out []ast.Node
		for _, e := range t.Rhs {
			out = append(out, e)
		}
		return out
	case *ast.ReturnStmt:
		var out []ast.Node
		for _, e := range t.Results {
			out = append(out, e)
		}
		return out
	case *ast.IfStmt:
		var out []ast.Node
		if t.Init != nil {
			out = append(out, t.Init)
		}
		return append(out, t.Cond)
	case *ast.DeclStmt:
		return []ast.Node{t.Decl}
	case *ast.RangeStmt:
		return []ast.Node{t.X}
	}
	return nil
}

func (r *rewriter) block(list []ast.Stmt) []ast.Stmt {
	var out []ast.Stmt
	for _, s := range list {
		out = append(out, r.stmt(s)...)
	}
	return out
}

func (r *rewriter) stmt(s ast.Stmt) []ast.Stmt {
	// nested blocks first (labels are numbered in source order: the statement's own op comes first)
	pre := []ast.Stmt{}
	switch t := s.(type) {
	case *ast.GoStmt:
		l := r.label("go", t.Pos())
		body := &ast.BlockStmt{List: []ast.Stmt{&ast.ExprStmt{X: t.Call}}}
		if fl, ok := t.Call.Fun.(*ast.FuncLit); ok && len(t.Call.Args) == 0 {
			fl.Body.List = r.block(fl.Body.List)
		}
		return []ast.Stmt{call("vGo", str(l), &ast.FuncLit{Type: &ast.FuncType{Params: &ast.FieldList{}}, Body: body})}
	case *ast.SelectStmt:
		l := r.label("select", t.Pos())
		for i, c := range t.Body.List {
			cc := c.(*ast.CommClause)
			cc.Body = append([]ast.Stmt{call("vChose", str(l), &ast.BasicLit{Kind: token.INT, Value: strconv.Itoa(i)})}, r.block(cc.Body)...)
		}
		return []ast.Stmt{call("vYield", str(l)), s}
	case *ast.SendStmt:
		return []ast.Stmt{call("vYield", str(r.label("send", t.Pos()))), s}
	case *ast.DeferStmt:
		return []ast.Stmt{s}
	}
	if recv, name, c := methodCall(s); c != nil {
		switch name {
		case "Lock", "RLock":
			fn := "vLock"
			if name == "RLock" {
				fn = "vRLock"
			}
			return []ast.Stmt{call(fn, &ast.UnaryExpr{Op: token.AND, X: recv}, str(r.label(name, s.Pos())))}
		case "Unlock", "RUnlock", "Wait", "Done", "Add", "Do":
			pre = append(pre, call("vYield", str(r.label(name, s.Pos()))))
			if name == "Do" && len(c.Args) == 1 {
				if fl, ok := c.Args[0].(*ast.FuncLit); ok {
					fl.Body.List = r.block(fl.Body.List)
				}
			}
			return append(pre, s)
		}
	}
	if es, ok := s.(*ast.ExprStmt); ok {
		if c, ok := es.X.(*ast.CallExpr); ok {
			if id, ok := c.Fun.(*ast.Ident); ok && id.Name == "close" {
				return []ast.Stmt{call("vYield", str(r.label("close", s.Pos()))), s}
			}
		}
	}
	for _, e := range ownExprs(s) {
		if hasRecv(e) {
			pre = append(pre, call("vYield", str(r.label("recv", s.Pos()))))
			break
		}
	}
	// recurse into nested blocks
	switch t := s.(type) {
	case *ast.BlockStmt:
		t.List = r.block(t.List)
	case *ast.IfStmt:
		t.Body.List = r.block(t.Body.List)
		if t.Else != nil {
			t.Else = r.stmt(t.Else)[len(r.stmt0(t.Else)):][0]
		}
	case *ast.ForStmt:
		t.Body.List = r.block(t.Body.List)
	case *ast.RangeStmt:
		t.Body.List = r.block(t.Body.List)
	case *ast.SwitchStmt:
		for _, c := range t.Body.List {
			cc := c.(*ast.CaseClause)
			cc.Body = r.block(cc.Body)
		}
	case *ast.TypeSwitchStmt:
		for _, c := range t.Body.List {
			cc := c.(*ast.CaseClause)
			cc.Body = r.block(cc.Body)
		}
	case *ast.LabeledStmt:
		inner := r.stmt(t.Stmt)
		if len(inner) == 1 {
			t.Stmt = inner[0]
		} else {
			// keep the label on a block holding the yield and the statement
			t.Stmt = &ast.BlockStmt{List: inner}
		}
	case *ast.ExprStmt:
		r.funcLits(t.X)
	case *ast.AssignStmt:
		for _, e := range t.Rhs {
			r.funcLits(e)
		}
	}
	return append(pre, s)
}

// stmt0 exists only so that the else-branch handling above stays simple: an else branch is a
// block or an if statement, neither of which produces leading yields of its own.
func (r *rewriter) stmt0(ast.Stmt) []ast.Stmt { return nil }

func (r *rewriter) funcLits(e ast.Expr) {
	ast.Inspect(e, func(n ast.Node) bool {
		if fl, ok := n.(*ast.FuncLit); ok {
			fl.Body.List = r.block(fl.Body.List)
			return false
		}
		return true
	})
}

func main() {
	in := flag.String("in", "", "input Go file")
	out := flag.String("out", "", "output Go file")
	labels := flag.String("labels", "", "label table output")
	tag := flag.String("tag", "verif", "build tag of the output file")
	subst := flag.String("subst", "", "comma separated pkg.Func=newName call substitutions")
	flag.Parse()
	fset := token.NewFileSet()
	f, err := parser.ParseFile(fset, *in, nil, parser.ParseComments)
	if err != nil {
		fmt.Fprintln(os.Stderr, err)
		os.Exit(1)
	}
	r := &rewriter{fset: fset}
	if *subst != "" {
		for _, kv := range strings.Split(*subst, ",") {
			parts := strings.SplitN(kv, "=", 2)
			pf := strings.SplitN(parts[0], ".", 2)
			ast.Inspect(f, func(n ast.Node) bool {
				if c, ok := n.(*ast.CallExpr); ok {
					if id, ok := c.Fun.(*ast.Ident); ok && len(pf) == 1 && id.Name == pf[0] {
						c.Fun = ast.NewIdent(parts[1])
					}
					if sel, ok := c.Fun.(*ast.SelectorExpr); ok && len(pf) == 2 {
						if id, ok := sel.X.(*ast.Ident); ok && id.Name == pf[0] && sel.Sel.Name == pf[1] {
							c.Fun = ast.NewIdent(parts[1])
						}
					}
				}
				return true
			})
		}
	}
	for _, d := range f.Decls {
		fd, ok := d.(*ast.FuncDecl)
		if !ok || fd.Body == nil {
			continue
		}
		r.fn = fd.Name.Name
		r.k = 0
		fd.Body.List = r.block(fd.Body.List)
	}
	f.Comments = nil // positions no longer match; drop comments (incl. build constraints, re-added below)
	var buf bytes.Buffer
	fmt.Fprintf(&buf, "//go:build %s\n\n// Code generated by /verif/tools/vrewrite from %s; DO NOT EDIT.\n\n", *tag, *in)
	if err := printer.Fprint(&buf, fset, f); err != nil {
		fmt.Fprintln(os.Stderr, err)
		os.Exit(1)
	}
	if err := os.WriteFile(*out, buf.Bytes(), 0o644); err != nil {
		fmt.Fprintln(os.Stderr, err)
		os.Exit(1)
	}
	if *labels != "" {
		var lb bytes.Buffer
		for _, l := range r.labels {
			lb.WriteString(l + "\n")
		}
		_ = os.WriteFile(*labels, lb.Bytes(), 0o644)
	}
}
