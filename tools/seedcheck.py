#!/usr/bin/env python3
"""seedcheck.py <PROP> <mutant dir> <go package dir> [<check ids>...]
Confirms a seeded change (tests pass with it, demo fails with it and passes without it) in a
scratch worktree, then runs the checks against /repo with the patch applied and reverts it.
Writes the mutant into /verif/seeded/<PROP>-<name>/ with meta.json."""
import json, os, shutil, subprocess, sys, time
prop, mdir, pkg = sys.argv[1], sys.argv[2].rstrip("/"), sys.argv[3]
checks = sys.argv[4:] or [prop]
name = "%s-%s" % (prop, os.path.basename(mdir))
env = dict(os.environ, GOFLAGS="-mod=mod", GOPROXY="off", GOSUMDB="off")
def sh(cmd, cwd=None, timeout=1800):
    r = subprocess.run(cmd, shell=True, cwd=cwd, env=env, stdout=subprocess.PIPE, stderr=subprocess.STDOUT, text=True, timeout=timeout)
    return r.returncode, r.stdout
wt = "/tmp/sv-" + name
sh("git -C /repo worktree remove --force %s" % wt)
rc, o = sh("git -C /repo worktree add -q --detach %s HEAD" % wt); assert rc == 0, o
patch = os.path.join(mdir, "patch.diff")
demo = os.path.join(mdir, "demo_test.go")
res = {"property": prop, "mutant": name}
try:
    rc, o = sh("git apply %s" % patch, cwd=wt); assert rc == 0, "patch does not apply: " + o
    if os.environ.get("SEED_PRE"):
        rc, o = sh(os.environ["SEED_PRE"], cwd=wt); assert rc == 0, o
        res["pre_cmd"] = os.environ["SEED_PRE"]
    rc, o = sh("go build ./... && go test -count=1 ./%s/" % pkg, cwd=wt)
    tries = 1
    while rc != 0 and "TestTokenBucketFilter" in o and o.count("--- FAIL") <= 2 and tries < 4:
        # vnet's TestTokenBucketFilter measures real-time throughput and is flaky under load on the unchanged code too
        rc, o = sh("go test -count=1 ./%s/" % pkg, cwd=wt)
        tries += 1
    res["existing_tests_runs"] = tries
    res["existing_tests_pass_with_patch"] = (rc == 0)
    if rc != 0: res["existing_tests_output"] = o[-1500:]
    shutil.copy(demo, os.path.join(wt, pkg, "zz_seed_demo_test.go"))
    pkgname = open(demo).read()
    demo_flags = os.environ.get("SEED_TEST_FLAGS", "")
    if demo_flags: res["demo_flags"] = demo_flags
    rc, o = sh("go test %s -count=1 -run 'Demo|Seed|C0|C1|C2|Mutant|M[0-9]' ./%s/" % (demo_flags, pkg), cwd=wt, timeout=600)
    res["demo_fails_with_patch"] = (rc != 0)
    res["demo_with_patch_tail"] = o[-600:]
    sh("git apply -R %s" % patch, cwd=wt)
    rc, o = sh("go test %s -count=1 -run 'Demo|Seed|C0|C1|C2|Mutant|M[0-9]' ./%s/" % (demo_flags, pkg), cwd=wt, timeout=600)
    res["demo_passes_without_patch"] = (rc == 0)
    if rc != 0: res["demo_without_patch_tail"] = o[-600:]
finally:
    sh("git -C /repo worktree remove --force %s" % wt)
# run our checks against /repo with the patch
rc, o = sh("git -C /repo status --porcelain"); assert o.strip() == "", "/repo not clean"
rc, o = sh("git -C /repo apply %s" % patch); assert rc == 0, o
res["checks"] = {}
try:
    for c in checks:
        t0 = time.time()
        rc, o = sh("./check %s --tier quick" % c, cwd="/verif", timeout=3000)
        vio = [l for l in o.split("\n") if l.startswith("VIOLATION")]
        res["checks"][c] = {"exit": rc, "violation_lines": vio[:4], "wall_s": round(time.time() - t0, 1)}
        for l in vio[:1]:
            rp = l.split("replay=")[1].split()[0]
            if os.path.exists(rp):
                res["checks"][c]["replay_head"] = open(rp).read()[:1200]
finally:
    sh("git -C /repo checkout -- . && git -C /repo clean -fdq")
res["detected_by"] = [c for c, v in res["checks"].items() if v["exit"] != 0]
out = "/verif/seeded/" + name
os.makedirs(out, exist_ok=True)
shutil.copy(patch, out + "/patch.diff"); shutil.copy(demo, out + "/demo_test.go")
notes = os.path.join(mdir, "notes.txt")
res["needs"] = open(notes).read()[:1500] if os.path.exists(notes) else ""
res["ran"] = "tools/seedcheck.py: scratch worktree: git apply, go test ./%s/ (existing), demo with/without patch; then git -C /repo apply, ./check <id> --tier quick for %s, git -C /repo checkout -- ." % (pkg, checks)
json.dump(res, open(out + "/meta.json", "w"), indent=1)
print(name, "valid=%s" % (res.get("existing_tests_pass_with_patch") and res.get("demo_fails_with_patch") and res.get("demo_passes_without_patch")),
      "detected_by=%s" % res["detected_by"])
