#!/usr/bin/env python3
"""recheck.py <seeded name> [<check ids>...]: re-runs checks against an already confirmed seeded change (after the machinery
was strengthened): git -C /repo apply seeded/<name>/patch.diff, ./check <id> --tier quick, git -C /repo checkout -- .;
updates seeded/<name>/meta.json (checks, detected_by, and a note that it is a re-run)."""
import json, os, re, subprocess, sys, time
name = sys.argv[1]
d = "/verif/seeded/" + name
meta = json.load(open(d + "/meta.json"))
checks = sys.argv[2:] or [meta["property"]]
def sh(cmd, timeout=3000):
    r = subprocess.run(cmd, shell=True, cwd="/verif", stdout=subprocess.PIPE, stderr=subprocess.STDOUT, text=True, timeout=timeout)
    return r.returncode, r.stdout
rc, o = sh("git -C /repo status --short")
assert o.strip() == "", "/repo is not clean: " + o
rc, o = sh("git -C /repo apply %s/patch.diff" % d)
assert rc == 0, o
try:
    if meta.get("pre_cmd"):
        subprocess.run(meta["pre_cmd"], shell=True, cwd="/repo", check=True)
    for c in checks:
        t = time.time()
        rc, o = sh("./check %s --tier quick" % c)
        v = sorted(set(l for l in o.split("\n") if l.startswith("VIOLATION")))
        meta.setdefault("checks", {})[c] = {"exit": rc, "violation_lines": v[:5], "wall_s": round(time.time() - t, 1)}
finally:
    sh("git -C /repo checkout -- .")
    sh("git -C /repo clean -fdq")
meta["detected_by"] = [c for c, r in meta["checks"].items() if r["exit"] == 1 and r["violation_lines"]]
meta["rechecked_after_strengthening"] = True
json.dump(meta, open(d + "/meta.json", "w"), indent=1)
print(name, "detected_by=%s" % meta["detected_by"])
