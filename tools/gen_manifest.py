#!/usr/bin/env python3
"""Regenerates MANIFEST.json from the registry in checks.py (run after adding a check)."""
import json, os, sys
sys.path.insert(0, os.path.dirname(os.path.abspath(__file__)))
import checks
from vlib import VERIF

props = [json.loads(l) for l in open(os.path.join(VERIF, "properties.jsonl"))]
ids = [p["id"] for p in props]
entries = []
for pid in ids:
    if pid not in checks.REGISTRY:
        continue
    c = checks.REGISTRY[pid]
    entries.append({
        "property_id": pid,
        "quick_cmd": "./check %s --tier quick" % pid,
        "thorough_cmd": "./check %s --tier thorough" % pid,
        "evidence_file": "/verif/evidence/%s.json" % pid,
        "replay_cmd_template": "./check %s --replay {path}" % pid,
        "engine": "coq+modelrun",
        "level_claimed": {"category": "proof", "text": c.level_text, "design_ref": c.design_ref},
        "level_note": c.level_note,
        "technique": c.technique,
    })
na = [{"property_id": p, "reason": checks.NOT_CLAIMED.get(p, "check not built yet (work in progress; DESIGN.md section 9)")}
      for p in ids if p not in checks.REGISTRY]
m = {
    "version": 1,
    "setup_cmd": "sh coq/build.sh && sh tools/build_harness.sh",
    "hooks": {
        "guard": "verif",
        "enable": "checks build with `go1.26.8 build -tags verif -overlay <generated overlay.json>`: add-only //go:build verif files kept under /verif/harness/overlay are mapped into /repo packages at build time; nothing guarded is committed to /repo",
        "baseline_off_cmd": "cd /repo && go test -mod=mod -json -vet=off -count=1 -timeout 25m ./...",
        "source_commits": [],
        "add_only": True,
    },
    "engines": [
        {"name": "coq+modelrun", "path": "/verif/coq", "serves_properties": [e["property_id"] for e in entries],
         "kind_free_text": "Coq 8.16.1 development (models, Specs, theorems) + OCaml extraction driver bin/modelrun + Go correspondence harnesses under /verif/harness, orchestrated by /verif/check"},
    ],
    "checks": entries,
    "not_applicable": na,
    "notes": "Every check: (1) re-checks the property's Coq theorems (Print Assumptions must be closed), (2) rebuilds the Go harness against /repo's working tree, (3) runs corpus + generated histories on the implementation, (4) diffs them against the extracted Coq model, (5) applies the extracted Spec oracle. See DESIGN.md.",
}
json.dump(m, open(os.path.join(VERIF, "MANIFEST.json"), "w"), indent=1)
print("wrote MANIFEST.json with", len(entries), "checks;", len(na), "not claimed")
