"""Registry of property checks."""
from vlib import *


class RD(SeqCheck):
    harness = "rd"
    hbin = "h_rd"
    model_entry = "rd_model"
    oracle_entry = "rd_oracle"
    quick_n = 4000
    thorough_n = 200000
    rule = ("histories of Check(seq)/accept on New and WithWrap detectors; window and maximum drawn from edge-biased "
            "sets (word multiples +-1, 0, tiny, 2^16-1, 2^48-1, 2^62-1, 2^64-1); sequence numbers drawn relative to the "
            "newest accepted number (window edges, word edges, replays, 0, max, max+1, half space +-3); a history is "
            "non-trivial when at least two numbers were accepted and at least one check was refused; distinct = "
            "distinct (configuration, operation list)")
    trusted = ["closure discipline: accept() is called at most once, immediately after its Check (the only use the API documents)"]
    assumptions = ["callbacks kept and invoked after a later Check are outside the quantifier",
                   "Go uint is 64 bit (amd64)"]

    def is_nontrivial(self, conf, ops, obs):
        o = segs(obs)
        acc = sum(1 for x in o if x.startswith("1 ") and not x.endswith("-1"))
        ref = sum(1 for x in o if x.startswith("0"))
        return acc >= 2 and ref >= 1

    def code_legend(self):
        return ("flags (summed): 1 = an already accepted number passed Check again (C04), 2 = number above the maximum passed (C04), "
                "4 = Check differs from the sliding-window rule (C05), 8 = callback result differs from 'became newest' (C05)")

    def classify_known(self, pid, conf, ops, codes):
        kind, w, m = [int(x) for x in conf.split()]
        if pid == "C04" and kind == 1 and m == 1 and all((c & 2) == 0 for c in codes):
            return "wrap-max-1"
        return None


class C04(RD):
    pid = "C04"
    design_ref = "4 (C04/C05)"
    technique = "Coq proof (invariant over all histories) of an executable model + differential correspondence check against the Go code"
    level_text = ("Coq theorems C04_plain_no_replay (every window, every uint64 maximum, every history), C04_wrap_no_replay "
                  "(every window < 2^62, maximum 2..2^62-1, every history) and C04_never_above_max_* about an executable model of "
                  "both detectors; the model is tied to the code on every run by running thousands of generated Check/accept "
                  "histories on the real detectors and on the extracted model and comparing every answer; an extracted Spec "
                  "oracle is applied to the implementation's answers as well")
    level_note = ("trusted: Coq kernel, extraction + OCaml driver, Go harness/generator; theorem is about the model, the tie to "
                  "the code is differential testing; accept() assumed to be invoked at most once right after its Check; "
                  "known finding: WithWrap over the space 0..1 (C04_wrap_max1_refuted)")

    def oracle_codes_for(self, pid):
        return 3

    def diff_is_mine(self, pid, diffs):
        return True


class C05(RD):
    pid = "C05"
    design_ref = "4 (C04/C05)"
    technique = "Coq refinement proof (model = sliding-window Spec for all histories) + differential correspondence check against the Go code"
    level_text = ("Coq theorems C05_plain_exact (model answers = sliding-window Spec, all windows/maxima/histories), "
                  "C05_wrap_exact (4 <= max < 2^62, 2*window <= max+1, all histories avoiding the two unconstrained distances) and "
                  "C05_check_pure_*; the model is tied to the code by differential histories on every run, and the Spec oracle "
                  "is applied to the implementation's answers directly")
    level_note = ("trusted: Coq kernel, extraction + OCaml driver, Go harness/generator; theorem is about the model, the tie to "
                  "the code is differential testing; closure discipline as for C04")

    def oracle_codes_for(self, pid):
        return 12


REGISTRY = {"C04": C04, "C05": C05}

NOT_CLAIMED = {}
