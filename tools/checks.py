"""Registry of property checks."""
from vlib import *


class RD(SeqCheck):
    harness = "rd"
    hbin = "h_rd"
    model_entry = "rd_model"
    oracle_entry = "rd_oracle"
    overlay = {"replaydetector/verif_export.go": "replaydetector/verif_export.go"}
    quick_n = 4000
    thorough_n = 200000
    rule = ("histories of Check(seq)/accept on New and WithWrap detectors; window and maximum drawn from edge-biased "
            "sets (word multiples +-1, 0, tiny, 2^16-1, 2^48-1, 2^62-1, 2^64-1); sequence numbers drawn relative to the "
            "newest accepted number (window edges, word edges, replays, 0, max, max+1, half space +-3); a history is "
            "non-trivial when at least two numbers were accepted and at least one check was refused; a sixth of the histories "
            "exercise the bitmap itself: 10-70 Lsh (0, 1, word multiples +-1, window +-1, 2^40, random) / SetBit / Bit operations on "
            "windows 0-400, every word compared; plain detector: in a third of the histories a third of the checks keep their callback, which "
            "a later operation invokes (one of the four most recent kept ones, possibly again); distinct = distinct (configuration, operation list)")
    trusted = ["wrapping detector: accept() is called at most once, immediately after its Check (the only use the API documents)"]
    assumptions = ["wrapping detector: callbacks kept and invoked after a later Check are outside the quantifier; plain detector: a third of the "
                   "histories keep callbacks and invoke them later, in any order, also twice (theorem C04_plain_no_replay_any_order)",
                   "Go uint is 64 bit (amd64)"]

    def is_nontrivial(self, conf, ops, obs):
        if conf.split()[:1] == ["2"]:
            return len(segs(ops)) >= 10
        o = segs(obs)
        acc = sum(1 for x in o if x.startswith("1 ") and not x.endswith("-1"))
        ref = sum(1 for x in o if x.startswith("0"))
        return acc >= 2 and ref >= 1

    def code_legend(self):
        return ("flags (summed): 1 = an already accepted number passed Check again (C04), 2 = number above the maximum passed (C04), "
                "4 = Check differs from the sliding-window rule (C05), 8 = callback result differs from 'became newest' (C05)")

    def classify_known(self, pid, conf, ops, codes):
        kind, w, m = [int(x) for x in conf.split()]
        if pid == "C04" and kind == 1 and m == 1 and all((c & 2) == 0 for c in codes):
            return "wrap-max-1"
        if pid == "C04" and kind == 1 and m == 3 and w >= 4 and all((c & 2) == 0 for c in codes):
            return "wrap-max-3"
        return None


class C04(RD):
    pid = "C04"
    design_ref = "4 (C04/C05)"
    technique = "Coq proof (invariant over all histories) of an executable model + differential correspondence check against the Go code"
    level_text = ("Coq theorems C04_plain_no_replay (every window, every uint64 maximum, every history), C04_wrap_no_replay "
                  "(every window < 2^62, maximum 2..2^62-1, every history) and C04_never_above_max_* about an executable model of "
                  "both detectors; the model is tied to the code on every run by running thousands of generated Check/accept "
                  "histories on the real detectors and on the extracted model and comparing every answer; an extracted Spec "
                  "oracle is applied to the implementation's answers as well. C04_words_refine_bitmap: the window bitmap as the code "
                  "stores it (64-bit words, word-by-word shift with carry, top word masked) computes exactly the integer bitmap of the "
                  "detector model for every window size, shift distance and bit index; that word-level model is compared with the real "
                  "fixedBigInt (Lsh/SetBit/Bit, all words) in a sixth of the histories")
    level_note = ("trusted: Coq kernel, extraction + OCaml driver, Go harness/generator; theorem is about the model, the tie to "
                  "the code is differential testing; accept() assumed to be invoked at most once right after its Check; "
                  "known findings in degenerate sequence spaces: WithWrap over 0..1 (C04_wrap_max1_refuted) and WithWrap(window >= 4, maximum 3) "
                  "(C04_wrap_max3_refuted): C04_wrap_no_replay guards numbers relative to the detector's own position, which in these "
                  "tiny spaces can differ from the newest accepted number; the Spec oracle, which does not, reports them")

    def oracle_codes_for(self, pid):
        return 3

    def diff_is_mine(self, pid, diffs):
        return True


class C05(RD):
    pid = "C05"
    design_ref = "4 (C04/C05)"
    technique = "Coq refinement proof (model = sliding-window Spec for all histories) + differential correspondence check against the Go code"
    level_text = ("Coq theorems C05_plain_exact (model answers = sliding-window Spec, all windows/maxima/histories), "
                  "C05_wrap_exact (4 <= max < 2^62, 2*window <= max+1, all histories avoiding the two unconstrained distances) and "
                  "C05_check_pure_*; the model is tied to the code by differential histories on every run, and the Spec oracle "
                  "is applied to the implementation's answers directly")
    level_note = ("trusted: Coq kernel, extraction + OCaml driver, Go harness/generator; theorem is about the model, the tie to "
                  "the code is differential testing; closure discipline as for C04")

    def oracle_codes_for(self, pid):
        return 12


class PIO(SeqCheck):
    harness = "pio"
    hbin = "h_pio"
    model_entry = "pio_model"
    oracle_entry = "pio_oracle"
    overlay = {"packetio/verif_export.go": "packetio/verif_export.go"}
    quick_n = 1200
    thorough_n = 30000
    shards = 12
    stack_unlimited = True
    rule = ("sequential histories of Write/Read/SetLimitCount/SetLimitSize/Close/Count/Size on a real packetio.Buffer; "
            "the generator reads the ring indices through an overlay-added accessor and steers packet lengths so that "
            "headers and payloads land on/around the ring end, occupancy hits ring size-1 and every growth size, limits sit "
            "around growth sizes and the 4 MiB cap; writer slices are overwritten after Write, reader slices carry guard "
            "bytes; non-trivial = at least 3 accepted writes and 3 reads that returned a packet; distinct = distinct operation list")
    trusted = ["overlay file harness/overlay/packetio/verif_export.go (read-only accessor, build tag verif)",
               "payloads longer than 32 bytes are compared by (sum, position-weighted sum), not byte by byte"]
    assumptions = ["default build (sizeHardLimit=false)", "sequential use; blocking reads are C08",
                   "histories whose ring grows beyond 400000 bytes are replayed on the FIFO Spec (Coq-proved equal to the ring model) instead of the ring model"]

    def model_entry_for(self, conf):
        return "pio_spec" if conf.strip() == "1" else "pio_model"

    def is_nontrivial(self, conf, ops, obs):
        o = segs(obs)
        p = segs(ops)
        w = sum(1 for a, b in zip(p, o) if (a.startswith("8 ") or a.startswith("1 ") or a == "1") and b == "0")
        r = sum(1 for a, b in zip(p, o) if a.startswith("2 ") and (b.startswith("0 ") or b.startswith("1 ")))
        return w >= 3 and r >= 3

    def gen_args(self, tier):
        return []

    def code_legend(self):
        return ("flags (summed): 1 = a Read differs from the FIFO of accepted packets, or a too-big/after-Close write was not "
                "refused (C06); 2 = Count/Size wrong or a buffer-full decision differs from the limit rule (C07)")


class C06(PIO):
    pid = "C06"
    design_ref = "4 (C06/C07)"
    technique = "Coq refinement proof (ring buffer model refines a FIFO for all histories) + differential correspondence check against the Go code"
    level_text = ("Coq theorems about an executable model of the ring (data/head/tail, growth, wrap, reset) stating that for "
                  "every history its answers are those of a FIFO of packets; tied to packetio.Buffer by differential histories "
                  "on every run (ring model) and by the extracted FIFO oracle applied to the implementation's answers")
    level_note = ("trusted: Coq kernel, extraction + driver, harness; sequential histories only (atomicity of each operation "
                  "under the mutex is argued in C08); default build")

    def oracle_codes_for(self, pid):
        return 1


class C07(PIO):
    pid = "C07"
    design_ref = "4 (C06/C07)"
    technique = "Coq proof (exact Count/Size and refusal thresholds of the ring model for all histories) + differential correspondence check against the Go code"
    level_text = ("Coq theorems: the ring model's Count/Size and buffer-full decisions equal those of the FIFO Spec with the "
                  "literal thresholds (count limit, size limit, 4 MiB cap) for every history; tied to the code as for C06")
    level_note = C06.level_note

    def oracle_codes_for(self, pid):
        return 2


class C20(SeqCheck):
    pid = "C20"
    diff_is_violation = True
    harness = "xor"
    hbin = "h_xor"
    model_entry = "xor_model"
    oracle_entry = None
    quick_n = 24000
    thorough_n = 600000
    shards = 12
    design_ref = "4 (C20)"
    technique = "Coq proof (loop invariant over all memories, offsets, lengths and permitted aliasings) + differential correspondence check on two builds"
    level_text = ("Coq theorem C20_xor_spec about an executable model of xor_old.go (word loop + byte tail over a flat memory with "
                  "(offset,length) views): returns min(len a, len b), dst[i] = a[i]^b[i], every other byte unchanged, for all "
                  "alignments and dst==a / dst==b; tied to the code by running the real XorBytes (default build = crypto/subtle, and "
                  "xor_old.go forced in through an overlay) on generated memory images and comparing the whole memory afterwards")
    level_note = ("trusted: Coq kernel, extraction + driver, harness; xor_generic.go reduces to crypto/subtle.XORBytes (stdlib, only "
                  "tested here); xor_arm.go/xor_arm.s cannot run on this machine and are not covered; the word loop is modelled as "
                  "8 byte loads, xor, 8 byte stores (amd64 word size)")
    rule = ("memory image of 96..159 random bytes, 1-4 XorBytes calls on (offset,length) views: lengths 0..40 around word multiples, "
            "all offsets mod 8, layouts dst==a, dst==b, dst==a==b, a==b, all disjoint in any order; observation = n and the entire "
            "memory after each call (so frame violations show); non-trivial = a call with n >= 1; distinct = distinct (memory, calls)")
    trusted = ["overlay: xor_generic.go removed and xor_old.go compiled under tag verif instead of its (!go1.20 && !arm) || gccgo constraint "
               "(generated from /repo's xor_old.go at check time)"]
    assumptions = ["dst is at least min(len a, len b) long (shorter dst panics, outside the property)",
                   "partial overlaps between dst and a source are outside the property"]

    def variants(self):
        return [("h_xor", ["-mode", "1"]), ("h_xor_old", ["-mode", "2"])]

    def build(self):
        os.makedirs(BIN, exist_ok=True)
        wd = os.path.join(WORK, self.pid)
        os.makedirs(wd, exist_ok=True)
        src = open(os.path.join(REPO, "utils/xor/xor_old.go")).read()
        src = re.sub(r"(?m)^//go:build.*$", "//go:build verif", src, count=1)
        open(os.path.join(wd, "xor_old_verif.go"), "w").write(src)
        ov = os.path.join(wd, "overlay_old.json")
        json.dump({"Replace": {os.path.join(REPO, "utils/xor/xor_generic.go"): "",
                               os.path.join(REPO, "utils/xor/xor_old.go"): os.path.join(wd, "xor_old_verif.go")}}, open(ov, "w"))
        hd = os.path.join(VERIF, "harness", "xor")
        return (go_build(hd, os.path.join(BIN, "h_xor")) and
                go_build(hd, os.path.join(BIN, "h_xor_old"), tags="verif", overlay=ov))

    def is_nontrivial(self, conf, ops, obs):
        o = segs(obs)
        return any(x and not x.startswith("0 ") and x != "0" for x in o[1:])


class C18(SeqCheck):
    pid = "C18"
    diff_is_violation = True
    harness = "c18"
    hbin = "h_c18"
    test_binary = True
    model_entry = "c18_model"
    oracle_entry = None
    quick_n = 2400
    thorough_n = 60000
    shards = 12
    design_ref = "4 (C18)"
    technique = "Coq proof (conservation invariant over all histories + exact semantics of each scripted impairment) + differential correspondence check"
    level_text = ("Coq theorems about executable models of Bridge and dpipe: per direction, held + delivered + discarded messages are a "
                  "permutation of held-before + written for every history (no duplicate, no invention); ReorderNextNWrites queues exactly "
                  "the reversed group (also when repeated), DropNextNWrites discards exactly n, plain writes are FIFO modulo the filter; "
                  "dpipe is FIFO with truncation and the two ends close independently. Tied to the code by differential histories: real "
                  "Bridge (reader goroutine parked, Tick) and real dpipe against the extracted models, every answer compared")
    level_note = ("trusted: Coq kernel, extraction + driver, harness (runs in testing/synctest bubbles: synctest.Wait says when the Bridge reader is parked and when it has returned; "
                  "a read that gets nothing is released through its read deadline); loss chance 0; write deadlines on dpipe only, and not on an end that "
                  "is closed as well (Write then picks one of its two errors at random); Bridge.Drop with an offset beyond "
                  "the queue panics in Go and is not issued")
    rule = ("Bridge: 15-75 operations: writes in both directions (messages of 0..20 bytes, first byte a counter), reads with slices of "
            "64/5/2/0 bytes, DropNextNWrites, ReorderNextNWrites (1,2,3,4,0; repeated), Drop(offset,n), Reorder, Filter (4 kinds), Len, "
            "Close, Tick, then both directions drained; dpipe: writes/reads/Close on both ends, a write deadline of one end passing or being "
            "cleared (5% of the operations: a write then fails and discards that end's queued messages, never the other direction's), then "
            "drained; one history per run fills the 1000-slot queue. non-trivial = at least 3 "
            "messages delivered; distinct = distinct operation list")
    assumptions = ["sequential use of the Bridge control methods (they all take br.mutex)"]

    def is_nontrivial(self, conf, ops, obs):
        o = segs(obs)
        if conf.strip() == "1":
            return sum(1 for x in o if x.startswith("0 ") and len(x.split()) >= 2) >= 3
        return sum(1 for x in o if x.startswith("1 ") and len(x.split()) >= 2) >= 3


class NAT(SeqCheck):
    harness = "nat"
    hbin = "h_nat"
    test_binary = True
    model_entry = "nat_model"
    oracle_entry = "nat_oracle"
    overlay = {"vnet/verif_export.go": "vnet/verif_export.go"}
    quick_n = 3000
    thorough_n = 120000
    shards = 12
    rule = ("histories of translateOutbound/translateInbound on a real networkAddressTranslator inside a testing/synctest bubble "
            "(exact virtual time): all 3x3 mapping/filtering behaviours and 1:1 mode with 1-3 IP pairs, lifetimes 0(default 30 s)/30 s/5 s/1 s/"
            "100 ms, 5 internal endpoints and 6 remotes sharing IPs and ports crosswise, inbound to live / expired / never allocated / "
            "other-IP addresses, time steps 0, 1 ns, lifetime-1, lifetime, lifetime+1, 2*lifetime, lifetime/3; one history per run with "
            "16500 allocations (past the 16384 ports of the dynamic range); the harness also checks payload and the untouched address "
            "(kind 9 otherwise); non-trivial = at least 3 translations succeeded and 1 was refused; distinct = distinct (config, operations)")
    trusted = ["overlay file harness/overlay/vnet/verif_export.go (constructor + translate wrappers, build tag verif)",
               "testing/synctest fake clock", "string map keys modelled as tuples (IPv4)"]
    assumptions = ["time stamps of a history never decrease", "UDP chunks only (TCP translation is not implemented in vnet)"]

    def gen_args(self, tier):
        return []

    def is_nontrivial(self, conf, ops, obs):
        o = segs(obs)
        return sum(1 for x in o if x.startswith("0 ")) >= 3 and sum(1 for x in o if x in ("2", "1")) >= 1

    def code_legend(self):
        return "flags: 1 = first answer that differs from the Spec is an outbound translation (C02), 2 = an inbound translation (C03)"


class C02(NAT):
    pid = "C02"
    design_ref = "4 (C02/C03)"
    technique = "Coq refinement proof (nat.go model with lazy expiry = removal-free Spec, all time-monotone histories) + Spec theorems + differential correspondence check under virtual time"
    level_text = ("Coq theorems: the model of nat.go answers every time-monotone history like the removal-free Spec (C02_model_refines_spec); "
                  "in every reachable state external addresses are distinct, router-IP, ports counted from 49152 and valid when handed out; an "
                  "outbound datagram reuses an address exactly while a mapping with the same (internal endpoint, mapping key) is live and gets a "
                  "fresh one otherwise; inbound never prolongs; 1:1 rewriting is invertible. Tied to the code by differential histories with exact "
                  "virtual time and by the extracted Spec applied to the implementation's answers")
    level_note = ("trusted: Coq kernel, extraction + driver, harness, synctest clock; known finding: the 16385th mapping of a NAT gets port "
                  "65536 and the translation fails from then on (the model reproduces it; C02 as worded is not contradicted: no invalid address is handed out)")

    def oracle_codes_for(self, pid):
        return 1


class C03(NAT):
    pid = "C03"
    design_ref = "4 (C02/C03)"
    technique = "Coq proof (admission iff live mapping + permission; inbound changes no later answer, all histories) + differential correspondence check under virtual time"
    level_text = ("Coq theorems: inbound forwarded iff a live mapping owns the destination and permits the sender under the filtering key, to the "
                  "mapping's internal endpoint (C03_admit_iff); permissions are recorded only by outbound datagrams through the mapping; any inbound "
                  "datagram, dropped or not, changes no later answer of the model (C03_inbound_changes_no_later_answer); 1:1 rule. Tie as for C02")
    level_note = C02.level_note

    def oracle_codes_for(self, pid):
        return 2


class VSchedCheck(SeqCheck):
    """Trace validation under the controlled scheduler: the harness replaces source files of /repo by copies
    instrumented at check time (tools/vrewrite) and adds the hook file; the Coq model replays the event log."""
    test_binary = True
    oracle_entry = None
    instrument = {}      # path under /repo -> package name
    extra_overlay = {}   # path under /repo -> path under harness/overlay

    def build(self):
        os.makedirs(BIN, exist_ok=True)
        wd = os.path.join(WORK, self.pid)
        os.makedirs(wd, exist_ok=True)
        r = sh(["sh", "-c", "cd %s && GOFLAGS=-mod=mod GOPROXY=off GOSUMDB=off GOTOOLCHAIN=local %s build -o %s ." %
                (os.path.join(VERIF, "tools", "vrewrite"), GO, os.path.join(BIN, "vrewrite"))])
        if r.returncode != 0:
            log(r.stdout[-2000:])
            return False
        rep = {}
        pkgs = set()
        for path, pkg in self.instrument.items():
            subst = None
            if isinstance(pkg, tuple):
                pkg, subst = pkg
            out = os.path.join(wd, path.replace("/", "_"))
            r = sh([os.path.join(BIN, "vrewrite"), "-in", os.path.join(REPO, path), "-out", out,
                    "-labels", out + ".labels"] + (["-subst", subst] if subst else []))
            if r.returncode != 0:
                log("vrewrite failed on", path, r.stdout[-2000:])
                return False
            rep[os.path.join(REPO, path)] = out
            pkgs.add((os.path.dirname(path), pkg))
        for d, pkg in pkgs:
            hooks = os.path.join(wd, "zz_vhooks_%s.go" % pkg)
            tmpl = open(os.path.join(VERIF, "harness/overlay/vhooks/zz_vhooks.go.tmpl")).read()
            open(hooks, "w").write(tmpl.replace("PKGNAME", pkg))
            rep[os.path.join(REPO, d, "zz_vhooks.go")] = hooks
        for k, v in self.extra_overlay.items():
            rep[os.path.join(REPO, k)] = os.path.join(VERIF, "harness", "overlay", v)
        ov = os.path.join(wd, "overlay.json")
        json.dump({"Replace": rep}, open(ov, "w"))
        self.label_tables = {p: open(os.path.join(wd, p.replace("/", "_")) + ".labels").read() for p in self.instrument}
        return go_build(os.path.join(VERIF, "harness", self.harness), os.path.join(BIN, self.hbin), tags="verif",
                        overlay=ov, test_pkg=".")

    def shrink(self, line, pred):
        return line   # the replayable input is the schedule stored in the configuration; it is kept as found


class C08(VSchedCheck):
    pid = "C08"
    diff_is_violation = True
    harness = "c08"
    hbin = "h_c08"
    model_entry = "c08_replay"
    instrument = {"packetio/buffer.go": "packetio"}
    extra_overlay = {"packetio/verif_export.go": "packetio/verif_export.go"}
    quick_n = 3000
    thorough_n = 150000
    shards = 12
    design_ref = "4 (C08), 3.5"
    technique = "Coq proof (mutual exclusion + wake-up invariant over all interleavings of any number of readers/writers/closers; no parked reader at quiescence) + trace validation of the real code under a controlled scheduler"
    level_text = ("Coq theorems about an interleaving model with one transition per lock/unlock/channel/select operation of buffer.go: in every "
                  "reachable quiescent state no reader is parked while a packet is buffered, the buffer is closed or the deadline has passed "
                  "(C08_no_stuck_reader, unbounded thread counts); buffered data is returned without waiting; EOF after Close when empty; a passed "
                  "deadline fails fast. Tied to the code by trace validation: buffer.go is instrumented from the working tree at check time "
                  "(yield points before every synchronisation operation), goroutines are scheduled one operation at a time from the seeded PRNG "
                  "inside a synctest bubble, and the model must follow every logged event (label, enabledness, select case) and end with the "
                  "same results, count and 'reader stuck at quiescence' flag as the implementation")
    level_note = ("partial: 'always woken' is proved in its safety form (quiescence), fairness of the Go scheduler and the semantics of Go's mutex, "
                  "channels and select are the model's rules (trusted); atomicity between two yield points is sequential Go semantics; the "
                  "instrumentation pass (tools/vrewrite) and the scheduler (harness/vsched) are trusted; packet contents are abstracted to a count")
    rule = ("0-4 readers, 0-3 writers, 0-1 closer (one operation each), the read deadline passing at a random point; schedules of 10-90 decisions "
            "(uniform, or runs of one goroutine with change points) then run to quiescence; non-trivial = at least 2 goroutines and 12 logged events; "
            "distinct = distinct (goroutine kinds, schedule)")
    trusted = ["tools/vrewrite (source-to-source instrumentation) and harness/vsched (controlled scheduler) and the generated hook file",
               "testing/synctest (detection of parked/blocked goroutines)"]
    assumptions = ["weak fairness of the Go scheduler (for the liveness reading)", "one Read/Write/Close per goroutine"]

    def is_nontrivial(self, conf, ops, obs):
        kinds = conf.split("77")[0].split()
        return len(kinds) >= 2 and len(segs(ops)) >= 12

    def diff_is_failing_input(self, line):
        o = segs(split3(line)[2])
        return len(o) >= 3 and o[-1].split()[-1:] == ["1"]

    def failing_text(self):
        return ("at quiescence (no goroutine can move) a reader is parked in Read although a packet is buffered, the buffer is closed "
                "or the deadline has passed; the configuration holds the goroutine kinds (0 reader, 1 writer, 2 closer), 77, then the schedule")


class UDPL(VSchedCheck):
    diff_is_violation = True
    harness = "udpl"
    hbin = "h_udpl"
    model_entry = "udp_model"
    instrument = {"udp/conn.go": ("udp", "net.ListenUDP=vListenUDP,NewBatchConn=vNewBatchConn")}
    extra_overlay = {"udp/verif_export.go": "udp/verif_export.go"}
    quick_n = 2400
    thorough_n = 80000
    shards = 12
    rule = ("sequential histories on the real ListenConfig.Listen code over an in-memory socket (net.ListenUDP substituted in the copy of conn.go "
            "regenerated from the working tree): 15-75 operations: datagram from one of 7 remotes (sharing IPs and ports crosswise) with 1-5 byte "
            "payloads, Accept, Conn.Read (64/2/0 byte slices), Conn.Close, listener Close, then everything closed in a random order; backlog "
            "1/2/3/128, accept filters none / first byte odd / reject all / empty or first byte odd; remotes IPv4 / IPv6 (loopback, link-local differing only in zone) / mixed; "
            "batch reading off or on with ReadBatchSize 2/3/8 (arrivals then pile up and are returned several per ReadBatch call by the in-memory "
            "socket, NewBatchConn substituted in the same way as net.ListenUDP); every observation carries 'socket closed?'; non-trivial = at least 2 "
            "accepted connections and 3 delivered datagrams; concurrent tier (1/3 of the shards): 2-5 remotes, some connections queued and some accepted, "
            "then listener Close (also twice), 0-3 Accept calls, connection Close (twice) and parked Reads run as goroutines stepped one "
            "synchronisation operation at a time by a seeded schedule of 20-140 decisions with arrivals in between, then everything is closed; "
            "loopback tier (1/4 of the shards, configuration <backlog> <filter> 3 <batch>): the same operations against a real socket on 127.0.0.1 "
            "with one real socket per remote (also with the platform's batch reader), outside the bubble: after every arrival the harness waits "
            "until the read loop has picked the datagram up (counted at getConn's lock in the instrumented copy) and the history continues with a "
            "marker datagram from a sync remote and a blocking read of it on connection 0, after which the dispatch of the earlier datagram is "
            "complete; empty datagrams (1/8 of the arrivals) and a filter that admits empty datagrams; every Read and Close first checks that "
            "the connection's RemoteAddr is still the one it was accepted with; the count limit of a connection's buffer is set now and then (a slow "
            "reader's full buffer: datagrams dropped, connection kept), bursts of 3-5 datagrams of 4-8 KiB before Accept, oversize Conn.Write "
            "calls that the socket refuses; distinct = distinct (config, operations)")
    trusted = ["tools/vrewrite (here only the call substitution net.ListenUDP -> in-memory socket matters; yield hooks are off)",
               "loopback tier: the kernel's UDP over 127.0.0.1 (no loss at these volumes); closure of the real socket is observed through SetWriteBuffer failing",
               "overlay file harness/overlay/udp/verif_export.go (queue length / buffered count accessors)", "testing/synctest (quiescence after each operation)"]
    assumptions = ["operations are issued one at a time (each completes before the next starts)"]

    def shrink(self, line, pred):
        c = split3(line)[0].split()
        if c[:1] == ["9"] or c[2:3] == ["3"]:
            return line     # schedules, and loopback histories (whose marker operations must stay where they are), are not shrunk
        return SeqCheck.shrink(self, line, pred)

    def variants(self):
        base = ["-test.run", "^TestHarness$"]
        return [(self.hbin, base), (self.hbin, base), (self.hbin, base + ["-mode", "conc"]), (self.hbin, base + ["-mode", "loop"])]

    def model_entry_for(self, conf):
        return "c12_replay" if conf.split()[:1] == ["9"] else self.model_entry

    def model_postprocess(self, line, model_obs):
        # concurrent tier (conf 9 <seed> <backlog>): the interleaving model replays the logged events and must end in the same state;
        # the last observation is the flag word of the implementation-side oracle and must be 0
        return model_obs + "|0" if split3(line)[0].split()[:1] == ["9"] else model_obs

    def diff_is_failing_input(self, line):
        c, _, ob = split3(line)
        if c.split()[:1] == ["9"]:
            return segs(ob)[-1].strip() != "0"     # a non-zero flag word; a replay mismatch alone is a broken correspondence
        return True

    def failing_text(self):
        return ("sequential tier: the implementation's answer differs from the model's; concurrent tier (configuration 9 <seed> <backlog>, the real code "
                "stepped one synchronisation operation at a time): flags 1 socket closed while the listener or an accepted connection was still "
                "open, 2 socket still open after everything was closed, 4 goroutine left, 8 Accept after Close, 16 connection handed out twice / two "
                "open connections for one remote, 32 accepted open connection cannot send, 64 pending Read not released by Close, 128 Close "
                "panicked or second Close failed, 256 datagram of another remote")

    def is_nontrivial(self, conf, ops, obs):
        if conf.split()[:1] == ["9"]:
            return len(segs(ops)) >= 25
        o = segs(obs)
        p = segs(ops)
        acc = sum(1 for a, b in zip(p, o) if a == "2" and b.startswith("0 "))
        rd = sum(1 for a, b in zip(p, o) if a.startswith("3 ") and b.startswith("0 "))
        return acc >= 2 and rd >= 3


class C11(UDPL):
    pid = "C11"
    design_ref = "4 (C11/C12)"
    technique = "Coq proof (dispatch facts of the listener model for every state) + differential correspondence check of the real Listen code on an in-memory socket"
    level_text = ("Coq theorems about the listener model: a datagram from a known remote is appended to exactly that connection and changes nothing "
                  "else; from an unknown remote it creates exactly one connection (queued last, holding the datagram) iff accepting, admitted by the "
                  "filter and the backlog has room, else nothing changes; reads are FIFO per connection; Close unmaps the remote so that a later "
                  "datagram creates a fresh connection. Tied to the code by differential histories against the real ListenConfig.Listen/readLoop/getConn "
                  "running on an in-memory socket in synctest bubbles")
    level_note = ("trusted: Coq kernel, extraction + driver, harness; the OS socket is replaced by an in-memory PacketConn (kernel UDP delivery and recvmmsg are not "
                  "exercised; readBatch runs against an in-memory batch reader); operations are sequential (interleavings are C12's subject)")


class C12(UDPL):
    pid = "C12"
    design_ref = "4 (C11/C12), 12.1"
    technique = ("Coq proof (reference-count invariant over all sequential histories, and over all interleavings of the read loop, listener Close, "
                 "Accept, connection Close and the closer goroutine: socket closed only after the listener and every accepted connection were closed, "
                 "and closed once they are) + differential check of the real Listen/Close code on an in-memory socket + trace validation of the real "
                 "code under a controlled scheduler")
    level_text = ("Coq theorems: (sequential model) over all histories of arrivals/Accept/Read/Conn.Close/listener Close the reference count equals "
                  "(open listener) + queued + accepted-and-open connections, so the socket is closed exactly when the listener is closed and every "
                  "accepted connection is closed; Accept fails after Close; Close is idempotent. (Interleaving model UdpListener/Conc.v, one step per "
                  "synchronisation operation of getConn, listener.Close, Accept, Conn.Close and the closer goroutine, any number of Accepts and "
                  "connection Closes) in every reachable state the WaitGroup counter is listener reference + queued + accepted-and-open + in flight, "
                  "the socket is closed only after the listener dropped its reference and no accepted connection is open (C12_conc_never_earlier), no "
                  "Accept succeeds after listener Close has finished and at quiescence the socket has been closed (C12_conc_closed_in_the_end). Tied "
                  "to the code by differential histories in which every observation carries the socket's closed flag, and by trace validation: "
                  "conn.go is instrumented from the working tree, goroutines are stepped one synchronisation operation at a time by seeded schedules "
                  "with arrivals injected, the Coq model must follow every logged event and end in the same state, and the property is checked on "
                  "the implementation itself (flags)")
    level_note = ("partial: the interleaving model abstracts connections to counts (identities and the conns map are the sequential model's and C11's "
                  "subject); pending Reads released by Close and 'no goroutine left' are checked on the implementation only; liveness in the "
                  "quiescence form (fair scheduling trusted); OS-level port reuse is not exercised (in-memory socket); vrewrite/vsched/synctest trusted")


class C17(VSchedCheck):
    pid = "C17"
    diff_is_violation = True
    harness = "ctx"
    hbin = "h_ctx"
    model_entry = "c17_replay"
    instrument = {"netctx/conn.go": "netctx", "netctx/packetconn.go": "netctx", "connctx/connctx.go": "connctx"}
    quick_n = 6000
    thorough_n = 240000
    shards = 12
    design_ref = "4 (C17), 3.5"
    technique = ("Coq proof (all interleavings of caller, watcher goroutine, cancellation and data arrival: finite reachable set computed and "
                 "checked closed inside Coq; conservation over any number of operations by induction) + trace validation of the real netctx/connctx "
                 "code under a controlled scheduler")
    level_text = ("Coq theorems over every interleaving of the calling goroutine, the watcher goroutine, cancellation and readiness of the wrapped "
                  "connection, for any number of consecutive operations: at return the watcher has exited, no forced deadline is left, the byte count is "
                  "the wrapped operation's, the context's error is reported exactly when the context is over and no byte was transferred; a deadline is "
                  "forced only after the operation's context ended; the operation blocks only where the wrapped connection blocks and returns within a "
                  "bounded number of steps once the context is over; bytes reported equal bytes transferred (C17_conservation). Tied to the code by trace "
                  "validation: the three source files are instrumented from the working tree at check time, all six operations run under a controlled "
                  "scheduler inside synctest bubbles over an in-memory connection with cancellation (cancel functions and timeouts) injected at every "
                  "point, the Coq model must follow every logged event and reproduce every reported (n, error class), and the harness checks the "
                  "property on the implementation's own answers (no leftover deadline, no leaked watcher, no spurious error, no lost or invented bytes, "
                  "prompt return)")
    level_note = ("partial: 'promptly' is proved as a step bound under the controlled scheduler, not in wall-clock time; the wrapped connection is an "
                  "in-memory net.Conn/net.PacketConn that honours deadlines (a real socket or a pipe is not exercised); byte counts are abstracted to "
                  "zero / some in the model (exact bytes are compared by the harness oracle); read and write directions are explored separately; "
                  "Close racing with operations is not modelled; vrewrite, vsched and synctest are trusted")
    rule = ("1-4 consecutive operations of one of the six kinds (netctx Conn Read/Write, PacketConn ReadFrom/WriteTo, connctx Read/Write) on one "
            "wrapper; per operation 6-20 scheduling decisions with cancellation (cancel function or elapsed timeout) and readiness of the wrapped "
            "connection inserted at random points (together, apart, or absent), also: the peer taking half of a parked write, empty payloads and "
            "empty datagrams, a transient non-timeout error of the wrapped connection (1 operation in 4), a refused deadline call (1 in 8), contexts "
            "created with a cause (WithCancelCause / WithTimeoutCause); occasionally a second operation started early so that it competes for "
            "the direction's mutex and cancellations before the lock is taken; then run to quiescence, unblocking an operation that waits like the "
            "wrapped connection by cancelling or delivering; non-trivial = at least one cancellation and 12 model events; distinct = distinct "
            "(kind, decisions)")
    trusted = ["tools/vrewrite (source-to-source instrumentation) and harness/vsched (controlled scheduler) and the generated hook files",
               "testing/synctest (detection of parked/blocked goroutines, virtual clock for context timeouts)",
               "the in-memory wrapped connection of harness/ctx and the translation of its log into model events"]
    assumptions = ["the wrapped connection honours SetReadDeadline/SetWriteDeadline as net.Conn documents (a past deadline fails a blocked operation "
                   "with a timeout; the zero value removes the deadline); when it refuses a deadline call (modelled: the recorded error, byte counts "
                   "and the context-error rule are still compared) nothing is claimed about deadlines afterwards (theorem hypothesis tainted = false)",
                   "operations on one direction at a time (read and write directions are independent)"]

    def model_postprocess(self, line, model_obs):
        return model_obs + "|0"

    def is_nontrivial(self, conf, ops, obs):
        p = segs(ops)
        return len(p) >= 12 and "13" in p

    def diff_is_failing_input(self, line):
        o = segs(split3(line)[2])
        return len(o) >= 2 and o[-1].strip() not in ("0", "")

    def failing_text(self):
        return ("the implementation's own answers violate C17: flags (last observation) 1 error with a live context, 2 bytes lost/invented/"
                "misreported, 4 wrapped connection keeps a deadline after the operation returned, 8 context over but the operation does not return, "
                "16 wrong error class (context error with n>0, or context over, n=0 and no context error), 32 watcher goroutine leaked, 64 data ready "
                "but the operation does not return; the configuration holds kind, operations, 77, then the scheduling decisions")


class C09(SeqCheck):
    pid = "C09"
    diff_is_violation = True
    harness = "dl"
    hbin = "h_dl"
    test_binary = True
    model_entry = "dl_model"
    oracle_entry = None
    overlay = {"deadline/verif_export.go": "deadline/verif_export.go"}
    quick_n = 20000
    thorough_n = 600000
    shards = 12
    design_ref = "4 (C09)"
    technique = "Coq invariant proof over all interleavings of Set / clock / timer dispatch / stale callbacks + differential correspondence check with a controlled timer"
    level_text = ("Coq theorems about a model of Deadline plus its timer environment (expiry dispatched by the runtime, callback run later, any "
                  "number of Sets in between): Done is closed only when the latest Set's non-zero time has passed, never by a stale callback; it is "
                  "closed once the timer is quiescent; Err iff Done; no double close; fresh channel after expiry. Tied to the code by running the "
                  "real Deadline with a harness-controlled timer in a synctest bubble on generated event sequences (up to several callbacks "
                  "outstanding) and comparing Done/identity/Err/Deadline/panic after every event")
    level_note = ("trusted: Coq kernel, extraction + driver, harness; the runtime's timer contract (Stop reports whether it prevented the firing; a due "
                  "timer is eventually dispatched and its callback eventually runs) is the model's environment, i.e. 'fires exactly when' holds modulo "
                  "timer delivery; fewer than 254 callbacks outstanding (uint8 counter); timer_js.go not covered")
    rule = ("event sequences of 8-48 events + settle phase: Set(zero | past | now | now+1 | future | 2 s to 17 min ahead), after every event an armed "
            "fake timer must be armed for the deadline in force (within 1 ms), Advance(0,1,50,150,400 ns), Dispatch (if the fake "
            "timer is armed and due), RunCallback (if one is outstanding); non-trivial = Done got closed at least once; distinct = distinct event list")
    trusted = ["overlay file harness/overlay/deadline/verif_export.go (fake timer implementing the unexported timer interface, VerifNew, VerifTimeout)",
               "testing/synctest fake clock"]
    assumptions = ["fewer than 254 dispatched-but-not-run callbacks at any time"]

    def is_nontrivial(self, conf, ops, obs):
        return any(x.startswith("1 ") for x in segs(obs))


class C10(SeqCheck):
    pid = "C10"
    diff_is_violation = True
    harness = "rdl"
    hbin = "h_rdl"
    test_binary = True
    model_entry = "rdl_model"
    oracle_entry = None
    overlay = {"vnet/verif_export.go": "vnet/verif_export.go", "udp/verif_export.go": "udp/verif_export.go"}
    quick_n = 3000
    thorough_n = 18000   # about 4.5 histories per second and shard: 1500 per shard stay well inside the harness timeout, also on a busy machine
    shards = 12
    design_ref = "4 (C10)"
    technique = "Coq proof (closed form of read/deadline interaction: timeout iff a non-zero deadline has passed, persistence, release at the deadline, reset) + exact virtual-time differential check on five connection types"
    level_text = ("Coq theorems about the closed-form model (deadline in force, FIFO of items, sequential reader): reads time out only when a non-zero "
                  "deadline has passed, never early; after expiry every read fails at once and consumes nothing; a blocked read is released exactly at "
                  "its deadline and not before; a later or zero deadline makes reads return data again. Tied to the code in synctest bubbles on "
                  "packetio.Buffer, dpipe, udp.Conn (socket-less), vnet.UDPConn (detached) and Bridge endpoints: for timed scripts of "
                  "SetReadDeadline/SetDeadline/arrival/read the (virtual return instant, class, item) of every read is compared with the model")
    level_note = ("partial: timer delivery by the Go runtime (here: synctest's fake clock) is trusted; ties between an arrival and an expiry at the same "
                  "instant are excluded (the property leaves them open); udp.Conn and vnet.UDPConn are exercised without sockets/routers (their read "
                  "side does not touch them)")
    rule = ("per connection type (5, round robin): 8-38 script events at strictly increasing instants (gaps 1/3/10/50 ms, 2 s): SetReadDeadline or "
            "SetDeadline to zero / 1 s ago / +10 ms / +25 ms / +2 s / +1 h / +280 years, arrival of an item, start of a read (a zero-length read "
            "now and then while the deadline has passed); for the packet buffer one script in three also closes the buffer in its later part "
            "(what it holds stays readable, then reads report EOF) and goes on setting deadlines and reading; all instants distinct from all "
            "deadline instants; non-trivial = at least one timeout and one data read; distinct = distinct (type, script)")
    trusted = ["overlay files harness/overlay/vnet/verif_export.go and harness/overlay/udp/verif_export.go (detached sockets, delivery hooks)",
               "testing/synctest fake clock"]
    assumptions = ["one reader at a time", "no ties between arrival and expiry instants"]

    def is_nontrivial(self, conf, ops, obs):
        o = segs(obs)
        return any(x.split()[1:2] == ["1"] for x in o) and any(x.split()[1:2] == ["0"] for x in o)


class C01(VSchedCheck):
    pid = "C01"
    diff_is_violation = True
    harness = "c01"
    hbin = "h_c01"
    test_binary = True
    model_entry = "net_model"
    oracle_entry = None
    # the harness is built against copies of these files instrumented from the working tree (hooks off except in the
    # controlled-scheduler tier)
    instrument = {"vnet/router.go": "vnet", "vnet/net.go": "vnet", "vnet/conn.go": "vnet"}
    quick_n = 1200
    thorough_n = 40000
    shards = 12
    design_ref = "4 (C01)"
    technique = ("Coq proof (invariants of a network model over all event sequences on any topology: at-most-once, payload integrity, covering "
                 "socket, no overtaking on a trail, per-hop loss freedom, reply through any NAT chain) + differential correspondence check of the "
                 "public vnet API in synctest bubbles + concurrent tier with the property checked on the implementation's own deliveries")
    level_text = ("Coq theorems about an executable model of WriteTo / Net.write / Router.push / processChunks (routing, NAT translation up and down) / "
                  "udpConnMap.find / onInboundChunk / ReadFrom, for every sequence of events (writes, single forwarding steps of any router, reads, "
                  "bind, Close, time, Start/Stop) on every topology: each datagram identity occurs at most once over all queues, receive queues and "
                  "read logs (C01_at_most_once); everything queued or read carries the bytes of an accepted write (C01_payload_intact); a socket holds "
                  "only datagrams addressed to it, a connected socket reads only its remote's (C01_delivered_to_covering_socket); datagrams on the same "
                  "trail of queues never overtake each other and are read in write order (C01_fifo_same_trail_partial); a write / forwarding step keeps "
                  "the datagram exactly under the spelled-out admission conditions (C01_write_not_lost, C01_hop_not_lost); a reply to the shown source "
                  "is translated back to the sender through any chain of NATs after any other traffic while no lifetime has passed "
                  "(C01_reply_through_nat_chain). Tied to the code by differential histories through the public API on generated topologies, and by a "
                  "concurrent tier where writers and routers run under the Go scheduler and duplicates, corruption, wrong socket, reordering, loss of "
                  "admitted datagrams, wrong source and lost replies are checked on what the sockets received")
    level_note = ("partial: FIFO is proved per trail of queues; that one (sender socket, destination address) always takes the same trail is argued "
                  "from the tree topology and the persistence of NAT mappings, not mechanised; loss freedom is proved per hop (not as an eventual-"
                  "delivery theorem); the reply theorem is stated on the NAT Spec and on the chain of NATs, not on the whole network model, and does "
                  "not cover a sender bound to 127.0.0.1 writing off-host without a NAT on the path (the code forwards such a datagram with source "
                  "127.0.0.1); minimum delay, jitter and chunk filters are absent from this model (C14-C16); atomicity of one forwarding step "
                  "(pop / translate / push are separate critical sections of one router goroutine) is argued in Vnet/Network.v and exercised by the "
                  "concurrent and controlled-scheduler tiers, not proved; known finding restart-under-traffic (Stop/Start racing with forwarding reorders a "
                  "flow: reported as KNOWN-FINDING, so a change that makes such reordering more frequent is not told apart); IPv4/UDP only")
    rule = ("sequential tier (2/3 of the shards): root router + 0-2 LAN routers nested up to depth 3, NAPT with all 9 mapping/filtering behaviours, "
            "lifetimes 5 s/30 s/2 min, 1:1 mode, 1-2 external addresses, hosts with static, automatic and two addresses; sockets wildcard / specific / "
            "loopback / ephemeral / connected; 30-100 operations: writes (payload 0-23, 200-1200 or 1500 bytes; buffer overwritten after the call) to "
            "bound sockets, NAT external addresses, replies to the last source seen, loopback, unbound ports, unroutable addresses; reads; draining "
            "every socket (so that nothing else arrived is checked); time steps 1 s-3 min; close; bind; Stop/Start; non-trivial = at least 3 "
            "datagrams read. Concurrent tier (1/3): wildcard sockets on every host, 1-2 flows per socket of 20-80 numbered datagrams to publicly "
            "reachable or same-LAN sockets, all senders concurrently, then concurrent replies; controlled-scheduler tier (1/4 of the shards; router.go, net.go and conn.go instrumented from the working tree): root router, two hosts, "
            "optionally a LAN behind a NAT, 1-3 flows of 4-7 datagrams, writers, router goroutines and (half of the histories) a Stop/Start of the "
            "root router stepped one synchronisation operation at a time by seeded schedules; one history per run uses up the 16384 dynamic ports of a "
            "NAT and checks that the established flow still works (compared with the model in the thorough tier only); non-trivial = at least 100 datagrams; distinct = "
            "distinct (configuration, operations)")
    trusted = ["testing/synctest (quiescence after each operation, virtual clock for NAT lifetimes)"]
    assumptions = ["IPv4/UDP"]

    def variants(self):
        base = ["-test.run", "^TestHarness$"]
        return [(self.hbin, base), (self.hbin, base), (self.hbin, base + ["-mode", "conc"]), (self.hbin, base + ["-mode", "vs"])]

    def model_entry_for(self, conf):
        return None if conf.split()[:1] == ["9"] else self.model_entry

    def classify_known_diff(self, pid, line):
        # controlled-scheduler tier (conf 9 <seed> 2), ops [flows; datagrams; events; restarted?]: reordering (flag 8 alone) in a history
        # in which the root router was stopped and started again while datagrams were in flight
        c, o, ob = split3(line)
        cf, of = c.split(), (segs(o)[0].split() if segs(o) else [])
        if cf[:1] == ["9"] and cf[2:3] == ["2"] and len(of) >= 4 and of[3] == "1" and segs(ob)[-1].strip() == "8":
            return "restart-under-traffic"
        return None

    def gen_args(self, tier):
        self._tier = tier
        return []

    def harness_env(self):
        e = SeqCheck.harness_env(self)
        if getattr(self, "_tier", "quick") == "thorough":
            e["C01_EXH_MODEL"] = "1"   # the NAT port exhaustion history is also compared with the model (about 90 s)
        return e

    def model_postprocess(self, line, model_obs):
        # concurrent tier: no prediction; the observation is the flag word of the implementation-side oracle and must be 0
        return "0" if split3(line)[0].split()[:1] == ["9"] else model_obs

    def is_nontrivial(self, conf, ops, obs):
        if conf.split()[:1] == ["9"]:
            return int(segs(ops)[0].split()[1]) >= 100
        o = segs(obs)
        return sum(1 for x in o if x.startswith("1 ")) >= 3

    def shrink(self, line, pred):
        c = split3(line)[0].split()
        if c[:1] == ["9"] or c[2:3] == ["3"]:
            return line     # schedules, and loopback histories (whose marker operations must stay where they are), are not shrunk
        return SeqCheck.shrink(self, line, pred)

    def failing_text(self):
        return ("sequential tier: the implementation's answer differs from the model's (the only answer C01 allows on this history); concurrent tier "
                "(configuration 9 <seed> <index>): flag word of the oracle on what the sockets received: 1 duplicate, 2 corrupt payload, 4 wrong "
                "socket, 8 reordered within a flow, 16 admitted datagram lost, 32 wrong or unstable source address, 64 reply to the shown source lost, "
                "128 datagram nobody wrote")


class C13(SeqCheck):
    pid = "C13"
    diff_is_violation = True
    harness = "c13"
    hbin = "h_c13"
    test_binary = True
    model_entry = "c13_model"
    oracle_entry = None
    overlay = {"vnet/verif_export.go": "vnet/verif_export.go"}
    quick_n = 2400
    thorough_n = 80000
    shards = 12
    design_ref = "4 (C13)"
    technique = "Coq proof (freshness/exhaustion of automatic IPs; bind rule, ephemeral scan for every offset, close, lookup over all socket sets) + differential correspondence check through the public API"
    level_text = ("Coq theorems about executable models of Router.addNIC/assignIPAddress and Net._dialUDP/assignPort/udpConnMap: an automatic "
                  "address is never one a NIC holds, stays in the subnet or errors, exhaustion only when every candidate is held; bind succeeds "
                  "iff the IP is the host's and no open socket covers (IP, port); port 0 yields a free port of 5000-5999 for every scan offset and "
                  "fails iff none is free; sockets stay pairwise non-covering; close frees; lookup finds the unique covering socket. Tied to the "
                  "code by differential histories through NewRouter/AddNet/NewNet and ListenUDP/ListenPacket/DialUDP/Close")
    level_note = ("trusted: Coq kernel, extraction + driver, harness; the random scan offset of assignPort is not observable: the model is given "
                  "the offset that reproduces the port the implementation chose and must agree that this port is the first free one from there; "
                  "duplicate static addresses are outside the property; IPv4 only")
    rule = ("router histories: 5-45 (sometimes 270) AddNet calls mixing automatic and distinct static addresses (inside the automatic range, at "
            ".254, beyond the subnet) on /24, /25, /28 and /16 subnets; host histories: hosts with 1-3 IPs, 10-60 binds (specific, wildcard, "
            "loopback, foreign IP; ports 0, 80, 81, 4999-6000), closes and lookups, sometimes with the whole ephemeral range filled first; every "
            "lookup of one of the host's own IPs is also made with a probe datagram sent by a second host through the running router (inside a "
            "testing/synctest bubble: quiescence = delivered) which must arrive at exactly the socket the model names; a refused bind is repeated "
            "once with the same address value and must be refused again; bursts bind - probe - close - bind again - probe on one address; "
            "non-trivial = at least 2 successful and 1 refused operation; distinct = distinct (config, operations)")
    trusted = ["overlay file harness/overlay/vnet/verif_export.go (VerifFindSock and VerifPending accessors)", "testing/synctest (quiescence after a probe)"]
    assumptions = ["single-threaded use of one Net/Router", "IPv4"]

    def is_nontrivial(self, conf, ops, obs):
        o = segs(obs)
        return sum(1 for x in o if x.startswith("0")) >= 2 and sum(1 for x in o if x and x[0] in "123" and not x.startswith("0")) >= 1


class C14(SeqCheck):
    pid = "C14"
    harness = "delay"
    hbin = "h_delay"
    test_binary = True
    model_entry = "rdelay_model"
    oracle_entry = "delay_oracle"
    overlay = {"vnet/verif_export.go": "vnet/verif_export.go"}
    quick_n = 600
    thorough_n = 20000
    shards = 6
    design_ref = "4 (C14)"
    technique = "Coq proof about the router's delay loop (lower bound, FIFO-once, progress for every wake-up time) + exact virtual-time differential check; DelayFilter and jittering router: extracted Spec oracle on observed logs"
    level_text = ("Coq theorems about the model of Router.processChunks' delay logic: at any wake-up only chunks older than min_delay leave, in queue "
                  "order, each once, and the loop then sleeps exactly until the next head is due (C14_router_*). Tied to the code in a synctest bubble "
                  "(no jitter: every chunk must leave exactly min_delay after its push). For the router with jitter and for DelayFilter the extracted "
                  "Spec oracle (never early, per-sender arrival order, exactly once, all forwarded, no panic) is applied to logs of real-time runs with "
                  "1-3 concurrent senders and arrivals spaced around the delay value, delay 0 included")
    level_note = ("partial: the DelayFilter interleavings are explored by real scheduling, not by a controlled scheduler, and its interleaving model is not "
                  "proved in Coq yet; 'eventually forwarded' is checked as 'forwarded within 2 s'; timer delivery and goroutine scheduling are the Go runtime's")
    rule = ("mode 0 (2/5): router, delays 0/0.5/1/5/30 ms, 5-45 pushes spaced 0, 1 ns, delay-1, delay, delay+1, 3*delay, random, virtual time; mode 1 (1/5): "
            "router with jitter 0.2-1 ms in real time; mode 2 (2/5): DelayFilter, delays 0/0.5/1/2 ms, 1-3 senders, gaps 0, delay, delay+50us, random; "
            "non-trivial = at least 3 chunks forwarded; distinct = distinct (mode, delay, arrival log)")
    trusted = ["overlay file harness/overlay/vnet/verif_export.go (router with sink NIC, DelayFilter with sink)", "testing/synctest fake clock (mode 0)"]
    assumptions = ["arrival order is defined per sender", "real-time modes: the arrival stamp is taken just before the chunk is handed to the filter/router"]

    def model_entry_for(self, conf):
        return "rdelay_model" if conf.split()[0] == "0" else None

    def oracle_codes_for(self, pid):
        return 15

    def is_nontrivial(self, conf, ops, obs):
        return len(segs(obs)) >= 3

    def code_legend(self):
        return ("flags (summed): 1 = forwarded earlier than arrival + delay, 2 = order differs from the sender's arrival order / duplicate / unknown, "
                "4 = a chunk was never forwarded, 8 = the forwarding loop panicked")


class C15(SeqCheck):
    pid = "C15"
    diff_is_violation = True
    harness = "tbf"
    hbin = "h_tbf"
    test_binary = True
    model_entry = "tbf_model"
    oracle_entry = None
    overlay = {"vnet/verif_export.go": "vnet/verif_export.go"}
    quick_n = 3000
    thorough_n = 100000
    shards = 12
    design_ref = "4 (C15)"
    technique = "Coq proof (window bound by telescoping over all runs incl. run-time rate/burst changes; FIFO conservation; discard rule) + exact virtual-time differential check"
    level_text = ("Coq theorems about an exact-arithmetic model of TokenBucketFilter: from any arrival on, bytes forwarded <= burst + max rate * elapsed "
                  "(C15_rate_bound, every window, every continuation incl. Set(rate/burst)); forwarded ++ queued = accepted in arrival order; a chunk is "
                  "discarded iff the byte queue is full. Tied to the code in synctest bubbles: arrivals at exact virtual instants, the set of chunks "
                  "forwarded at each arrival is compared with the model's")
    level_note = ("trusted: Coq kernel, extraction + driver, harness, synctest clock; the code's float64 arithmetic is modelled by exact integers (units of "
                  "1/(8e9) byte): an arrival whose forward decision sits at an exact equality that float rounding could flip is declared ambiguous by the "
                  "model and not compared (counted in the evidence)")
    rule = ("rates 8k..10M bit/s, bursts 1..64000 B, queue 0/1500/3000/20000/50000 B; 10-90 arrivals with gaps 0, 1 ns, 99/100/101 ms, 1 ms, one burst-time, "
            "1-2 s idle, random < 30 ms; sizes 4, burst, burst+-1, 2*burst, 1500, random; Set(rate)/Set(burst) at random points; 4 flush arrivals 20 s apart; "
            "non-trivial = at least 3 chunks forwarded; distinct = distinct (config, events)")
    trusted = ["overlay file harness/overlay/vnet/verif_export.go (filter with sink NIC)", "testing/synctest fake clock"]
    assumptions = ["time stamps never decrease", "float64 rounding is not modelled (ambiguous arrivals skipped)"]

    def model_postprocess(self, line, model_obs):
        if "-7" in model_obs.replace("|", " ").split():
            self.ambiguous = getattr(self, "ambiguous", 0) + 1
            return split3(line)[2]
        return model_obs

    def is_nontrivial(self, conf, ops, obs):
        return sum(len(x.split()) for x in segs(obs)) >= 3


class C16(SeqCheck):
    pid = "C16"
    diff_is_violation = True
    harness = "loss"
    hbin = "h_loss"
    test_binary = True
    model_entry = "loss_model"
    oracle_entry = None
    overlay = {"vnet/verif_export.go": "vnet/verif_export.go"}
    quick_n = 3000
    thorough_n = 100000
    shards = 12
    design_ref = "4 (C16)"
    technique = "Coq proof (end points, subsequence, counting lemma for the drop probability) + exact per-datagram differential check with predicted PRNG draws"
    level_text = ("Coq theorems: chance <= 0 forwards all, chance >= 100 forwards none, the output is an in-order at-most-once subsequence, and "
                  "exactly clamp(chance,0,100) of the 100 draw values drop (so the drop probability under uniform draws is chance/100). Tied to "
                  "the code per datagram: the global math/rand source is seeded after construction (GODEBUG=randseednop=0) and every draw is "
                  "predicted, so forwarded/dropped is compared exactly for every datagram, together with the chunk's content (UDP and TCP chunks)")
    level_note = ("trusted: Coq kernel, extraction + driver, harness; uniformity of math/rand.Intn (the statistical clause is the counting theorem "
                  "plus the trusted PRNG); one draw per datagram is checked, not assumed (a second draw desynchronises the prediction)")
    rule = ("streams of 10-310 (sometimes 2000) UDP/TCP chunks through a LossFilter with chance in {0,1,2,5,30,50,70,98,99,100,101,150,255,256,300,"
            "65536,-1,-5,-256}; per chunk: predicted draw, forwarded?, content intact?; non-trivial = a stream with both forwarded and dropped "
            "chunks; distinct = distinct (chance, seed, stream)")
    trusted = ["overlay file harness/overlay/vnet/verif_export.go (sink NIC, filter constructors)", "GODEBUG=randseednop=0 makes rand.Seed effective"]
    assumptions = ["nobody else draws from the global math/rand source while a stream runs"]

    def harness_env(self):
        return {"GODEBUG": "randseednop=0"}

    def is_nontrivial(self, conf, ops, obs):
        o = segs(obs)
        return any(x.startswith("1") for x in o) and any(x.startswith("0") for x in o)


class C19:
    """C19: lock-discipline proof over the access table regenerated from the working tree; dynamic race detection as the
    failing-input search."""
    pid = "C19"
    design_ref = "4 (C19)"
    technique = ("Coq proof (lock discipline excludes conflicting simultaneous accesses on an abstract machine of threads and (RW) mutexes; the "
                 "discipline is evaluated inside Coq on the access table) with the table regenerated from the Go sources by a translator on every "
                 "run; concurrent workloads under the Go race detector as failing-input search")
    level_text = ("Translator route: tools/raceaudit type-checks packetio, deadline, dpipe, udp and vnet from the working tree and lists every access "
                  "to a field of a mutex-owning struct and to package-level variables with the mutexes of the same object held there (flow through "
                  "each function, entry lock sets by fixpoint over call sites, deferred unlocks, atomics, objects under construction, fields confined "
                  "to the single goroutine started by a constructor). Coq re-checks on every run that every shared variable is never written after "
                  "publication or has one mutex held at every access, exclusively for writes (C19_discipline, by vm_compute on the regenerated table), "
                  "and proves that this discipline admits no reachable state in which two threads are about to make conflicting accesses "
                  "(C19_discipline_excludes_conflicts: any number of threads, locks, variables, any programs). When the discipline fails, the "
                  "violating accesses are listed and concurrent workloads run under the race detector to exhibit the race")
    level_note = ("partial: the translator is a trusted, approximate static analysis (lock sets per syntactic mutex expression; element writes "
                  "attributed to the field; aliasing through slices, maps and pointers handed out is not followed; channel, WaitGroup and Once "
                  "ordering is not modelled - variables protected only by those would be reported, none is on this tree); structs without a mutex "
                  "of their own (table entries such as vnet.mapping, udp.Conn) are audited against the mutexes of the owning type held at the "
                  "access, which assumes an entry is reached only through the one object that owns it; the chunk types are messages whose "
                  "ownership passes through channels and queues and are left to the race detector workloads; six functions are "
                  "declared set-up-only (tools/raceaudit/run.sh, justified in DESIGN.md); the theorem is about the abstract machine, whose link "
                  "to the Go memory model (mutex operations as the only synchronisation) is an assumption; netctx, connctx, replaydetector, xor "
                  "and test/ are outside the anchored files")
    rule = ("access table of all non-test files of packetio, deadline, dpipe, udp, vnet; workloads: packet buffer (writers, readers with deadlines, "
            "limits, Close), deadline (short timers against Set/Err/Done/Deadline), dpipe both ends, vnet (networks built in parallel, traffic both "
            "ways, token bucket filter reconfigured under traffic), UDP listener over loopback (accept/read/write/close concurrently)")
    trusted = ["tools/raceaudit (translator from Go sources to the access table; go/types source importer)",
               "the Go race detector (ThreadSanitizer runtime) for the failing-input search only"]
    assumptions = ["mutex Lock/Unlock/RLock/RUnlock are the synchronisation considered; topology construction (AddNet/AddRouter) happens before traffic",
                   "client programs use the exported API (entry points hold no lock)"]

    def main(self, argv):
        import argparse
        ap = argparse.ArgumentParser()
        ap.add_argument("--tier", default=os.environ.get("VERIF_TIER", "quick"))
        ap.add_argument("--replay")
        ap.add_argument("--seed", default=os.environ.get("VERIF_SEED", "1"))
        a = ap.parse_args(argv)
        tier = "thorough" if a.tier == "thorough" else "quick"
        t0 = time.time()
        wd = os.path.join(WORK, "C19")
        shutil.rmtree(wd, ignore_errors=True)
        os.makedirs(wd, exist_ok=True)
        os.makedirs(os.path.join(VERIF, "replays"), exist_ok=True)
        table = os.path.join(COQ, "theories/Race/Table.v")
        r = sh(["sh", os.path.join(VERIF, "tools/raceaudit/run.sh"), table])
        violations = []
        n_access = 0
        static_ok = False
        coq = dict(obligations=3, discharged=0, closed=0, axioms=[], ok=False, theorems=[])
        viol_text = ""
        if r.returncode != 0:
            rp = os.path.join(VERIF, "replays", "C19-translator.txt")
            open(rp, "w").write("tools/raceaudit could not translate the working tree (does it compile?)\n" + r.stdout[-3000:])
            violations.append((rp, True))
        else:
            n_access = open(table).read().count("mk_access")
            coq = ensure_coq(["C19"])["C19"]
            static_ok = coq["ok"]
            if not static_ok:
                # which accesses break the discipline?
                q = os.path.join(wd, "viol.v")
                open(q, "w").write("From Coq Require Import String List. Import ListNotations.\n"
                                   "From Tx Require Import Race.Lockset Race.Table.\n"
                                   "Definition V := Eval vm_compute in map (fun a => (a_owner a, a_field a, a_fn a, a_pos a, a_write a, a_held a)) (violations table).\n"
                                   "Print V.\n")
                sh(["make", "-f", "Makefile.coq", "theories/Race/Table.vo"], cwd=COQ)
                rr = sh(["coqc", "-Q", "theories", "Tx", q], cwd=COQ)
                viol_text = rr.stdout[:6000]
        # failing-input search / supporting evidence: workloads under the race detector
        env = dict(os.environ, GOFLAGS="-mod=mod", GOPROXY="off", GOSUMDB="off", GOTOOLCHAIN="local")
        hb = os.path.join(BIN, "h_race")
        rb = sh([GO, "test", "-race", "-c", "-o", hb, "./race/"], cwd=os.path.join(VERIF, "harness"), env=env)
        runs = 0
        race_report = ""
        if rb.returncode != 0:
            log(rb.stdout[-2000:])
            rp = os.path.join(VERIF, "replays", "C19-build.txt")
            open(rp, "w").write("race workloads do not build against the working tree\n" + rb.stdout[-3000:])
            violations.append((rp, True))
        else:
            want = (30 if tier == "thorough" else 3) if static_ok else 40
            for i in range(want):
                rr = sh(["timeout", "-s", "KILL", "300", hb, "-test.count=1"], env=dict(env, GORACE="halt_on_error=0"))
                runs += 1
                if "DATA RACE" in rr.stdout:
                    race_report = rr.stdout
                    break
                if rr.returncode != 0:
                    race_report = rr.stdout
                    break
        if race_report:
            rp = os.path.join(VERIF, "replays", "C19-race.txt")
            with open(rp, "w") as f:
                f.write("// C19: the Go race detector reports conflicting unsynchronised accesses in the concurrent workloads of harness/race\n")
                f.write("// replay: cd /verif/harness && go1.26.8 test -race -count=5 ./race/\n")
                if viol_text:
                    f.write("// accesses that break the lock discipline (owner, field, function, position, write?, locks held):\n" + viol_text + "\n")
                f.write(race_report[:12000])
            violations.append((rp, False))
        elif not static_ok and r.returncode == 0:
            rp = os.path.join(VERIF, "replays", "C19-discipline.txt")
            with open(rp, "w") as f:
                f.write("// theorem C19_discipline (check table = true) no longer holds for the access table regenerated from the working tree\n")
                f.write("// accesses that break the lock discipline (owner, field, function, position, write?, locks held):\n" + viol_text + "\n")
                f.write("// the race workloads (%d runs under the race detector) exhibited no race\n" % runs)
            violations.append((rp, True))
        for rp, nofail in violations:
            log("VIOLATION property=C19 replay=%s%s" % (rp, " no-failing-input-found" if nofail else ""))
        cov = dict(obligations=coq["obligations"], discharged=coq["discharged"], theorems=coq["theorems"],
                   checker_cmd="tools/raceaudit/run.sh (regenerates Race/Table.v), make theories/Properties/C19.vo (coqc 8.16.1, vm_compute), Print Assumptions captured",
                   trusted_base=TRUSTED_COMMON + self.trusted, print_assumptions_closed=coq["closed"], axioms=coq["axioms"],
                   accesses_in_table=n_access, race_detector_runs=runs, rule=self.rule,
                   evaluations=n_access, distinct_nontrivial=n_access,
                   samples=[l.strip() for l in open(table).read().split("\n")[5:8]] if os.path.exists(table) else ["(no table)"])
        write_evidence("C19", tier, int(a.seed), cov, self.assumptions, time.time() - t0, len(violations))
        log("C19: %d accesses in the regenerated table, discipline theorem %s, %d race-detector runs, %.1fs"
            % (n_access, "holds" if static_ok else "FAILS", runs, time.time() - t0))
        return 1 if violations else 0


REGISTRY = {"C19": C19, "C01": C01, "C02": C02, "C03": C03, "C04": C04, "C05": C05, "C06": C06, "C07": C07, "C08": C08, "C09": C09, "C10": C10, "C11": C11, "C12": C12, "C13": C13, "C14": C14, "C15": C15, "C16": C16, "C17": C17, "C18": C18, "C20": C20}

NOT_CLAIMED = {}
