"""Shared machinery of the check driver (see DESIGN.md section 3.6).

A sequential property check is described by a `Spec` object (below). The generic flow is
  1. make sure the Coq theorems of the property are compiled and axiom free,
  2. build the Go harness against /repo's working tree,
  3. run corpus + generated histories on the implementation,
  4. run the extracted model on the same histories and diff the observables,
  5. run the extracted Spec oracle on the implementation's observables,
  6. classify (known finding / violation / broken correspondence), shrink, write replay,
  7. write the evidence file.
"""
import json, os, re, subprocess, sys, time, hashlib, shutil

VERIF = os.path.dirname(os.path.dirname(os.path.abspath(__file__)))
REPO = os.environ.get("VERIF_REPO", "/repo")
COQ = os.path.join(VERIF, "coq")
BIN = os.path.join(VERIF, "bin")
WORK = os.path.join(VERIF, ".work")
GOENV = dict(os.environ, GOFLAGS="-mod=mod", GOPROXY="off", GOSUMDB="off", GOTOOLCHAIN="local",
             CGO_ENABLED=os.environ.get("CGO_ENABLED", "1"))
GO = "go1.26.8"


def sh(cmd, **kw):
    kw.setdefault("stdout", subprocess.PIPE)
    kw.setdefault("stderr", subprocess.STDOUT)
    kw.setdefault("text", True)
    return subprocess.run(cmd, **kw)


def log(*a):
    print(*a, flush=True)


# ----------------------------------------------------------------------------- Coq side

def theorem_names(prop_file):
    src = open(prop_file).read()
    # a theorem statement: "Theorem name :" or "Theorem name (binders" or the name at the end of the line;
    # prose in comments ("Theorem statements are ...") must not count as an obligation
    return re.findall(r"^Theorem\s+([A-Za-z0-9_']+)\s*(?::|\(|$)", src, re.M)


def ensure_coq(prop_ids):
    """Compile (if needed) the property files; return dict id -> (obligations, discharged,
    assumptions_ok, details). Fails closed: a missing .vo or an axiom is reported."""
    res = {}
    if not os.path.exists(os.path.join(COQ, "Makefile.coq")):
        r = sh(["sh", os.path.join(COQ, "build.sh")], cwd=COQ)
        if r.returncode != 0:
            log(r.stdout[-3000:])
    targets = ["theories/Properties/%s.vo" % p for p in prop_ids]
    r = sh(["timeout", "1500", "make", "-f", "Makefile.coq", "-j8"] + targets, cwd=COQ)
    build_ok = r.returncode == 0
    if not build_ok:
        log(r.stdout[-3000:])
    for p in prop_ids:
        vf = os.path.join(COQ, "theories/Properties/%s.v" % p)
        vo = vf + "o"
        names = theorem_names(vf) if os.path.exists(vf) else []
        ok = build_ok and os.path.exists(vo) and os.path.getmtime(vo) >= os.path.getmtime(vf)
        # Print Assumptions output is captured in <file>.assumptions by the build
        af = os.path.join(COQ, "theories/Properties/%s.assumptions" % p)
        closed, axioms = 0, []
        if ok:
            rr = sh(["coqc", "-Q", "theories", "Tx", "-w", "none", vf], cwd=COQ)
            out = rr.stdout
            closed = out.count("Closed under the global context")
            axioms = re.findall(r"^Axioms:\n((?:.+\n)+)", out, re.M)
            open(af, "w").write(out)
            if rr.returncode != 0:
                ok = False
        res[p] = dict(obligations=len(names), discharged=len(names) if ok else 0,
                      closed=closed, axioms=axioms, ok=ok and not axioms and closed >= len(names),
                      theorems=names)
    return res


# ----------------------------------------------------------------------------- Go side

def go_build(pkg_dir, out, tags=None, overlay=None, race=False, test_pkg=None):
    """Build a harness command (or, with test_pkg, a test binary of a /repo package)."""
    cmd = [GO, "build"] if not test_pkg else [GO, "test", "-c"]
    if tags:
        cmd += ["-tags", tags]
    if overlay:
        cmd += ["-overlay", overlay]
    if race:
        cmd += ["-race"]
    cmd += ["-o", out, test_pkg or "."]
    r = sh(cmd, cwd=pkg_dir, env=GOENV)
    if r.returncode != 0:
        log("BUILD FAILED:", " ".join(cmd))
        log(r.stdout[-4000:])
        return False
    return True


def modelrun(entry, lines, stack_unlimited=False):
    """Feed request lines to the extracted model; return answer lines."""
    exe = os.path.join(BIN, "modelrun")
    cmd = [exe, entry]
    if stack_unlimited:
        cmd = ["sh", "-c", "ulimit -s unlimited 2>/dev/null; exec %s %s" % (exe, entry)]
    r = subprocess.run(cmd, input="\n".join(lines) + "\n", text=True, stdout=subprocess.PIPE,
                       stderr=subprocess.PIPE)
    if r.returncode != 0:
        raise RuntimeError("modelrun %s failed: %s" % (entry, r.stderr[-2000:]))
    out = r.stdout.split("\n")
    if out and out[-1] == "":
        out.pop()
    return out


# ----------------------------------------------------------------------------- histories

def split3(line):
    parts = [p.strip() for p in line.split("#")]
    while len(parts) < 3:
        parts.append("")
    return parts


def segs(s):
    s = s.strip()
    return [x.strip() for x in s.split("|")] if s else []


def norm(s):
    return "|".join(" ".join(x.split()) for x in segs(s))


def known_findings():
    path = os.path.join(VERIF, "KNOWN_FINDINGS.txt")
    out = []
    if os.path.exists(path):
        for l in open(path):
            l = l.strip()
            m = re.match(r"finding:\s+property=(\S+)\s+key=(\S+)\s+(.*)", l)
            if m:
                out.append((m.group(1), m.group(2), m.group(3)))
    return out


def write_evidence(pid, tier, seed, coverage, assumptions, wall, violations, level="proof"):
    os.makedirs(os.path.join(VERIF, "evidence"), exist_ok=True)
    ev = dict(property_id=pid, tier=tier, seed=int(seed), level=level, coverage=coverage,
              assumptions=assumptions, wall_s=round(wall, 2), violations=int(violations))
    with open(os.path.join(VERIF, "evidence", pid + ".json"), "w") as f:
        json.dump(ev, f, indent=1)
        f.write("\n")


def ddmin(items, test, budget_s=90):
    """Delta debugging: smallest sublist (order kept) for which test(sublist) is True;
    gives up shrinking further when the time budget is used."""
    n = 2
    t_end = time.time() + budget_s
    while len(items) >= 2 and time.time() < t_end:
        chunk = max(1, len(items) // n)
        reduced = False
        for i in range(0, len(items), chunk):
            if time.time() > t_end:
                break
            cand = items[:i] + items[i + chunk:]
            if cand and test(cand):
                items = cand
                n = max(n - 1, 2)
                reduced = True
                break
        if not reduced:
            if chunk == 1:
                break
            n = min(len(items), n * 2)
    return items


def read_tags(path):
    tags = {}
    if os.path.exists(path):
        for l in open(path):
            k, v = l.rsplit(" ", 1)
            tags[k] = tags.get(k, 0) + int(v)
    return tags


TRUSTED_COMMON = [
    "Coq 8.16.1 kernel incl. vm_compute (no native_compute); no axioms (Print Assumptions checked on every run)",
    "Coq extraction with ExtrOcamlBasic directives only (bool, option, unit, list, prod, sumbool, sumor; andb/orb inlined); OCaml 4.13.1 ocamlopt",
    "coq/extract/driver.ml + entries.ml (parsing, dispatch, printing)",
    "Go harness: generator, canonicalisation of observables, this driver's diff",
]


class SeqCheck:
    """Generic differential + oracle check of one sequential component."""
    pid = None            # property id
    props = None          # all property ids served by the same harness run
    harness = None        # directory under harness/
    hbin = None           # binary name
    model_entry = None
    oracle_entry = None   # may be None
    quick_n = 1000
    thorough_n = 50000
    shards = 8
    build_tags = None
    stack_unlimited = False
    assumptions = []
    trusted = []
    rule = ""

    # --- hooks ------------------------------------------------------------------------
    def oracle_codes_for(self, pid):
        """bit mask of the oracle flags that mean a violation of property pid"""
        return 0

    def classify_known(self, pid, conf, ops, codes):
        """return key of a known finding this flagged history belongs to, else None"""
        return None

    def nontrivial_tag(self):
        return "nontrivial"

    def extra_build(self):
        return True

    test_binary = False   # harness is a Go test (needed for testing/synctest)
    harness_timeout = 900

    def variants(self):
        """list of (binary name, extra harness args); every variant runs corpus and generated histories"""
        return [(self.hbin, ["-test.run", "^TestHarness$"] if self.test_binary else [])]

    def run_harness(self, args, out, variant=None):
        hbin, extra = variant or self.variants()[0]
        cmd = ["timeout", "-s", "KILL", str(self.harness_timeout), os.path.join(BIN, hbin)] + extra + args + ["-out", out]
        r = sh(cmd, env=dict(os.environ, **self.harness_env()))
        if r.returncode != 0:
            log("harness failed:", " ".join(cmd))
            log(r.stdout[-3000:])
            return False
        return True

    def harness_env(self):
        return {}

    # --- flow -------------------------------------------------------------------------
    overlay = None        # dict: path under /repo -> path under /verif/harness/overlay
    diff_is_violation = False

    def overlay_file(self):
        if not self.overlay:
            return None
        os.makedirs(os.path.join(WORK, self.pid), exist_ok=True)
        path = os.path.join(WORK, self.pid, "overlay.json")
        rep = {os.path.join(REPO, k): os.path.join(VERIF, "harness", "overlay", v) for k, v in self.overlay.items()}
        json.dump({"Replace": rep}, open(path, "w"))
        return path

    def build(self):
        os.makedirs(BIN, exist_ok=True)
        return go_build(os.path.join(VERIF, "harness", self.harness), os.path.join(BIN, self.hbin),
                        tags="verif" if self.overlay else self.build_tags,
                        overlay=self.overlay_file(), test_pkg="." if self.test_binary else None) and self.extra_build()

    def evaluate(self, lines):
        """lines: 'conf # ops # obs' from the implementation. Returns per-line
        (model_equal, codes list)."""
        reqs = {}
        order = []
        for i, l in enumerate(lines):
            c, o, _ = split3(l)
            e = self.model_entry_for(c)
            reqs.setdefault(e, []).append(c + " # " + o)
            order.append((e, len(reqs[e]) - 1))
        answers = {e: modelrun(e, r, self.stack_unlimited) for e, r in reqs.items() if e is not None}
        # entry None: no model prediction for this history (oracle only): the observation stands for itself
        model = [answers[e][k] if e is not None else split3(lines[i])[2] for i, (e, k) in enumerate(order)]
        model = [self.model_postprocess(lines[i], m) for i, m in enumerate(model)]
        codes = [None] * len(lines)
        if self.oracle_entry:
            ans = modelrun(self.oracle_entry, lines, self.stack_unlimited)
            codes = [[int(x) for x in a.split()] for a in ans]
        out = []
        for i, l in enumerate(lines):
            obs = norm(split3(l)[2])
            out.append((norm(model[i]) == obs, codes[i], norm(model[i])))
        return out

    def first_diff(self, line, model_obs):
        o = segs(norm(split3(line)[2]))
        m = segs(model_obs)
        for i in range(max(len(o), len(m))):
            a = o[i] if i < len(o) else "<none>"
            b = m[i] if i < len(m) else "<none>"
            if a != b:
                return i, a, b
        return None

    def run_ops(self, conf, ops, tag="shrink"):
        """run the implementation on one history; return the full line"""
        d = os.path.join(WORK, self.pid)
        os.makedirs(d, exist_ok=True)
        inp = os.path.join(d, tag + ".in")
        outp = os.path.join(d, tag + ".out")
        open(inp, "w").write(conf + " # " + "|".join(ops) + "\n")
        if not self.run_harness(["-replay", inp], outp):
            return None
        ls = [l for l in open(outp).read().split("\n") if l.strip()]
        return ls[0] if ls else None

    def shrink(self, line, pred):
        conf, ops, _ = split3(line)
        opl = segs(ops)

        def test(cand):
            l = self.run_ops(conf, cand)
            if l is None:
                return False
            return pred(self.evaluate([l])[0], l)
        if len(opl) > 400:
            return line
        small = ddmin(opl, test)
        l = self.run_ops(conf, small)
        return l or line

    def main(self, argv):
        import argparse
        ap = argparse.ArgumentParser()
        ap.add_argument("--tier", default=os.environ.get("VERIF_TIER", "quick"))
        ap.add_argument("--replay")
        ap.add_argument("--seed", default=os.environ.get("VERIF_SEED", "1"))
        a = ap.parse_args(argv)
        t0 = time.time()
        pid = self.pid
        seed = int(a.seed)
        tier = "thorough" if a.tier == "thorough" else "quick"
        wd = os.path.join(WORK, pid)
        shutil.rmtree(wd, ignore_errors=True)
        os.makedirs(wd, exist_ok=True)
        os.makedirs(os.path.join(VERIF, "replays"), exist_ok=True)
        violations = []   # (kind, text, replay path)
        known_hits = {}

        coq = ensure_coq([pid])[pid]
        if not coq["ok"]:
            rp = os.path.join(VERIF, "replays", "%s-proof.txt" % pid)
            open(rp, "w").write("theorem file theories/Properties/%s.v does not compile or depends on axioms: %s\n"
                                % (pid, coq))
            violations.append(("proof", "Coq theorems of %s not checked" % pid, rp, True))
        if not self.build():
            rp = os.path.join(VERIF, "replays", "%s-build.txt" % pid)
            open(rp, "w").write("harness does not build against /repo working tree\n")
            log("VIOLATION property=%s replay=%s no-failing-input-found" % (pid, rp))
            self.evidence(pid, tier, seed, coq, 0, 0, {}, [], time.time() - t0, 1)
            return 1

        # corpus first, then generated shards
        files = []
        cdir = os.path.join(VERIF, "corpus", self.corpus_dir())
        inputs = []
        if a.replay:
            inputs = [a.replay]
        else:
            if os.path.isdir(cdir):
                inputs = sorted(os.path.join(cdir, f) for f in os.listdir(cdir) if f.endswith(".hist"))
        for i, f in enumerate(inputs):
            for vi, var in enumerate(self.variants()):
                out = os.path.join(wd, "corpus%d_%d.out" % (i, vi))
                if self.run_harness(["-replay", f], out, var):
                    files.append(out)
        n = 0
        if not a.replay:
            n = self.thorough_n if tier == "thorough" else self.quick_n
            procs = []
            per = (n + self.shards - 1) // self.shards
            vs = self.variants()
            for s in range(self.shards):
                out = os.path.join(wd, "gen%d.out" % s)
                hbin, extra = vs[s % len(vs)]
                cmd = [os.path.join(BIN, hbin)] + extra + ["-seed", str(seed * 1000 + s), "-n", str(per), "-out", out] + self.gen_args(tier)
                procs.append((subprocess.Popen(cmd, stdout=subprocess.PIPE, stderr=subprocess.STDOUT, text=True,
                                               env=dict(os.environ, **self.harness_env())), out, cmd))
            # one time limit for all shards together (they run in parallel): a hanging implementation costs the limit once
            limit = self.harness_timeout if tier == "thorough" else min(self.harness_timeout, 450)
            t_end = time.time() + limit
            for p, out, cmd in procs:
                try:
                    o, _ = p.communicate(timeout=max(1.0, t_end - time.time()))
                except subprocess.TimeoutExpired:
                    p.kill()
                    o, _ = p.communicate()
                    o = (o or "") + "\nHARNESS TIMED OUT after %d s (deadlock or livelock in the implementation?)" % limit
                if p.returncode != 0:
                    log("harness failed:", " ".join(cmd))
                    log(o[-3000:])
                    rp = os.path.join(VERIF, "replays", "%s-harness-crash.txt" % pid)
                    open(rp, "w").write("harness crashed (a panic in the implementation?)\ncmd: %s\n%s\n" % (" ".join(cmd), o[-6000:]))
                    violations.append(("crash", "harness crashed", rp, False))
                else:
                    files.append(out)

        total = 0
        distinct = set()
        nontrivial = set()
        tags = {}
        samples = []
        diffs = []
        flagged = []
        ops_total = 0
        from concurrent.futures import ThreadPoolExecutor

        def eval_file(f):
            lines = [l for l in open(f).read().split("\n") if l.strip()]
            return f, lines, (self.evaluate(lines) if lines else [])
        with ThreadPoolExecutor(max_workers=12) as ex:
            evaluated = list(ex.map(eval_file, files))
        for f, lines, res in evaluated:
            for k, v in read_tags(f + ".tags").items():
                tags[k] = tags.get(k, 0) + v
            for l, (eq, codes, mobs) in zip(lines, res):
                total += 1
                c, o, ob = split3(l)
                hsh = hashlib.sha1((c + "#" + o).encode()).hexdigest()
                distinct.add(hsh)
                nops = len(segs(o))
                ops_total += nops
                if self.is_nontrivial(c, o, ob):
                    nontrivial.add(hsh)
                if len(samples) < 3 and nops <= 40 and self.is_nontrivial(c, o, ob):
                    samples.append(l if len(l) < 1500 else l[:1500] + " ...")
                if not eq:
                    diffs.append((l, mobs))
                if codes and any(x != 0 for x in codes):
                    flagged.append((l, codes))

        mine = self.oracle_codes_for(pid)
        kf = {(p, k): t for (p, k, t) in known_findings()}
        reported = 0
        for l, codes in flagged:
            hit = [(i, x & mine) for i, x in enumerate(codes) if x & mine]
            if not hit:
                continue
            c, o, ob = split3(l)
            key = self.classify_known(pid, c, o, codes)
            if key and (pid, key) in kf:
                known_hits[key] = known_hits.get(key, 0) + 1
                continue
            if reported >= 3:
                reported += 1
                continue
            reported += 1
            code0 = hit[0][1]
            small = self.shrink(l, lambda r, ln: r[1] is not None and any(x & code0 for x in r[1])
                                and not (self.classify_known(pid, split3(ln)[0], split3(ln)[1], r[1]) in
                                         [k for (p, k) in kf if p == pid]))
            rp = os.path.join(VERIF, "replays", "%s-%d-%d.hist" % (pid, seed, reported))
            sres = self.evaluate([small])[0]
            with open(rp, "w") as f:
                f.write("// %s: the implementation's answers contradict the Spec (oracle code %d at operation %s)\n"
                        % (pid, code0, [i for i, x in enumerate(sres[1] or []) if x & code0][:1]))
                f.write("// oracle codes per operation: %s\n" % (sres[1],))
                f.write("// %s\n" % self.code_legend())
                f.write("// replay: ./check %s --replay %s\n" % (pid, rp))
                f.write(small + "\n")
            violations.append(("spec", "oracle code %d" % code0, rp, False))

        # differences that are listed known findings (classified by the component) are counted, not reported
        rest = []
        for d in diffs:
            key = self.classify_known_diff(pid, d[0])
            if key and (pid, key) in kf:
                known_hits[key] = known_hits.get(key, 0) + 1
            else:
                rest.append(d)
        diffs = rest

        # components whose theorem pins the answers uniquely (model answer = the only answer the
        # property allows on generated inputs): a difference is itself a failing input
        if diffs and self.diff_is_violation and not any(v[0] == "spec" for v in violations):
            failing = [d for d in diffs if self.diff_is_failing_input(d[0])]
            if failing:
                l, mobs = failing[0]
                small = self.shrink(l, lambda r, ln: not r[0] and self.diff_is_failing_input(ln))
                sres = self.evaluate([small])[0]
                d = self.first_diff(small, sres[2])
                rp = os.path.join(VERIF, "replays", "%s-%d-1.hist" % (pid, seed))
                with open(rp, "w") as f:
                    f.write("// %s: %s\n" % (pid, self.failing_text()))
                    f.write("// first difference at operation %s: implementation %s, required %s\n" % (d or ("?", "?", "?")))
                    f.write("// %d of %d histories differ (%d of them failing inputs); replay: ./check %s --replay %s\n"
                            % (len(diffs), total, len(failing), pid, rp))
                    f.write(small + "\n")
                violations.append(("spec", "answer differs from the proved model", rp, False))

        # broken correspondence without a Spec violation found
        if diffs and not any(v[0] == "spec" for v in violations) and self.diff_is_mine(pid, diffs):
            l, mobs = diffs[0]
            d = self.first_diff(l, mobs)
            rp = os.path.join(VERIF, "replays", "%s-%d-corr.hist" % (pid, seed))
            with open(rp, "w") as f:
                f.write("// correspondence %s (Coq model) vs implementation no longer checks: %d of %d histories differ\n"
                        % (self.model_entry, len(diffs), total))
                f.write("// first difference at operation %s: implementation %s, model %s\n" % (d or ("?", "?", "?")))
                f.write("// the Spec oracle found no failing input among %d histories\n" % total)
                f.write(l + "\n")
            violations.append(("corr", "model/implementation differ", rp, True))

        for k, cnt in sorted(known_hits.items()):
            log("KNOWN-FINDING: property=%s key=%s %s (reproduced on %d histories this run)" % (pid, k, kf[(pid, k)], cnt))
        nv = 0
        for kind, text, rp, nofail in violations:
            nv += 1
            log("VIOLATION property=%s replay=%s%s" % (pid, rp, " no-failing-input-found" if nofail else ""))
        self.evidence(pid, tier, seed, coq, total, len(nontrivial), tags, samples, time.time() - t0, nv,
                      extra=dict(operations=ops_total, distinct_histories=len(distinct),
                                 model_impl_differences=len(diffs), oracle_flagged=len(flagged),
                                 known_finding_hits=known_hits))
        log("%s: %d histories (%d ops), %d model/impl differences, %d oracle-flagged, %d known-finding hits, theorems %d/%d, %.1fs"
            % (pid, total, ops_total, len(diffs), len(flagged), sum(known_hits.values()), coq["discharged"],
               coq["obligations"], time.time() - t0))
        return 1 if nv else 0

    def classify_known_diff(self, pid, line):
        """key of the known finding this differing history is an instance of, or None"""
        return None

    def diff_is_mine(self, pid, diffs):
        return True

    def model_entry_for(self, conf):
        return self.model_entry

    def diff_is_failing_input(self, line):
        """for diff_is_violation components: is this differing history itself a counterexample to the property?"""
        return True

    def failing_text(self):
        return ("the implementation's answer differs from the only answer the property allows (the Coq model's, "
                "proved to meet the Spec)")

    def model_postprocess(self, line, model_obs):
        """hook: e.g. replace the prediction by the observation when the model declares the history ambiguous"""
        return model_obs

    def corpus_dir(self):
        return self.harness

    def gen_args(self, tier):
        return []

    def is_nontrivial(self, conf, ops, obs):
        return len(segs(ops)) >= 2

    def code_legend(self):
        return ""

    def evidence(self, pid, tier, seed, coq, total, nontrivial, tags, samples, wall, nv, extra=None):
        cov = dict(obligations=coq["obligations"], discharged=coq["discharged"],
                   theorems=coq["theorems"],
                   checker_cmd="make -f Makefile.coq theories/Properties/%s.vo (coqc 8.16.1), then coqc on the file to capture Print Assumptions" % pid,
                   trusted_base=TRUSTED_COMMON + self.trusted,
                   print_assumptions_closed=coq["closed"], axioms=coq["axioms"],
                   evaluations=total, distinct_nontrivial=nontrivial, rule=self.rule,
                   traces_validated_against_impl=total,
                   samples=samples or ["(none: run produced no history)"], generator_coverage=tags)
        if extra:
            cov.update(extra)
        write_evidence(pid, tier, seed, cov, self.assumptions, wall, nv)
