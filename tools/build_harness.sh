#!/bin/sh
# Prepares the Go side: module checksums and the two source-level tools. Every check builds its own harness
# against /repo's working tree (most need -tags verif and a generated overlay), so nothing else is built here.
set -e
HERE="$(cd "$(dirname "$0")" && pwd)"
export GOFLAGS=-mod=mod GOPROXY=off GOSUMDB=off GOTOOLCHAIN=local
cd "$HERE/../harness"
cp -f /repo/go.sum . 2>/dev/null || true
mkdir -p ../bin
(cd "$HERE/vrewrite" && go1.26.8 build -o ../../bin/vrewrite .)
(cd "$HERE/raceaudit" && go1.26.8 build -o ../../bin/raceaudit .)
go1.26.8 vet ./common/ ./vsched/ >/dev/null
echo "harness ok"
