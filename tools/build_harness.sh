#!/bin/sh
# Pre-builds the harness binaries (every check rebuilds its own against /repo's working tree anyway).
set -e
cd "$(dirname "$0")/../harness"
export GOFLAGS=-mod=mod GOPROXY=off GOSUMDB=off GOTOOLCHAIN=local
cp -f /repo/go.sum . 2>/dev/null || true
mkdir -p ../bin
for d in */; do
  d=${d%/}
  if [ -f "$d/main.go" ]; then go1.26.8 build -o ../bin/h_$d ./$d; fi
done
echo "harness ok"
