#!/bin/sh
# run.sh <output Table.v>: build raceaudit and regenerate the access table from /repo's working tree
set -e
OUT=$(realpath "$1")
HERE=$(dirname "$(realpath "$0")")
export GOFLAGS=-mod=mod GOPROXY=off GOSUMDB=off GOTOOLCHAIN=local
GO=go1.26.8
mkdir -p "$HERE/../../bin"
(cd "$HERE" && $GO build -o ../../bin/raceaudit .)
# Functions that run only while an object or a topology is being set up, before it is used concurrently
# (their writes count as initialisation). Each entry is justified in DESIGN.md section 4, C19:
#   Net.setRouter, Router.setRouter, resolver.setParent: called from Router.AddNet / AddRouter while the topology is built
#   TBFQueueSizeInBytes: documented "Can only be set in constructor before using the TBF"
#   newNAT, ListenConfig.Listen: constructors that complete the caller's configuration value (NATType, ListenConfig) before the
#     object they return exists
CONFIG="Net.setRouter,Router.setRouter,resolver.setParent,TBFQueueSizeInBytes,newNAT,ListenConfig.Listen"
# Message types: a chunk is owned by one goroutine at a time and handed on through channels and queues (every hop that changes
# one clones it first); ownership transfer is outside a lock discipline, so their fields are not audited (the race detector
# workloads of the same check do cover them)
MESSAGES="chunkIP,chunkUDP,chunkTCP"
# the source importer of go/types runs cgo for package net and leaves its objects in the temporary directory: use one of our own
TMPDIR=$(mktemp -d /tmp/raceaudit.XXXXXX)
export TMPDIR
trap 'rm -rf "$TMPDIR"' EXIT
cd /repo && "$HERE/../../bin/raceaudit" -config "$CONFIG" -messages "$MESSAGES" -out "$OUT" packetio deadline dpipe udp vnet
