module verif/raceaudit

go 1.26.8
