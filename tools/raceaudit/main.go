// raceaudit regenerates the access table of the lock-discipline proof for C19 (coq/theories/Race/Table.v)
// from the working tree. For every package given it type-checks the non-test sources and, for every struct
// that owns a sync.Mutex / sync.RWMutex (and for every package-level variable), lists each access to its
// fields made in a function of the package: read or write, which of the owner's mutexes are held at that
// point and how (read-locked / locked), and whether the access is made on an object the function has just
// created (before publication).
//
// Locks held: tracked through each function body in statement order (Lock/RLock add, Unlock/RUnlock remove,
// a deferred unlock keeps the lock to the end; at joins the intersection of the branches that fall through).
// Locks held on entry: exported functions, methods reachable through an interface of the package, functions
// used as values or started with go: none; other functions: the intersection over their call sites in the
// package (fixpoint).
package main

import (
	"flag"
	"fmt"
	"go/ast"
	"go/build"
	"go/importer"
	"go/parser"
	"go/token"
	"go/types"
	"os"
	"path/filepath"
	"sort"
	"strings"
)

const (
	modeR = 1
	modeW = 2
)

type lockset map[string]int // "base.mutexField" -> mode

func (l lockset) clone() lockset {
	c := lockset{}
	for k, v := range l {
		c[k] = v
	}
	return c
}

func intersect(a, b lockset) lockset {
	c := lockset{}
	for k, v := range a {
		if w, ok := b[k]; ok {
			if w < v {
				v = w
			}
			c[k] = v
		}
	}
	return c
}

type access struct {
	owner string // pkg.Struct or pkg (package-level variable)
	field string
	fn    string
	pos   string
	write bool
	held  map[string]int // mutex field name -> mode, on the same base object
	init  bool
}

type analyzer struct {
	fset    *token.FileSet
	pkg     *types.Package
	info    *types.Info
	pkgName string
	// per function
	entry        map[*types.Func]lockset // nil: not yet known (top)
	external     map[*types.Func]bool    // callable with nothing held
	sites        map[*types.Func][]lockset
	recvName     map[*types.Func]string
	accesses     []access
	record       bool
	ifaceMethods map[string]bool
	curFn        string
	fresh        map[string]bool // local variables holding an object created in this function
	litN         int
	fnName       map[*types.Func]string
	calls        map[string]map[string]bool // caller -> callees (functions of the package and closures run in the caller's goroutine)
	goRoots      map[string][]bool          // function started with go -> for every go statement: on an object created in that function?
	escaped      map[string]bool            // closures that are stored or passed on: they run in an unknown goroutine
	config       []string
	alias        map[string]*ast.SelectorExpr // local variable -> the slice/map-typed field whose contents it shares
	messages     map[string]bool              // struct types that are messages (ownership passes with them): not audited
	varTypes     map[string]string            // variables of the current function (receiver, parameters, locals seen) -> struct type of the package
}

// noteVar remembers the struct type (of this package) a variable points to, so that a lock "v.mu" held while a mutex-less
// struct is accessed can be named "T.mu"
func (a *analyzer) noteVar(id *ast.Ident) {
	var obj types.Object
	if o, ok := a.info.Uses[id]; ok {
		obj = o
	} else if o, ok := a.info.Defs[id]; ok {
		obj = o
	}
	v, ok := obj.(*types.Var)
	if !ok || v == nil {
		return
	}
	if n, _ := structOf(v.Type()); n != nil && n.Obj().Pkg() == a.pkg {
		a.varTypes[id.Name] = n.Obj().Name()
	}
}

func (a *analyzer) edge(from, to string) {
	if a.calls[from] == nil {
		a.calls[from] = map[string]bool{}
	}
	a.calls[from][to] = true
}

func (a *analyzer) isConfig(fn string) bool {
	for _, c := range a.config {
		if fn == c || strings.HasPrefix(fn, c+"$") {
			return true
		}
	}
	return false
}

func isSyncType(t types.Type) (mutex bool, exempt bool) {
	if p, ok := t.(*types.Pointer); ok {
		t = p.Elem()
	}
	n, ok := t.(*types.Named)
	if !ok || n.Obj().Pkg() == nil {
		return false, false
	}
	path, name := n.Obj().Pkg().Path(), n.Obj().Name()
	switch path {
	case "sync":
		if name == "Mutex" || name == "RWMutex" {
			return true, true
		}
		return false, true // WaitGroup, Once, Cond, Map, Pool
	case "sync/atomic":
		return false, true
	}
	return false, false
}

func structOf(t types.Type) (*types.Named, *types.Struct) {
	if p, ok := t.(*types.Pointer); ok {
		t = p.Elem()
	}
	n, ok := t.(*types.Named)
	if !ok {
		return nil, nil
	}
	s, ok := n.Underlying().(*types.Struct)
	if !ok {
		return nil, nil
	}
	return n, s
}

func mutexFields(s *types.Struct) []string {
	var out []string
	for i := 0; i < s.NumFields(); i++ {
		if m, _ := isSyncType(s.Field(i).Type()); m {
			out = append(out, s.Field(i).Name())
		}
	}
	return out
}

func exprString(e ast.Expr) string {
	switch v := e.(type) {
	case *ast.Ident:
		return v.Name
	case *ast.SelectorExpr:
		return exprString(v.X) + "." + v.Sel.Name
	case *ast.ParenExpr:
		return exprString(v.X)
	case *ast.StarExpr:
		return exprString(v.X)
	case *ast.IndexExpr:
		return exprString(v.X) + "[]"
	case *ast.CallExpr:
		return exprString(v.Fun) + "()"
	}
	return "?"
}

func (a *analyzer) pos(p token.Pos) string {
	q := a.fset.Position(p)
	return fmt.Sprintf("%s:%d", filepath.Base(q.Filename), q.Line)
}

// recordAccess notes an access to field sel of the struct that x evaluates to
func (a *analyzer) recordAccess(se *ast.SelectorExpr, L lockset, write bool) {
	if !a.record {
		return
	}
	sel, ok := a.info.Selections[se]
	if !ok || sel.Kind() != types.FieldVal {
		// package-level variable?
		return
	}
	named, st := structOf(sel.Recv())
	if named == nil || named.Obj().Pkg() != a.pkg {
		return
	}
	ms := mutexFields(st)
	fv, ok := sel.Obj().(*types.Var)
	if !ok {
		return
	}
	if _, exempt := isSyncType(fv.Type()); exempt {
		return
	}
	base := exprString(se.X)
	held := map[string]int{}
	for _, m := range ms {
		if md, ok := L[base+"."+m]; ok {
			held[m] = md
		}
	}
	if len(ms) == 0 && a.messages[named.Obj().Name()] {
		return // a message: owned by one goroutine at a time and handed on through channels and queues
	}
	if len(ms) == 0 {
		// a struct without a mutex of its own (e.g. the entries of a table): it can only be guarded by a mutex of the object
		// that owns it; the locks held are named after the owner's type, "Owner.mutexField"
		for k, md := range L {
			i := strings.Index(k, ".")
			if i < 0 {
				held[k] = md // a package-level mutex
			} else if t, ok := a.varTypes[k[:i]]; ok {
				held[t+k[i:]] = md
			}
		}
	}
	root := base
	if i := strings.IndexAny(root, ".["); i >= 0 {
		root = root[:i]
	}
	a.accesses = append(a.accesses, access{owner: a.pkgName + "." + named.Obj().Name(), field: fv.Name(), fn: a.curFn, pos: a.pos(se.Pos()),
		write: write, held: held, init: a.fresh[root] || a.isConfig(a.curFn)})
}

func (a *analyzer) recordGlobal(id *ast.Ident, L lockset, write bool) {
	if !a.record {
		return
	}
	obj, ok := a.info.Uses[id].(*types.Var)
	if !ok || obj.Pkg() != a.pkg || obj.Parent() != a.pkg.Scope() {
		return
	}
	if _, exempt := isSyncType(obj.Type()); exempt {
		return
	}
	held := map[string]int{}
	for k, md := range L {
		if !strings.Contains(k, ".") { // a package-level mutex
			held[k] = md
		}
	}
	a.accesses = append(a.accesses, access{owner: a.pkgName, field: obj.Name(), fn: a.curFn, pos: a.pos(id.Pos()), write: write, held: held,
		init: a.isConfig(a.curFn)})
}

// lockOp recognises x.mu.Lock() etc.
func (a *analyzer) lockOp(call *ast.CallExpr) (key string, op string, ok bool) {
	se, isSel := call.Fun.(*ast.SelectorExpr)
	if !isSel {
		return "", "", false
	}
	tv, has := a.info.Types[se.X]
	if !has {
		return "", "", false
	}
	if m, _ := isSyncType(tv.Type); !m {
		return "", "", false
	}
	switch se.Sel.Name {
	case "Lock", "Unlock", "RLock", "RUnlock", "TryLock", "TryRLock":
		return exprString(se.X), se.Sel.Name, true
	}
	return "", "", false
}

func (a *analyzer) callee(call *ast.CallExpr) *types.Func {
	switch f := call.Fun.(type) {
	case *ast.Ident:
		if fn, ok := a.info.Uses[f].(*types.Func); ok && fn.Pkg() == a.pkg {
			return fn
		}
	case *ast.SelectorExpr:
		if sel, ok := a.info.Selections[f]; ok && sel.Kind() == types.MethodVal {
			if fn, ok := sel.Obj().(*types.Func); ok && fn.Pkg() == a.pkg {
				if _, isIface := sel.Recv().Underlying().(*types.Interface); isIface {
					return nil
				}
				return fn
			}
		}
	}
	return nil
}

func (a *analyzer) noteCall(call *ast.CallExpr, L lockset) {
	fn := a.callee(call)
	if fn == nil {
		return
	}
	a.edge(a.curFn, a.fnName[fn])
	mapped := lockset{}
	if se, ok := call.Fun.(*ast.SelectorExpr); ok {
		base := exprString(se.X)
		rn := a.recvName[fn]
		for k, md := range L {
			if strings.HasPrefix(k, base+".") && rn != "" {
				mapped[rn+k[len(base):]] = md
			}
			if !strings.Contains(k, ".") {
				mapped[k] = md
			}
		}
	} else {
		for k, md := range L {
			if !strings.Contains(k, ".") {
				mapped[k] = md
			}
		}
	}
	a.sites[fn] = append(a.sites[fn], mapped)
}

// expr visits an expression; write says that the value designated is assigned to
func (a *analyzer) expr(e ast.Expr, L lockset, write bool) {
	switch v := e.(type) {
	case nil:
	case *ast.Ident:
		a.noteVar(v)
		a.recordGlobal(v, L, write)
		if se, ok := a.alias[v.Name]; ok {
			// the local variable shares the backing store of the field it was copied from
			if _, isLocal := a.info.Uses[v].(*types.Var); isLocal {
				a.recordAccess(se, L, write)
			}
		}
	case *ast.SelectorExpr:
		a.recordAccess(v, L, write)
		if sel, ok := a.info.Selections[v]; ok && sel.Kind() == types.MethodVal {
			// a method value used other than in a call: the method may run anywhere
			if fn, ok := sel.Obj().(*types.Func); ok && fn.Pkg() == a.pkg {
				a.external[fn] = true
			}
		}
		a.expr(v.X, L, false)
	case *ast.IndexExpr:
		a.expr(v.X, L, write) // writing an element writes the container the field designates
		a.expr(v.Index, L, false)
	case *ast.SliceExpr:
		a.expr(v.X, L, write)
		a.expr(v.Low, L, false)
		a.expr(v.High, L, false)
		a.expr(v.Max, L, false)
	case *ast.StarExpr:
		a.expr(v.X, L, false)
	case *ast.ParenExpr:
		a.expr(v.X, L, write)
	case *ast.UnaryExpr:
		if v.Op == token.AND {
			// address taken: whoever gets the pointer may write
			if se, ok := v.X.(*ast.SelectorExpr); ok {
				if tv, has := a.info.Types[se]; has {
					if _, exempt := isSyncType(tv.Type); exempt {
						a.expr(se.X, L, false)
						return
					}
				}
			}
			if _, ok := v.X.(*ast.CompositeLit); ok {
				a.expr(v.X, L, false)
				return
			}
			a.expr(v.X, L, true)
			return
		}
		a.expr(v.X, L, false)
	case *ast.BinaryExpr:
		a.expr(v.X, L, false)
		a.expr(v.Y, L, false)
	case *ast.KeyValueExpr:
		a.expr(v.Value, L, false)
	case *ast.CompositeLit:
		for _, el := range v.Elts {
			a.expr(el, L, false)
		}
	case *ast.TypeAssertExpr:
		a.expr(v.X, L, false)
	case *ast.FuncLit:
		a.funcLit(v, lockset{}, "value")
	case *ast.CallExpr:
		a.call(v, L)
	}
}

// how: "call" (run on the spot or deferred: the caller's goroutine), "go" (its own goroutine), "value" (stored or passed on)
func (a *analyzer) funcLit(f *ast.FuncLit, L lockset, how string) {
	saveFn, saveFresh := a.curFn, a.fresh
	a.litN++
	a.curFn = fmt.Sprintf("%s$%d", saveFn, a.litN)
	switch how {
	case "call":
		a.edge(saveFn, a.curFn)
	case "go":
		a.goRoots[a.curFn] = append(a.goRoots[a.curFn], false)
	default:
		a.escaped[a.curFn] = true
	}
	// a closure sees the fresh objects of its parent only if it runs before publication: assume it does not
	a.fresh = map[string]bool{}
	a.stmts(f.Body.List, L.clone())
	a.curFn, a.fresh = saveFn, saveFresh
}

func (a *analyzer) call(c *ast.CallExpr, L lockset) {
	if _, _, ok := a.lockOp(c); ok {
		return // handled at statement level
	}
	if id, ok := c.Fun.(*ast.Ident); ok {
		switch id.Name {
		case "copy":
			if len(c.Args) == 2 {
				a.expr(c.Args[0], L, true)
				a.expr(c.Args[1], L, false)
				return
			}
		case "delete", "clear":
			if len(c.Args) >= 1 {
				a.expr(c.Args[0], L, true)
				for _, x := range c.Args[1:] {
					a.expr(x, L, false)
				}
				return
			}
		}
	}
	if se, ok := c.Fun.(*ast.SelectorExpr); ok {
		if id, ok := se.X.(*ast.Ident); ok {
			if pn, ok := a.info.Uses[id].(*types.PkgName); ok && pn.Imported().Path() == "sync/atomic" {
				// atomic.AddUint64(&x.f, ...): an atomic access to the variable, not subject to the lock discipline
				for _, x := range c.Args {
					if u, ok := x.(*ast.UnaryExpr); ok && u.Op == token.AND {
						switch t := u.X.(type) {
						case *ast.SelectorExpr:
							a.expr(t.X, L, false)
						case *ast.Ident:
						default:
							a.expr(u.X, L, false)
						}
						continue
					}
					a.expr(x, L, false)
				}
				return
			}
		}
	}
	if se, ok := c.Fun.(*ast.SelectorExpr); ok {
		if id, ok := se.X.(*ast.Ident); ok {
			if v, ok := a.info.Uses[id].(*types.Var); ok && v.Pkg() == a.pkg && v.Parent() == a.pkg.Scope() {
				t := v.Type()
				if p, ok := t.(*types.Pointer); ok {
					t = p.Elem()
				}
				if n, ok := t.(*types.Named); ok && n.Obj().Pkg() != nil && n.Obj().Name() == "Rand" &&
					strings.HasPrefix(n.Obj().Pkg().Path(), "math/rand") {
					a.recordGlobal(id, L, true) // a *rand.Rand is not safe for concurrent use: every method call mutates it
				}
			}
		}
	}
	a.noteCall(c, L)
	switch f := c.Fun.(type) {
	case *ast.SelectorExpr:
		// x.f.m(): reads x.f; x.m(): reads x
		if sel, ok := a.info.Selections[f]; ok && sel.Kind() == types.MethodVal {
			a.expr(f.X, L, false)
		} else {
			a.expr(f, L, false)
		}
	case *ast.FuncLit:
		a.funcLit(f, L, "call") // called on the spot: same locks
	default:
		a.expr(c.Fun, L, false)
	}
	for _, x := range c.Args {
		a.expr(x, L, false)
	}
}

func terminates(list []ast.Stmt) bool {
	if len(list) == 0 {
		return false
	}
	switch s := list[len(list)-1].(type) {
	case *ast.ReturnStmt:
		return true
	case *ast.BranchStmt:
		return s.Tok == token.BREAK || s.Tok == token.CONTINUE || s.Tok == token.GOTO
	case *ast.ExprStmt:
		if c, ok := s.X.(*ast.CallExpr); ok {
			if id, ok := c.Fun.(*ast.Ident); ok && id.Name == "panic" {
				return true
			}
		}
	case *ast.BlockStmt:
		return terminates(s.List)
	}
	return false
}

func (a *analyzer) noteFresh(lhs []ast.Expr, rhs []ast.Expr) {
	for i, r := range rhs {
		if i >= len(lhs) {
			break
		}
		id, ok := lhs[i].(*ast.Ident)
		if !ok {
			continue
		}
		x := r
		if u, ok := x.(*ast.UnaryExpr); ok && u.Op == token.AND {
			x = u.X
		}
		switch v := x.(type) {
		case *ast.CompositeLit:
			a.fresh[id.Name] = true
		case *ast.CallExpr:
			if f, ok := v.Fun.(*ast.Ident); ok && f.Name == "new" {
				a.fresh[id.Name] = true
			}
		}
	}
}

// publishAll: after a go statement the objects created in this function are no longer private to it
func (a *analyzer) publishAll() {
	for k := range a.fresh {
		delete(a.fresh, k)
	}
}

// noteAlias: x := recv.field (or a slice of it) where the field is a slice, map or pointer: x aliases the field's contents
func (a *analyzer) noteAlias(lhs []ast.Expr, rhs []ast.Expr) {
	if len(lhs) != len(rhs) {
		return
	}
	for i, r := range rhs {
		id, ok := lhs[i].(*ast.Ident)
		if !ok || id.Name == "_" {
			continue
		}
		delete(a.alias, id.Name)
		x := r
		if sl, ok := x.(*ast.SliceExpr); ok {
			x = sl.X
		}
		se, ok := x.(*ast.SelectorExpr)
		if !ok {
			continue
		}
		sel, ok := a.info.Selections[se]
		if !ok || sel.Kind() != types.FieldVal {
			continue
		}
		switch sel.Type().Underlying().(type) {
		case *types.Slice, *types.Map:
			a.alias[id.Name] = se
		}
	}
}

func (a *analyzer) stmts(list []ast.Stmt, L lockset) lockset {
	for _, s := range list {
		L = a.stmt(s, L)
	}
	return L
}

func (a *analyzer) branches(L lockset, bodies [][]ast.Stmt, hasDefault bool) lockset {
	var out lockset
	first := true
	for _, b := range bodies {
		end := a.stmts(b, L.clone())
		if terminates(b) {
			continue
		}
		if first {
			out, first = end, false
		} else {
			out = intersect(out, end)
		}
	}
	if !hasDefault {
		if first {
			return L
		}
		return intersect(out, L)
	}
	if first {
		return L // every branch leaves: what follows is unreachable or reached by break
	}
	return out
}

func (a *analyzer) stmt(s ast.Stmt, L lockset) lockset {
	switch v := s.(type) {
	case nil:
	case *ast.ExprStmt:
		if c, ok := v.X.(*ast.CallExpr); ok {
			if key, op, ok := a.lockOp(c); ok {
				switch op {
				case "Lock":
					L[key] = modeW
				case "RLock":
					L[key] = modeR
				case "Unlock", "RUnlock":
					delete(L, key)
				}
				return L
			}
		}
		a.expr(v.X, L, false)
	case *ast.DeferStmt:
		if _, op, ok := a.lockOp(v.Call); ok && (op == "Unlock" || op == "RUnlock") {
			return L
		}
		if f, ok := v.Call.Fun.(*ast.FuncLit); ok {
			// runs when the function returns: the locks not released by then are unknown; use those held now
			// that are released only by deferred calls - approximated by the current set
			a.funcLit(f, L, "call")
			for _, x := range v.Call.Args {
				a.expr(x, L, false)
			}
			return L
		}
		a.call(v.Call, L)
	case *ast.GoStmt:
		defer a.publishAll() // whatever this function created may now be reached by the new goroutine
		if f, ok := v.Call.Fun.(*ast.FuncLit); ok {
			a.funcLit(f, lockset{}, "go")
		} else {
			if fn := a.callee(v.Call); fn != nil {
				a.external[fn] = true
				onFresh := false
				if se, ok := v.Call.Fun.(*ast.SelectorExpr); ok {
					root := exprString(se.X)
					if i := strings.IndexAny(root, ".["); i >= 0 {
						root = root[:i]
					}
					onFresh = a.fresh[root]
				}
				a.goRoots[a.fnName[fn]] = append(a.goRoots[a.fnName[fn]], onFresh)
			}
			switch f := v.Call.Fun.(type) {
			case *ast.SelectorExpr:
				a.expr(f.X, L, false)
			}
		}
		for _, x := range v.Call.Args {
			a.expr(x, L, false)
		}
	case *ast.AssignStmt:
		for _, r := range v.Rhs {
			a.expr(r, L, false)
		}
		a.noteFresh(v.Lhs, v.Rhs)
		a.noteAlias(v.Lhs, v.Rhs)
		for _, l := range v.Lhs {
			if v.Tok != token.ASSIGN && v.Tok != token.DEFINE {
				a.expr(l, L, false) // op-assignment reads too
			}
			a.expr(l, L, true)
		}
	case *ast.IncDecStmt:
		a.expr(v.X, L, false)
		a.expr(v.X, L, true)
	case *ast.SendStmt:
		a.expr(v.Chan, L, false)
		a.expr(v.Value, L, false)
	case *ast.ReturnStmt:
		for _, r := range v.Results {
			a.expr(r, L, false)
		}
	case *ast.BlockStmt:
		return a.stmts(v.List, L)
	case *ast.LabeledStmt:
		return a.stmt(v.Stmt, L)
	case *ast.DeclStmt:
		if gd, ok := v.Decl.(*ast.GenDecl); ok {
			for _, sp := range gd.Specs {
				if vs, ok := sp.(*ast.ValueSpec); ok {
					for _, x := range vs.Values {
						a.expr(x, L, false)
					}
					var lhs []ast.Expr
					for _, n := range vs.Names {
						lhs = append(lhs, n)
					}
					a.noteFresh(lhs, vs.Values)
				}
			}
		}
	case *ast.IfStmt:
		L = a.stmt(v.Init, L)
		a.expr(v.Cond, L, false)
		bodies := [][]ast.Stmt{v.Body.List}
		hasElse := v.Else != nil
		if hasElse {
			switch e := v.Else.(type) {
			case *ast.BlockStmt:
				bodies = append(bodies, e.List)
			default:
				bodies = append(bodies, []ast.Stmt{e})
			}
		}
		return a.branches(L, bodies, hasElse)
	case *ast.ForStmt:
		L = a.stmt(v.Init, L)
		a.expr(v.Cond, L, false)
		end := a.stmts(v.Body.List, L.clone())
		a.stmt(v.Post, end)
		return L
	case *ast.RangeStmt:
		a.expr(v.X, L, false)
		a.stmts(v.Body.List, L.clone())
		return L
	case *ast.SwitchStmt:
		L = a.stmt(v.Init, L)
		a.expr(v.Tag, L, false)
		var bodies [][]ast.Stmt
		hasDefault := false
		for _, c := range v.Body.List {
			cc := c.(*ast.CaseClause) //nolint:forcetypeassert
			for _, x := range cc.List {
				a.expr(x, L, false)
			}
			if cc.List == nil {
				hasDefault = true
			}
			bodies = append(bodies, cc.Body)
		}
		return a.branches(L, bodies, hasDefault)
	case *ast.TypeSwitchStmt:
		L = a.stmt(v.Init, L)
		L = a.stmt(v.Assign, L)
		var bodies [][]ast.Stmt
		hasDefault := false
		for _, c := range v.Body.List {
			cc := c.(*ast.CaseClause) //nolint:forcetypeassert
			if cc.List == nil {
				hasDefault = true
			}
			bodies = append(bodies, cc.Body)
		}
		return a.branches(L, bodies, hasDefault)
	case *ast.SelectStmt:
		var bodies [][]ast.Stmt
		for _, c := range v.Body.List {
			cc := c.(*ast.CommClause) //nolint:forcetypeassert
			L2 := L.clone()
			L2 = a.stmt(cc.Comm, L2)
			bodies = append(bodies, cc.Body)
		}
		return a.branches(L, bodies, true)
	}
	return L
}

func (a *analyzer) analyzeFuncs(files []*ast.File) {
	a.calls = map[string]map[string]bool{}
	a.goRoots = map[string][]bool{}
	a.escaped = map[string]bool{}
	for _, f := range files {
		for _, d := range f.Decls {
			fd, ok := d.(*ast.FuncDecl)
			if !ok || fd.Body == nil {
				continue
			}
			fn, _ := a.info.Defs[fd.Name].(*types.Func)
			name := fd.Name.Name
			if fd.Recv != nil && len(fd.Recv.List) > 0 {
				name = exprString(fd.Recv.List[0].Type) + "." + name
			}
			a.curFn = name
			a.litN = 0
			a.fresh = map[string]bool{}
			a.alias = map[string]*ast.SelectorExpr{}
			a.varTypes = map[string]string{}
			if fd.Recv != nil {
				for _, f := range fd.Recv.List {
					for _, id := range f.Names {
						a.noteVar(id)
					}
				}
			}
			for _, f := range fd.Type.Params.List {
				for _, id := range f.Names {
					a.noteVar(id)
				}
			}
			L := lockset{}
			if e := a.entry[fn]; e != nil {
				L = e.clone()
			}
			a.stmts(fd.Body.List, L)
		}
	}
}

func coqString(s string) string { return "\"" + strings.ReplaceAll(s, "\"", "'") + "\"" }

func main() {
	out := flag.String("out", "", "Coq file to write")
	repo := flag.String("repo", "/repo", "repository root")
	messages := flag.String("messages", "", "comma separated struct types whose objects are messages handed from goroutine to goroutine (not audited)")
	config := flag.String("config", "", "comma separated functions that run only while a topology / object is being set up, before it is used concurrently")
	flag.Parse()
	var all []access
	for _, dir := range flag.Args() {
		fset := token.NewFileSet()
		pkgs, err := parser.ParseDir(fset, filepath.Join(*repo, dir), func(fi os.FileInfo) bool {
			return !strings.HasSuffix(fi.Name(), "_test.go")
		}, parser.ParseComments)
		if err != nil {
			fmt.Fprintln(os.Stderr, err)
			os.Exit(1)
		}
		for _, p := range pkgs {
			var names []string
			for fn := range p.Files {
				names = append(names, fn)
			}
			sort.Strings(names)
			var kept []*ast.File
			for _, fn := range names {
				if ok, _ := build.Default.MatchFile(filepath.Dir(fn), filepath.Base(fn)); ok {
					kept = append(kept, p.Files[fn])
				}
			}
			info := &types.Info{Types: map[ast.Expr]types.TypeAndValue{}, Selections: map[*ast.SelectorExpr]*types.Selection{},
				Uses: map[*ast.Ident]types.Object{}, Defs: map[*ast.Ident]types.Object{}}
			conf := types.Config{Importer: importer.ForCompiler(fset, "source", nil), Error: func(err error) { fmt.Fprintln(os.Stderr, "type error:", err) }}
			tp, err := conf.Check(dir, fset, kept, info)
			if err != nil {
				fmt.Fprintln(os.Stderr, "type check failed for", dir)
				os.Exit(1)
			}
			a := &analyzer{fset: fset, pkg: tp, info: info, pkgName: p.Name, entry: map[*types.Func]lockset{}, external: map[*types.Func]bool{},
				sites: map[*types.Func][]lockset{}, recvName: map[*types.Func]string{}, ifaceMethods: map[string]bool{}, fnName: map[*types.Func]string{}}
			if *config != "" {
				a.config = strings.Split(*config, ",")
				a.messages = map[string]bool{}
				for _, m := range strings.Split(*messages, ",") {
					a.messages[m] = true
				}
			}
			// receiver names, interface method names
			var funcs []*types.Func
			for _, f := range kept {
				for _, d := range f.Decls {
					switch v := d.(type) {
					case *ast.FuncDecl:
						fn, _ := info.Defs[v.Name].(*types.Func)
						if fn == nil {
							continue
						}
						funcs = append(funcs, fn)
						a.fnName[fn] = v.Name.Name
						if v.Recv != nil && len(v.Recv.List) > 0 {
							a.fnName[fn] = exprString(v.Recv.List[0].Type) + "." + v.Name.Name
							if len(v.Recv.List[0].Names) > 0 {
								a.recvName[fn] = v.Recv.List[0].Names[0].Name
							}
						}
					case *ast.GenDecl:
						for _, sp := range v.Specs {
							if ts, ok := sp.(*ast.TypeSpec); ok {
								if it, ok := ts.Type.(*ast.InterfaceType); ok {
									for _, m := range it.Methods.List {
										for _, n := range m.Names {
											a.ifaceMethods[n.Name] = true
										}
									}
								}
							}
						}
					}
				}
			}
			// fixpoint over entry lock sets
			for round := 0; round < 8; round++ {
				a.sites = map[*types.Func][]lockset{}
				a.record = false
				a.analyzeFuncs(kept)
				changed := false
				for _, fn := range funcs {
					var ne lockset
					if fn.Exported() || a.external[fn] || a.ifaceMethods[fn.Name()] || len(a.sites[fn]) == 0 {
						ne = lockset{}
					} else {
						for i, s := range a.sites[fn] {
							if i == 0 {
								ne = s.clone()
							} else {
								ne = intersect(ne, s)
							}
						}
					}
					old := a.entry[fn]
					if old == nil || len(old) != len(ne) {
						changed = true
					} else {
						for k, v := range ne {
							if old[k] != v {
								changed = true
							}
						}
					}
					a.entry[fn] = ne
				}
				if !changed {
					break
				}
			}
			a.record = true
			a.accesses = nil
			a.analyzeFuncs(kept)
			// goroutine confinement: functions that can only run in the one goroutine started (once, on the object being
			// created) for a function R hold the pseudo lock "goroutine R"
			roots := map[string]string{} // root function -> kind
			called := map[string]bool{}
			for _, cs := range a.calls {
				for c := range cs {
					called[c] = true
				}
			}
			for _, fn := range funcs {
				n := a.fnName[fn]
				if fn.Exported() || a.ifaceMethods[fn.Name()] {
					roots[n] = "api"
				} else if a.external[fn] && len(a.goRoots[n]) == 0 {
					roots[n] = "value"
				} else if !called[n] && len(a.goRoots[n]) == 0 {
					roots[n] = "api"
				}
			}
			for n := range a.escaped {
				roots[n] = "value"
			}
			for n, sitesFresh := range a.goRoots {
				kind := "go-once"
				for _, f := range sitesFresh {
					if !f {
						kind = "go"
					}
				}
				if len(sitesFresh) != 1 {
					kind = "go"
				}
				if _, other := roots[n]; other || called[n] {
					kind = "go" // also reachable otherwise
				}
				roots[n] = kind
			}
			reach := map[string]map[string]bool{} // function -> roots reaching it
			for r := range roots {
				seen := map[string]bool{r: true}
				todo := []string{r}
				for len(todo) > 0 {
					f := todo[0]
					todo = todo[1:]
					if reach[f] == nil {
						reach[f] = map[string]bool{}
					}
					reach[f][r] = true
					for c := range a.calls[f] {
						if !seen[c] {
							seen[c] = true
							todo = append(todo, c)
						}
					}
				}
			}
			for i := range a.accesses {
				rs := reach[a.accesses[i].fn]
				if len(rs) == 1 {
					for r := range rs {
						if roots[r] == "go-once" {
							a.accesses[i].held["goroutine "+r] = modeW
						}
					}
				}
			}
			all = append(all, a.accesses...)
		}
	}
	sort.SliceStable(all, func(i, j int) bool {
		if all[i].owner != all[j].owner {
			return all[i].owner < all[j].owner
		}
		if all[i].field != all[j].field {
			return all[i].field < all[j].field
		}
		return all[i].pos < all[j].pos
	})
	var b strings.Builder
	b.WriteString("(* GENERATED by tools/raceaudit from the working tree of /repo on every run of check C19; do not edit. *)\n")
	b.WriteString("From Coq Require Import String List. Import ListNotations. Open Scope string_scope.\n")
	b.WriteString("From Tx Require Import Race.Lockset.\n\n")
	b.WriteString("Definition table : list access :=\n  [")
	for i, x := range all {
		if i > 0 {
			b.WriteString(";\n   ")
		}
		var ms []string
		for m := range x.held {
			ms = append(ms, m)
		}
		sort.Strings(ms)
		var hs []string
		for _, m := range ms {
			hs = append(hs, fmt.Sprintf("(%s, %s)", coqString(m), map[int]string{modeR: "RdLocked", modeW: "Locked"}[x.held[m]]))
		}
		fmt.Fprintf(&b, "mk_access %s %s %s %s %v [%s] %v", coqString(x.owner), coqString(x.field), coqString(x.fn), coqString(x.pos),
			x.write, strings.Join(hs, "; "), x.init)
	}
	b.WriteString("].\n")
	if *out == "" {
		fmt.Print(b.String())
		return
	}
	if err := os.WriteFile(*out, []byte(b.String()), 0o644); err != nil {
		fmt.Fprintln(os.Stderr, err)
		os.Exit(1)
	}
}
