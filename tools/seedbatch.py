#!/usr/bin/env python3
"""seedbatch.py <dir with m1..mN> <name prefix, e.g. r3A>: runs tools/seedcheck.py for every change of a batch produced by a
seeding agent; the property and package are read from the first lines of demo_test.go (// package-dir: ..., // property: ...)."""
import os, re, subprocess, sys
d, prefix = sys.argv[1].rstrip("/"), sys.argv[2]
related = {"C02": ["C02", "C03"], "C03": ["C03", "C02"], "C04": ["C04", "C05"], "C05": ["C05", "C04"], "C06": ["C06", "C07"],
           "C07": ["C07", "C06"], "C11": ["C11", "C12"], "C12": ["C12", "C11"], "C08": ["C08", "C06"]}
XOR_PRE = ("sed -i 's#^//go:build.*#//go:build !arm#' utils/xor/xor_old.go && "
           "sed -i 's#^//go:build.*#//go:build ignore#' utils/xor/xor_generic.go")
for m in sorted(os.listdir(d)):
    md = os.path.join(d, m)
    demo = os.path.join(md, "demo_test.go")
    if not (m.startswith("m") and os.path.exists(demo)):
        continue
    head = open(demo).read(600)
    pk = re.search(r"//\s*package-dir:\s*(\S+)", head)
    pr = re.search(r"//\s*property:\s*(C\d\d)", head)
    if not pk or not pr:
        print(m, "missing header"); continue
    pkg, prop = pk.group(1).strip("/"), pr.group(1)
    nd = os.path.join(d, prefix + m)
    os.rename(md, nd)
    env = dict(os.environ)
    if prop == "C19":
        env["SEED_TEST_FLAGS"] = "-race"
    if prop == "C20":
        env["SEED_PRE"] = XOR_PRE
    checks = related.get(prop, [prop])
    r = subprocess.run(["python3", "/verif/tools/seedcheck.py", prop, nd, pkg] + checks, env=env, stdout=subprocess.PIPE,
                       stderr=subprocess.STDOUT, text=True)
    print((r.stdout.strip().split("\n") or ["?"])[-1], flush=True)
